import Sqljson.Model.Api
import Sqljson.Props.ParseLemmas
/-!
# Totality without panics and without `ErrInvalid`, and where returned items come from

One induction over the executor (`tot_all`, by induction on the fuel over the dispatchers
`xItem` / `xBool` / `xAny`; one lemma per Go function, "if the recursive calls satisfy the invariant,
so does this function", loops by `foldl_inv`) proves, for a class `D` of items (`Env`):

* `Keep`     the current item is restored, the out-of-fuel flag is sticky and — for a well-formed
             path (`Mode.wf`) — **the `panicked` flag is never set**;
* `ninv`     for a well-formed path without datetime methods (`Mode.ninv`) **`Err.invalid` is only ever
             returned when the model ran out of fuel**;
* `allD`     **every item of the result list is in `D`**.

The class `D` must be closed under taking elements and members and under forming `keyvalue()` triples,
contain the root, the variables, and whatever the executor computes itself (`Env`).  Instances:
`fun _ => True` (never panics: no condition on the values), `deep …` (no json.Number text that is not
a number, no datetime value: never `ErrInvalid`), `Prov.Allowed` (provenance; there `Mode.wf = false`,
i.e. the statement is about *every* tree, well formed or not).

## Where the model panics or returns `Err.invalid` (complete list, `Model/Exec.lean`)

panic (`St.panicked := true`, always together with `Err.invalid`):
 1. `executeBinaryBoolItem`   left operand nil; right operand nil for `&&` / `||`
 2. `executeUnaryBoolItem`    operand of `!`, `is unknown`, `exists` nil
 3. `execUnaryMathExpr`       operand of unary `+` / `-` nil
 4. `execBinaryMathExpr`      an operand of `+ - * / %` nil
 5. `execUnaryNode`           condition of a filter nil
 6. `execSubscript`           `from` of a subscript nil
 7. `pairStep`                the comparison callback panics:
      a. `likeRegex`          the pattern does not compile (`Ctx.regexMatch … = none`)
      b. `compareNumberItems` `compareNumeric` on a json.Number text that neither `Int64()` nor
                              `Float64()` accepts — unreachable after the `parsableNumber` guard
                              (D14), given the `strconv` law `IntTextIsFloat` (`C05.compare_never_panics`)
`Err.invalid` without a panic:
 8. `applyCompare`            an operator that is not a comparison (only called with one)
 9. `compareItems`            a datetime on the left and a non-datetime, non-null on the right (D15)
10. `executeBinaryBoolItem`   an operator that is not boolean (arithmetic, subscript, `.decimal`)
11. `executeUnaryBoolItem`    an operator that is not `! / is unknown / exists`
12. `executeBoolItem`         a node that is not binary/unary/regex, or a chained boolean operand
13. `getArrayIndex`           `getJSONInt32` on a json.Number text with a syntax error
14. `xItem`/`xBool`/`xAny`    out of fuel (together with `St.oof`; the API reports `outOfFuel`)

`WF` (below) excludes 1–6 and 10–12 syntactically, `Cfg.rx` + `Env.regex` exclude 7a, `Env.cmpPanic`
7b, `isCompareOp` at the only call site 8, `Cfg.dtm = false` + no datetime values 9, `Env.idx` 13
(`JNum.validJNum_not_syntax`: a JSON number text is never a syntax error for `ParseFloat`).

## Further sections of this file

* `namespace Sqljson.JNum` — `validJNum_float`: for a text that passes `Item.validJNum`,
  `Decimal.jnumFloat64` is a finite value or a range error (never a syntax error, NaN or ±Inf).
* `namespace Sqljson.ParseWF` — `parse_ok_WF_cfg`: every AST accepted by the parser model
  (`Parse.parse o bytes = .ok a`) satisfies `WF (cfg o) a.root`, by a partial-correctness calculus
  (`Sp`: "if no error is on record at the end, none was before and the value has its shape") over the
  sixteen grammar functions, induction on the parser's fuel.
-/

namespace Sqljson
namespace Exec
namespace Total
open Sqljson.Exec

/-! ## the syntactic class -/

/-- what a well-formed path may contain besides the shape conditions -/
structure Cfg where
  /-- the `like_regex` patterns (with flags) that may occur: those known to compile -/
  rx : List Char → Nat → Bool
  /-- the numeric literals that may occur -/
  lit : F64 → Bool
  /-- may the six datetime methods occur? -/
  dtm : Bool
  /-- may `.decimal()` occur? -/
  dec : Bool
  /-- the item methods that may occur -/
  meth : Method → Bool

/-- `&&`, `||` -/
def isConn : BinOp → Bool
  | .and | .or => true
  | _ => false

/-- `== != < > <= >=` and `starts with` -/
def isPredOp : BinOp → Bool
  | .eq | .ne | .lt | .gt | .le | .ge | .startsWith => true
  | _ => false

mutual
  /-- a node in item position, with the chain that follows it: every operand that the executor
      dereferences is present, every boolean position holds a boolean node (`WFB`) with nothing
      chained to it, every subscript is a `subscript` node with a `from` -/
  def WF (G : Cfg) : Node → Bool
    | .const _ nx => WFO G nx
    | .method m nx => G.meth m && WFO G nx
    | .str _ nx => WFO G nx
    | .var _ nx => WFO G nx
    | .key _ nx => WFO G nx
    | .numeric x nx => G.lit x && WFO G nx
    | .integer _ nx => WFO G nx
    | .any _ _ nx => WFO G nx
    | .binary op (some l) (some r) nx =>
      (if isConn op then WFB G l && l.next.isNone && WFB G r && r.next.isNone
       else if isPredOp op || isMathBinOp op then WF G l && WF G r
       else (op != .decimal || G.dec)) && WFO G nx
    | .binary op _ _ nx => !(isBoolBinOp op || isMathBinOp op) && (op != .decimal || G.dec) && WFO G nx
    | .unary .not (some x) nx => WFB G x && x.next.isNone && WFO G nx
    | .unary .isUnknown (some x) nx => WFB G x && x.next.isNone && WFO G nx
    | .unary .exists (some x) nx => WF G x && WFO G nx
    | .unary .filter (some x) nx => WFB G x && x.next.isNone && WFO G nx
    | .unary .plus (some x) nx => WF G x && WFO G nx
    | .unary .minus (some x) nx => WF G x && WFO G nx
    | .unary op _ nx => isDateTimeOp op && G.dtm && WFO G nx
    | .regex x p fl nx => WF G x && G.rx p fl && WFO G nx
    | .arrayIndex subs nx => WFSubs G subs && WFO G nx
  /-- a node in boolean position (its own `next` is not looked at) -/
  def WFB (G : Cfg) : Node → Bool
    | .binary op (some l) (some r) _ =>
      if isConn op then WFB G l && l.next.isNone && WFB G r && r.next.isNone
      else isPredOp op && WF G l && WF G r
    | .unary .not (some x) _ => WFB G x && x.next.isNone
    | .unary .isUnknown (some x) _ => WFB G x && x.next.isNone
    | .unary .exists (some x) _ => WF G x
    | .regex x p fl _ => WF G x && G.rx p fl
    | _ => false
  def WFO (G : Cfg) : Option Node → Bool
    | none => true
    | some n => WF G n
  /-- the subscripts of `[…]` -/
  def WFSubs (G : Cfg) : List Node → Bool
    | [] => true
    | .binary .subscript (some l) none _ :: rest => WF G l && WFSubs G rest
    | .binary .subscript (some l) (some r) _ :: rest => WF G l && WF G r && WFSubs G rest
    | _ :: _ => false
end

/-! ### inversion -/

theorem WFO_some {G : Cfg} {n : Node} : WFO G (some n) = WF G n := by simp [WFO]

theorem WF_binary_inv {G : Cfg} {op : BinOp} {l r nx : Option Node} (h : WF G (.binary op l r nx) = true) :
    WFO G nx = true ∧
    (isBoolBinOp op = true → WFB G (.binary op l r nx) = true) ∧
    (isMathBinOp op = true → ∃ ln rn, l = some ln ∧ r = some rn ∧ WF G ln = true ∧ WF G rn = true) ∧
    (op = .decimal → G.dec = true) := by
  cases l <;> cases r <;> cases op <;>
    simp_all [WF, WFB, isConn, isPredOp, isMathBinOp, isBoolBinOp]

theorem WFB_binary_inv {G : Cfg} {op : BinOp} {l r nx : Option Node} (h : WFB G (.binary op l r nx) = true) :
    ∃ ln rn, l = some ln ∧ r = some rn ∧
      ((op = .and ∨ op = .or) ∧ WFB G ln = true ∧ ln.next = none ∧ WFB G rn = true ∧ rn.next = none ∨
       (op = .startsWith ∨ isCompareOp op = true) ∧ WF G ln = true ∧ WF G rn = true) := by
  cases l <;> cases r <;> cases op <;> simp_all [WFB, isConn, isPredOp, isCompareOp]

theorem WF_unary_inv {G : Cfg} {op : UnOp} {x nx : Option Node} (h : WF G (.unary op x nx) = true) :
    WFO G nx = true ∧
    ((op = .not ∨ op = .isUnknown ∨ op = .exists) → WFB G (.unary op x nx) = true) ∧
    (op = .filter → ∃ cond, x = some cond ∧ WFB G cond = true ∧ cond.next = none) ∧
    ((op = .plus ∨ op = .minus) → ∃ xn, x = some xn ∧ WF G xn = true) ∧
    (isDateTimeOp op = true → G.dtm = true) := by
  cases x <;> cases op <;> simp_all [WF, WFB, isDateTimeOp]

theorem WFB_unary_inv {G : Cfg} {op : UnOp} {x nx : Option Node} (h : WFB G (.unary op x nx) = true) :
    ∃ xn, x = some xn ∧
      ((op = .not ∨ op = .isUnknown) ∧ WFB G xn = true ∧ xn.next = none ∨ op = .exists ∧ WF G xn = true) := by
  cases x <;> cases op <;> simp_all [WFB]

theorem WF_regex_inv {G : Cfg} {x : Node} {p : List Char} {fl : Nat} {nx : Option Node}
    (h : WF G (.regex x p fl nx) = true) : WFO G nx = true ∧ WFB G (.regex x p fl nx) = true := by
  simp_all [WF, WFB]

theorem WFB_regex_inv {G : Cfg} {x : Node} {p : List Char} {fl : Nat} {nx : Option Node}
    (h : WFB G (.regex x p fl nx) = true) : WF G x = true ∧ G.rx p fl = true := by
  simp_all [WFB]

/-- a node that passes `WFB` is binary, unary or a regex -/
theorem WFB_shape {G : Cfg} {n : Node} (h : WFB G n = true) :
    (∃ op l r nx, n = .binary op l r nx) ∨ (∃ op x nx, n = .unary op x nx) ∨ (∃ x p fl nx, n = .regex x p fl nx) := by
  cases n <;> simp_all [WFB]

theorem WFSubs_mem {G : Cfg} : ∀ {subs : List Node}, WFSubs G subs = true → ∀ sub ∈ subs,
    ∃ l r nx, sub = .binary .subscript (some l) r nx ∧ WF G l = true ∧ WFO G r = true
  | [], _, sub, hs => by cases hs
  | n :: rest, h, sub, hs => by
    have key : (∃ l r nx, n = .binary .subscript (some l) r nx ∧ WF G l = true ∧ WFO G r = true) ∧
        WFSubs G rest = true := by
      cases n with
      | binary op l r nx =>
        cases op <;> cases l <;> cases r <;> simp [WFSubs] at h
        · exact ⟨⟨_, _, _, rfl, h.1, rfl⟩, h.2⟩
        · exact ⟨⟨_, _, _, rfl, h.1.1, by simpa [WFO] using h.1.2⟩, h.2⟩
      | _ => simp [WFSubs] at h
    rcases List.mem_cons.mp hs with rfl | hm
    · exact key.1
    · exact WFSubs_mem key.2 sub hm

/-! ## the semantic side: modes, the class of items, the invariant -/

/-- what is concluded: `wf` — the path is well formed (`WF`), so no panic; `ninv` — additionally
    (needs `wf`) `Err.invalid` is never returned.  With `wf = false` only the statement about the
    result list remains, for every tree. -/
structure Mode where
  wf : Bool
  ninv : Bool

/-- the callbacks of `.abs() .floor() .ceiling()` belong to their methods; unary `+`/`-` are always allowed -/
def cbOK (G : Cfg) : Num.UCallback → Bool
  | .abs => G.meth .abs
  | .floor => G.meth .floor
  | .ceil => G.meth .ceiling
  | _ => true

/-- the value conversion of the conversion methods (not `.decimal()`) -/
def methConv : Method → Option (Item → Conv)
  | .number => some (convNumber none)
  | .abs => some (convNumericItem .abs)
  | .floor => some (convNumericItem .floor)
  | .ceiling => some (convNumericItem .ceil)
  | .double => some convDouble
  | .integer => some convInteger
  | .bigint => some convBigInt
  | .string => some convString
  | .boolean => some convBoolean
  | _ => none

/-- the callback of `.abs() .floor() .ceiling()` -/
def methCb : Method → Option Num.UCallback
  | .abs => some .abs
  | .floor => some .floor
  | .ceiling => some .ceil
  | _ => none

theorem cbOK_methCb {G : Cfg} {m : Method} {cb : Num.UCallback} (h : methCb m = some cb) : cbOK G cb = G.meth m := by
  cases m <;> simp [methCb] at h <;> subst h <;> rfl

/-- every item of the result list is in the class -/
def AllD (D : Item → Prop) (f : Found) : Prop := ∀ l, f = some l → ∀ x ∈ l, D x

theorem AllD.none {D : Item → Prop} : AllD D none := fun l h => by cases h
theorem AllD.nil {D : Item → Prop} : AllD D (some []) := fun l h x hx => by cases h; cases hx

theorem AllD.append {D : Item → Prop} {f : Found} (hf : AllD D f) {v : Item} (hv : D v) : AllD D (f.append v) := by
  intro l hl x hx
  cases f with
  | none => simp [Found.append] at hl
  | some l0 =>
    simp [Found.append] at hl; subst hl
    rcases List.mem_append.mp hx with h | h
    · exact hf l0 rfl x h
    · simp at h; subst h; exact hv

theorem AllD.getD {D : Item → Prop} {f : Found} (hf : AllD D f) : ∀ x ∈ f.getD [], D x := by
  cases f with
  | none => intro x hx; simp at hx
  | some l => exact hf l rfl

theorem foldl_inv {α β : Type} (P : β → Prop) (step : β → α → β) (xs : List α) (b : β)
    (h0 : P b) (hstep : ∀ b x, P b → P (step b x)) : P (xs.foldl step b) := by
  induction xs generalizing b with
  | nil => exact h0
  | cons x xs ih => exact ih _ (hstep _ _ h0)

theorem foldl_inv_mem {α β : Type} (P : β → Prop) (step : β → α → β) (xs : List α) (b : β)
    (h0 : P b) (hstep : ∀ b x, x ∈ xs → P b → P (step b x)) : P (xs.foldl step b) := by
  induction xs generalizing b with
  | nil => exact h0
  | cons x xs ih =>
    exact ih _ (hstep _ _ (List.mem_cons_self ..) h0) (fun b y hy hb => hstep b y (List.mem_cons_of_mem _ hy) hb)

theorem sliceRange_mem {xs : List Item} {a b : Int} {x : Item} (h : x ∈ sliceRange xs a b) : x ∈ xs := by
  unfold sliceRange at h
  split at h
  · cases h
  · exact List.mem_of_mem_drop (List.mem_of_mem_take h)

theorem unwrapSeq_closed {F : Item → Prop} (harr : ∀ xs, F (.arr xs) → ∀ x ∈ xs, F x) {l : List Item}
    (h : ∀ x ∈ l, F x) : ∀ x ∈ unwrapSeq l, F x := by
  induction l with
  | nil => intro x hx; simp [unwrapSeq] at hx
  | cons y ys ih =>
    have hy := h y (List.mem_cons_self ..)
    have hys := ih (fun x hx => h x (List.mem_cons_of_mem _ hx))
    intro x hx
    cases y with
    | arr xs =>
      simp only [unwrapSeq] at hx
      rcases List.mem_append.mp hx with h1 | h1
      · exact harr xs hy x h1
      · exact hys x h1
    | _ =>
      change x ∈ _ :: unwrapSeq ys at hx
      rcases List.mem_cons.mp hx with rfl | h1
      · exact hy
      · exact hys x h1

/-- the standing assumptions of the induction on the class `D` of items -/
structure Env (M : Mode) (G : Cfg) (c : Ctx) (D : Item → Prop) : Prop where
  arr : ∀ xs, D (.arr xs) → ∀ x ∈ xs, D x
  lookup : ∀ kvs k v, D (.obj kvs) → Item.lookup k kvs = some v → D v
  members : ∀ kvs, D (.obj kvs) → ∀ x ∈ members kvs, D x
  /-- the `keyvalue()` triple of a member -/
  kv : ∀ kvs id kv, D (.obj kvs) → kv ∈ kvs → D (kvObj id kv)
  null : D .null
  bool : ∀ b, D (.bool b)
  int : ∀ i, D (.int i)
  str : ∀ t, D (.str t)
  root : D c.root
  vars : ∀ name val, c.vars.bind (Item.lookup name) = some val → D val
  /-- numeric literals of the path -/
  numLit : ∀ x, (M.wf = true → G.lit x = true) → D (.flt x)
  /-- unary `+ -`, `.abs() .floor() .ceiling()` on a float and on a json.Number -/
  uflt : ∀ cb x, (M.wf = true → cbOK G cb = true) → D (.flt x) → D (.flt (Num.applyF cb x))
  ujnum : ∀ cb t v, (M.wf = true → cbOK G cb = true) → D (.jnum t) → Num.castJSONNumber t cb = some v → D v
  /-- a binary arithmetic result that passed the finiteness check -/
  math : ∀ l r op val, D l → D r → Num.mathOp l r op = .ok val → nonFiniteItem val = false → D val
  /-- the conversion methods -/
  conv : ∀ m cv, methConv m = some cv → (M.wf = true → G.meth m = true) → ∀ v out, D v → cv v = .val out → D out
  dec : (M.wf = true → G.dec = true) → ∀ l r v out, D v → convNumber (some (l, r)) v = .val out → D out
  /-- datetime values, if the datetime methods may occur -/
  dt : (M.wf = true → G.dtm = true) → ∀ d, D (.dt d)
  /-- the patterns of the path compile -/
  regex : M.wf = true → ∀ p fl, G.rx p fl = true → ∀ t, (c.regexMatch p fl t).isSome = true
  /-- comparisons never panic (`C05.compare_never_panics`) -/
  cmpPanic : M.wf = true → ∀ op l r, compareItems c op l r ≠ .panic
  /-- comparisons inside the class never return `Err.invalid` -/
  cmpInv : M.wf = true → M.ninv = true → ∀ op l r p, isCompareOp op = true → D l → D r →
    compareItems c op l r ≠ .val p (some .invalid)
  /-- a subscript value of the class is never rejected as invalid -/
  idx : M.wf = true → M.ninv = true → ∀ x, D x → Num.getJSONInt32 x ≠ .error .invalid

theorem Env.coll {M : Mode} {G : Cfg} {c : Ctx} {D : Item → Prop} (E : Env M G c D) {v : Item} (h : D v) :
    ∀ x ∈ (collection v).getD [], D x := by
  cases v with
  | arr xs => exact E.arr xs h
  | obj kvs => exact E.members kvs h
  | _ => intro x hx; simp [collection] at hx

theorem Env.predItem {M : Mode} {G : Cfg} {c : Ctx} {D : Item → Prop} (E : Env M G c D) (p : Pred) :
    D (predItem p) := by
  cases p
  · exact E.bool _
  · exact E.bool _
  · exact E.null

/-- what every executor function leaves of the state `s` it started in -/
structure Keep (M : Mode) (s t : St) : Prop where
  current : t.current = s.current
  oof : s.oof = true → t.oof = true
  pan : M.wf = true → t.panicked = s.panicked

theorem Keep.refl {M : Mode} (s : St) : Keep M s s := ⟨rfl, id, fun _ => rfl⟩

theorem Keep.trans {M : Mode} {a b c : St} (h1 : Keep M a b) (h2 : Keep M b c) : Keep M a c :=
  ⟨h2.current.trans h1.current, fun h => h2.oof (h1.oof h), fun h => (h2.pan h).trans (h1.pan h)⟩

/-- a state that differs only in context fields -/
theorem Keep.of {M : Mode} {s t : St} (h1 : t.current = s.current) (h2 : t.oof = s.oof)
    (h3 : t.panicked = s.panicked) : Keep M s t := ⟨h1, fun h => by rw [h2]; exact h, fun _ => h3⟩

/-- invariant of an executor call -/
structure Out (M : Mode) (D : Item → Prop) (s : St) (r : Res) : Prop where
  keep : Keep M s r.st
  ninv : M.wf = true → M.ninv = true → r.err = some .invalid → r.st.oof = true
  allD : AllD D r.found

/-- invariant of a predicate evaluation -/
structure OutP (M : Mode) (s : St) (p : PRes) : Prop where
  keep : Keep M s p.st
  ninv : M.wf = true → M.ninv = true → p.err = some .invalid → p.st.oof = true

section Inv
variable {M : Mode} {G : Cfg} {c : Ctx} {D : Item → Prop}

/-- the syntactic premise, present only when the mode asks for it -/
def W (M : Mode) (G : Cfg) (n : Node) : Prop := M.wf = true → WF G n = true
def WB (M : Mode) (G : Cfg) (n : Node) : Prop := M.wf = true → WFB G n = true
def WO (M : Mode) (G : Cfg) (n : Option Node) : Prop := M.wf = true → WFO G n = true

theorem WO.some {n : Node} (h : WO M G (some n)) : W M G n := fun hw => by simpa [WFO] using h hw
theorem W.opt {n : Node} (h : W M G n) : WO M G (some n) := fun hw => by simpa [WFO] using h hw
theorem WO.none : WO M G none := fun _ => rfl

def TotI (M : Mode) (G : Cfg) (D : Item → Prop) (item : ItemK) : Prop :=
  ∀ s n v f u, W M G n → D v → D s.current → AllD D f → Out M D s (item s n v f u)

def TotB (M : Mode) (G : Cfg) (D : Item → Prop) (bool : BoolK) : Prop :=
  ∀ s n v chn, WB M G n → (M.wf = true → chn = false → n.next = none) → D v → D s.current →
    OutP M s (bool s n v chn)

def TotA (M : Mode) (G : Cfg) (D : Item → Prop) (any : AnyK) : Prop :=
  ∀ s node vs f l a b i u, WO M G node → (∀ x ∈ vs, D x) → D s.current → AllD D f →
    Out M D s (any s node vs f l a b i u)

theorem Out.ret {s s1 : St} (hk : Keep M s s1) {f1 : Found} (hf : AllD D f1) (st : Status) (e : Option Err)
    (he : e ≠ some .invalid) : Out M D s ⟨s1, f1, st, e⟩ :=
  ⟨hk, fun _ _ h => absurd h he, hf⟩

theorem Out.tail {s s1 : St} {r : Res} (hk : Keep M s s1) (h : Out M D s1 r) : Out M D s r :=
  ⟨hk.trans h.keep, h.ninv, h.allD⟩

/-- a site where the Go code panics: excluded when the path is well formed -/
theorem Out.panic {s s1 : St} (hk : Keep M s s1) (habs : M.wf = true → False) {f : Found} (hf : AllD D f)
    (st : Status) (e : Option Err) : Out M D s ⟨{ s1 with panicked := true }, f, st, e⟩ :=
  ⟨⟨hk.current, hk.oof, fun h => (habs h).elim⟩, fun h => (habs h).elim, hf⟩

/-- passing on the failure of a sub-call with another result list -/
theorem Out.fail {s s1 : St} {r : Res} (hk : Keep M s s1) (h : Out M D s1 r) {f2 : Found} (hf : AllD D f2)
    (st : Status) : Out M D s ⟨r.st, f2, st, r.err⟩ :=
  ⟨hk.trans h.keep, h.ninv, hf⟩

/-- a deferred restore of context fields -/
theorem Out.frame {s : St} {r : Res} (g : St → St)
    (hg : ∀ st, (g st).current = st.current ∧ (g st).oof = st.oof ∧ (g st).panicked = st.panicked)
    (h : Out M D s r) : Out M D s { r with st := g r.st } :=
  ⟨h.keep.trans (Keep.of (hg _).1 (hg _).2.1 (hg _).2.2), fun a b e => by
    show (g r.st).oof = true
    rw [(hg _).2.1]; exact h.ninv a b e, h.allD⟩

theorem OutP.ret {s s1 : St} (hk : Keep M s s1) (p : Pred) (e : Option Err) (he : e ≠ some .invalid) :
    OutP M s ⟨s1, p, e⟩ := ⟨hk, fun _ _ h => absurd h he⟩

theorem OutP.tail {s s1 : St} {p : PRes} (hk : Keep M s s1) (h : OutP M s1 p) : OutP M s p :=
  ⟨hk.trans h.keep, h.ninv⟩

theorem OutP.panic {s s1 : St} (hk : Keep M s s1) (habs : M.wf = true → False) (p : Pred) (e : Option Err) :
    OutP M s ⟨{ s1 with panicked := true }, p, e⟩ :=
  ⟨⟨hk.current, hk.oof, fun h => (habs h).elim⟩, fun h => (habs h).elim⟩

/-- an `Err.invalid` site that is not a panic: excluded when the path is well formed -/
theorem OutP.invalid {s s1 : St} (hk : Keep M s s1) (habs : M.wf = true → False) (p : Pred) (e : Option Err) :
    OutP M s ⟨s1, p, e⟩ := ⟨hk, fun h => (habs h).elim⟩

/-- a failed operand evaluation is the predicate's outcome -/
theorem OutP.ofOut {s s1 : St} {r : Res} (hk : Keep M s s1) (h : Out M D s1 r) (p : Pred) :
    OutP M s ⟨r.st, p, r.err⟩ := ⟨hk.trans h.keep, h.ninv⟩

theorem returnVerboseError_out {s s1 : St} (hk : Keep M s s1) {f : Found} (hf : AllD D f) :
    Out M D s (returnVerboseError s1 f) := by
  unfold returnVerboseError
  split
  · exact Out.ret hk hf _ _ (by simp)
  · exact Out.ret hk hf _ _ (by simp)

theorem returnError_out {s s1 : St} (hk : Keep M s s1) {f : Found} (hf : AllD D f) (e : Err)
    (he : M.wf = true → M.ninv = true → e = .invalid → s1.oof = true) : Out M D s (returnError s1 f e) := by
  unfold returnError
  split
  · exact ⟨hk, fun a b h => he a b (by simpa using h), hf⟩
  · exact Out.ret hk hf _ _ (by simp)

theorem structural_out {s s1 : St} (hk : Keep M s s1) {f : Found} (hf : AllD D f) :
    Out M D s (structural s1 f) := by
  unfold structural
  split
  · exact returnVerboseError_out hk hf
  · exact Out.ret hk hf _ _ (by simp)

/-! ## chain steps -/

theorem executeNextItem_out (_E : Env M G c D) {item : ItemK} (hI : TotI M G D item) (s : St) (nx : Option Node)
    (v : Item) (f : Found) (hn : WO M G nx) (hv : D v) (hcur : D s.current) (hf : AllD D f) :
    Out M D s (executeNextItem c item s nx v f) := by
  unfold executeNextItem
  split
  · exact hI _ _ _ _ _ hn.some hv hcur hf
  · exact Out.ret (Keep.refl s) (hf.append hv) _ _ (by simp)

/-- the rest of the chain, entered from a state reached inside a function started at `s` -/
theorem next_from (E : Env M G c D) {item : ItemK} (hI : TotI M G D item) {s s1 : St} (hk : Keep M s s1)
    (nx : Option Node) (v : Item) (f : Found) (hn : WO M G nx) (hv : D v) (hcur : D s.current)
    (hf : AllD D f) : Out M D s (executeNextItem c item s1 nx v f) :=
  Out.tail hk (executeNextItem_out E hI s1 nx v f hn hv (by rw [hk.current]; exact hcur) hf)

theorem item_from {item : ItemK} (hI : TotI M G D item) {s s1 : St} (hk : Keep M s s1)
    (n : Node) (v : Item) (f : Found) (u : Bool) (hn : W M G n) (hv : D v) (hcur : D s.current)
    (hf : AllD D f) : Out M D s (item s1 n v f u) :=
  Out.tail hk (hI s1 n v f u hn hv (by rw [hk.current]; exact hcur) hf)

theorem any_from {any : AnyK} (hA : TotA M G D any) {s s1 : St} (hk : Keep M s s1)
    (node : Option Node) (vs : List Item) (f : Found) (l a b : Nat) (i u : Bool)
    (hn : WO M G node) (hvs : ∀ x ∈ vs, D x) (hcur : D s.current) (hf : AllD D f) :
    Out M D s (any s1 node vs f l a b i u) :=
  Out.tail hk (hA s1 node vs f l a b i u hn hvs (by rw [hk.current]; exact hcur) hf)

theorem withBaseObject_out (s : St) (a : Nat) (i : Int) (k : St → Res)
    (h : Out M D { s with baseAddr := a, baseId := i } (k { s with baseAddr := a, baseId := i })) :
    Out M D s (withBaseObject s a i k) := by
  unfold withBaseObject
  have hk : Keep M s { s with baseAddr := a, baseId := i } := Keep.of rfl rfl rfl
  exact Out.frame (fun st => { st with baseAddr := s.baseAddr, baseId := s.baseId }) (fun _ => ⟨rfl, rfl, rfl⟩)
    (Out.tail hk h)

theorem execLiteral_out (E : Env M G c D) {item : ItemK} (hI : TotI M G D item) (s : St) (nx : Option Node)
    (lit : Item) (f : Found) (hn : WO M G nx) (hlit : D lit) (hcur : D s.current) (hf : AllD D f) :
    Out M D s (execLiteral c item s nx lit f) := by
  unfold execLiteral
  split
  · exact Out.ret (Keep.refl s) hf _ _ (by simp)
  · exact next_from E hI (Keep.refl s) nx lit f hn hlit hcur hf

theorem execVariable_out (E : Env M G c D) {item : ItemK} (hI : TotI M G D item) (s : St) (name : List Char)
    (nx : Option Node) (f : Found) (hn : WO M G nx) (hcur : D s.current) (hf : AllD D f) :
    Out M D s (execVariable c item s name nx f) := by
  unfold execVariable
  split
  · rename_i val hval
    refine withBaseObject_out s _ _ _ ?_
    exact next_from E hI (Keep.refl _) nx val f hn (E.vars name val hval) hcur hf
  · exact Out.ret (Keep.refl s) hf _ _ (by simp)

theorem execKeyNode_out (E : Env M G c D) {item : ItemK} {any : AnyK} (hI : TotI M G D item) (hA : TotA M G D any)
    (s : St) (n : Node) (key : List Char) (nx : Option Node) (v : Item) (f : Found) (unwrap : Bool)
    (hself : W M G n) (hn : WO M G nx) (hv : D v) (hcur : D s.current) (hf : AllD D f) :
    Out M D s (execKeyNode c item any s n key nx v f unwrap) := by
  unfold execKeyNode
  split
  · rename_i kvs
    split
    · rename_i val hval
      exact next_from E hI (Keep.refl s) nx val f hn (E.lookup kvs key val hv hval) hcur hf
    · split
      · split
        · exact Out.ret (Keep.refl s) hf _ _ (by simp)
        · exact Out.ret (Keep.refl s) hf _ _ (by simp)
      · exact Out.ret (Keep.refl s) hf _ _ (by simp)
  · rename_i xs
    split
    · exact any_from hA (Keep.refl s) (some n) xs f 1 1 1 false false hself.opt (E.arr xs hv) hcur hf
    · exact structural_out (Keep.refl s) hf
  · exact structural_out (Keep.refl s) hf

theorem unwrapTargetArray_out (E : Env M G c D) {any : AnyK} (hA : TotA M G D any) (s : St) (n : Node)
    (xs : List Item) (f : Found) (hself : W M G n) (hv : D (.arr xs)) (hcur : D s.current) (hf : AllD D f) :
    Out M D s (unwrapTargetArray any s n xs f) := by
  unfold unwrapTargetArray
  exact any_from hA (Keep.refl s) (some n) xs f 1 1 1 false false hself.opt (E.arr xs hv) hcur hf

theorem execAnyKey_out (E : Env M G c D) {any : AnyK} (hA : TotA M G D any) (s : St)
    (n : Node) (nx : Option Node) (v : Item) (f : Found) (unwrap : Bool)
    (hself : W M G n) (hn : WO M G nx) (hv : D v) (hcur : D s.current) (hf : AllD D f) :
    Out M D s (execAnyKey c any s n nx v f unwrap) := by
  unfold execAnyKey
  split
  · rename_i kvs
    exact any_from hA (Keep.refl s) nx (members kvs) f 1 1 1 false c.lax hn (E.members kvs hv) hcur hf
  · rename_i xs
    split
    · exact unwrapTargetArray_out E hA s n xs f hself hv hcur hf
    · exact structural_out (Keep.refl s) hf
  · exact structural_out (Keep.refl s) hf

theorem execAnyArray_out (E : Env M G c D) {item : ItemK} {any : AnyK} (hI : TotI M G D item) (hA : TotA M G D any)
    (s : St) (nx : Option Node) (v : Item) (f : Found) (hn : WO M G nx)
    (hv : D v) (hcur : D s.current) (hf : AllD D f) :
    Out M D s (execAnyArray c item any s nx v f) := by
  unfold execAnyArray
  split
  · rename_i xs
    exact any_from hA (Keep.refl s) nx xs f 1 1 1 false c.lax hn (E.arr xs hv) hcur hf
  · split
    · exact next_from E hI (Keep.refl s) nx v f hn hv hcur hf
    · exact structural_out (Keep.refl s) hf

theorem execLastConst_out (E : Env M G c D) {item : ItemK} (hI : TotI M G D item) (s : St)
    (nx : Option Node) (f : Found) (hn : WO M G nx) (hcur : D s.current) (hf : AllD D f) :
    Out M D s (execLastConst c item s nx f) := by
  unfold execLastConst
  split
  · exact Out.ret (Keep.refl s) hf _ _ (by simp)
  · split
    · exact Out.ret (Keep.refl s) hf _ _ (by simp)
    · exact next_from E hI (Keep.refl s) nx _ f hn (E.int _) hcur hf

theorem execConstNode_out (E : Env M G c D) {item : ItemK} {any : AnyK} (hI : TotI M G D item) (hA : TotA M G D any)
    (s : St) (n : Node) (k : Const) (nx : Option Node) (v : Item) (f : Found) (unwrap : Bool)
    (hself : W M G n) (hn : WO M G nx) (hv : D v) (hcur : D s.current) (hf : AllD D f) :
    Out M D s (execConstNode c item any s n k nx v f unwrap) := by
  unfold execConstNode
  cases k <;> simp only
  · refine withBaseObject_out s _ _ _ ?_
    exact next_from E hI (Keep.refl _) nx c.root f hn E.root hcur hf
  · exact next_from E hI (Keep.refl s) nx s.current f hn hcur hcur hf
  · exact execLastConst_out E hI _ _ _ hn hcur hf
  · exact execAnyArray_out E hI hA _ _ _ _ hn hv hcur hf
  · exact execAnyKey_out E hA _ _ _ _ _ _ hself hn hv hcur hf
  · exact execLiteral_out E hI _ _ _ _ hn (E.bool _) hcur hf
  · exact execLiteral_out E hI _ _ _ _ hn (E.bool _) hcur hf
  · exact execLiteral_out E hI _ _ _ _ hn E.null hcur hf

/-! ## operand evaluation -/

theorem optUnwrapResult_out (E : Env M G c D) {item : ItemK} (hI : TotI M G D item) (s : St) (n : Node) (v : Item)
    (unwrap : Bool) (l : List Item) (hn : W M G n) (hv : D v) (hcur : D s.current) (hl : ∀ x ∈ l, D x) :
    Out M D s (optUnwrapResult c item s n v unwrap l) := by
  unfold optUnwrapResult
  have h := hI s n v (some []) c.lax hn hv hcur AllD.nil
  have hfl : AllD D (some l) := fun l' hl' => by cases hl'; exact hl
  split
  · unfold executeItem
    dsimp only
    split
    · exact Out.fail (Keep.refl s) h hfl _
    · refine ⟨h.keep, fun _ _ he => by simp at he, ?_⟩
      intro l' hl' x hx
      simp at hl'; subst hl'
      rcases List.mem_append.mp hx with h1 | h1
      · exact hl x h1
      · exact unwrapSeq_closed E.arr h.allD.getD x h1
  · exact hI s n v (some l) c.lax hn hv hcur hfl

theorem optUnwrapResultSilent_out (E : Env M G c D) {item : ItemK} (hI : TotI M G D item) (s : St) (n : Node)
    (v : Item) (unwrap : Bool) (f : Found) (hn : W M G n) (hv : D v) (hcur : D s.current) (hf : AllD D f) :
    Out M D s (optUnwrapResultSilent c item s n v unwrap f) := by
  unfold optUnwrapResultSilent
  have key : ∀ r : Res, Out M D { s with verbose := false } r →
      Out M D s { r with st := { r.st with verbose := s.verbose } } := fun r h =>
    have hk : Keep M s { s with verbose := false } := Keep.of rfl rfl rfl
    Out.frame (fun st => { st with verbose := s.verbose }) (fun _ => ⟨rfl, rfl, rfl⟩) (Out.tail hk h)
  cases f with
  | some l => exact key _ (optUnwrapResult_out E hI _ n v unwrap l hn hv hcur (hf l rfl))
  | none => exact key _ (hI _ n v none c.lax hn hv hcur AllD.none)

/-! ## predicates -/

/-- what is needed of a predicate callback on the operand sequences -/
def CbT (M : Mode) (cb : Item → Item → CbOut) (ls rs : List Item) : Prop :=
  ∀ l ∈ ls, ∀ r ∈ rs, (M.wf = true → cb l r ≠ .panic) ∧
    (M.wf = true → M.ninv = true → ∀ p, cb l r ≠ .val p (some .invalid))

/-- what the pair loop can return early -/
def DoneT (M : Mode) (d : Option (Pred × Option Err × Bool)) : Prop :=
  ∀ p e k, d = some (p, e, k) → (M.wf = true → k = false) ∧ (M.wf = true → M.ninv = true → e ≠ some .invalid)

theorem pairStep_done (strict : Bool) (cb : Item → Item → CbOut) (acc : PairAcc) (l r : Item)
    (hcb : (M.wf = true → cb l r ≠ .panic) ∧ (M.wf = true → M.ninv = true → ∀ p, cb l r ≠ .val p (some .invalid)))
    (h : DoneT M acc.done) : DoneT M (pairStep strict cb acc l r).done := by
  unfold pairStep
  split
  · exact h
  · split
    · rename_i hp
      intro p e k hd; simp at hd; obtain ⟨rfl, rfl, rfl⟩ := hd
      exact ⟨fun hw => absurd hp (hcb.1 hw), fun hw => absurd hp (hcb.1 hw)⟩
    · rename_i p e heq
      split
      · rename_i e0
        intro p' e' k hd; simp at hd; obtain ⟨rfl, rfl, rfl⟩ := hd
        refine ⟨fun _ => rfl, fun hw hn he => ?_⟩
        simp at he; subst he
        exact hcb.2 hw hn p heq
      · split
        · split
          · intro p' e' k hd; simp at hd; obtain ⟨rfl, rfl, rfl⟩ := hd; simp
          · exact h
        · split
          · intro p' e' k hd; simp at hd; obtain ⟨rfl, rfl, rfl⟩ := hd; simp
          · exact h
        · exact h

theorem pairLoop_done (strict : Bool) (cb : Item → Item → CbOut) (ls rs : List Item) (hcb : CbT M cb ls rs) :
    DoneT M (pairLoop strict cb ls rs).done := by
  unfold pairLoop
  refine foldl_inv_mem (fun acc : PairAcc => DoneT M acc.done) _ _ _ ?_ ?_
  · intro p e k h; simp at h
  · intro acc l hl hacc
    refine foldl_inv_mem (fun acc : PairAcc => DoneT M acc.done) _ _ _ hacc ?_
    intro acc' r hr h'
    exact pairStep_done strict cb acc' l r (hcb l hl r hr) h'

theorem predicateTail_out {s s1 : St} (hk : Keep M s s1) (cb : Item → Item → CbOut) (ls rs : List Item)
    (hcb : CbT M cb ls rs) : OutP M s (predicateTail c s1 cb ls rs) := by
  unfold predicateTail
  have hd := pairLoop_done (M := M) (!c.lax) cb ls rs hcb
  try dsimp only
  split
  · rename_i p e pk hdone
    have := hd p e pk hdone
    refine ⟨⟨hk.current, hk.oof, fun hw => ?_⟩, fun hw hn he => absurd he (this.2 hw hn)⟩
    show (s1.panicked || pk) = s.panicked
    rw [this.1 hw, Bool.or_false]; exact hk.pan hw
  · split
    · exact OutP.ret hk _ _ (by simp)
    · split
      · exact OutP.ret hk _ _ (by simp)
      · exact OutP.ret hk _ _ (by simp)

theorem executePredicate_out (E : Env M G c D) {item : ItemK} (hI : TotI M G D item) (s : St) (left : Node)
    (right : Option Node) (v : Item) (unwrapRight : Bool) (cb : Item → Item → CbOut)
    (hl : W M G left) (hr : WO M G right) (hv : D v) (hcur : D s.current)
    (hcb : ∀ ls rs, (∀ x ∈ ls, D x) → (∀ x ∈ rs, D x) → CbT M cb ls rs) :
    OutP M s (executePredicate c item s left right v unwrapRight cb) := by
  unfold executePredicate
  have h1 := optUnwrapResultSilent_out E hI s left v true (some []) hl hv hcur AllD.nil
  try dsimp only
  split
  · exact OutP.ofOut (Keep.refl s) h1 _
  · split
    · rename_i rn
      have h2 := optUnwrapResultSilent_out E hI (optUnwrapResultSilent c item s left v true (some [])).st rn v
        unwrapRight (some []) hr.some hv (by rw [h1.keep.current]; exact hcur) AllD.nil
      split
      · exact OutP.ofOut h1.keep h2 _
      · exact predicateTail_out (h1.keep.trans h2.keep) cb _ _ (hcb _ _ h1.allD.getD h2.allD.getD)
    · refine predicateTail_out h1.keep cb _ _ (hcb _ _ h1.allD.getD ?_)
      intro x hx; simp at hx; subst hx; exact E.null

theorem startsWith_cbT (ls rs : List Item) : CbT M startsWith ls rs := by
  intro l _ r _
  unfold startsWith
  split <;> simp

theorem likeRegex_cbT (E : Env M G c D) (p : List Char) (fl : Nat) (hrx : M.wf = true → G.rx p fl = true)
    (ls rs : List Item) : CbT M (fun l _ => likeRegex c p fl l) ls rs := by
  intro l _ r _
  dsimp only
  cases l with
  | str t =>
    simp only [likeRegex]
    cases hm : c.regexMatch p fl t with
    | some b => simp
    | none =>
      refine ⟨fun hw => ?_, fun hw => ?_⟩ <;>
      · have := E.regex hw p fl (hrx hw) t
        rw [hm] at this; simp at this
  | _ => simp [likeRegex]

theorem compareItems_cbT (E : Env M G c D) (op : BinOp) (hop : isCompareOp op = true) (ls rs : List Item)
    (hls : ∀ x ∈ ls, D x) (hrs : ∀ x ∈ rs, D x) : CbT M (compareItems c op) ls rs := by
  intro l hl r hr
  exact ⟨fun hw => E.cmpPanic hw op l r, fun hw hn p => E.cmpInv hw hn op l r p hop (hls l hl) (hrs r hr)⟩

theorem executeBinaryBoolItem_out (E : Env M G c D) {item : ItemK} {bool : BoolK} (hI : TotI M G D item)
    (hB : TotB M G D bool) (s : St) (op : BinOp) (l r nx : Option Node) (v : Item)
    (hW : M.wf = true → WFB G (.binary op l r nx) = true) (hv : D v) (hcur : D s.current) :
    OutP M s (executeBinaryBoolItem c item bool s op l r v) := by
  unfold executeBinaryBoolItem
  split
  · exact OutP.panic (Keep.refl s) (fun hw => by have := WFB_binary_inv (hW hw); simp at this) _ _
  · rename_i ln
    split
    · split
      · exact OutP.panic (Keep.refl s) (fun hw => by have := WFB_binary_inv (hW hw); simp at this) _ _
      · rename_i rn
        have hinv : M.wf = true → WFB G ln = true ∧ ln.next = none ∧ WFB G rn = true ∧ rn.next = none := fun hw => by
          obtain ⟨ln', rn', h1, h2, h3⟩ := WFB_binary_inv (hW hw)
          simp at h1 h2; subst h1 h2
          rcases h3 with ⟨_, h⟩ | ⟨h, _⟩
          · exact h
          · simp [isCompareOp] at h
        have ha := hB s ln v false (fun hw => (hinv hw).1) (fun hw _ => (hinv hw).2.1) hv hcur
        try dsimp only
        split
        · exact ha
        · have hb := hB (bool s ln v false).st rn v false (fun hw => (hinv hw).2.2.1) (fun hw _ => (hinv hw).2.2.2) hv
            (by rw [ha.keep.current]; exact hcur)
          split
          · exact ⟨ha.keep.trans hb.keep, hb.ninv⟩
          · exact OutP.tail ha.keep hb
    · split
      · exact OutP.panic (Keep.refl s) (fun hw => by have := WFB_binary_inv (hW hw); simp at this) _ _
      · rename_i rn
        have hinv : M.wf = true → WFB G ln = true ∧ ln.next = none ∧ WFB G rn = true ∧ rn.next = none := fun hw => by
          obtain ⟨ln', rn', h1, h2, h3⟩ := WFB_binary_inv (hW hw)
          simp at h1 h2; subst h1 h2
          rcases h3 with ⟨_, h⟩ | ⟨h, _⟩
          · exact h
          · simp [isCompareOp] at h
        have ha := hB s ln v false (fun hw => (hinv hw).1) (fun hw _ => (hinv hw).2.1) hv hcur
        try dsimp only
        split
        · exact ha
        · rename_i hcond
          have hb := hB (bool s ln v false).st rn v false (fun hw => (hinv hw).2.2.1) (fun hw _ => (hinv hw).2.2.2) hv
            (by rw [ha.keep.current]; exact hcur)
          split
          · refine ⟨ha.keep.trans hb.keep, fun _ _ he => ?_⟩
            simp at he; simp [he] at hcond
          · exact OutP.tail ha.keep hb
    · have hinv : M.wf = true → WF G ln = true ∧ WFO G r = true := fun hw => by
        obtain ⟨ln', rn', h1, h2, h3⟩ := WFB_binary_inv (hW hw)
        simp at h1; subst h1 h2
        rcases h3 with ⟨h, _⟩ | ⟨_, h⟩
        · simp at h
        · simpa [WFO] using h
      exact executePredicate_out E hI s ln r v false startsWith (fun hw => (hinv hw).1) (fun hw => (hinv hw).2) hv hcur
        (fun ls rs _ _ => startsWith_cbT ls rs)
    · split
      · rename_i hop
        have hinv : M.wf = true → WF G ln = true ∧ WFO G r = true := fun hw => by
          obtain ⟨ln', rn', h1, h2, h3⟩ := WFB_binary_inv (hW hw)
          simp at h1; subst h1 h2
          rcases h3 with ⟨h, _⟩ | ⟨_, h⟩
          · rcases h with rfl | rfl <;> simp [isCompareOp] at hop
          · simpa [WFO] using h
        exact executePredicate_out E hI s ln r v true _ (fun hw => (hinv hw).1) (fun hw => (hinv hw).2) hv hcur
          (fun ls rs hls hrs => compareItems_cbT E _ hop ls rs hls hrs)
      · rename_i hop
        refine OutP.invalid (Keep.refl s) (fun hw => ?_) _ _
        obtain ⟨ln', rn', h1, h2, h3⟩ := WFB_binary_inv (hW hw)
        rcases h3 with ⟨h, _⟩ | ⟨h, _⟩
        · rcases h with rfl | rfl <;> simp_all
        · rcases h with rfl | h <;> simp_all

theorem executeUnaryBoolItem_out (E : Env M G c D) {item : ItemK} {bool : BoolK} (hI : TotI M G D item)
    (hB : TotB M G D bool) (s : St) (op : UnOp) (x nx : Option Node) (v : Item)
    (hW : M.wf = true → WFB G (.unary op x nx) = true) (hv : D v) (hcur : D s.current) :
    OutP M s (executeUnaryBoolItem c item bool s op x v) := by
  unfold executeUnaryBoolItem
  split
  · -- not
    rename_i xn
    have hinv : M.wf = true → WFB G xn = true ∧ xn.next = none := fun hw => by
      obtain ⟨xn', h1, h2⟩ := WFB_unary_inv (hW hw)
      simp at h1; subst h1
      rcases h2 with ⟨_, h⟩ | ⟨h, _⟩
      · exact h
      · simp at h
    have ha := hB s xn v false (fun hw => (hinv hw).1) (fun hw _ => (hinv hw).2) hv hcur
    try dsimp only
    split
    · exact ha
    · exact OutP.ret ha.keep _ _ (by simp)
    · exact OutP.ret ha.keep _ _ (by simp)
  · -- is unknown
    rename_i xn
    have hinv : M.wf = true → WFB G xn = true ∧ xn.next = none := fun hw => by
      obtain ⟨xn', h1, h2⟩ := WFB_unary_inv (hW hw)
      simp at h1; subst h1
      rcases h2 with ⟨_, h⟩ | ⟨h, _⟩
      · exact h
      · simp at h
    have ha := hB s xn v false (fun hw => (hinv hw).1) (fun hw _ => (hinv hw).2) hv hcur
    try dsimp only
    split
    · exact ⟨ha.keep, ha.ninv⟩
    · exact OutP.ret ha.keep _ _ (by simp)
  · -- exists
    rename_i xn
    have hinv : W M G xn := fun hw => by
      obtain ⟨xn', h1, h2⟩ := WFB_unary_inv (hW hw)
      simp at h1; subst h1
      rcases h2 with ⟨h, _⟩ | ⟨_, h⟩
      · simp at h
      · exact h
    split
    · have hr := optUnwrapResultSilent_out E hI s xn v false (some []) hinv hv hcur AllD.nil
      try dsimp only
      split
      · exact OutP.ofOut (Keep.refl s) hr _
      · split
        · exact OutP.ret hr.keep _ _ (by simp)
        · exact OutP.ret hr.keep _ _ (by simp)
    · have hr := optUnwrapResultSilent_out E hI s xn v false none hinv hv hcur AllD.none
      try dsimp only
      split
      · exact OutP.ofOut (Keep.refl s) hr _
      · split
        · exact OutP.ret hr.keep _ _ (by simp)
        · exact OutP.ret hr.keep _ _ (by simp)
  · exact OutP.panic (Keep.refl s) (fun hw => by have := WFB_unary_inv (hW hw); simp at this) _ _
  · exact OutP.panic (Keep.refl s) (fun hw => by have := WFB_unary_inv (hW hw); simp at this) _ _
  · exact OutP.panic (Keep.refl s) (fun hw => by have := WFB_unary_inv (hW hw); simp at this) _ _
  · rename_i h1 h2 h3 h4 h5 h6
    refine OutP.invalid (Keep.refl s) (fun hw => ?_) _ _
    obtain ⟨xn', hx, h⟩ := WFB_unary_inv (hW hw)
    subst hx
    rcases h with ⟨h | h, _⟩ | ⟨h, _⟩ <;> subst h
    · exact h1 _ rfl rfl
    · exact h2 _ rfl rfl
    · exact h3 _ rfl rfl

theorem executeBoolItem_out (E : Env M G c D) {item : ItemK} {bool : BoolK} (hI : TotI M G D item)
    (hB : TotB M G D bool) (s : St) (n : Node) (v : Item) (chn : Bool)
    (hW : WB M G n) (hch : M.wf = true → chn = false → n.next = none) (hv : D v) (hcur : D s.current) :
    OutP M s (executeBoolItem c item bool s n v chn) := by
  unfold executeBoolItem
  split
  · rename_i hc
    refine OutP.invalid (Keep.refl s) (fun hw => ?_) _ _
    have := hch hw
    cases chn <;> simp_all
  · split
    · exact executeBinaryBoolItem_out E hI hB s _ _ _ _ v hW hv hcur
    · exact executeUnaryBoolItem_out E hI hB s _ _ _ v hW hv hcur
    · rename_i x pat fl nx _
      have hinv : M.wf = true → WF G x = true ∧ G.rx pat fl = true := fun hw => WFB_regex_inv (hW hw)
      exact executePredicate_out E hI s x none v false _ (fun hw => (hinv hw).1) WO.none hv hcur
        (fun ls rs _ _ => likeRegex_cbT E pat fl (fun hw => (hinv hw).2) ls rs)
    · rename_i h1 h2 h3
      refine OutP.invalid (Keep.refl s) (fun hw => ?_) _ _
      rcases WFB_shape (hW hw) with ⟨op, l, r, nx, h⟩ | ⟨op, x, nx, h⟩ | ⟨x, p, fl, nx, h⟩
      · exact h1 _ _ _ _ h
      · exact h2 _ _ _ h
      · exact h3 _ _ _ _ h

theorem appendBoolResult_out (E : Env M G c D) {item : ItemK} (hI : TotI M G D item) (s : St) (nx : Option Node)
    (f : Found) (p : PRes) (hp : OutP M s p) (hn : WO M G nx) (hcur : D s.current) (hf : AllD D f) :
    Out M D s (appendBoolResult c item nx f p) := by
  unfold appendBoolResult
  split
  · rename_i e he
    exact ⟨hp.keep, fun a b h => hp.ninv a b (by simp at h; rw [he, h]), hf⟩
  · split
    · exact Out.ret hp.keep hf _ _ (by simp)
    · exact next_from E hI hp.keep nx _ f hn (E.predItem _) hcur hf

theorem executeNestedBoolItem_out {bool : BoolK} (hB : TotB M G D bool) (s : St) (n : Node) (v : Item)
    (hW : WB M G n) (hnx : M.wf = true → n.next = none) (hv : D v) :
    OutP M s (executeNestedBoolItem bool s n v) := by
  unfold executeNestedBoolItem
  have h := hB { s with current := v } n v false hW (fun hw _ => hnx hw) hv hv
  exact ⟨⟨rfl, h.keep.oof, h.keep.pan⟩, h.ninv⟩

/-! ## arithmetic -/

/-- loop invariant of the element loops: an early return satisfies `Out`; otherwise the loop is in a
    kept state with a result list inside the class -/
def UInv (M : Mode) (D : Item → Prop) (s : St) (a : UAcc) : Prop :=
  (∀ r, a.ret = some r → Out M D s r) ∧ (a.ret = none → Keep M s a.st ∧ AllD D a.found)

theorem unaryStep_inv (E : Env M G c D) {item : ItemK} (hI : TotI M G D item) (cb : Num.UCallback) (nx : Option Node)
    (s : St) (a : UAcc) (v : Item) (hn : WO M G nx) (hcb : M.wf = true → cbOK G cb = true) (hv : D v)
    (hcur : D s.current) (h : UInv M D s a) : UInv M D s (unaryStep c item cb nx a v) := by
  unfold unaryStep
  split
  · exact h
  · rename_i hnone
    obtain ⟨hk, hf⟩ := h.2 hnone
    have early : UInv M D s { a with ret := some ⟨a.st, a.found, .ok, none⟩ } :=
      ⟨fun r hr => by simp at hr; subst hr; exact Out.ret hk hf _ _ (by simp), fun h => by simp at h⟩
    have bad : UInv M D s { a with ret := some (returnVerboseError a.st a.found) } :=
      ⟨fun r hr => by simp at hr; subst hr; exact returnVerboseError_out hk hf, fun h => by simp at h⟩
    have go : ∀ val : Item, D val → UInv M D s
        (let r := executeNextItem c item a.st nx val a.found
         if r.status = .failed then { a with st := r.st, found := r.found, ret := some r }
         else if r.status = .ok then
           (if a.found.isNone then { a with st := r.st, found := r.found, ret := some ⟨r.st, r.found, .ok, none⟩ }
            else { a with st := r.st, found := r.found, res := .ok })
         else { a with st := r.st, found := r.found }) := by
      intro val hval
      have hg := next_from E hI hk nx val a.found hn hval hcur hf
      try dsimp only
      split
      · exact ⟨fun r hr' => by simp at hr'; subst hr'; exact hg, fun h => by simp at h⟩
      · split
        · split
          · exact ⟨fun r hr' => by simp at hr'; subst hr'; exact Out.ret hg.keep hg.allD _ _ (by simp),
                   fun h => by simp at h⟩
          · exact ⟨fun r hr' => by simp [hnone] at hr', fun _ => ⟨hg.keep, hg.allD⟩⟩
        · exact ⟨fun r hr' => by simp [hnone] at hr', fun _ => ⟨hg.keep, hg.allD⟩⟩
    try dsimp only
    split
    · split
      · exact early
      · exact go _ (E.int _)
    · split
      · exact early
      · exact go _ (E.uflt cb _ hcb hv)
    · split
      · exact early
      · split
        · rename_i val hval
          exact go _ (E.ujnum cb _ val hcb hv hval)
        · exact bad
    · split
      · exact go _ hv
      · exact bad

theorem execUnaryMathExpr_out (E : Env M G c D) {item : ItemK} (hI : TotI M G D item) (s : St)
    (operand nx : Option Node) (v : Item) (cb : Num.UCallback) (f : Found)
    (hW : M.wf = true → ∃ xn, operand = some xn ∧ WF G xn = true) (hn : WO M G nx)
    (hcb : M.wf = true → cbOK G cb = true) (hv : D v) (hcur : D s.current) (hf : AllD D f) :
    Out M D s (execUnaryMathExpr c item s operand nx v cb f) := by
  unfold execUnaryMathExpr
  split
  · exact Out.panic (Keep.refl s) (fun hw => by obtain ⟨xn, h, _⟩ := hW hw; simp at h) hf _ _
  · rename_i x
    have hx : W M G x := fun hw => by obtain ⟨xn, h, h'⟩ := hW hw; simp at h; subst h; exact h'
    have hr := optUnwrapResult_out E hI s x v true [] hx hv hcur (by simp)
    try dsimp only
    split
    · exact Out.fail (Keep.refl s) hr hf _
    · have hinv : UInv M D s (((optUnwrapResult c item s x v true []).found.getD []).foldl
          (unaryStep c item cb nx) ⟨(optUnwrapResult c item s x v true []).st, f, .notFound, none⟩) := by
        refine foldl_inv_mem (UInv M D s) _ _ _ ?_
          (fun a v' hv' h => unaryStep_inv E hI cb nx s a v' hn hcb (hr.allD.getD v' hv') hcur h)
        exact ⟨fun r hr => by simp at hr, fun _ => ⟨hr.keep, hf⟩⟩
      split
      · rename_i res hres
        exact hinv.1 res hres
      · rename_i hres
        obtain ⟨hk', hf'⟩ := hinv.2 hres
        exact Out.ret hk' hf' _ _ (by simp)

theorem execBinaryMathExpr_out (E : Env M G c D) {item : ItemK} (hI : TotI M G D item) (s : St) (op : BinOp)
    (l r nx : Option Node) (v : Item) (f : Found)
    (hW : M.wf = true → ∃ ln rn, l = some ln ∧ r = some rn ∧ WF G ln = true ∧ WF G rn = true)
    (hn : WO M G nx) (hv : D v) (hcur : D s.current) (hf : AllD D f) :
    Out M D s (execBinaryMathExpr c item s op l r nx v f) := by
  unfold execBinaryMathExpr
  split
  · rename_i ln rn
    have hl : W M G ln := fun hw => by
      obtain ⟨ln', rn', h1, h2, h3, h4⟩ := hW hw; simp at h1; subst h1; exact h3
    have hr : W M G rn := fun hw => by
      obtain ⟨ln', rn', h1, h2, h3, h4⟩ := hW hw; simp at h2; subst h2; exact h4
    have h1 := optUnwrapResult_out E hI s ln v true [] hl hv hcur (by simp)
    try dsimp only
    split
    · exact Out.fail (Keep.refl s) h1 hf _
    · split
      · rename_i lv hlv
        have h2 := optUnwrapResult_out E hI (optUnwrapResult c item s ln v true []).st rn v true [] hr hv
          (by rw [h1.keep.current]; exact hcur) (by simp)
        have hk2 := h1.keep.trans h2.keep
        try dsimp only
        split
        · exact Out.fail h1.keep h2 hf _
        · split
          · rename_i rv hrv
            have hDl : D lv := h1.allD.getD lv (by rw [hlv]; simp)
            have hDr : D rv := h2.allD.getD rv (by rw [hrv]; simp)
            split
            · exact returnVerboseError_out hk2 hf
            · rename_i val hval
              split
              · exact returnVerboseError_out hk2 hf
              · rename_i hfin
                split
                · exact Out.ret hk2 hf _ _ (by simp)
                · exact next_from E hI hk2 nx val f hn (E.math lv rv op val hDl hDr hval (by simpa using hfin)) hcur hf
          · exact returnVerboseError_out hk2 hf
      · exact returnVerboseError_out h1.keep hf
  · rename_i hnot
    refine Out.panic (Keep.refl s) (fun hw => ?_) hf _ _
    obtain ⟨ln, rn, h1, h2, _⟩ := hW hw
    exact hnot ln rn h1 h2

/-! ## item methods -/

theorem execMethodSize_out (E : Env M G c D) {item : ItemK} (hI : TotI M G D item) (s : St) (nx : Option Node)
    (v : Item) (f : Found) (hn : WO M G nx) (hcur : D s.current) (hf : AllD D f) :
    Out M D s (execMethodSize c item s nx v f) := by
  unfold execMethodSize
  split
  · exact next_from E hI (Keep.refl s) nx _ f hn (E.int _) hcur hf
  · split
    · exact structural_out (Keep.refl s) hf
    · exact next_from E hI (Keep.refl s) nx _ f hn (E.int _) hcur hf

theorem execConvMethod_out (E : Env M G c D) {item : ItemK} {any : AnyK} (hI : TotI M G D item) (hA : TotA M G D any)
    (s : St) (n : Node) (nx : Option Node) (v : Item) (f : Found) (unwrap : Bool) (conv : Item → Conv)
    (hself : W M G n) (hn : WO M G nx) (hv : D v) (hcur : D s.current) (hf : AllD D f)
    (hcv : ∀ out, conv v = .val out → D out) (hce : ∀ e, conv v = .viaReturnError e → e ≠ .invalid) :
    Out M D s (execConvMethod c item any s n nx v f unwrap conv) := by
  unfold execConvMethod
  split
  · rename_i xs
    split
    · exact unwrapTargetArray_out E hA s n xs f hself hv hcur hf
    · exact returnVerboseError_out (Keep.refl s) hf
  · split
    · rename_i out hout
      exact next_from E hI (Keep.refl s) nx out f hn (hcv out hout) hcur hf
    · exact returnVerboseError_out (Keep.refl s) hf
    · exact Out.ret (Keep.refl s) hf _ _ (by simp)
    · rename_i e he
      exact returnError_out (Keep.refl s) hf e (fun _ _ h => absurd h (hce e he))

theorem getNodeInt32_err {n : Node} {e : Err} (h : getNodeInt32 n = .error e) : e ≠ .invalid := by
  unfold getNodeInt32 at h
  split at h
  · split at h <;> cases h
    simp
  · cases h; simp

private theorem decimal_tail_err {rd : F64} {p sc : Int} {e : Err}
    (h : (if rd.isInf = true then (Except.error Err.verbose : Except Err F64) else
          if (decide ((countNonZeroDigits (Decimal.formatF rd) : Int) > 0) &&
              decide ((countNonZeroDigits (Decimal.formatF rd) : Int) > p - sc)) = true
          then Except.error Err.verbose else Except.ok rd) = .error e) : e ≠ .invalid := by
  split at h
  · cases h; simp
  · split at h <;> cases h
    simp

theorem executeDecimalMethod_err {l r : Option Node} {num : F64} {e : Err}
    (h : executeDecimalMethod l r num = .error e) : e ≠ .invalid := by
  unfold executeDecimalMethod at h
  split at h
  · cases h
  · split at h
    · rename_i e' he'
      cases h; exact getNodeInt32_err he'
    · split at h
      · cases h; simp
      · dsimp only at h
        split at h
        · rename_i e' hsc
          cases h
          split at hsc
          · cases hsc
          · split at hsc
            · rename_i e'' he''
              cases hsc; exact getNodeInt32_err he''
            · split at hsc <;> cases hsc
              simp
        · exact decimal_tail_err h

theorem convNumber_err {dec : Option (Option Node × Option Node)} {v : Item} {e : Err}
    (h : convNumber dec v = .viaReturnError e) : e ≠ .invalid := by
  unfold convNumber at h
  dsimp only at h
  split at h
  · cases h
  · cases h
  · split at h
    · cases h
    · split at h
      · cases h
      · split at h
        · cases h
        · rename_i e' he'
          cases h; exact executeDecimalMethod_err he'

theorem methConv_err {m : Method} {cv : Item → Conv} (hm : methConv m = some cv) {v : Item} {e : Err}
    (h : cv v = .viaReturnError e) : e ≠ .invalid := by
  cases m <;> simp [methConv] at hm <;> subst hm
  case number => exact convNumber_err h
  all_goals
    cases v <;>
    simp only [convNumericItem, convDouble, convBigInt, convBoolean, convInteger, int32Check, convString] at h <;>
    (repeat' split at h) <;> cases h

theorem parseDateTime_err {op : UnOp} {src : List Char} {arg : Option Node} {e : Err}
    (h : parseDateTime c op src arg = .error e) : e ≠ .invalid := by
  unfold parseDateTime at h
  dsimp only at h
  split at h
  · rename_i e' hp
    cases h
    split at hp
    · split at hp
      · split at hp
        · rename_i e'' he''
          cases hp; exact getNodeInt32_err he''
        · split at hp <;> cases hp
          simp
      · cases hp
    · cases hp
  · split at h <;> cases h
    simp

theorem executeDateTimeMethod_out (E : Env M G c D) {item : ItemK} (hI : TotI M G D item) (s : St) (op : UnOp)
    (arg nx : Option Node) (v : Item) (f : Found) (hdt : M.wf = true → G.dtm = true) (hn : WO M G nx)
    (hcur : D s.current) (hf : AllD D f) : Out M D s (executeDateTimeMethod c item s op arg nx v f) := by
  unfold executeDateTimeMethod
  split
  · dsimp only
    split
    · rename_i e he
      refine returnError_out (Keep.refl s) hf e (fun _ _ h => ?_)
      subst h
      split at he
      · cases he
      · exact absurd rfl (parseDateTime_err he)
    · split
      · rename_i e he
        refine returnError_out (Keep.refl s) hf e (fun _ _ h => ?_)
        subst h
        split at he
        · cases he
        · split at he <;> cases he
      · split
        · exact Out.ret (Keep.refl s) hf _ _ (by simp)
        · exact next_from E hI (Keep.refl s) nx _ f hn (E.dt hdt _) hcur hf
  · exact returnVerboseError_out (Keep.refl s) hf

def KVInv (M : Mode) (D : Item → Prop) (s : St) (a : KVAcc) : Prop :=
  (∀ r, a.ret = some r → Out M D s r) ∧ (a.ret = none → Keep M s a.st ∧ AllD D a.found)

theorem kvStep_inv (E : Env M G c D) {item : ItemK} (hI : TotI M G D item) (nx : Option Node) (id : Int)
    (s : St) (a : KVAcc) (kv : List Char × Item) (hn : WO M G nx) (hobj : D (kvObj id kv)) (hcur : D s.current)
    (h : KVInv M D s a) : KVInv M D s (kvStep c item nx id a kv) := by
  unfold kvStep
  split
  · exact h
  · rename_i hcond
    have hnone : a.ret = none := by cases hr : a.ret <;> simp_all
    obtain ⟨hk, hf⟩ := h.2 hnone
    try dsimp only
    have hk0 : Keep M a.st (kvEnter c a.st (kvObj id kv)) := Keep.of rfl rfl rfl
    have hr := next_from E hI (hk.trans hk0) nx (kvObj id kv) a.found hn hobj hcur hf
    split
    · exact ⟨fun r hr' => by simp at hr'; subst hr'; exact hr, fun h' => by simp at h'⟩
    · split
      · exact ⟨fun r hr' => by simp at hr', fun _ => ⟨hr.keep, hr.allD⟩⟩
      · exact ⟨fun r hr' => by simp [hnone] at hr', fun _ => ⟨hr.keep, hr.allD⟩⟩

theorem executeKeyValueMethod_out (E : Env M G c D) {item : ItemK} {any : AnyK} (hI : TotI M G D item)
    (hA : TotA M G D any) (s : St) (n : Node) (nx : Option Node) (v : Item) (f : Found) (unwrap : Bool)
    (hself : W M G n) (hn : WO M G nx) (hv : D v) (hcur : D s.current) (hf : AllD D f) :
    Out M D s (executeKeyValueMethod c item any s n nx v f unwrap) := by
  unfold executeKeyValueMethod
  split
  · rename_i xs
    split
    · exact unwrapTargetArray_out E hA s n xs f hself hv hcur hf
    · exact returnVerboseError_out (Keep.refl s) hf
  · rename_i kvs
    split
    · exact Out.ret (Keep.refl s) hf _ _ (by simp)
    · split
      · exact Out.ret (Keep.refl s) hf _ _ (by simp)
      · try dsimp only
        generalize hid : (_ : Int) + s.baseId * 10000000000 = id
        have hinv : KVInv M D s (kvs.foldl (kvStep c item nx id) ⟨s, f, .ok, none, false⟩) := by
          refine foldl_inv_mem (KVInv M D s) _ _ _ ?_
            (fun a kv hkv h => kvStep_inv E hI nx id s a kv hn (E.kv kvs id kv hv hkv) hcur h)
          exact ⟨fun r hr => by simp at hr, fun _ => ⟨Keep.refl s, hf⟩⟩
        split
        · rename_i r hr
          exact Out.frame (fun st => { st with baseAddr := s.baseAddr, baseId := s.baseId })
            (fun _ => ⟨rfl, rfl, rfl⟩) (hinv.1 r hr)
        · rename_i hr
          obtain ⟨hk', hf'⟩ := hinv.2 hr
          have hk0 : Keep M (kvs.foldl (kvStep c item nx id) ⟨s, f, .ok, none, false⟩).st
              { (kvs.foldl (kvStep c item nx id) ⟨s, f, .ok, none, false⟩).st with
                baseAddr := s.baseAddr, baseId := s.baseId } := Keep.of rfl rfl rfl
          exact Out.ret (hk'.trans hk0) hf' _ _ (by simp)
  · exact returnVerboseError_out (Keep.refl s) hf

theorem execMethodNode_out (E : Env M G c D) {item : ItemK} {any : AnyK} (hI : TotI M G D item) (hA : TotA M G D any)
    (s : St) (m : Method) (nx : Option Node) (v : Item) (f : Found) (unwrap : Bool)
    (hW : W M G (.method m nx)) (hv : D v) (hcur : D s.current) (hf : AllD D f) :
    Out M D s (execMethodNode c item any s (.method m nx) m nx v f unwrap) := by
  have hn : WO M G nx := fun hw => by have := hW hw; simp [WF] at this; exact this.2
  have hm : M.wf = true → G.meth m = true := fun hw => by have := hW hw; simp [WF] at this; exact this.1
  have conv : ∀ cv, methConv m = some cv →
      Out M D s (execConvMethod c item any s (.method m nx) nx v f unwrap cv) := fun cv hcv =>
    execConvMethod_out E hI hA s _ nx v f unwrap cv hW hn hv hcur hf
      (fun out ho => E.conv m cv hcv hm v out hv ho) (fun e he => methConv_err hcv he)
  unfold execMethodNode
  cases m <;> simp only
  · exact conv _ rfl
  · exact execMethodSize_out E hI s nx v f hn hcur hf
  · exact next_from E hI (Keep.refl s) nx _ f hn (E.str _) hcur hf
  · exact conv _ rfl
  · exact conv _ rfl
  · exact conv _ rfl
  · exact executeKeyValueMethod_out E hI hA s _ nx v f unwrap hW hn hv hcur hf
  · exact conv _ rfl
  · exact conv _ rfl
  · exact conv _ rfl
  · exact conv _ rfl
  · exact conv _ rfl

/-! ## `.**` and the generic element loop -/

def AInv (M : Mode) (D : Item → Prop) (s : St) (a : AAcc) : Prop :=
  (∀ r, a.ret = some r → Out M D s r) ∧
  (a.ret = none → Keep M s a.st ∧ AllD D a.found ∧
    (M.wf = true → M.ninv = true → a.err = some .invalid → a.st.oof = true))

theorem anyVisit_inv {item : ItemK} (hI : TotI M G D item) (node : Option Node) (level first last : Nat)
    (ignore unwrapNext : Bool) (s : St) (a : AAcc) (v : Item) (hn : WO M G node) (hv : D v) (hcur : D s.current)
    (h : AInv M D s a) (hnone : a.ret = none) :
    AInv M D s (anyVisit item node level first last ignore unwrapNext a v) := by
  unfold anyVisit
  obtain ⟨hk, hf, he⟩ := h.2 hnone
  split
  · split
    · rename_i n
      try dsimp only
      generalize hs1 : (if ignore = true then ({ a.st with ignoreSE := true } : St) else a.st) = s1
      have hk1 : Keep M s s1 := by
        subst hs1
        split
        · have hk0 : Keep M a.st { a.st with ignoreSE := true } := Keep.of rfl rfl rfl
          exact hk.trans hk0
        · exact hk
      have hr := item_from hI hk1 n v a.found unwrapNext hn.some hv hcur hf
      split
      · exact ⟨fun r hr' => by simp at hr'; subst hr'; exact hr, fun h' => by simp at h'⟩
      · exact ⟨fun r hr' => by simp at hr', fun _ => ⟨hr.keep, hr.allD, hr.ninv⟩⟩
    · split
      · rename_i l hl
        refine ⟨fun r hr' => by simp [hnone] at hr', fun _ => ⟨hk, ?_, he⟩⟩
        intro l' hl' x hx
        simp at hl'; subst hl'
        rcases List.mem_append.mp hx with h1 | h1
        · exact hf l hl x h1
        · simp at h1; subst h1; exact hv
      · exact ⟨fun r hr' => by simp at hr'; subst hr'; exact Out.ret hk AllD.none _ _ (by simp),
               fun h' => by simp at h'⟩
  · exact h

theorem anyDescend_inv (E : Env M G c D) {any : AnyK} (hA : TotA M G D any) (node : Option Node)
    (level first last : Nat) (ignore unwrapNext : Bool) (s : St) (a : AAcc) (v : Item) (hn : WO M G node)
    (hv : D v) (hcur : D s.current) (h : AInv M D s a) (hnone : a.ret = none) :
    AInv M D s (anyDescend any node level first last ignore unwrapNext a v) := by
  unfold anyDescend
  obtain ⟨hk, hf, he⟩ := h.2 hnone
  split
  · try dsimp only
    have hr := any_from hA hk node ((collection v).getD []) a.found (level + 1) first last ignore unwrapNext
      hn (E.coll hv) hcur hf
    split
    · exact ⟨fun r hr' => by simp at hr'; subst hr'; exact hr, fun h' => by simp at h'⟩
    · exact ⟨fun r hr' => by simp at hr', fun _ => ⟨hr.keep, hr.allD, hr.ninv⟩⟩
  · exact h

theorem anyStep_inv (E : Env M G c D) {item : ItemK} {any : AnyK} (hI : TotI M G D item) (hA : TotA M G D any)
    (node : Option Node) (level first last : Nat) (ignore unwrapNext : Bool) (s : St) (a : AAcc) (v : Item)
    (hn : WO M G node) (hv : D v) (hcur : D s.current) (h : AInv M D s a) :
    AInv M D s (anyStep item any node level first last ignore unwrapNext a v) := by
  unfold anyStep
  split
  · exact h
  · rename_i hnone
    have h1 := anyVisit_inv hI node level first last ignore unwrapNext s a v hn hv hcur h hnone
    try dsimp only
    split
    · exact h1
    · rename_i hnone1
      exact anyDescend_inv E hA node level first last ignore unwrapNext s _ v hn hv hcur h1 hnone1

theorem executeAnyItem_out (E : Env M G c D) {item : ItemK} {any : AnyK} (hI : TotI M G D item) (hA : TotA M G D any)
    (s : St) (node : Option Node) (vs : List Item) (f : Found) (level first last : Nat) (ignore unwrapNext : Bool)
    (hn : WO M G node) (hvs : ∀ x ∈ vs, D x) (hcur : D s.current) (hf : AllD D f) :
    Out M D s (executeAnyItem item any s node vs f level first last ignore unwrapNext) := by
  unfold executeAnyItem
  split
  · exact Out.ret (Keep.refl s) hf _ _ (by simp)
  · try dsimp only
    have hinv : AInv M D s (vs.foldl (anyStep item any node level first last ignore unwrapNext)
        ⟨s, f, .notFound, none, none⟩) := by
      refine foldl_inv_mem (AInv M D s) _ _ _ ?_
        (fun a v hv h => anyStep_inv E hI hA node level first last ignore unwrapNext s a v hn (hvs v hv) hcur h)
      exact ⟨fun r hr => by simp at hr, fun _ => ⟨Keep.refl s, hf, fun _ _ h => by simp at h⟩⟩
    split
    · rename_i r hr
      exact Out.frame (fun st => { st with ignoreSE := s.ignoreSE }) (fun _ => ⟨rfl, rfl, rfl⟩) (hinv.1 r hr)
    · rename_i hr
      obtain ⟨hk', hf', he'⟩ := hinv.2 hr
      have hk0 : Keep M (vs.foldl (anyStep item any node level first last ignore unwrapNext)
            ⟨s, f, .notFound, none, none⟩).st
          { (vs.foldl (anyStep item any node level first last ignore unwrapNext)
            ⟨s, f, .notFound, none, none⟩).st with ignoreSE := s.ignoreSE } := Keep.of rfl rfl rfl
      exact ⟨hk'.trans hk0, he', hf'⟩

theorem anyInto_out (E : Env M G c D) {any : AnyK} (hA : TotA M G D any) {s s1 : St} (hk : Keep M s s1)
    (first last : Nat) (nx : Option Node) (v : Item) (f : Found) (hn : WO M G nx) (hv : D v) (hcur : D s.current)
    (hf : AllD D f) : Out M D s (anyInto c any s1 first last nx v f) := by
  unfold anyInto
  split
  · rename_i kvs
    exact any_from hA hk nx (members kvs) f 1 first last true c.lax hn (E.members kvs hv) hcur hf
  · rename_i xs
    exact any_from hA hk nx xs f 1 first last true c.lax hn (E.arr xs hv) hcur hf
  · exact Out.ret hk hf _ _ (by simp)

theorem execAnyNode_out (E : Env M G c D) {item : ItemK} {any : AnyK} (hI : TotI M G D item) (hA : TotA M G D any)
    (s : St) (first last : Nat) (nx : Option Node) (v : Item) (f : Found) (hn : WO M G nx) (hv : D v)
    (hcur : D s.current) (hf : AllD D f) : Out M D s (execAnyNode c item any s first last nx v f) := by
  unfold execAnyNode
  split
  · have hk0 : Keep M s { s with ignoreSE := true } := Keep.of rfl rfl rfl
    have hr := next_from E hI hk0 nx v f hn hv hcur hf
    try dsimp only
    split
    · exact Out.frame (fun st => { st with ignoreSE := s.ignoreSE }) (fun _ => ⟨rfl, rfl, rfl⟩) hr
    · exact Out.frame (fun st => { st with ignoreSE := s.ignoreSE }) (fun _ => ⟨rfl, rfl, rfl⟩)
        (anyInto_out E hA hr.keep first last nx v _ hn hv hcur hr.allD)
  · exact anyInto_out E hA (Keep.refl s) first last nx v f hn hv hcur hf

/-! ## subscripts -/

/-- result of a subscript evaluation inside `execArrayIndex` started at `s` -/
def IdxT {α : Type} (M : Mode) (s : St) (p : St × Except Err α) : Prop :=
  Keep M s p.1 ∧ (∀ e, p.2 = .error e → M.wf = true → M.ninv = true → e = .invalid → p.1.oof = true)

theorem getArrayIndex_out (E : Env M G c D) {item : ItemK} (hI : TotI M G D item) {s s1 : St} (hk : Keep M s s1)
    (n : Node) (v : Item) (hn : W M G n) (hv : D v) (hcur : D s.current) :
    IdxT M s (getArrayIndex c item s1 n v) := by
  unfold getArrayIndex executeItem
  have hr := item_from hI hk n v (some []) c.lax hn hv hcur AllD.nil
  try dsimp only
  split
  · split
    · rename_i e he
      exact ⟨hr.keep, fun e' h hw hn' hi => hr.ninv hw hn' (by simp at h; subst h; rw [he, hi])⟩
    · exact ⟨hr.keep, fun e' h _ _ hi => by simp at h; subst h; cases hi⟩
  · split
    · rename_i x hx
      split
      · exact ⟨hr.keep, fun e' h => by simp at h⟩
      · exact ⟨hr.keep, fun e' h _ _ hi => by simp at h; subst h; cases hi⟩
      · rename_i hinv
        refine ⟨hr.keep, fun e' h hw hn' _ => absurd hinv (E.idx hw hn' x ?_)⟩
        exact hr.allD.getD x (by rw [hx]; simp)
    · exact ⟨hr.keep, fun e' h _ _ hi => by simp at h; subst h; cases hi⟩

theorem execSubscript_out (E : Env M G c D) {item : ItemK} (hI : TotI M G D item) {s s1 : St} (hk : Keep M s s1)
    (sub : Node) (v : Item) (size : Int)
    (hsub : M.wf = true → ∃ l r nx, sub = .binary .subscript (some l) r nx ∧ WF G l = true ∧ WFO G r = true)
    (hv : D v) (hcur : D s.current) : IdxT M s (execSubscript c item s1 sub v size) := by
  unfold execSubscript
  split
  · rename_i l r _
    have hl : W M G l := fun hw => by
      obtain ⟨l', r', nx', h1, h2, _⟩ := hsub hw
      simp at h1; obtain ⟨rfl, _, _⟩ := h1; exact h2
    have hr : WO M G r := fun hw => by
      obtain ⟨l', r', nx', h1, _, h3⟩ := hsub hw
      simp at h1; obtain ⟨_, rfl, _⟩ := h1; exact h3
    have h1 := getArrayIndex_out E hI hk l v hl hv hcur
    split
    · rename_i s2 e heq
      rw [heq] at h1
      exact ⟨h1.1, fun e' h => by simp at h; subst h; exact h1.2 e rfl⟩
    · rename_i s2 from_ heq
      rw [heq] at h1
      have hk2 : Keep M s s2 := h1.1
      cases r with
      | none =>
        simp only
        split
        · exact ⟨hk2, fun e' h _ _ hi => by simp at h; subst h; cases hi⟩
        · exact ⟨hk2, fun e' h => by simp at h⟩
      | some rn =>
        have h2 := getArrayIndex_out E hI hk2 rn v hr.some hv hcur
        simp only
        split
        · rename_i e heq2
          unfold IdxT at h2; rw [heq2] at h2
          exact ⟨h2.1, fun e' h => by simp at h; subst h; exact h2.2 e rfl⟩
        · rename_i to_ heq2
          unfold IdxT at h2; rw [heq2] at h2
          split
          · exact ⟨h2.1, fun e' h _ _ hi => by simp at h; subst h; cases hi⟩
          · exact ⟨h2.1, fun e' h => by simp at h⟩
  · refine ⟨⟨hk.current, hk.oof, fun hw => ?_⟩, fun _ _ hw => ?_⟩ <;>
    · obtain ⟨l', r', nx', h1, _⟩ := hsub hw
      simp at h1
  · exact ⟨hk, fun e' h _ _ hi => by simp at h; subst h; cases hi⟩

def IInv (M : Mode) (D : Item → Prop) (s : St) (a : IAcc) : Prop :=
  (∀ r, a.ret = some r → Out M D s r) ∧ (a.ret = none → Keep M s a.st ∧ AllD D a.found)

theorem indexElemStep_inv (E : Env M G c D) {item : ItemK} (hI : TotI M G D item) (nx : Option Node) (s : St)
    (a : IAcc) (v : Item) (hn : WO M G nx) (hv : D v) (hcur : D s.current) (h : IInv M D s a) :
    IInv M D s (indexElemStep c item nx a v) := by
  unfold indexElemStep
  split
  · exact h
  · rename_i hsome
    have hnone : a.ret = none := by cases hr : a.ret <;> simp_all
    obtain ⟨hk, hf⟩ := h.2 hnone
    split
    · exact h
    · split
      · exact ⟨fun r hr' => by simp at hr'; subst hr'; exact Out.ret hk AllD.none _ _ (by simp),
               fun h' => by simp at h'⟩
      · try dsimp only
        have hr := next_from E hI hk nx v a.found hn hv hcur hf
        split
        · exact ⟨fun r hr' => by simp at hr'; subst hr'; exact hr, fun h' => by simp at h'⟩
        · exact ⟨fun r hr' => by simp at hr', fun _ => ⟨hr.keep, hr.allD⟩⟩

theorem indexSubStep_inv (E : Env M G c D) {item : ItemK} (hI : TotI M G D item) (nx : Option Node)
    (xs : List Item) (v : Item) (s : St) (a : IAcc) (sub : Node) (hn : WO M G nx)
    (hsub : M.wf = true → ∃ l r nx, sub = .binary .subscript (some l) r nx ∧ WF G l = true ∧ WFO G r = true)
    (hxs : ∀ x ∈ xs, D x) (hv : D v) (hcur : D s.current) (h : IInv M D s a) :
    IInv M D s (indexSubStep c item nx xs v a sub) := by
  unfold indexSubStep
  split
  · exact h
  · rename_i hsome
    have hnone : a.ret = none := by cases hr : a.ret <;> simp_all
    obtain ⟨hk, hf⟩ := h.2 hnone
    have hs := execSubscript_out E hI hk sub v xs.length hsub hv hcur
    split
    · rename_i s1 e heq
      unfold IdxT at hs; rw [heq] at hs
      exact ⟨fun r hr' => by
          simp at hr'; subst hr'
          exact returnError_out hs.1 hf e (fun hw hn' hi => hs.2 e rfl hw hn' hi),
        fun h' => by simp at h'⟩
    · rename_i s1 from_ to_ heq
      unfold IdxT at hs; rw [heq] at hs
      refine foldl_inv_mem (IInv M D s) _ _ _ ?_
        (fun a' v' hv' h' => indexElemStep_inv E hI nx s a' v' hn (hxs v' (sliceRange_mem hv')) hcur h')
      exact ⟨fun r hr' => by simp [hnone] at hr', fun _ => ⟨hs.1, hf⟩⟩

theorem arrayOf_mem (E : Env M G c D) {v : Item} {xs : List Item} (h : arrayOf c v = some xs) (hv : D v) :
    ∀ x ∈ xs, D x := by
  unfold arrayOf at h
  split at h
  · simp at h; subst h; exact E.arr _ hv
  · split at h
    · simp at h; subst h
      intro x hx; simp at hx; subst hx; exact hv
    · cases h

theorem execArrayIndex_out (E : Env M G c D) {item : ItemK} (hI : TotI M G D item) (s : St) (subs : List Node)
    (nx : Option Node) (v : Item) (f : Found) (hsubs : M.wf = true → WFSubs G subs = true) (hn : WO M G nx)
    (hv : D v) (hcur : D s.current) (hf : AllD D f) : Out M D s (execArrayIndex c item s subs nx v f) := by
  unfold execArrayIndex
  try dsimp only
  split
  · exact structural_out (Keep.refl s) hf
  · rename_i xs hxs
    have hinv : IInv M D s (subs.foldl (indexSubStep c item nx xs v)
        ⟨{ s with innermost := xs.length }, f, .notFound, none, none⟩) := by
      refine foldl_inv_mem (IInv M D s) _ _ _ ?_
        (fun a sub hsub h => indexSubStep_inv E hI nx xs v s a sub hn
          (fun hw => WFSubs_mem (hsubs hw) sub hsub) (arrayOf_mem E hxs hv) hv hcur h)
      have hk0 : Keep M s { s with innermost := xs.length } := Keep.of rfl rfl rfl
      exact ⟨fun r hr => by simp at hr, fun _ => ⟨hk0, hf⟩⟩
    split
    · rename_i r hr
      exact Out.frame (fun st => { st with innermost := s.innermost }) (fun _ => ⟨rfl, rfl, rfl⟩) (hinv.1 r hr)
    · rename_i hr
      obtain ⟨hk', hf'⟩ := hinv.2 hr
      have hk0 : Keep M (subs.foldl (indexSubStep c item nx xs v)
            ⟨{ s with innermost := xs.length }, f, .notFound, none, none⟩).st
          { (subs.foldl (indexSubStep c item nx xs v)
            ⟨{ s with innermost := xs.length }, f, .notFound, none, none⟩).st with innermost := s.innermost } :=
        Keep.of rfl rfl rfl
      exact Out.ret (hk'.trans hk0) hf' _ _ (by simp)

/-! ## dispatch and the induction over fuel -/

theorem execBinaryNode_out (E : Env M G c D) {item : ItemK} {bool : BoolK} {any : AnyK} (hI : TotI M G D item)
    (hB : TotB M G D bool) (hA : TotA M G D any) (s : St) (op : BinOp) (l r nx : Option Node) (v : Item)
    (f : Found) (unwrap : Bool) (hW : W M G (.binary op l r nx)) (hv : D v) (hcur : D s.current) (hf : AllD D f) :
    Out M D s (execBinaryNode c item bool any s (.binary op l r nx) op l r nx v f unwrap) := by
  unfold execBinaryNode
  have hnx : WO M G nx := fun hw => (WF_binary_inv (hW hw)).1
  split
  · rename_i hop
    exact appendBoolResult_out E hI s nx f _
      (hB s _ v true (fun hw => (WF_binary_inv (hW hw)).2.1 hop) (fun _ h => by simp at h) hv hcur) hnx hcur hf
  · split
    · rename_i hop
      exact execBinaryMathExpr_out E hI s op l r nx v f (fun hw => (WF_binary_inv (hW hw)).2.2.1 hop) hnx hv hcur hf
    · split
      · exact execConvMethod_out E hI hA s _ nx v f unwrap _ hW hnx hv hcur hf
          (fun out ho => E.dec (fun hw => (WF_binary_inv (hW hw)).2.2.2 rfl) l r v out hv ho)
          (fun e he => convNumber_err he)
      · exact Out.ret (Keep.refl s) hf _ _ (by simp)

theorem execUnaryNode_out (E : Env M G c D) {item : ItemK} {bool : BoolK} {any : AnyK} (hI : TotI M G D item)
    (hB : TotB M G D bool) (hA : TotA M G D any) (s : St) (op : UnOp) (x nx : Option Node) (v : Item)
    (f : Found) (unwrap : Bool) (hW : W M G (.unary op x nx)) (hv : D v) (hcur : D s.current) (hf : AllD D f) :
    Out M D s (execUnaryNode c item bool any s (.unary op x nx) op x nx v f unwrap) := by
  unfold execUnaryNode
  have hnx : WO M G nx := fun hw => (WF_unary_inv (hW hw)).1
  have boolCase : (op = .not ∨ op = .isUnknown ∨ op = .exists) →
      Out M D s (appendBoolResult c item nx f (bool s (.unary op x nx) v true)) := fun hop =>
    appendBoolResult_out E hI s nx f _
      (hB s _ v true (fun hw => (WF_unary_inv (hW hw)).2.1 hop) (fun _ h => by simp at h) hv hcur) hnx hcur hf
  split
  · exact boolCase (Or.inl rfl)
  · exact boolCase (Or.inr (Or.inl rfl))
  · exact boolCase (Or.inr (Or.inr rfl))
  · split
    · rename_i xs
      exact unwrapTargetArray_out E hA s _ xs f hW hv hcur hf
    · split
      · exact Out.panic (Keep.refl s) (fun hw => by
          obtain ⟨cond, h, _⟩ := (WF_unary_inv (hW hw)).2.2.1 rfl; simp at h) hf _ _
      · rename_i cond
        have hc : M.wf = true → WFB G cond = true ∧ cond.next = none := fun hw => by
          obtain ⟨cond', h, h'⟩ := (WF_unary_inv (hW hw)).2.2.1 rfl
          simp at h; subst h; exact h'
        have hp := executeNestedBoolItem_out hB s cond v (fun hw => (hc hw).1) (fun hw => (hc hw).2) hv
        try dsimp only
        split
        · exact ⟨hp.keep, hp.ninv, hf⟩
        · split
          · exact Out.ret hp.keep hf _ _ (by simp)
          · exact next_from E hI hp.keep nx v f hnx hv hcur hf
  · exact execUnaryMathExpr_out E hI s x nx v .self f (fun hw => (WF_unary_inv (hW hw)).2.2.2.1 (Or.inl rfl)) hnx
      (fun _ => rfl) hv hcur hf
  · exact execUnaryMathExpr_out E hI s x nx v .uminus f (fun hw => (WF_unary_inv (hW hw)).2.2.2.1 (Or.inr rfl)) hnx
      (fun _ => rfl) hv hcur hf
  · rename_i h1 h2 h3 h4 h5 h6
    have hdt : M.wf = true → G.dtm = true := fun hw => by
      refine (WF_unary_inv (hW hw)).2.2.2.2 ?_
      cases op <;> simp_all [isDateTimeOp]
    split
    · rename_i xs
      exact any_from hA (Keep.refl s) _ xs f 1 1 1 false false hW.opt (E.arr xs hv) hcur hf
    · exact executeDateTimeMethod_out E hI s op x nx v f hdt hnx hcur hf

theorem dispatch_out (E : Env M G c D) {item : ItemK} {bool : BoolK} {any : AnyK} (hI : TotI M G D item)
    (hB : TotB M G D bool) (hA : TotA M G D any) (s : St) (n : Node) (v : Item) (f : Found) (unwrap : Bool)
    (hW : W M G n) (hv : D v) (hcur : D s.current) (hf : AllD D f) :
    Out M D s (dispatch c item bool any s n v f unwrap) := by
  unfold dispatch
  split
  · rename_i k nx
    exact execConstNode_out E hI hA _ _ _ _ _ _ _ hW (fun hw => by simpa [WF] using hW hw) hv hcur hf
  · rename_i t nx
    exact execLiteral_out E hI _ _ _ _ (fun hw => by simpa [WF] using hW hw) (E.str _) hcur hf
  · rename_i i nx
    exact execLiteral_out E hI _ _ _ _ (fun hw => by simpa [WF] using hW hw) (E.int _) hcur hf
  · rename_i x nx
    exact execLiteral_out E hI _ _ _ _ (fun hw => by have := hW hw; simp [WF] at this; exact this.2)
      (E.numLit _ (fun hw => by have := hW hw; simp [WF] at this; exact this.1)) hcur hf
  · rename_i name nx
    exact execVariable_out E hI _ _ _ _ (fun hw => by simpa [WF] using hW hw) hcur hf
  · rename_i k nx
    exact execKeyNode_out E hI hA _ _ _ _ _ _ _ hW (fun hw => by simpa [WF] using hW hw) hv hcur hf
  · exact execBinaryNode_out E hI hB hA _ _ _ _ _ _ _ _ hW hv hcur hf
  · exact execUnaryNode_out E hI hB hA _ _ _ _ _ _ _ hW hv hcur hf
  · rename_i x p fl nx
    exact appendBoolResult_out E hI s nx f _
      (hB s _ v true (fun hw => (WF_regex_inv (hW hw)).2) (fun _ h => by simp at h) hv hcur)
      (fun hw => (WF_regex_inv (hW hw)).1) hcur hf
  · exact execMethodNode_out E hI hA _ _ _ _ _ _ hW hv hcur hf
  · rename_i first last nx
    exact execAnyNode_out E hI hA _ _ _ _ _ _ (fun hw => by simpa [WF] using hW hw) hv hcur hf
  · rename_i subs nx
    exact execArrayIndex_out E hI _ _ _ _ _ (fun hw => by have := hW hw; simp [WF] at this; exact this.1)
      (fun hw => by have := hW hw; simp [WF] at this; exact this.2) hv hcur hf

theorem oofRes_out (s : St) {f : Found} (hf : AllD D f) :
    Out M D s ⟨{ s with oof := true }, f, .failed, some .invalid⟩ :=
  ⟨⟨rfl, fun _ => rfl, fun _ => rfl⟩, fun _ _ _ => rfl, hf⟩

/-- **the invariant holds for the three dispatchers, for every fuel** -/
theorem tot_all (E : Env M G c D) : ∀ fuel : Nat,
    TotI M G D (xItem c fuel) ∧ TotB M G D (xBool c fuel) ∧ TotA M G D (xAny c fuel) := by
  intro fuel
  induction fuel with
  | zero =>
    refine ⟨fun s n v f u _ _ _ hf => ?_, fun s n v b _ _ _ _ => ?_, fun s n vs f l a b i u _ _ _ hf => ?_⟩
    · simp only [xItem]; exact oofRes_out s hf
    · simp only [xBool]
      exact ⟨⟨rfl, fun _ => rfl, fun _ => rfl⟩, fun _ _ _ => rfl⟩
    · simp only [xAny]; exact oofRes_out s hf
  | succ fuel ih =>
    obtain ⟨hI, hB, hA⟩ := ih
    refine ⟨fun s n v f u hW hv hcur hf => ?_, fun s n v b hW hch hv hcur => ?_,
      fun s n vs f l a b i u hn hvs hcur hf => ?_⟩
    · simp only [xItem]
      split
      · have hk0 : Keep M s { s with sawCancel := true } := Keep.of rfl rfl rfl
        exact Out.ret hk0 hf _ _ (by simp)
      · rename_i s' hpoll
        have hs' : Keep M s s' := by
          unfold poll at hpoll
          split at hpoll
          · simp at hpoll; subst hpoll; exact Keep.refl s
          · simp at hpoll
          · simp at hpoll; subst hpoll; exact Keep.of rfl rfl rfl
        exact Out.tail hs' (dispatch_out E hI hB hA _ _ _ _ _ hW hv (by rw [hs'.current]; exact hcur) hf)
    · simp only [xBool]; exact executeBoolItem_out E hI hB _ _ _ _ hW hch hv hcur
    · simp only [xAny]; exact executeAnyItem_out E hI hA _ _ _ _ _ _ _ _ _ hn hvs hcur hf

theorem xItem_out (E : Env M G c D) (fuel : Nat) (s : St) (n : Node) (v : Item) (f : Found) (u : Bool)
    (hW : W M G n) (hv : D v) (hcur : D s.current) (hf : AllD D f) : Out M D s (xItem c fuel s n v f u) :=
  (tot_all E fuel).1 s n v f u hW hv hcur hf

/-! ## the entry points -/

theorem query_out (E : Env M G c D) (fuel : Nat) (s : St) (n : Node) (v : Item) (f : Found)
    (hW : W M G n) (hv : D v) (hcur : D s.current) (hf : AllD D f) : Out M D s (Api.query c fuel s n v f) := by
  unfold Api.query executeItem
  split
  · have h := xItem_out E fuel s n v (some []) c.lax hW hv hcur AllD.nil
    try dsimp only
    split
    · exact Out.fail (Keep.refl s) h AllD.none _
    · split
      · exact Out.ret h.keep AllD.none _ _ (by simp)
      · exact Out.ret h.keep AllD.none _ _ (by simp)
  · exact xItem_out E fuel s n v f c.lax hW hv hcur hf

end Inv

/-! ## what the executor computes itself is a plain scalar -/

/-- `null`, booleans, int64, float64, strings -/
def isPlain : Item → Bool
  | .null | .bool _ | .int _ | .flt _ | .str _ => true
  | _ => false

theorem castJSONNumber_out {t : List Char} {cb : Num.UCallback} {v : Item} (h : Num.castJSONNumber t cb = some v) :
    (∃ i, v = .int i) ∨ (∃ x, Decimal.jnumFloat64 t = .ok x ∧ v = .flt (Num.applyF cb x)) := by
  unfold Num.castJSONNumber Num.jcast at h
  split at h
  · rename_i i hj
    simp at h; exact Or.inl ⟨_, h.symm⟩
  · rename_i x hj
    simp at h
    split at hj
    · cases hj
    · split at hj
      · rename_i y hy
        simp at hj; subst hj
        exact Or.inr ⟨_, hy, h.symm⟩
      · cases hj
  · cases h

theorem liftI_ok {r : Except Num.MathErr Int} {val : Item} (h : Num.liftI r = .ok val) : ∃ i, val = .int i := by
  cases r with
  | error e => simp [Num.liftI, Except.map] at h
  | ok i => simp [Num.liftI, Except.map] at h; exact ⟨i, h.symm⟩

theorem liftF_ok {r : Except Num.MathErr F64} {val : Item} (h : Num.liftF r = .ok val) : ∃ x, val = .flt x := by
  cases r with
  | error e => simp [Num.liftF, Except.map] at h
  | ok x => simp [Num.liftF, Except.map] at h; exact ⟨x, h.symm⟩

theorem int64Math_out {a b : Int} {op : BinOp} {val : Item} (h : Num.int64Math a b op = .ok val) :
    (∃ i, val = .int i) ∨ (∃ x, val = .flt x) := by
  unfold Num.int64Math at h
  split at h
  · exact Or.inr (liftF_ok h)
  · exact Or.inl (liftI_ok h)

theorem mathOpI_out {a : Int} {r : Item} {op : BinOp} {val : Item} (h : Num.mathOpI a r op = .ok val) :
    (∃ i, val = .int i) ∨ (∃ x, val = .flt x) := by
  unfold Num.mathOpI at h
  repeat' split at h
  all_goals first
    | exact int64Math_out h
    | exact Or.inl (liftI_ok h)
    | exact Or.inr (liftF_ok h)
    | cases h

theorem mathOpF_out {a : F64} {r : Item} {op : BinOp} {val : Item} (h : Num.mathOpF a r op = .ok val) :
    ∃ x, val = .flt x := by
  unfold Num.mathOpF at h
  repeat' split at h
  all_goals first
    | exact liftF_ok h
    | cases h

theorem mathOp_out {l r : Item} {op : BinOp} {val : Item} (h : Num.mathOp l r op = .ok val) :
    (∃ i, val = .int i) ∨ (∃ x, val = .flt x) := by
  unfold Num.mathOp at h
  repeat' split at h
  all_goals first
    | exact mathOpI_out h
    | exact Or.inr (mathOpF_out h)
    | cases h

theorem convNumber_out {dec : Option (Option Node × Option Node)} {v out : Item}
    (h : convNumber dec v = .val out) : ∃ d, out = .flt d ∧ (dec = none → nonFinite d = false) := by
  unfold convNumber at h
  dsimp only at h
  split at h
  · cases h
  · cases h
  · split at h
    · cases h
    · rename_i hfin
      split at h
      · simp at h; exact ⟨_, h.symm, fun _ => by simpa using hfin⟩
      · split at h
        · simp at h; exact ⟨_, h.symm, fun hd => by simp at hd⟩
        · cases h

theorem convNumericItem_out {cb : Num.UCallback} {v out : Item} (h : convNumericItem cb v = .val out) :
    (∃ i, out = .int i) ∨ (∃ x, v = .flt x ∧ out = .flt (Num.applyF cb x)) ∨
    (∃ t x, v = .jnum t ∧ Decimal.jnumFloat64 t = .ok x ∧ out = .flt (Num.applyF cb x)) := by
  cases v with
  | int i => simp [convNumericItem] at h; exact Or.inl ⟨_, h.symm⟩
  | flt x => simp [convNumericItem] at h; exact Or.inr (Or.inl ⟨_, rfl, h.symm⟩)
  | jnum t =>
    simp only [convNumericItem] at h
    cases hc : Num.castJSONNumber t cb with
    | none => simp [hc] at h
    | some val =>
      simp [hc] at h; subst h
      rcases castJSONNumber_out hc with ⟨i, hi⟩ | ⟨x, hx, hv⟩
      · exact Or.inl ⟨i, hi⟩
      · exact Or.inr (Or.inr ⟨t, x, rfl, hx, hv⟩)
  | _ => simp [convNumericItem] at h

theorem finite_check {d : F64} {out : Item}
    (h : (if nonFinite d = true then Conv.verbose else Conv.val (Item.flt d)) = Conv.val out) :
    out = .flt d ∧ nonFinite d = false := by
  split at h
  · cases h
  · rename_i hn
    simp at h; exact ⟨h.symm, by simpa using hn⟩

theorem convDouble_out {v out : Item} (h : convDouble v = .val out) : ∃ d, out = .flt d ∧ nonFinite d = false := by
  unfold convDouble at h
  split at h
  · exact ⟨_, finite_check h⟩
  · exact ⟨_, finite_check h⟩
  · split at h
    · exact ⟨_, finite_check h⟩
    · cases h
  · split at h
    · exact ⟨_, finite_check h⟩
    · cases h
  · cases h

/-- `.integer() .bigint() .string() .boolean()` never return a float -/
theorem convOther_out {m : Method} {cv : Item → Conv} (hm : methConv m = some cv)
    (hmm : m = .integer ∨ m = .bigint ∨ m = .string ∨ m = .boolean) {v out : Item} (h : cv v = .val out) :
    (∃ i, out = .int i) ∨ (∃ b, out = .bool b) ∨ (∃ t, out = .str t) := by
  rcases hmm with rfl | rfl | rfl | rfl <;> simp [methConv] at hm <;> subst hm
  all_goals
    cases v <;>
    simp only [convBigInt, convBoolean, convInteger, int32Check, convString] at h <;>
    (repeat' split at h) <;> cases h <;>
    first | exact Or.inl ⟨_, rfl⟩ | exact Or.inr (Or.inl ⟨_, rfl⟩) | exact Or.inr (Or.inr ⟨_, rfl⟩)

/-- the flat shape of every conversion result -/
theorem methConv_out {m : Method} {cv : Item → Conv} (hm : methConv m = some cv) {v out : Item}
    (h : cv v = .val out) :
    (∃ i, out = .int i) ∨ (∃ b, out = .bool b) ∨ (∃ t, out = .str t) ∨
    (∃ d, out = .flt d ∧ nonFinite d = false ∧ (m = .double ∨ m = .number)) ∨
    (∃ cb x, out = .flt (Num.applyF cb x) ∧ methCb m = some cb ∧
      (v = .flt x ∨ ∃ t, v = .jnum t ∧ Decimal.jnumFloat64 t = .ok x)) := by
  cases m
  case abs | floor | ceiling =>
    simp [methConv] at hm; subst hm
    rcases convNumericItem_out h with ⟨i, hi⟩ | ⟨x, hx, ho⟩ | ⟨t, x, hx, hj, ho⟩
    · exact Or.inl ⟨i, hi⟩
    · exact Or.inr (Or.inr (Or.inr (Or.inr ⟨_, x, ho, rfl, Or.inl hx⟩)))
    · exact Or.inr (Or.inr (Or.inr (Or.inr ⟨_, x, ho, rfl, Or.inr ⟨t, hx, hj⟩⟩)))
  case double =>
    simp [methConv] at hm; subst hm
    obtain ⟨d, h1, h2⟩ := convDouble_out h
    exact Or.inr (Or.inr (Or.inr (Or.inl ⟨d, h1, h2, Or.inl rfl⟩)))
  case number =>
    simp [methConv] at hm; subst hm
    obtain ⟨d, h1, h2⟩ := convNumber_out h
    exact Or.inr (Or.inr (Or.inr (Or.inl ⟨d, h1, h2 rfl, Or.inr rfl⟩)))
  case integer | bigint | string | boolean =>
    rcases convOther_out hm (by simp) h with h | h | h
    · exact Or.inl h
    · exact Or.inr (Or.inl h)
    · exact Or.inr (Or.inr (Or.inl h))
  all_goals simp [methConv] at hm

theorem methConv_plain {m : Method} {cv : Item → Conv} (hm : methConv m = some cv) {v out : Item}
    (h : cv v = .val out) : isPlain out = true := by
  rcases methConv_out hm h with ⟨_, rfl⟩ | ⟨_, rfl⟩ | ⟨_, rfl⟩ | ⟨_, rfl, _⟩ | ⟨_, _, rfl, _⟩ <;> rfl

/-! ## where `compareItems` and `getJSONInt32` return `Err.invalid` -/

theorem cmpOut_invalid {op : BinOp} {cmp : Int} {p : Pred} (hop : isCompareOp op = true) :
    cmpOut op cmp ≠ .val p (some .invalid) := by
  cases op <;> simp [isCompareOp] at hop <;> simp [cmpOut, applyCompare]

/-- **D15 is the only source**: a comparison returns `Err.invalid` only for a datetime on the left and
    something that is neither a datetime nor null on the right -/
theorem compareItems_invalid {c : Ctx} {op : BinOp} {l r : Item} {p : Pred} (hop : isCompareOp op = true)
    (h : compareItems c op l r = .val p (some .invalid)) :
    ∃ d, l = .dt d ∧ (∀ d', r ≠ .dt d') ∧ r ≠ .null := by
  cases l with
  | dt a =>
    cases r with
    | dt b =>
      exfalso
      simp only [compareItems] at h
      repeat' split at h
      all_goals first | exact absurd h (cmpOut_invalid hop) | (simp at h; done)
    | null => simp [compareItems] at h
    | _ => exact ⟨a, rfl, by simp, by simp⟩
  | _ =>
    exfalso
    cases r <;> simp only [compareItems, compareNumberItems] at h <;> (try dsimp only at h) <;>
      (repeat' split at h)
    all_goals first | exact absurd h (cmpOut_invalid hop) | (simp at h; done)

theorem getJSONInt32_invalid {x : Item} (h : Num.getJSONInt32 x = .error .invalid) :
    ∃ t, x = .jnum t ∧ Decimal.jnumFloat64 t = .error .syntax := by
  cases x with
  | jnum t =>
    refine ⟨t, rfl, ?_⟩
    simp only [Num.getJSONInt32] at h
    split at h
    · split at h <;> cases h
    · split at h
      · split at h
        · cases h
        · split at h <;> cases h
      · cases h
      · assumption
  | int i =>
    simp only [Num.getJSONInt32] at h
    split at h <;> cases h
  | flt f =>
    simp only [Num.getJSONInt32] at h
    split at h
    · cases h
    · split at h <;> cases h
  | _ => simp [Num.getJSONInt32] at h

/-! ## classes of items given by a condition on the floats, the json.Number texts and the datetimes -/

mutual
  /-- every float64 inside satisfies `pf`, every json.Number text `pj`; datetime values only if `pd` -/
  def deep (pf : F64 → Bool) (pj : List Char → Bool) (pd : Bool) : Item → Bool
    | .flt x => pf x
    | .jnum t => pj t
    | .dt _ => pd
    | .arr xs => deepList pf pj pd xs
    | .obj kvs => deepMembers pf pj pd kvs
    | _ => true
  def deepList (pf : F64 → Bool) (pj : List Char → Bool) (pd : Bool) : List Item → Bool
    | [] => true
    | x :: xs => deep pf pj pd x && deepList pf pj pd xs
  def deepMembers (pf : F64 → Bool) (pj : List Char → Bool) (pd : Bool) : List (List Char × Item) → Bool
    | [] => true
    | (_, v) :: rest => deep pf pj pd v && deepMembers pf pj pd rest
end

section Deep
variable {pf : F64 → Bool} {pj : List Char → Bool} {pd : Bool}

theorem deepList_mem {xs : List Item} (h : deepList pf pj pd xs = true) : ∀ x ∈ xs, deep pf pj pd x = true := by
  induction xs with
  | nil => intro x hx; cases hx
  | cons y ys ih =>
    simp only [deepList, Bool.and_eq_true] at h
    intro x hx
    rcases List.mem_cons.mp hx with rfl | hx
    · exact h.1
    · exact ih h.2 x hx

theorem deepMembers_mem {kvs : List (List Char × Item)} (h : deepMembers pf pj pd kvs = true) :
    ∀ kv ∈ kvs, deep pf pj pd kv.2 = true := by
  induction kvs with
  | nil => intro x hx; cases hx
  | cons kv rest ih =>
    obtain ⟨k', v'⟩ := kv
    simp only [deepMembers, Bool.and_eq_true] at h
    intro x hx
    rcases List.mem_cons.mp hx with rfl | hx
    · exact h.1
    · exact ih h.2 x hx

theorem lookup_mem {kvs : List (List Char × Item)} {k : List Char} {v : Item} (h : Item.lookup k kvs = some v) :
    (k, v) ∈ kvs := by
  induction kvs with
  | nil => simp [Item.lookup] at h
  | cons kv rest ih =>
    obtain ⟨k', v'⟩ := kv
    simp only [Item.lookup] at h
    split at h
    · rename_i hk
      simp at h; subst h; subst hk; exact List.mem_cons_self ..
    · exact List.mem_cons_of_mem _ (ih h)

theorem members_mem {kvs : List (List Char × Item)} {x : Item} (h : x ∈ members kvs) : ∃ k, (k, x) ∈ kvs := by
  simp only [members, List.mem_map] at h
  obtain ⟨kv, hkv, rfl⟩ := h
  exact ⟨kv.1, hkv⟩

theorem deep_plain {v : Item} (hp : isPlain v = true) (hf : ∀ x, v = .flt x → pf x = true) :
    deep pf pj pd v = true := by
  cases v <;> simp [isPlain] at hp <;> simp [deep]
  exact hf _ rfl

/-- the conditions under which a `deep` class satisfies `Env` -/
theorem env_deep (M : Mode) (G : Cfg) (c : Ctx)
    (hroot : deep pf pj pd c.root = true)
    (hvars : ∀ kv ∈ c.vars.getD [], deep pf pj pd kv.2 = true)
    (hlit : M.wf = true → ∀ x, G.lit x = true → pf x = true)
    (hnowf : M.wf = false → (∀ x, pf x = true) ∧ pd = true)
    (hfin : ∀ x, nonFinite x = false → pf x = true)
    (hu : ∀ cb x, cbOK G cb = true → pf x = true → pf (Num.applyF cb x) = true)
    (hj : ∀ cb t x, cbOK G cb = true → pj t = true → Decimal.jnumFloat64 t = .ok x → pf (Num.applyF cb x) = true)
    (hdec : G.dec = true → ∀ x, pf x = true)
    (hdt : G.dtm = true → pd = true)
    (hregex : M.wf = true → ∀ p fl, G.rx p fl = true → ∀ t, (c.regexMatch p fl t).isSome = true)
    (hcmp : M.wf = true → ∀ op l r, compareItems c op l r ≠ .panic)
    (hninv : M.wf = true → M.ninv = true → pd = false ∧ ∀ t, pj t = true → Decimal.jnumFloat64 t ≠ .error .syntax) :
    Env M G c (fun v => deep pf pj pd v = true) := by
  have allpf : (M.wf = true → G.dec = true) → ∀ x, pf x = true := fun h => by
    cases hw : M.wf with
    | true => exact hdec (h hw)
    | false => exact (hnowf hw).1
  have cbok : ∀ cb, (M.wf = true → cbOK G cb = true) → ∀ x, pf x = true → pf (Num.applyF cb x) = true := by
    intro cb h x hx
    cases hw : M.wf with
    | true => exact hu cb x (h hw) hx
    | false => exact (hnowf hw).1 _
  have cbokj : ∀ cb, (M.wf = true → cbOK G cb = true) → ∀ t x, pj t = true → Decimal.jnumFloat64 t = .ok x →
      pf (Num.applyF cb x) = true := by
    intro cb h t x ht hx
    cases hw : M.wf with
    | true => exact hj cb t x (h hw) ht hx
    | false => exact (hnowf hw).1 _
  refine
    { arr := fun xs h => deepList_mem (by simpa [deep] using h)
      lookup := fun kvs k v h hl => deepMembers_mem (by simpa [deep] using h) _ (lookup_mem hl)
      members := fun kvs h x hx => by
        obtain ⟨k, hk⟩ := members_mem hx
        exact deepMembers_mem (by simpa [deep] using h) _ hk
      kv := fun kvs id kv h hkv => by
        have := deepMembers_mem (by simpa [deep] using h) _ hkv
        simp [kvObj, deep, deepMembers, this]
      null := rfl
      bool := fun _ => rfl
      int := fun _ => rfl
      str := fun _ => rfl
      root := hroot
      vars := fun name val h => ?_
      numLit := fun x h => ?_
      uflt := fun cb x h hx => cbok cb h x hx
      ujnum := fun cb t v h ht hc => ?_
      math := fun l r op val _ _ h hfinite => ?_
      conv := fun m cv hm hmeth v out hv ho => ?_
      dec := fun h l r v out _ ho => ?_
      dt := fun h d => ?_
      regex := hregex
      cmpPanic := hcmp
      cmpInv := fun hw hn op l r p hop hl hr hc => ?_
      idx := fun hw hn x hx hi => ?_ }
  · cases hv : c.vars with
    | none => simp [hv] at h
    | some vs =>
      simp [hv] at h
      exact hvars _ (by rw [hv]; exact lookup_mem h)
  · show pf x = true
    cases hw : M.wf with
    | true => exact hlit hw x (h hw)
    | false => exact (hnowf hw).1 x
  · rcases castJSONNumber_out hc with ⟨i, rfl⟩ | ⟨x, hx, rfl⟩
    · rfl
    · exact cbokj cb h t x ht hx
  · rcases mathOp_out h with ⟨i, rfl⟩ | ⟨x, rfl⟩
    · rfl
    · exact hfin x (by simpa [nonFiniteItem, nonFinite] using hfinite)
  · rcases methConv_out hm ho with ⟨_, rfl⟩ | ⟨_, rfl⟩ | ⟨_, rfl⟩ | ⟨d, rfl, hd, _⟩ | ⟨cb, x, rfl, hcv, hx⟩
    · rfl
    · rfl
    · rfl
    · exact hfin d hd
    · have hcb : M.wf = true → cbOK G cb = true := fun hw => by rw [cbOK_methCb hcv]; exact hmeth hw
      rcases hx with rfl | ⟨t, rfl, ht⟩
      · exact cbok cb hcb x hv
      · exact cbokj cb hcb t x hv ht
  · obtain ⟨d, rfl, _⟩ := convNumber_out ho
    exact allpf h d
  · show pd = true
    cases hw : M.wf with
    | true => exact hdt (h hw)
    | false => exact (hnowf hw).2
  · obtain ⟨d, rfl, _⟩ := compareItems_invalid hop hc
    simp [deep, (hninv hw hn).1] at hl
  · obtain ⟨t, rfl, ht⟩ := getJSONInt32_invalid hi
    exact (hninv hw hn).2 t hx ht

/-- no condition on the items at all: enough to exclude panics -/
theorem env_true (G : Cfg) (c : Ctx)
    (hregex : ∀ p fl, G.rx p fl = true → ∀ t, (c.regexMatch p fl t).isSome = true)
    (hcmp : ∀ op l r, compareItems c op l r ≠ .panic) : Env ⟨true, false⟩ G c (fun _ => True) where
  arr := fun _ _ _ _ => trivial
  lookup := fun _ _ _ _ _ => trivial
  members := fun _ _ _ _ => trivial
  kv := fun _ _ _ _ _ => trivial
  null := trivial
  bool := fun _ => trivial
  int := fun _ => trivial
  str := fun _ => trivial
  root := trivial
  vars := fun _ _ _ => trivial
  numLit := fun _ _ => trivial
  uflt := fun _ _ _ _ => trivial
  ujnum := fun _ _ _ _ _ _ => trivial
  math := fun _ _ _ _ _ _ _ _ => trivial
  conv := fun _ _ _ _ _ _ _ _ => trivial
  dec := fun _ _ _ _ _ _ _ => trivial
  dt := fun _ _ => trivial
  regex := fun _ => hregex
  cmpPanic := fun _ => hcmp
  cmpInv := fun _ h => by cases h
  idx := fun _ h => by cases h

end Deep

end Total
end Exec
end Sqljson

/-!
# A syntactically valid JSON number is never a syntax error for `strconv.ParseFloat`

`Item.validJNum t = true → jnumFloat64 t = .ok (finite) ∨ jnumFloat64 t = .error .range`
-/
namespace Sqljson.JNum
open Sqljson

/-! ## characters -/

def AllDig (ds : List Char) : Prop := ∀ c ∈ ds, Decimal.isDigit c = true

theorem allDig_nil : AllDig [] := by intro c h; cases h

theorem allDig_cons {c : Char} {ds : List Char} (hc : Decimal.isDigit c = true) (h : AllDig ds) :
    AllDig (c :: ds) := by
  intro x hx
  rcases List.mem_cons.mp hx with rfl | hx
  · exact hc
  · exact h x hx

theorem allDig_tail {c : Char} {ds : List Char} (h : AllDig (c :: ds)) : AllDig ds :=
  fun x hx => h x (List.mem_cons_of_mem _ hx)

theorem allDig_head {c : Char} {ds : List Char} (h : AllDig (c :: ds)) : Decimal.isDigit c = true :=
  h c (List.mem_cons_self ..)

theorem digit_bounds {c : Char} (h : Decimal.isDigit c = true) : 48 ≤ c.toNat ∧ c.toNat ≤ 57 := by
  simp only [Decimal.isDigit, Bool.and_eq_true, decide_eq_true_eq] at h
  exact ⟨h.1, h.2⟩

theorem digit_ne {c : Char} (h : Decimal.isDigit c = true) :
    c ≠ '.' ∧ c ≠ 'e' ∧ c ≠ 'E' ∧ c ≠ '+' ∧ c ≠ '-' ∧ c ≠ '_' ∧ c ≠ 'x' ∧ c ≠ 'i' ∧ c ≠ 'n' := by
  refine ⟨?_, ?_, ?_, ?_, ?_, ?_, ?_, ?_, ?_⟩
  all_goals (intro e; subst e; revert h; decide)

theorem digit_lowerC {c : Char} (h : Decimal.isDigit c = true) : Decimal.lowerC c = c := by
  obtain ⟨a1, a2⟩ := digit_bounds h
  unfold Decimal.lowerC
  have : ¬ (('A' ≤ c && c ≤ 'Z') = true) := by
    simp only [Bool.and_eq_true, decide_eq_true_eq, not_and]
    intro h3
    have : 65 ≤ c.toNat := h3
    omega
  rw [if_neg this]

/-- characters that may occur in a JSON number -/
def JChar (c : Char) : Prop :=
  Decimal.isDigit c = true ∨ c = '.' ∨ c = 'e' ∨ c = 'E' ∨ c = '+' ∨ c = '-'

theorem jchar_ok {c : Char} (h : JChar c) : c ≠ '_' ∧ Decimal.lowerC c ≠ 'x' := by
  rcases h with h | h | h | h | h | h
  · rw [digit_lowerC h]; exact ⟨(digit_ne h).2.2.2.2.2.1, (digit_ne h).2.2.2.2.2.2.1⟩
  all_goals (subst h; decide)

/-! ## the grammar, in steps -/

def strip : List Char → List Char
  | '-' :: r => r
  | r => r

def intStep : List Char → Option (List Char)
  | '0' :: r => some r
  | c :: r => if Decimal.isDigit c then some (Item.validJNum.digs r 0).2 else none
  | [] => none

def fracStep : List Char → Option (List Char)
  | '.' :: r => (match Item.validJNum.digs r 0 with | (0, _) => none | (_, r') => some r')
  | r => some r

def stripSign : List Char → List Char
  | '+' :: r' => r'
  | '-' :: r' => r'
  | r' => r'

def expOk : List Char → Bool
  | [] => true
  | c :: r =>
    if c = 'e' || c = 'E' then
      match Item.validJNum.digs (stripSign r) 0 with | (0, _) => false | (_, []) => true | _ => false
    else false

def validBody (s1 : List Char) : Bool :=
  match intStep s1 with
  | none => false
  | some r1 =>
    match fracStep r1 with
    | none => false
    | some r2 => expOk r2

theorem valid_eq (s : List Char) : Item.validJNum s = validBody (strip s) := by
  rfl


theorem digs_spec (cs : List Char) (n : Nat) :
    ∃ ds rest, cs = ds ++ rest ∧ AllDig ds ∧ Item.validJNum.digs cs n = (n + ds.length, rest) := by
  induction cs generalizing n with
  | nil => exact ⟨[], [], rfl, allDig_nil, rfl⟩
  | cons c cs ih =>
    unfold Item.validJNum.digs
    by_cases hc : Decimal.isDigit c = true
    · obtain ⟨ds, rest, e1, e2, e3⟩ := ih (n + 1)
      refine ⟨c :: ds, rest, by rw [e1]; rfl, allDig_cons hc e2, ?_⟩
      rw [if_pos hc, e3, List.length_cons]
      congr 1; omega
    · exact ⟨[], c :: cs, rfl, allDig_nil, by rw [if_neg hc]; rfl⟩

theorem intStep_spec {body r1 : List Char} (h : intStep body = some r1) :
    ∃ c ds, body = c :: (ds ++ r1) ∧ Decimal.isDigit c = true ∧ AllDig ds := by
  unfold intStep at h
  split at h
  · injection h with h; subst h
    exact ⟨'0', [], rfl, by decide, allDig_nil⟩
  · rename_i c r _
    split at h
    · rename_i hc
      injection h with h
      obtain ⟨ds, rest, e1, e2, e3⟩ := digs_spec r 0
      rw [e3] at h
      subst h
      exact ⟨c, ds, by rw [e1], hc, e2⟩
    · cases h
  · cases h

theorem fracStep_spec {r1 r2 : List Char} (h : fracStep r1 = some r2) :
    r1 = r2 ∨ ∃ ds, r1 = '.' :: (ds ++ r2) ∧ ds ≠ [] ∧ AllDig ds := by
  unfold fracStep at h
  split at h
  · rename_i r
    obtain ⟨ds, rest, e1, e2, e3⟩ := digs_spec r 0
    rw [e3] at h
    split at h
    · cases h
    · rename_i k r' hne heq
      injection h with h
      injection heq with h1 h2
      subst h h2
      refine Or.inr ⟨ds, by rw [e1], ?_, e2⟩
      intro hd
      subst hd
      exact hne (by simpa using h1.symm)
  · injection h with h; exact Or.inl h

/-- the exponent part: nothing, or `[eE][+-]?[0-9]+` -/
def ExpPart (r2 : List Char) : Prop :=
  r2 = [] ∨ ∃ m r ds, r2 = m :: r ∧ (m = 'e' ∨ m = 'E') ∧
    (r = ds ∨ r = '+' :: ds ∨ r = '-' :: ds) ∧ stripSign r = ds ∧ ds ≠ [] ∧ AllDig ds

theorem stripSign_cases (r : List Char) :
    r = stripSign r ∨ r = '+' :: stripSign r ∨ r = '-' :: stripSign r := by
  unfold stripSign
  split
  · exact Or.inr (Or.inl rfl)
  · exact Or.inr (Or.inr rfl)
  · exact Or.inl rfl

theorem expOk_spec {r2 : List Char} (h : expOk r2 = true) : ExpPart r2 := by
  unfold expOk at h
  split at h
  · exact Or.inl rfl
  · rename_i c r
    split at h
    · rename_i hc
      obtain ⟨ds, rest, e1, e2, e3⟩ := digs_spec (stripSign r) 0
      rw [e3] at h
      split at h
      · cases h
      · rename_i k hne heq
        injection heq with h1 h2
        subst h2
        refine Or.inr ⟨c, r, ds, rfl, by simpa using hc, ?_, ?_, ?_, e2⟩
        · have := stripSign_cases r
          rw [e1, List.append_nil] at this
          exact this
        · rw [e1, List.append_nil]
        · intro hd
          subst hd
          exact hne (by simpa using h1.symm)
      · cases h
    · cases h


/-! ## `ParseFloat` on such a text -/

theorem takeMant_digs (ds rest : List Char) (h : AllDig ds) (acc nd nf : Nat) (dot : Bool) :
    ∃ acc' nf', Decimal.takeMant (ds ++ rest) acc nd nf dot
      = Decimal.takeMant rest acc' (nd + ds.length) nf' dot := by
  induction ds generalizing acc nd nf with
  | nil => exact ⟨acc, nf, rfl⟩
  | cons c ds ih =>
    obtain ⟨a, f, e⟩ := ih (allDig_tail h) (acc * 10 + Decimal.digitVal c) (nd + 1) (if dot then nf + 1 else nf)
    refine ⟨a, f, ?_⟩
    rw [List.cons_append, Decimal.takeMant, if_pos (allDig_head h), e, List.length_cons]
    congr 1; omega

theorem takeDigits_digs (ds : List Char) (h : AllDig ds) (acc n : Nat) :
    ∃ v, Decimal.takeDigits ds acc n = (v, n + ds.length, []) := by
  induction ds generalizing acc n with
  | nil => exact ⟨acc, rfl⟩
  | cons c ds ih =>
    obtain ⟨v, e⟩ := ih (allDig_tail h) (acc * 10 + Decimal.digitVal c) (n + 1)
    refine ⟨v, ?_⟩
    rw [Decimal.takeDigits, if_pos (allDig_head h), e, List.length_cons]
    congr 2; omega

theorem takeMant_stop {r2 : List Char} (h : ExpPart r2) (acc nd nf : Nat) (dot : Bool) :
    Decimal.takeMant r2 acc nd nf dot = (acc, nd, nf, dot, r2) := by
  rcases h with rfl | ⟨m, r, ds, rfl, hm, -⟩
  · rfl
  · have h1 : Decimal.isDigit m = false := by rcases hm with rfl | rfl <;> decide
    have h2 : (m = '.') = False := by rcases hm with rfl | rfl <;> simp
    rw [Decimal.takeMant]
    simp [h1, h2]

theorem takeMant_dot (r : List Char) (acc nd nf : Nat) :
    Decimal.takeMant ('.' :: r) acc nd nf false = Decimal.takeMant r acc nd nf true := by
  rw [Decimal.takeMant]
  have h1 : Decimal.isDigit '.' = false := by decide
  simp [h1]

theorem mant_spec {body r1 r2 : List Char} (h1 : intStep body = some r1) (h2 : fracStep r1 = some r2)
    (h3 : ExpPart r2) :
    ∃ m nd nf dot, Decimal.takeMant body 0 0 0 false = (m, nd, nf, dot, r2) ∧ nd ≠ 0 := by
  obtain ⟨c, ds, rfl, hc, hds⟩ := intStep_spec h1
  obtain ⟨a, f, e⟩ := takeMant_digs (c :: ds) r1 (allDig_cons hc hds) 0 0 0 false
  rw [List.cons_append] at e
  rw [e]
  rcases fracStep_spec h2 with rfl | ⟨fs, rfl, _, hfs⟩
  · exact ⟨_, _, _, _, takeMant_stop h3 .., by rw [List.length_cons]; omega⟩
  · obtain ⟨a', f', e'⟩ := takeMant_digs fs r2 hfs a (0 + (c :: ds).length) f true
    rw [takeMant_dot, e']
    exact ⟨_, _, _, _, takeMant_stop h3 .., by rw [List.length_cons]; omega⟩

theorem takeExp_signed (m : Char) (r ds : List Char) (hm : Decimal.lowerC m = 'e')
    (hr : r = ds ∨ r = '+' :: ds ∨ r = '-' :: ds) (hne : ds ≠ []) (hds : AllDig ds) :
    ∃ e, Decimal.takeExp 'e' (m :: r) = some (e, []) := by
  obtain ⟨v, e⟩ := takeDigits_digs ds hds 0 0
  have hlen : ¬ (0 + ds.length = 0) := by
    cases ds with
    | nil => exact absurd rfl hne
    | cons _ _ => rw [List.length_cons]; omega
  rcases hr with rfl | rfl | rfl
  · cases r with
    | nil => exact absurd rfl hne
    | cons d ds' =>
      have hd := digit_ne (allDig_head hds)
      rw [Decimal.takeExp, if_pos hm, e]
      · simp only [hlen, if_false]
        exact ⟨_, rfl⟩
      · intro r' h; injection h with a _; exact hd.2.2.2.1 a
      · intro r' h; injection h with a _; exact hd.2.2.2.2.1 a
  · rw [Decimal.takeExp, if_pos hm, e]
    simp only [hlen, if_false]
    exact ⟨_, rfl⟩
  · rw [Decimal.takeExp, if_pos hm, e]
    simp only [hlen, if_false]
    exact ⟨_, rfl⟩

theorem takeExp_spec {r2 : List Char} (h : ExpPart r2) : ∃ e, Decimal.takeExp 'e' r2 = some (e, []) := by
  rcases h with rfl | ⟨m, r, ds, rfl, hm, hr, _, hne, hds⟩
  · exact ⟨0, rfl⟩
  · exact takeExp_signed m r ds (by rcases hm with rfl | rfl <;> decide) hr hne hds


theorem finish_cases (neg : Bool) (m : Nat) (e : Int) :
    (F64.finish neg m e).isInf = true ∨ (F64.finish neg m e).isFinite = true := by
  unfold F64.finish; split
  · exact Or.inl rfl
  · exact Or.inr rfl

theorem roundPos_cases (neg : Bool) (n d : Nat) :
    (F64.roundPos neg n d).isInf = true ∨ (F64.roundPos neg n d).isFinite = true := by
  unfold F64.roundPos
  split
  · exact Or.inr rfl
  · simp only
    split <;> exact finish_cases _ _ _

theorem scale10_cases (neg : Bool) (m : Nat) (e : Int) :
    (Decimal.scale10 neg m e).isInf = true ∨ (Decimal.scale10 neg m e).isFinite = true := by
  unfold Decimal.scale10
  split
  · exact Or.inr rfl
  · simp only
    split
    · exact Or.inl rfl
    · split
      · exact Or.inr rfl
      · split <;> exact roundPos_cases _ _ _

/-- what the theorem says about a result -/
def Good (r : Except Decimal.FloatErr F64) : Prop :=
  (∃ f, r = .ok f ∧ F64.isFinite f = true) ∨ r = .error .range

theorem dec_good (neg : Bool) {body r1 r2 : List Char} (h1 : intStep body = some r1)
    (h2 : fracStep r1 = some r2) (h3 : ExpPart r2) :
    Good (Decimal.parseFloatNoUnderscore.dec neg body) := by
  obtain ⟨m, nd, nf, dot, e1, hnd⟩ := mant_spec h1 h2 h3
  obtain ⟨e, e2⟩ := takeExp_spec h3
  unfold Decimal.parseFloatNoUnderscore.dec
  rw [e1]
  simp only [hnd, if_false, e2]
  rcases scale10_cases neg m (e - (nf : Int)) with h | h
  · rw [if_pos h]; exact Or.inr rfl
  · have : ¬ ((Decimal.scale10 neg m (e - (nf : Int))).isInf = true) := by
      intro hi
      cases hs : Decimal.scale10 neg m (e - (nf : Int)) <;> rw [hs] at h hi <;> cases h <;> cases hi
    rw [if_neg this]
    exact Or.inl ⟨_, rfl, h⟩


/-! ## only number characters -/

theorem allDig_jchar {ds : List Char} (h : AllDig ds) : ∀ c ∈ ds, JChar c :=
  fun c hc => Or.inl (h c hc)

theorem expPart_jchar {r2 : List Char} (h : ExpPart r2) : ∀ c ∈ r2, JChar c := by
  rcases h with rfl | ⟨m, r, ds, rfl, hm, hr, _, _, hds⟩
  · intro c hc; cases hc
  · intro c hc
    rcases List.mem_cons.mp hc with rfl | hc
    · rcases hm with rfl | rfl
      · exact Or.inr (Or.inr (Or.inl rfl))
      · exact Or.inr (Or.inr (Or.inr (Or.inl rfl)))
    · rcases hr with rfl | rfl | rfl
      · exact allDig_jchar hds c hc
      · rcases List.mem_cons.mp hc with rfl | hc
        · exact Or.inr (Or.inr (Or.inr (Or.inr (Or.inl rfl))))
        · exact allDig_jchar hds c hc
      · rcases List.mem_cons.mp hc with rfl | hc
        · exact Or.inr (Or.inr (Or.inr (Or.inr (Or.inr rfl))))
        · exact allDig_jchar hds c hc

theorem body_jchar {body r1 r2 : List Char} (h1 : intStep body = some r1)
    (h2 : fracStep r1 = some r2) (h3 : ExpPart r2) : ∀ c ∈ body, JChar c := by
  obtain ⟨c, ds, rfl, hc, hds⟩ := intStep_spec h1
  have hr1 : ∀ c ∈ r1, JChar c := by
    rcases fracStep_spec h2 with rfl | ⟨fs, rfl, _, hfs⟩
    · exact expPart_jchar h3
    · intro x hx
      rcases List.mem_cons.mp hx with rfl | hx
      · exact Or.inr (Or.inl rfl)
      · rcases List.mem_append.mp hx with hx | hx
        · exact allDig_jchar hfs x hx
        · exact expPart_jchar h3 x hx
  intro x hx
  rcases List.mem_cons.mp hx with rfl | hx
  · exact Or.inl hc
  · rcases List.mem_append.mp hx with hx | hx
    · exact allDig_jchar hds x hx
    · exact hr1 x hx

theorem no_underscore (t : List Char) (h : ∀ c ∈ t, c ≠ '_') : t.contains '_' = false := by
  induction t with
  | nil => rfl
  | cons c t ih =>
    rw [List.contains_cons, ih (fun x hx => h x (List.mem_cons_of_mem _ hx))]
    have := h c (List.mem_cons_self ..)
    simp [Ne.symm this]

/-! ## `parseFloatNoUnderscore` runs the decimal branch -/

theorem eqFold_head_false (c : Char) (cs : List Char) (t : String) (x : Char) (xs : List Char)
    (ht : t.toList = x :: xs) (h : Decimal.lowerC c ≠ x) : Decimal.eqFold (c :: cs) t = false := by
  unfold Decimal.eqFold
  rw [ht]
  simp [h]

/-- the body of `parseFloatNoUnderscore` after the sign has been split off -/
def pfBody (neg : Bool) (body s : List Char) : Except Decimal.FloatErr F64 :=
  if Decimal.eqFold body "inf" || Decimal.eqFold body "infinity" then .ok (.inf neg)
  else if Decimal.eqFold s "nan" then .ok .nan
  else
    match body with
    | '0' :: x :: rest =>
      if Decimal.lowerC x = 'x' then
        match Decimal.takeHexMant rest 0 0 0 false with
        | (m, nd, nf, _, rest') =>
          if nd = 0 then .error .syntax
          else match rest' with
            | c :: _ =>
              if Decimal.lowerC c = 'p' then
                match Decimal.takeExp 'p' rest' with
                | some (e, []) =>
                  let r := Decimal.scale2 neg m (e - 4 * (nf : Int))
                  if r.isInf then .error .range else .ok r
                | _ => .error .syntax
              else .error .syntax
            | [] => .error .syntax
      else Decimal.parseFloatNoUnderscore.dec neg body
    | _ => Decimal.parseFloatNoUnderscore.dec neg body

theorem pfnu_minus (t : List Char) :
    Decimal.parseFloatNoUnderscore ('-' :: t) = pfBody true t ('-' :: t) := by
  rfl

theorem pfnu_plain (c : Char) (cs : List Char) (hp : c ≠ '+') (hm : c ≠ '-') :
    Decimal.parseFloatNoUnderscore (c :: cs) = pfBody false (c :: cs) (c :: cs) := by
  unfold Decimal.parseFloatNoUnderscore
  split
  rename_i x neg body heq
  have hnb : neg = false ∧ body = c :: cs := by
    split at heq
    · rename_i h2; injection h2 with a b; exact absurd a hp
    · rename_i h2; injection h2 with a b; exact absurd a hm
    · injection heq with a b; exact ⟨a.symm, b.symm⟩
  obtain ⟨rfl, rfl⟩ := hnb
  rfl

theorem pfBody_dec (neg : Bool) (c : Char) (rest s : List Char) (hc : Decimal.isDigit c = true)
    (hs : Decimal.eqFold s "nan" = false)
    (hx : ∀ x ∈ rest, Decimal.lowerC x ≠ 'x') :
    pfBody neg (c :: rest) s = Decimal.parseFloatNoUnderscore.dec neg (c :: rest) := by
  have hl := digit_lowerC hc
  have hd := digit_ne hc
  have e1 : Decimal.eqFold (c :: rest) "inf" = false :=
    eqFold_head_false c rest "inf" 'i' ['n', 'f'] (by decide) (by rw [hl]; exact hd.2.2.2.2.2.2.2.1)
  have e2 : Decimal.eqFold (c :: rest) "infinity" = false :=
    eqFold_head_false c rest "infinity" 'i' ['n', 'f', 'i', 'n', 'i', 't', 'y'] (by decide)
      (by rw [hl]; exact hd.2.2.2.2.2.2.2.1)
  unfold pfBody
  simp only [e1, e2, hs, Bool.or_self, Bool.false_eq_true, if_false]
  split
  · rename_i x rest' heq
    injection heq with _ heq
    subst heq
    rw [if_neg (hx x (List.mem_cons_self ..))]
  · rfl


/-! ## the theorem -/

theorem validBody_spec {body : List Char} (h : validBody body = true) :
    ∃ r1 r2, intStep body = some r1 ∧ fracStep r1 = some r2 ∧ ExpPart r2 := by
  unfold validBody at h
  split at h
  · cases h
  · rename_i r1 h1
    split at h
    · cases h
    · rename_i r2 h2
      exact ⟨r1, r2, h1, h2, expOk_spec h⟩

theorem strip_cases (t : List Char) : strip t = t ∨ ∃ r, t = '-' :: r ∧ strip t = r := by
  unfold strip
  split
  · exact Or.inr ⟨_, rfl, rfl⟩
  · exact Or.inl rfl

theorem parseFloat_body (neg : Bool) (t body : List Char) (hb : validBody body = true)
    (ht : (neg = false ∧ t = body) ∨ (neg = true ∧ t = '-' :: body)) :
    Decimal.parseFloat t = Decimal.parseFloatNoUnderscore.dec neg body := by
  obtain ⟨r1, r2, h1, h2, h3⟩ := validBody_spec hb
  have hj := body_jchar h1 h2 h3
  obtain ⟨c, ds, hbody, hc, _⟩ := intStep_spec h1
  have hd := digit_ne hc
  have hx : ∀ x ∈ ds ++ r1, Decimal.lowerC x ≠ 'x' := by
    intro x hx
    exact (jchar_ok (hj x (by rw [hbody]; exact List.mem_cons_of_mem _ hx))).2
  have hu : t.contains '_' = false := by
    apply no_underscore
    intro x hx
    rcases ht with ⟨_, rfl⟩ | ⟨_, rfl⟩
    · exact (jchar_ok (hj x hx)).1
    · rcases List.mem_cons.mp hx with rfl | hx
      · decide
      · exact (jchar_ok (hj x hx)).1
  unfold Decimal.parseFloat
  rw [hu]
  simp only [Bool.false_eq_true, if_false]
  rcases ht with ⟨rfl, rfl⟩ | ⟨rfl, rfl⟩
  · rw [hbody, pfnu_plain c _ hd.2.2.2.1 hd.2.2.2.2.1]
    refine pfBody_dec false c _ _ hc ?_ hx
    exact eqFold_head_false c _ "nan" 'n' ['a', 'n'] (by decide)
      (by rw [digit_lowerC hc]; exact hd.2.2.2.2.2.2.2.2)
  · rw [pfnu_minus, hbody]
    refine pfBody_dec true c _ _ hc ?_ hx
    exact eqFold_head_false '-' _ "nan" 'n' ['a', 'n'] (by decide) (by decide)

/-- a syntactically valid JSON number is never a syntax error for ParseFloat, and the value is finite -/
theorem validJNum_float (t : List Char) (h : Item.validJNum t = true) :
    (∃ f, Decimal.jnumFloat64 t = .ok f ∧ F64.isFinite f = true) ∨ Decimal.jnumFloat64 t = .error .range := by
  rw [valid_eq] at h
  obtain ⟨r1, r2, h1, h2, h3⟩ := validBody_spec h
  unfold Decimal.jnumFloat64
  rcases strip_cases t with e | ⟨r, rfl, e⟩
  · rw [e] at h h1
    rw [parseFloat_body false t t h (Or.inl ⟨rfl, rfl⟩)]
    exact dec_good false h1 h2 h3
  · rw [e] at h h1
    rw [parseFloat_body true _ r h (Or.inr ⟨rfl, rfl⟩)]
    exact dec_good true h1 h2 h3

theorem validJNum_not_syntax (t : List Char) (h : Item.validJNum t = true) :
    Decimal.jnumFloat64 t ≠ .error .syntax := by
  rcases validJNum_float t h with ⟨f, e, _⟩ | e <;> rw [e] <;> intro h' <;> cases h'

end Sqljson.JNum

/-!
# Every AST the parser model accepts is well formed (`Exec.Total.WF`)
-/
namespace Sqljson.ParseWF

open Sqljson Sqljson.Parse Sqljson.Lex Sqljson.Exec.Total
open Sqljson.Exec (isMathBinOp isBoolBinOp isDateTimeOp isCompareOp)
open Sqljson.ParseLemmas (bind_apply pure_apply peek_err_mono parse_ok_no_error finish_tail_some)

/-! ## §1 node level lemmas (any configuration) -/

section nodes
variable {G : Cfg}

theorem setNext_setNext (n : Node) (a b : Option Node) : (n.setNext a).setNext b = n.setNext b := by
  cases n <;> rfl

theorem next_setNext (n : Node) (a : Option Node) : (n.setNext a).next = a := by
  cases n <;> rfl

theorem setNext_next (n : Node) : n.setNext n.next = n := by
  cases n <;> rfl

/-- `WF` of a node is a condition on the node itself and `WFO` of what follows -/
theorem WF_split (n : Node) : WF G n = (WF G (n.setNext none) && WFO G n.next) := by
  cases n with
  | binary op l r nx =>
    cases l <;> cases r <;> simp [WF, WFO, Node.setNext, Node.next]
  | unary op x nx =>
    cases x <;> cases op <;> simp [WF, WFO, Node.setNext, Node.next]
  | _ => simp [WF, WFO, Node.setNext, Node.next]

theorem WF_setNext (n : Node) (nx : Option Node) :
    WF G (n.setNext nx) = (WF G (n.setNext none) && WFO G nx) := by
  rw [WF_split (n.setNext nx), setNext_setNext, next_setNext]

theorem WF_setNext_of (n : Node) (nx : Option Node) (h : WF G n = true) (hx : WFO G nx = true) :
    WF G (n.setNext nx) = true := by
  rw [WF_split] at h
  rw [WF_setNext]
  simp_all

theorem appendEnd_eq (n : Node) (t : Option Node) :
    appendEnd n t = n.setNext (match n.next with | none => t | some m => some (appendEnd m t)) := by
  cases n <;> rename_i nx <;> cases nx <;> simp [appendEnd, Node.setNext, Node.next]

theorem WF_appendEnd (n : Node) (t : Option Node) : WF G (appendEnd n t) = (WF G n && WFO G t) := by
  induction n, t using appendEnd.induct
  all_goals
    rw [appendEnd_eq, WF_setNext]
    conv => rhs; rw [WF_split]
    simp_all [Node.next, Node.setNext, WFO, Bool.and_assoc]

theorem WFO_chainOf : ∀ (ops : List Node), (∀ n ∈ ops, WF G n = true) → WFO G (chainOf ops) = true
  | [], _ => by simp [chainOf, WFO]
  | n :: rest, h => by
    have h1 : WF G n = true := h n (by simp)
    have h2 : WFO G (chainOf rest) = true := WFO_chainOf rest (fun m hm => h m (by simp [hm]))
    simp only [chainOf, WFO]
    exact WF_setNext_of n _ h1 h2

theorem WF_linkNodes (head : EV) (ops : List Node) (hh : WF G head.node = true)
    (ho : ∀ n ∈ ops, WF G n = true) : WF G (linkNodes head ops).node = true := by
  unfold linkNodes
  cases ops with
  | nil => exact hh
  | cons a rest =>
    simp only [WF_appendEnd, hh, WFO_chainOf _ ho, Bool.and_self]

/-- a boolean node in item position -/
theorem WF_of_WFB (n : Node) (h : WFB G n = true) : WF G n = WFO G n.next := by
  cases n with
  | binary op l r nx =>
    cases l <;> cases r <;> cases op <;>
      simp_all [WF, WFB, isConn, isPredOp, isMathBinOp, Node.next]
  | unary op x nx =>
    cases x <;> cases op <;> simp_all [WF, WFB, Node.next]
  | regex x p fl nx => simp_all [WF, WFB, Node.next]
  | _ => simp [WFB] at h

/-! ### subscripts -/

def SubOK (G : Cfg) : Node → Bool
  | .binary .subscript (some l) none _ => WF G l
  | .binary .subscript (some l) (some r) _ => WF G l && WF G r
  | _ => false

theorem WFSubs_cons (n : Node) (rest : List Node) :
    WFSubs G (n :: rest) = (SubOK G n && WFSubs G rest) := by
  cases n with
  | binary op l r nx => cases op <;> cases l <;> cases r <;> simp [WFSubs, SubOK]
  | _ => simp [WFSubs, SubOK]

theorem WFSubs_append : ∀ (a b : List Node), WFSubs G (a ++ b) = (WFSubs G a && WFSubs G b)
  | [], b => by simp [WFSubs]
  | n :: a, b => by
    rw [List.cons_append, WFSubs_cons, WFSubs_cons, WFSubs_append a b, Bool.and_assoc]

theorem WFSubs_snoc (acc : List Node) (e : Node) (ha : WFSubs G acc = true) (he : SubOK G e = true) :
    WFSubs G (acc ++ [e]) = true := by
  rw [WFSubs_append, WFSubs_cons, ha, he]
  simp [WFSubs]

end nodes

/-! ## §2 the invariants of the values the grammar functions return -/

section values
variable (G : Cfg)

/-- an `expr` value: well formed in item position -/
def EOK (v : EV) : Prop := WF G v.node = true
/-- a `predicate` value: a boolean node with nothing chained to it -/
def POK (v : EV) : Prop := WFB G v.node = true ∧ v.node.next = none

def PrimOK : PrimR → Prop
  | .pred v => POK G v
  | .expr v => EOK G v

def AtomOK : AtomR → Prop
  | .pred v => POK G v
  | .expr v _ => EOK G v

variable {G}

theorem eok_of_pok {v : EV} (h : POK G v) : EOK G v := by
  unfold EOK
  rw [WF_of_WFB _ h.1, h.2]
  rfl

theorem pok_conn {op : BinOp} (hop : op = .and ∨ op = .or) {l r : EV} (hl : POK G l) (hr : POK G r) :
    POK G (binary op l r) := by
  obtain ⟨l1, l2⟩ := hl
  obtain ⟨r1, r2⟩ := hr
  refine ⟨?_, rfl⟩
  rcases hop with rfl | rfl <;> simp [binary, WFB, isConn, l1, l2, r1, r2]

theorem pok_cmp {op : BinOp} (hop : isPredOp op = true) {l r : EV} (hl : EOK G l) (hr : EOK G r) :
    POK G (binary op l r) := by
  unfold EOK at hl hr
  refine ⟨?_, rfl⟩
  cases op <;> simp [isPredOp] at hop <;> simp [binary, WFB, isConn, isPredOp, hl, hr]

theorem eok_math {op : BinOp} (hop : isMathBinOp op = true) {l r : EV} (hl : EOK G l) (hr : EOK G r) :
    EOK G (binary op l r) := by
  unfold EOK at hl hr
  cases op <;> simp [isMathBinOp] at hop <;>
    simp [EOK, binary, WF, WFO, isConn, isPredOp, isMathBinOp, hl, hr]

theorem pok_not {v : EV} (h : POK G v) : POK G (unary .not v) := by
  obtain ⟨h1, h2⟩ := h
  refine ⟨?_, rfl⟩
  simp [unary, WFB, h1, h2]

theorem pok_isUnknown {v : EV} (h : POK G v) : POK G (unary .isUnknown v) := by
  obtain ⟨h1, h2⟩ := h
  refine ⟨?_, rfl⟩
  simp [unary, WFB, h1, h2]

theorem pok_exists {v : EV} (h : EOK G v) : POK G (unary .exists v) := by
  unfold EOK at h
  refine ⟨?_, rfl⟩
  simp [unary, WFB, h]

theorem wf_filter {v : EV} (h : POK G v) : WF G (.unary .filter (some v.node) none) = true := by
  obtain ⟨h1, h2⟩ := h
  simp [WF, WFO, h1, h2]

theorem eok_sign {op : UnOp} (hop : op = .plus ∨ op = .minus) {v : EV} (h : EOK G v) :
    EOK G { node := .unary op (some v.node) none } := by
  unfold EOK at h
  rcases hop with rfl | rfl <;> simp [EOK, WF, WFO, h]

theorem pok_regex {v : EV} (h : EOK G v) {pat : List Char} {b : Nat} (hb : G.rx pat b = true) :
    POK G { node := .regex v.node pat b none } := by
  unfold EOK at h
  refine ⟨?_, rfl⟩
  simp [WFB, h, hb]

theorem compOp_pred {t : Tok} {op : BinOp} (h : compOp t = some op) : isPredOp op = true := by
  cases t <;> simp [compOp] at h <;> subst h <;> rfl

theorem addOp_math {t : Tok} {op : BinOp} (h : addOp t = some op) : isMathBinOp op = true := by
  cases t <;> simp [addOp] at h <;> subst h <;> rfl

theorem mulOp_math {t : Tok} {op : BinOp} (h : mulOp t = some op) : isMathBinOp op = true := by
  cases t <;> simp [mulOp] at h <;> subst h <;> rfl

theorem precisionOp_dt {t : Tok} {op : UnOp} (h : precisionOp t = some op) : isDateTimeOp op = true := by
  cases t <;> simp [precisionOp] at h <;> subst h <;> rfl

theorem wf_dt {op : UnOp} (hop : isDateTimeOp op = true) (hG : G.dtm = true) (x : Option Node) :
    WF G (.unary op x none) = true := by
  cases op <;> simp [isDateTimeOp] at hop <;> cases x <;> simp [WF, WFO, isDateTimeOp, hG]

theorem wf_decimal (hG : G.dec = true) (l r : Option Node) : WF G (.binary .decimal l r none) = true := by
  cases l <;> cases r <;> simp [WF, WFO, isConn, isPredOp, isMathBinOp, isBoolBinOp, hG]

end values

/-- the configuration of parsed paths: the regular expressions the oracle accepts, finite numeric
    literals, every method -/
abbrev cfg (o : Oracles) : Cfg :=
  { rx := o.regexAccepts, lit := F64.isFinite, dtm := true, dec := true, meth := fun _ => true }

theorem parseFloatFinite_finite {l : List Char} {f : F64} (h : parseFloatFinite l = some f) :
    F64.isFinite f = true := by
  unfold parseFloatFinite at h
  split at h
  · split at h
    · rename_i hj
      injection h with h
      subst h
      rename_i f' _
      cases f' <;> simp [Decimal.jsonFloat] at hj
      rfl
    · cases h
  · cases h

/-! ## §3 the calculus

`Sp Q m`: whenever `m` ends in a state without a recorded error, it was started in such a state
(the error flag is sticky) and its value satisfies `Q`.  Preconditions on arguments are written as
hypotheses *inside* `Q` so that the continuation of a `bind` is proved once, for every value. -/

def Sp {α : Type} (Q : α → Prop) (m : P α) : Prop :=
  ∀ s a s', m s = .ok a s' → s'.lx.err = false → s.lx.err = false ∧ Q a

theorem sp_pure {α : Type} {Q : α → Prop} {a : α} (h : Q a) : Sp Q (pure a : P α) := by
  intro s b s' hm he
  rw [pure_apply] at hm
  injection hm with h1 h2
  subst h1; subst h2
  exact ⟨he, h⟩

theorem sp_bind {α β : Type} {Q : α → Prop} {R : β → Prop} {m : P α} {f : α → P β}
    (hm : Sp Q m) (hf : ∀ a, Sp (fun b => Q a → R b) (f a)) : Sp R (m >>= f) := by
  intro s b s' h he
  rw [bind_apply] at h
  cases hms : m s with
  | ok a s1 =>
    rw [hms] at h
    have h1 := hf a s1 b s' h he
    have h2 := hm s a s1 hms h1.1
    exact ⟨h2.1, h1.2 h2.2⟩
  | syn => rw [hms] at h; cases h
  | panic => rw [hms] at h; cases h
  | fuel => rw [hms] at h; cases h

/-- `bind` after a step whose value carries no information -/
theorem sp_bind_ {α β : Type} {R : β → Prop} {m : P α} {f : α → P β}
    (hm : Sp (fun _ => True) m) (hf : ∀ a, Sp R (f a)) : Sp R (m >>= f) := by
  apply sp_bind hm
  intro a s b s' h he
  have := hf a s b s' h he
  exact ⟨this.1, fun _ => this.2⟩

theorem sp_mono {α : Type} {Q Q' : α → Prop} {m : P α} (hm : Sp Q m) (h : ∀ a, Q a → Q' a) :
    Sp Q' m := by
  intro s a s' hms he
  have := hm s a s' hms he
  exact ⟨this.1, h a this.2⟩

theorem sp_syn {α : Type} {Q : α → Prop} : Sp Q (syn : P α) := by intro s a s' h; cases h
theorem sp_panic {α : Type} {Q : α → Prop} : Sp Q (Parse.panic : P α) := by intro s a s' h; cases h
theorem sp_outOfFuel {α : Type} {Q : α → Prop} : Sp Q (outOfFuel : P α) := by intro s a s' h; cases h

theorem sp_consume : Sp (fun _ => True) consume := by
  intro s a s' h he
  unfold consume at h
  injection h with h1 h2
  subst h2
  exact ⟨he, trivial⟩

/-- after `recordError` the final state is never free of errors: anything follows -/
theorem sp_recordError {Q : Unit → Prop} : Sp Q recordError := by
  intro s a s' h he
  unfold recordError at h
  injection h with h1 h2
  subst h2
  simp [Lex.setErr] at he

/-- after a recorded error only stickiness of the flag matters -/
theorem sp_after_error {β : Type} {R : β → Prop} {f : Unit → P β}
    (hf : ∀ a, Sp (fun _ => True) (f a)) : Sp R (recordError >>= f) :=
  sp_bind (Q := fun _ => False) sp_recordError (fun a => sp_mono (hf a) (fun _ _ h => h.elim))

section
variable (o : Oracles)

theorem sp_peek : Sp (fun _ => True) (peek o) := by
  intro s t s' h he
  refine ⟨?_, trivial⟩
  cases hs : s.lx.err with
  | false => rfl
  | true =>
    have := peek_err_mono o s hs t s' h
    rw [this] at he
    cases he

theorem sp_expect (t : Tok) : Sp (fun _ => True) (expect o t) := by
  unfold expect
  apply sp_bind_ (sp_peek o)
  intro a
  simp only
  split
  · exact sp_consume
  · exact sp_syn

local notation "G" => cfg o

theorem sp_astNewInteger (lit : List Char) : Sp (EOK G) (astNewInteger lit) := by
  unfold astNewInteger
  split
  · apply sp_pure
    simp [EOK, WF, WFO]
  · exact sp_panic

theorem sp_astNewNumeric (lit : List Char) : Sp (EOK G) (astNewNumeric lit) := by
  unfold astNewNumeric
  split
  · rename_i f hf
    apply sp_pure
    simp [EOK, WF, WFO, parseFloatFinite_finite hf]
  · exact sp_panic

theorem sp_newInteger (lit : List Char) : Sp (EOK G) (newInteger lit) := by
  unfold newInteger
  split
  · apply sp_pure
    simp [EOK, WF, WFO]
  · apply sp_after_error
    intro _
    exact sp_pure trivial

theorem sp_newNumeric (lit : List Char) : Sp (EOK G) (newNumeric lit) := by
  unfold newNumeric
  split
  · rename_i f hf
    apply sp_pure
    simp [EOK, WF, WFO, parseFloatFinite_finite hf]
  · apply sp_after_error
    intro _
    exact sp_pure trivial

theorem sp_newUnaryOrNumber (op : UnOp) (hop : op = .plus ∨ op = .minus) (v : EV) :
    Sp (fun r => EOK G v → EOK G r) (newUnaryOrNumber op v) := by
  unfold newUnaryOrNumber
  split
  · split
    · split
      · exact sp_pure (fun h => h)
      · exact sp_mono (sp_astNewNumeric o _) (fun _ h _ => h)
    · split
      · exact sp_pure (fun h => h)
      · exact sp_mono (sp_astNewInteger o _) (fun _ h _ => h)
    · exact sp_pure (fun h => eok_sign hop h)
  · exact sp_pure (fun h => eok_sign hop h)

theorem sp_mkRegex (v : EV) (pat fl : List Char) :
    Sp (fun r => EOK G v → POK G r) (mkRegex o v pat fl) := by
  unfold mkRegex
  simp only
  split
  · rename_i b hb
    apply sp_pure
    intro hv
    apply pok_regex hv
    show o.regexAccepts pat b = true
    split at hb
    · split at hb
      · rename_i hacc
        injection hb with hb
        subst hb
        exact hacc
      · cases hb
    · cases hb
  · apply sp_after_error
    intro _
    exact sp_pure trivial

theorem sp_anyLevelOf (lit : List Char) : Sp (fun _ => True) (anyLevelOf lit) := by
  unfold anyLevelOf
  split
  · exact sp_pure trivial
  · apply sp_bind_ sp_recordError
    intro _
    exact sp_pure trivial

theorem sp_anyLevel : Sp (fun _ => True) (anyLevel o) := by
  unfold anyLevel
  apply sp_bind_ (sp_peek o)
  intro a
  simp only
  split
  · apply sp_bind_ sp_consume; intro _
    apply sp_bind_ (sp_anyLevelOf _); intro _
    exact sp_pure trivial
  · split
    · apply sp_bind_ sp_consume; intro _
      exact sp_pure trivial
    · exact sp_syn

theorem sp_csvElem (t : Tok × List Char) : Sp (fun _ => True) (csvElem o t) := by
  obtain ⟨k, txt⟩ := t
  unfold csvElem
  simp only
  split
  · apply sp_bind_ sp_consume; intro _
    apply sp_bind_ (sp_mono (sp_newInteger o txt) (fun _ _ => trivial)); intro _
    exact sp_pure trivial
  · apply sp_bind_ sp_consume; intro _
    apply sp_bind_ (sp_peek o); intro a
    obtain ⟨t2, txt2⟩ := a
    simp only
    split
    · exact sp_syn
    · apply sp_bind_ sp_consume; intro _
      apply sp_bind_ (sp_mono (sp_newInteger o txt2) (fun _ _ => trivial)); intro v
      apply sp_bind_ (sp_mono (sp_newUnaryOrNumber o _ (by split <;> simp) v) (fun _ _ => trivial)); intro _
      exact sp_pure trivial

end

/-! ## §4 the grammar functions, by induction on the fuel -/

section grammar
variable (o : Oracles)

local notation "G" => cfg o

/-- the specification of every grammar function at fuel `f` -/
structure AllSp (f : Nat) : Prop where
  unaryT : ∀ t, Sp (EOK G) (parseUnaryT o f t)
  unary : Sp (EOK G) (parseUnary o f)
  scalar : ∀ t, Sp (EOK G) (parseScalar o f t)
  accLoop : ∀ head ops, Sp (fun v => EOK G head → (∀ n ∈ ops, WF G n = true) → EOK G v) (accessorLoop o f head ops)
  paren : ∀ ctx, Sp (PrimOK G) (parenTail o f ctx)
  atom : ∀ ctx, Sp (AtomOK G) (parseAtom o f ctx)
  exists_ : Sp (POK G) (existsTail o f)
  exprT : ∀ ctx v, Sp (fun r => EOK G v → AtomOK G r) (exprTail o f ctx v)
  arith : ∀ v, Sp (fun p => EOK G v → EOK G p.1) (arithLoop o f v)
  mul : ∀ v, Sp (fun r => EOK G v → EOK G r) (mulLoop o f v)
  pred : ∀ v, Sp (fun p => POK G v → POK G p.1) (predLoop o f v)
  or_ : ∀ v, Sp (fun r => POK G v → POK G r) (orLoop o f v)
  accOp : ∀ t, Sp (fun n => WF G n = true) (accessorOp o f t)
  index : ∀ t acc, Sp (fun l => WFSubs G acc = true → WFSubs G l = true) (indexList o f t acc)
  csv : Sp (fun _ => True) (csvList o f)
  csvM : ∀ acc, Sp (fun _ => True) (csvMore o f acc)

theorem allSp_zero : AllSp o 0 := by
  constructor
  all_goals intros
  all_goals first
    | (simp only [parseUnaryT, parseUnary, parseScalar, accessorLoop, parenTail, parseAtom, existsTail, exprTail,
        arithLoop, mulLoop, predLoop, orLoop, accessorOp, indexList, csvList, csvMore]; exact sp_outOfFuel)

theorem wf_newAny (a b : Option Nat) : WF G (newAny a b) = true := by
  simp [newAny, WF, WFO]

section step
variable {f : Nat} (ih : AllSp o f)
include ih

theorem step_unaryT (t : Tok × List Char) : Sp (EOK G) (parseUnaryT o (f + 1) t) := by
  obtain ⟨k, txt⟩ := t
  rw [parseUnaryT]
  split
  · apply sp_bind_ sp_consume; intro _
    apply sp_bind ih.unary; intro v
    exact sp_newUnaryOrNumber o _ (Or.inl rfl) v
  · split
    · apply sp_bind_ sp_consume; intro _
      apply sp_bind ih.unary; intro v
      exact sp_newUnaryOrNumber o _ (Or.inr rfl) v
    · split
      · apply sp_bind_ sp_consume; intro _
        apply sp_bind (ih.paren _); intro r
        cases r with
        | pred v => exact sp_syn
        | expr v => exact sp_pure (fun h => h)
      · exact ih.scalar _

theorem step_unary : Sp (EOK G) (parseUnary o (f + 1)) := by
  rw [parseUnary]
  apply sp_bind_ (sp_peek o); intro t
  exact ih.unaryT t

theorem step_scalar (t : Tok × List Char) : Sp (EOK G) (parseScalar o (f + 1) t) := by
  obtain ⟨k, txt⟩ := t
  unfold parseScalar
  have other : ∀ mk : P EV, Sp (EOK G) mk →
      Sp (EOK G) (do consume; let h ← mk; accessorLoop o f h []) := by
    intro mk hmk
    apply sp_bind_ sp_consume; intro _
    apply sp_bind hmk; intro h
    exact sp_mono (ih.accLoop h []) (fun v hv hh => hv hh (by intro n hn; cases hn))
  cases k
  all_goals first
    | exact sp_syn
    | (apply other; first
        | exact sp_newNumeric o _
        | exact sp_newInteger o _
        | (apply sp_pure; simp [EOK, WF, WFO]))

theorem step_accLoop (head : EV) (ops : List Node) :
    Sp (fun v => EOK G head → (∀ n ∈ ops, WF G n = true) → EOK G v) (accessorLoop o (f + 1) head ops) := by
  rw [accessorLoop]
  apply sp_bind_ (sp_peek o); intro a
  obtain ⟨t, txt⟩ := a
  simp only
  split
  · apply sp_bind (ih.accOp t); intro op
    apply sp_mono (ih.accLoop head _)
    intro v hv hop hh hops
    apply hv hh
    intro n hn
    rcases List.mem_append.mp hn with h | h
    · exact hops n h
    · simp at h; subst h; exact hop
  · apply sp_pure
    intro hh hops
    exact WF_linkNodes head ops hh hops

theorem step_paren (ctx : Ctx) : Sp (PrimOK G) (parenTail o (f + 1) ctx) := by
  unfold parenTail
  apply sp_bind (ih.atom ctx); intro a
  cases a with
  | expr v t =>
    simp only
    split
    · exact sp_syn
    · apply sp_bind_ sp_consume; intro _
      apply sp_bind_ (sp_peek o); intro p
      obtain ⟨t2, txt2⟩ := p
      simp only
      split
      · apply sp_bind (ih.accOp t2); intro op
        apply sp_bind (ih.accLoop v [op]); intro e
        apply sp_pure
        intro he hop hv
        exact he hv (by intro n hn; simp at hn; subst hn; exact hop)
      · exact sp_pure (fun hv => hv)
  | pred v0 =>
    simp only
    apply sp_bind (ih.pred v0); intro p
    obtain ⟨v, t⟩ := p
    simp only
    split
    · exact sp_syn
    · apply sp_bind_ sp_consume; intro _
      apply sp_bind_ (sp_peek o); intro q
      obtain ⟨t2, txt2⟩ := q
      simp only
      split
      · apply sp_bind (ih.accOp t2); intro op
        apply sp_bind (ih.accLoop v [op]); intro e
        apply sp_pure
        intro he hop hv hv0
        exact he (eok_of_pok (hv hv0)) (by intro n hn; simp at hn; subst hn; exact hop)
      · split
        · exact sp_syn
        · split
          · apply sp_bind_ sp_consume; intro _
            apply sp_bind_ (sp_expect o _); intro _
            exact sp_pure (fun hv hv0 => pok_isUnknown (hv hv0))
          · exact sp_pure (fun hv hv0 => hv hv0)

theorem step_exists : Sp (POK G) (existsTail o (f + 1)) := by
  unfold existsTail
  apply sp_bind_ (sp_expect o _); intro _
  apply sp_bind ih.unary; intro u
  apply sp_bind (ih.arith u); intro p
  obtain ⟨e, t⟩ := p
  simp only
  split
  · exact sp_syn
  · apply sp_bind_ sp_consume; intro _
    exact sp_pure (fun he hu => pok_exists (he hu))

theorem step_atom (ctx : Ctx) : Sp (AtomOK G) (parseAtom o (f + 1) ctx) := by
  unfold parseAtom
  apply sp_bind_ (sp_peek o); intro p
  obtain ⟨t, txt⟩ := p
  simp only
  split
  · apply sp_bind_ sp_consume; intro _
    apply sp_bind_ (sp_peek o); intro q
    obtain ⟨t2, txt2⟩ := q
    simp only
    split
    · apply sp_bind_ sp_consume; intro _
      apply sp_bind ih.exists_; intro v
      exact sp_pure (fun hv => pok_not hv)
    · split
      · apply sp_bind_ sp_consume; intro _
        apply sp_bind (ih.atom _); intro a
        cases a with
        | expr v t => exact sp_syn
        | pred v0 =>
          simp only
          apply sp_bind (ih.pred v0); intro r
          obtain ⟨v, t3⟩ := r
          simp only
          split
          · exact sp_syn
          · apply sp_bind_ sp_consume; intro _
            exact sp_pure (fun hv hv0 => pok_not (hv hv0))
      · exact sp_syn
  · split
    · apply sp_bind_ sp_consume; intro _
      apply sp_bind ih.exists_; intro v
      exact sp_pure (fun hv => hv)
    · split
      · apply sp_bind_ sp_consume; intro _
        apply sp_bind (ih.paren _); intro r
        cases r with
        | pred v => exact sp_pure (fun hv => hv)
        | expr v => exact ih.exprT ctx v
      · split
        · exact sp_syn
        · apply sp_bind (ih.unaryT (t, txt)); intro v
          exact ih.exprT ctx v

theorem step_exprT (ctx : Ctx) (v : EV) : Sp (fun r => EOK G v → AtomOK G r) (exprTail o (f + 1) ctx v) := by
  unfold exprTail
  apply sp_bind (ih.arith v); intro p
  obtain ⟨lhs, t⟩ := p
  simp only
  split
  · rename_i op hop
    apply sp_bind_ sp_consume; intro _
    apply sp_bind ih.unary; intro u
    apply sp_bind (ih.arith u); intro q
    obtain ⟨rhs, t'⟩ := q
    apply sp_pure
    intro hr hu hl hv
    exact pok_cmp (compOp_pred hop) (hl hv) (hr hu)
  · split
    · apply sp_bind_ sp_consume; intro _
      apply sp_bind_ (sp_expect o _); intro _
      apply sp_bind_ (sp_peek o); intro q
      obtain ⟨t2, txt2⟩ := q
      simp only
      split
      · apply sp_bind_ sp_consume; intro _
        apply sp_pure
        intro hl hv
        exact pok_cmp rfl (hl hv) (by simp [EOK, WF, WFO])
      · split
        · apply sp_bind_ sp_consume; intro _
          apply sp_pure
          intro hl hv
          exact pok_cmp rfl (hl hv) (by simp [EOK, WF, WFO])
        · exact sp_syn
    · split
      · apply sp_bind_ sp_consume; intro _
        apply sp_bind_ (sp_peek o); intro q
        obtain ⟨t2, pat⟩ := q
        simp only
        split
        · exact sp_syn
        · apply sp_bind_ sp_consume; intro _
          apply sp_bind_ (sp_peek o); intro q3
          obtain ⟨t3, x3⟩ := q3
          simp only
          split
          · apply sp_bind_ sp_consume; intro _
            apply sp_bind_ (sp_peek o); intro q4
            obtain ⟨t4, fl⟩ := q4
            simp only
            split
            · exact sp_syn
            · apply sp_bind_ sp_consume; intro _
              apply sp_bind (sp_mkRegex o lhs pat fl); intro r
              exact sp_pure (fun hr hl hv => hr (hl hv))
          · apply sp_bind (sp_mkRegex o lhs pat []); intro r
            exact sp_pure (fun hr hl hv => hr (hl hv))
      · split
        · exact sp_syn
        · exact sp_pure (fun hl hv => hl hv)

theorem step_arith (v : EV) : Sp (fun p => EOK G v → EOK G p.1) (arithLoop o (f + 1) v) := by
  unfold arithLoop
  apply sp_bind_ (sp_peek o); intro p
  obtain ⟨t, txt⟩ := p
  simp only
  split
  · rename_i op hop
    apply sp_bind_ sp_consume; intro _
    apply sp_bind ih.unary; intro u
    apply sp_bind (ih.mul u); intro rhs
    apply sp_mono (ih.arith _)
    intro r hr hrhs hu hv
    exact hr (eok_math (addOp_math hop) hv (hrhs hu))
  · split
    · rename_i op hop
      apply sp_bind_ sp_consume; intro _
      apply sp_bind ih.unary; intro u
      apply sp_mono (ih.arith _)
      intro r hr hu hv
      exact hr (eok_math (mulOp_math hop) hv hu)
    · exact sp_pure (fun hv => hv)

theorem step_mul (v : EV) : Sp (fun r => EOK G v → EOK G r) (mulLoop o (f + 1) v) := by
  unfold mulLoop
  apply sp_bind_ (sp_peek o); intro p
  obtain ⟨t, txt⟩ := p
  simp only
  split
  · rename_i op hop
    apply sp_bind_ sp_consume; intro _
    apply sp_bind ih.unary; intro u
    apply sp_mono (ih.mul _)
    intro r hr hu hv
    exact hr (eok_math (mulOp_math hop) hv hu)
  · exact sp_pure (fun hv => hv)

theorem step_pred (v : EV) : Sp (fun p => POK G v → POK G p.1) (predLoop o (f + 1) v) := by
  unfold predLoop
  apply sp_bind_ (sp_peek o); intro p
  obtain ⟨t, txt⟩ := p
  simp only
  split
  · apply sp_bind_ sp_consume; intro _
    apply sp_bind (ih.atom _); intro a
    cases a with
    | pred r =>
      apply sp_mono (ih.pred _)
      intro q hq hr hv
      exact hq (pok_conn (Or.inl rfl) hv hr)
    | expr _ _ => exact sp_syn
  · split
    · apply sp_bind_ sp_consume; intro _
      apply sp_bind (ih.atom _); intro a
      cases a with
      | pred r0 =>
        simp only
        apply sp_bind (ih.or_ r0); intro r
        apply sp_mono (ih.pred _)
        intro q hq hr hr0 hv
        exact hq (pok_conn (Or.inr rfl) hv (hr hr0))
      | expr _ _ => exact sp_syn
    · exact sp_pure (fun hv => hv)

theorem step_or (v : EV) : Sp (fun r => POK G v → POK G r) (orLoop o (f + 1) v) := by
  unfold orLoop
  apply sp_bind_ (sp_peek o); intro p
  obtain ⟨t, txt⟩ := p
  simp only
  split
  · apply sp_bind_ sp_consume; intro _
    apply sp_bind (ih.atom _); intro a
    cases a with
    | pred r2 =>
      apply sp_mono (ih.or_ _)
      intro q hq hr hv
      exact hq (pok_conn (Or.inl rfl) hv hr)
    | expr _ _ => exact sp_syn
  · exact sp_pure (fun hv => hv)

theorem step_csvM (acc : List Node) : Sp (fun _ => True) (csvMore o (f + 1) acc) := by
  unfold csvMore
  apply sp_bind_ (sp_peek o); intro p
  obtain ⟨t, txt⟩ := p
  simp only
  split
  · apply sp_bind_ sp_consume; intro _
    apply sp_bind_ (sp_peek o); intro q
    obtain ⟨t2, txt2⟩ := q
    simp only
    split
    · apply sp_bind_ (sp_csvElem o _); intro e
      exact ih.csvM _
    · exact sp_syn
  · exact sp_pure trivial

theorem step_csv : Sp (fun _ => True) (csvList o (f + 1)) := by
  unfold csvList
  apply sp_bind_ (sp_peek o); intro p
  obtain ⟨t, txt⟩ := p
  simp only
  split
  · apply sp_bind_ (sp_csvElem o _); intro e
    exact ih.csvM _
  · exact sp_pure trivial

theorem step_index (t : Tok × List Char) (acc : List Node) :
    Sp (fun l => WFSubs G acc = true → WFSubs G l = true) (indexList o (f + 1) t acc) := by
  unfold indexList
  apply sp_bind (ih.unaryT t); intro u
  apply sp_bind (ih.arith u); intro p
  obtain ⟨e, t2⟩ := p
  simp only
  have hcont : ∀ elem : Node,
      Sp (fun l => SubOK G elem = true → WFSubs G acc = true → WFSubs G l = true)
      (do let __x ← peek o
          if __x.fst = Tok.comma then do
              consume
              let t4 ← peek o
              if t4.fst = Tok.stop then syn else indexList o f t4 (acc ++ [elem])
            else
              if __x.fst = Tok.rbrack then do
                consume
                pure (acc ++ [elem])
              else syn : P (List Node)) := by
    intro elem
    apply sp_bind_ (sp_peek o); intro q
    split
    · apply sp_bind_ sp_consume; intro _
      apply sp_bind_ (sp_peek o); intro t4
      split
      · exact sp_syn
      · exact sp_mono (ih.index t4 _) (fun l hl he ha => hl (WFSubs_snoc acc elem ha he))
    · split
      · apply sp_bind_ sp_consume; intro _
        exact sp_pure (fun he ha => WFSubs_snoc acc elem ha he)
      · exact sp_syn
  split
  · apply sp_bind_ sp_consume; intro _
    apply sp_bind ih.unary; intro u2
    apply sp_bind (ih.arith u2); intro q
    apply sp_bind (sp_pure (Q := fun n => n = Node.binary .subscript (some e.node) (some q.1.node) none) rfl)
    intro elem
    apply sp_mono (hcont elem)
    intro l hl helem hq hu2 he hu
    apply hl
    subst helem
    have h1 : WF G e.node = true := he hu
    have h2 : WF G q.1.node = true := hq hu2
    simp [SubOK, h1, h2]
  · apply sp_bind (sp_pure (Q := fun n => n = Node.binary .subscript (some e.node) none none) rfl)
    intro elem
    apply sp_mono (hcont elem)
    intro l hl helem he hu
    apply hl
    subst helem
    have h1 : WF G e.node = true := he hu
    simp [SubOK, h1]

theorem step_accOp (t : Tok) : Sp (fun n => WF G n = true) (accessorOp o (f + 1) t) := by
  unfold accessorOp
  apply sp_bind_ sp_consume; intro _
  by_cases hq : t = Tok.question
  · rw [if_pos hq]
    -- filter
    apply sp_bind_ (sp_expect o _); intro _
    apply sp_bind (ih.atom _); intro a
    cases a with
    | expr _ _ => exact sp_syn
    | pred v0 =>
      simp only
      apply sp_bind (ih.pred v0); intro p
      obtain ⟨v, t2⟩ := p
      simp only
      split
      · exact sp_syn
      · apply sp_bind_ sp_consume; intro _
        exact sp_pure (fun hv hv0 => wf_filter (hv hv0))
  · rw [if_neg hq]
    by_cases hb : t = Tok.lbrack
    · rw [if_pos hb]
      -- subscript
      apply sp_bind_ (sp_peek o); intro p
      obtain ⟨t2, txt2⟩ := p
      simp only
      split
      · apply sp_bind_ sp_consume; intro _
        apply sp_bind_ (sp_expect o _); intro _
        apply sp_pure
        simp [WF, WFO]
      · split
        · exact sp_syn
        · apply sp_bind (ih.index _ []); intro subs
          apply sp_pure
          intro hs
          have : WFSubs G subs = true := hs (by simp [WFSubs])
          simp [WF, WFO, this]
    · rw [if_neg hb]
      -- after '.'
      apply sp_bind_ (sp_peek o); intro p
      obtain ⟨k, txt⟩ := p
      simp only
      split
      · apply sp_bind_ sp_consume; intro _
        apply sp_pure
        simp [WF, WFO]
      · split
        · -- .**
          apply sp_bind_ sp_consume; intro _
          apply sp_bind_ (sp_peek o); intro q
          obtain ⟨t2, x2⟩ := q
          simp only
          split
          · apply sp_bind_ sp_consume; intro _
            apply sp_bind_ (sp_anyLevel o); intro a
            apply sp_bind_ (sp_peek o); intro q3
            obtain ⟨t3, x3⟩ := q3
            simp only
            split
            · apply sp_bind_ sp_consume; intro _
              exact sp_pure (wf_newAny o _ _)
            · split
              · apply sp_bind_ sp_consume; intro _
                apply sp_bind_ (sp_anyLevel o); intro b
                apply sp_bind_ (sp_expect o _); intro _
                exact sp_pure (wf_newAny o _ _)
              · exact sp_syn
          · exact sp_pure (wf_newAny o _ _)
        · split
          · apply sp_bind_ sp_consume; intro _
            apply sp_pure
            simp [WF, WFO]
          · split
            · -- method
              apply sp_bind_ sp_consume; intro _
              apply sp_bind_ (sp_peek o); intro q
              obtain ⟨t2, x2⟩ := q
              simp only
              split
              · apply sp_bind_ sp_consume; intro _
                apply sp_bind_ (sp_expect o _); intro _
                apply sp_pure
                simp [WF, WFO]
              · apply sp_pure
                simp [WF, WFO]
            · split
              · -- decimal
                apply sp_bind_ sp_consume; intro _
                apply sp_bind_ (sp_peek o); intro q
                obtain ⟨t2, x2⟩ := q
                simp only
                split
                · apply sp_bind_ sp_consume; intro _
                  apply sp_bind_ ih.csv; intro args
                  apply sp_bind_ (sp_expect o _); intro _
                  split
                  · exact sp_pure (wf_decimal rfl _ _)
                  · exact sp_pure (wf_decimal rfl _ _)
                  · exact sp_pure (wf_decimal rfl _ _)
                  · apply sp_after_error; intro _
                    exact sp_pure trivial
                · apply sp_pure
                  simp [WF, WFO]
              · split
                · -- date
                  apply sp_bind_ sp_consume; intro _
                  apply sp_bind_ (sp_peek o); intro q
                  obtain ⟨t2, x2⟩ := q
                  simp only
                  split
                  · apply sp_bind_ sp_consume; intro _
                    apply sp_bind_ (sp_expect o _); intro _
                    exact sp_pure (wf_dt rfl rfl _)
                  · apply sp_pure
                    simp [WF, WFO]
                · split
                  · -- datetime
                    apply sp_bind_ sp_consume; intro _
                    apply sp_bind_ (sp_peek o); intro q
                    obtain ⟨t2, x2⟩ := q
                    simp only
                    split
                    · apply sp_bind_ sp_consume; intro _
                      apply sp_bind_ (sp_peek o); intro q3
                      obtain ⟨t3, tpl⟩ := q3
                      simp only
                      split
                      · apply sp_bind_ sp_consume; intro _
                        apply sp_bind_ (sp_expect o _); intro _
                        exact sp_pure (wf_dt rfl rfl _)
                      · apply sp_bind_ (sp_expect o _); intro _
                        exact sp_pure (wf_dt rfl rfl _)
                    · apply sp_pure
                      simp [WF, WFO]
                  · split
                    · -- time, time_tz, timestamp, timestamp_tz
                      rename_i op hop
                      apply sp_bind_ sp_consume; intro _
                      apply sp_bind_ (sp_peek o); intro q
                      obtain ⟨t2, x2⟩ := q
                      simp only
                      split
                      · apply sp_bind_ sp_consume; intro _
                        apply sp_bind_ (sp_peek o); intro q3
                        obtain ⟨t3, digs⟩ := q3
                        simp only
                        split
                        · apply sp_bind_ sp_consume; intro _
                          apply sp_bind_ (sp_mono (sp_newInteger o digs) (fun _ _ => trivial)); intro pnode
                          apply sp_bind_ (sp_expect o _); intro _
                          exact sp_pure (wf_dt (precisionOp_dt hop) rfl _)
                        · apply sp_bind_ (sp_expect o _); intro _
                          exact sp_pure (wf_dt (precisionOp_dt hop) rfl _)
                      · apply sp_pure
                        simp [WF, WFO]
                    · exact sp_syn

end step

theorem allSp : ∀ f, AllSp o f
  | 0 => allSp_zero o
  | f + 1 =>
    have ih := allSp f
    { unaryT := step_unaryT o ih
      unary := step_unary o ih
      scalar := step_scalar o ih
      accLoop := step_accLoop o ih
      paren := step_paren o ih
      atom := step_atom o ih
      exists_ := step_exists o ih
      exprT := step_exprT o ih
      arith := step_arith o ih
      mul := step_mul o ih
      pred := step_pred o ih
      or_ := step_or o ih
      accOp := step_accOp o ih
      index := step_index o ih
      csv := step_csv o ih
      csvM := step_csvM o ih }
/-! ## §5 the whole parser -/

theorem sp_parseBody (f : Nat) : Sp (fun r => WF G r.2.2.node = true) (parseBody o f) := by
  have ih := allSp o f
  unfold parseBody
  apply sp_bind_ (sp_peek o); intro p
  obtain ⟨t, txt⟩ := p
  simp only
  have hcont : ∀ lax : Bool, Sp (fun r => WF G r.2.2.node = true)
      (do let a ← parseAtom o f Ctx.top
          match a with
            | AtomR.expr v _ => pure (lax, false, v)
            | AtomR.pred v0 => do
              let __x ← predLoop o f v0
              pure (lax, true, __x.fst) : P (Bool × Bool × EV)) := by
    intro lax
    apply sp_bind (ih.atom _); intro a
    cases a with
    | expr v t2 => exact sp_pure (fun hv => hv)
    | pred v0 =>
      simp only
      apply sp_bind (ih.pred v0); intro q
      exact sp_pure (fun hq hv0 => eok_of_pok (hq hv0))
  split
  · apply sp_bind_ sp_consume; intro _
    apply sp_bind_ (sp_pure (Q := fun _ => True) trivial); intro lax
    exact hcont lax
  · split
    · apply sp_bind_ sp_consume; intro _
      apply sp_bind_ (sp_pure (Q := fun _ => True) trivial); intro lax
      exact hcont lax
    · apply sp_bind_ (sp_pure (Q := fun _ => True) trivial); intro lax
      exact hcont lax

/-- `finish` yields a result only if no error was on record when it started -/
theorem finish_some_noerr (lax isPred : Bool) (root : EV) (s s' : PS) (a : AST)
    (h : finish o lax isPred root s = .ok (some a) s') :
    a = ⟨root.node, lax, isPred⟩ ∧ s.lx.err = false := by
  unfold finish at h
  simp only [bind_apply, hasError] at h
  split at h
  · have := finish_tail_some o none s s' a h
    simp at this
  · rename_i hb
    have hb' : s.lx.err = false := by
      cases hx : s.lx.err with
      | false => rfl
      | true => exact absurd hx hb
    split at h
    · have := finish_tail_some o _ s s' a h
      simp at this
      exact ⟨this.symm, hb'⟩
    · rw [bind_apply] at h
      simp only [recordError] at h
      have := finish_tail_some o none _ s' a h
      simp at this

/-- the root of an accepted path is well formed, in the configuration of parsed paths -/
theorem parse_ok_WF_cfg (bytes : List UInt8) (a : AST) (h : Parse.parse o bytes = .ok a) :
    WF (cfg o) a.root = true := by
  obtain ⟨s, hrun, _⟩ := parse_ok_no_error o bytes a h
  unfold Parse.run parseTop at hrun
  rw [bind_apply] at hrun
  cases hb : parseBody o (fuelFor bytes) { lx := LState.init bytes, la := none } with
  | ok v s1 =>
    rw [hb] at hrun
    obtain ⟨lax, isPred, root⟩ := v
    simp only at hrun
    obtain ⟨ha, he⟩ := finish_some_noerr o lax isPred root s1 s a hrun
    have := sp_parseBody o (fuelFor bytes) _ _ _ hb he
    rw [ha]
    exact this.2
  | syn => rw [hb] at hrun; simp at hrun
  | panic => rw [hb] at hrun; simp at hrun
  | fuel => rw [hb] at hrun; simp at hrun

end grammar

/-- **every AST the parser model accepts is well formed** -/
theorem parse_ok_WF (o : Oracles) (bytes : List UInt8) (a : AST) (h : Parse.parse o bytes = .ok a) :
    Exec.Total.WF ⟨o.regexAccepts, F64.isFinite, true, true, fun _ => true⟩ a.root = true :=
  parse_ok_WF_cfg o bytes a h

end Sqljson.ParseWF
