import Sqljson.Model.Api
/-!
# The executor's structural invariant `Good`

For every executor function, started in state `s` with result list `f`, the result `r` satisfies
* `ctx`      every context field is restored (`current`, base object, `innermostArraySize`,
             `ignoreStructuralErrors`, `verbose`);
* `shape`    the result list is only ever extended at the end (`nil` stays `nil`);
* `errFailed` an error is only ever returned together with `statusFailed`;
* `silent`   with `verbose = false` no suppressible error is returned;
* `cancel`   if the context poll failed during the call, the call failed with the cancellation error.

`good_all` proves it for the three dispatchers by induction on fuel; each Go function has its own
lemma "if the recursive calls are `Good`, so am I".
-/

namespace Sqljson
namespace Exec

/-- the fields every executor function restores before it returns -/
def St.ctxEq (a b : St) : Prop :=
  a.current = b.current ∧ a.baseAddr = b.baseAddr ∧ a.baseId = b.baseId ∧
  a.innermost = b.innermost ∧ a.ignoreSE = b.ignoreSE ∧ a.verbose = b.verbose

theorem St.ctxEq.refl (a : St) : a.ctxEq a := by simp [St.ctxEq]
theorem St.ctxEq.trans {a b c : St} (h1 : a.ctxEq b) (h2 : b.ctxEq c) : a.ctxEq c := by
  simp [St.ctxEq] at *; grind
theorem St.ctxEq.symm {a b : St} (h : a.ctxEq b) : b.ctxEq a := by
  simp [St.ctxEq] at *; grind

/-- `g` extends `f` at the end (`nil` stays `nil`) -/
def Shape (f g : Found) : Prop :=
  (f = none → g = none) ∧ (∀ l, f = some l → ∃ l', g = some (l ++ l'))

theorem Shape.refl (f : Found) : Shape f f := by
  constructor
  · exact id
  · intro l h; exact ⟨[], by simp [h]⟩

theorem Shape.trans {f g h : Found} (h1 : Shape f g) (h2 : Shape g h) : Shape f h := by
  constructor
  · intro hf; exact h2.1 (h1.1 hf)
  · intro l hl
    obtain ⟨l1, hg⟩ := h1.2 l hl
    obtain ⟨l2, hh⟩ := h2.2 _ hg
    exact ⟨l1 ++ l2, by simp [hh, List.append_assoc]⟩

theorem Shape.append (f : Found) (v : Item) : Shape f (f.append v) := by
  cases f <;> simp [Shape, Found.append]

theorem Shape.isNone {f g : Found} (h : Shape f g) : f.isNone → g.isNone := by
  cases f <;> simp_all [Shape]

theorem Shape.isNone_iff {f g : Found} (h : Shape f g) : g.isNone = f.isNone := by
  cases f with
  | none => simp [h.1 rfl]
  | some l => obtain ⟨l', hl⟩ := h.2 l rfl; simp [hl]

structure Good (s : St) (f : Found) (r : Res) : Prop where
  ctx : r.st.ctxEq s
  shape : Shape f r.found
  errFailed : r.err ≠ none → r.status = .failed
  silent : s.verbose = false → r.err ≠ some .verbose
  cancel : s.sawCancel = false → r.st.sawCancel = true → r.status = .failed ∧ r.err = some .cancelled

structure GoodP (s : St) (p : PRes) : Prop where
  ctx : p.st.ctxEq s
  errUnknown : p.err ≠ none → p.out = .unknown
  noVerbose : p.err ≠ some .verbose
  cancel : s.sawCancel = false → p.st.sawCancel = true → p.out = .unknown ∧ p.err = some .cancelled

/-- a state reached inside a function started at `s`, no cancellation seen so far -/
def Mid (s s1 : St) : Prop := s1.ctxEq s ∧ (s.sawCancel = false → s1.sawCancel = false)

theorem Mid.refl (s : St) : Mid s s := ⟨St.ctxEq.refl s, id⟩

theorem Mid.trans {s s1 s2 : St} (h1 : Mid s s1) (h2 : Mid s1 s2) : Mid s s2 :=
  ⟨h2.1.trans h1.1, fun h => h2.2 (h1.2 h)⟩

theorem Mid.verbose {s s1 : St} (h : Mid s s1) : s1.verbose = s.verbose := h.1.2.2.2.2.2

/-- returning a literal result from a mid state -/
theorem Good.ret {s s1 : St} {f f1 : Found} (hm : Mid s s1) (hs : Shape f f1) (st : Status) (e : Option Err)
    (h1 : e ≠ none → st = .failed) (h2 : s.verbose = false → e ≠ some .verbose) :
    Good s f ⟨s1, f1, st, e⟩ :=
  ⟨hm.1, hs, h1, h2, fun hc h => by simp [hm.2 hc] at h⟩

/-- a tail call from a mid state -/
theorem Good.tail {s s1 : St} {f f1 : Found} {r : Res} (hm : Mid s s1) (hs : Shape f f1)
    (h : Good s1 f1 r) : Good s f r :=
  ⟨h.ctx.trans hm.1, hs.trans h.shape, h.errFailed,
   fun hv => h.silent (by rw [hm.verbose]; exact hv), fun hc => h.cancel (hm.2 hc)⟩

/-- after a call that did not fail, we are in a mid state again -/
theorem Good.mid {s : St} {f : Found} {r : Res} (h : Good s f r) (hnf : r.status ≠ .failed) : Mid s r.st :=
  ⟨h.ctx, fun hc => by
    cases hsc : r.st.sawCancel with
    | false => rfl
    | true => exact absurd (h.cancel hc hsc).1 hnf⟩

/-- passing a failure of a sub-call on: same state, error, status `failed`, any extension of `f` -/
theorem Good.fail {s s1 : St} {f f1 f2 : Found} {r : Res} (hm : Mid s s1) (h : Good s1 f1 r) (hs : Shape f f2) : Good s f ⟨r.st, f2, .failed, r.err⟩ :=
  ⟨h.ctx.trans hm.1, hs, fun _ => rfl, fun hv => h.silent (by rw [hm.verbose]; exact hv),
   fun hc hsc => ⟨rfl, (h.cancel (hm.2 hc) hsc).2⟩⟩

theorem GoodP.mid {s : St} {p : PRes} (h : GoodP s p) (hne : p.err = none) : Mid s p.st :=
  ⟨h.ctx, fun hc => by
    cases hsc : p.st.sawCancel with
    | false => rfl
    | true => have := (h.cancel hc hsc).2; simp [hne] at this⟩

def GoodI (item : ItemK) : Prop := ∀ s n v f u, Good s f (item s n v f u)
def GoodB (bool : BoolK) : Prop := ∀ s n v b, GoodP s (bool s n v b)
def GoodA (any : AnyK) : Prop := ∀ s n vs f l a b i u, Good s f (any s n vs f l a b i u)

/-- `returnVerboseError` from a mid state -/
theorem returnVerboseError_good {s s1 : St} {f f1 : Found} (hm : Mid s s1) (hs : Shape f f1) :
    Good s f (returnVerboseError s1 f1) := by
  unfold returnVerboseError
  split
  · rename_i hv
    exact Good.ret hm hs _ _ (fun _ => rfl) (fun h => by rw [hm.verbose] at hv; simp [h] at hv)
  · exact Good.ret hm hs _ _ (fun _ => rfl) (fun _ => by simp)

theorem returnError_good {s s1 : St} {f f1 : Found} (hm : Mid s s1) (hs : Shape f f1) (e : Err) :
    Good s f (returnError s1 f1 e) := by
  unfold returnError
  split
  · rename_i hv
    refine Good.ret hm hs _ _ (fun _ => rfl) (fun h => ?_)
    rw [hm.verbose, h] at hv
    cases e <;> simp_all [Err.isVerbose]
  · exact Good.ret hm hs _ _ (fun _ => rfl) (fun _ => by simp)

theorem structural_good {s s1 : St} {f f1 : Found} (hm : Mid s s1) (hs : Shape f f1) :
    Good s f (structural s1 f1) := by
  unfold structural
  split
  · exact returnVerboseError_good hm hs
  · exact Good.ret hm hs _ _ (by simp) (by simp)

theorem executeItem_good (c : Ctx) {item : ItemK} (hI : GoodI item) (s : St) (n : Node) (v : Item) (f : Found) :
    Good s f (executeItem c item s n v f) := hI _ _ _ _ _

theorem executeNextItem_good (c : Ctx) {item : ItemK} (hI : GoodI item) (s : St) (nx : Option Node)
    (v : Item) (f : Found) : Good s f (executeNextItem c item s nx v f) := by
  unfold executeNextItem
  split
  · exact executeItem_good c hI _ _ _ _
  · exact Good.ret (Mid.refl s) (Shape.append f v) _ _ (by simp) (by simp)

theorem withBaseObject_good (s : St) (f : Found) (a : Nat) (i : Int) (k : St → Res)
    (hk : ∀ s', Good s' f (k s')) : Good s f (withBaseObject s a i k) := by
  unfold withBaseObject
  obtain ⟨h1, h2, h3, h4, h5⟩ := hk { s with baseAddr := a, baseId := i }
  refine ⟨?_, h2, h3, by simpa using h4, by simpa using h5⟩
  simp [St.ctxEq] at *; grind

theorem execLiteral_good (c : Ctx) {item : ItemK} (hI : GoodI item) (s : St) (nx : Option Node)
    (v : Item) (f : Found) : Good s f (execLiteral c item s nx v f) := by
  unfold execLiteral
  split
  · exact Good.ret (Mid.refl s) (Shape.refl f) _ _ (by simp) (by simp)
  · exact executeNextItem_good c hI _ _ _ _

theorem execVariable_good (c : Ctx) {item : ItemK} (hI : GoodI item) (s : St) (name : List Char)
    (nx : Option Node) (f : Found) : Good s f (execVariable c item s name nx f) := by
  unfold execVariable
  split
  · exact withBaseObject_good _ _ _ _ _ (fun s' => executeNextItem_good c hI _ _ _ _)
  · exact Good.ret (Mid.refl s) (Shape.refl f) _ _ (by simp) (by simp)

theorem unwrapTargetArray_good {any : AnyK} (hA : GoodA any) (s : St) (n : Node) (xs : List Item) (f : Found) :
    Good s f (unwrapTargetArray any s n xs f) := hA _ _ _ _ _ _ _ _ _

theorem execKeyNode_good (c : Ctx) {item : ItemK} {any : AnyK} (hI : GoodI item) (hA : GoodA any) (s : St)
    (n : Node) (key : List Char) (nx : Option Node) (v : Item) (f : Found) (unwrap : Bool) :
    Good s f (execKeyNode c item any s n key nx v f unwrap) := by
  unfold execKeyNode
  split
  · split
    · exact executeNextItem_good c hI _ _ _ _
    · split
      · split
        · exact Good.ret (Mid.refl s) (Shape.refl f) _ _ (by simp) (by simp)
        · rename_i hv
          exact Good.ret (Mid.refl s) (Shape.refl f) _ _ (by simp) (fun h => by simp [h] at hv)
      · exact Good.ret (Mid.refl s) (Shape.refl f) _ _ (by simp) (by simp)
  · split
    · exact hA _ _ _ _ _ _ _ _ _
    · exact structural_good (Mid.refl s) (Shape.refl f)
  · exact structural_good (Mid.refl s) (Shape.refl f)

theorem execAnyKey_good (c : Ctx) {any : AnyK} (hA : GoodA any) (s : St)
    (n : Node) (nx : Option Node) (v : Item) (f : Found) (unwrap : Bool) :
    Good s f (execAnyKey c any s n nx v f unwrap) := by
  unfold execAnyKey
  split
  · exact hA _ _ _ _ _ _ _ _ _
  · split
    · exact unwrapTargetArray_good hA _ _ _ _
    · exact structural_good (Mid.refl s) (Shape.refl f)
  · exact structural_good (Mid.refl s) (Shape.refl f)

theorem execAnyArray_good (c : Ctx) {item : ItemK} {any : AnyK} (hI : GoodI item) (hA : GoodA any) (s : St)
    (nx : Option Node) (v : Item) (f : Found) : Good s f (execAnyArray c item any s nx v f) := by
  unfold execAnyArray
  split
  · exact hA _ _ _ _ _ _ _ _ _
  · split
    · exact executeNextItem_good c hI _ _ _ _
    · exact structural_good (Mid.refl s) (Shape.refl f)

theorem execLastConst_good (c : Ctx) {item : ItemK} (hI : GoodI item) (s : St)
    (nx : Option Node) (f : Found) : Good s f (execLastConst c item s nx f) := by
  unfold execLastConst
  split
  · exact Good.ret (Mid.refl s) (Shape.refl f) _ _ (by simp) (by simp)
  · split
    · exact Good.ret (Mid.refl s) (Shape.refl f) _ _ (by simp) (by simp)
    · exact executeNextItem_good c hI _ _ _ _

theorem execConstNode_good (c : Ctx) {item : ItemK} {any : AnyK} (hI : GoodI item) (hA : GoodA any) (s : St)
    (n : Node) (k : Const) (nx : Option Node) (v : Item) (f : Found) (unwrap : Bool) :
    Good s f (execConstNode c item any s n k nx v f unwrap) := by
  unfold execConstNode
  cases k <;> simp only
  · exact withBaseObject_good _ _ _ _ _ (fun s' => executeNextItem_good c hI _ _ _ _)
  · exact executeNextItem_good c hI _ _ _ _
  · exact execLastConst_good c hI _ _ _
  · exact execAnyArray_good c hI hA _ _ _ _
  · exact execAnyKey_good c hA _ _ _ _ _ _
  · exact execLiteral_good c hI _ _ _ _
  · exact execLiteral_good c hI _ _ _ _
  · exact execLiteral_good c hI _ _ _ _


theorem foldl_inv {α β : Type} (P : β → Prop) (step : β → α → β) (xs : List α) (b : β)
    (h0 : P b) (hstep : ∀ b x, P b → P (step b x)) : P (xs.foldl step b) := by
  induction xs generalizing b with
  | nil => exact h0
  | cons x xs ih => exact ih _ (hstep _ _ h0)

/-! ## operand evaluation -/

theorem optUnwrapResult_good (c : Ctx) {item : ItemK} (hI : GoodI item) (s : St) (n : Node) (v : Item)
    (unwrap : Bool) (l : List Item) : Good s (some l) (optUnwrapResult c item s n v unwrap l) := by
  unfold optUnwrapResult
  have h := executeItem_good c hI s n v (some [])
  split
  · dsimp only
    split
    · exact Good.fail (Mid.refl s) h (Shape.refl _)
    · rename_i hnf
      refine Good.ret (Good.mid h hnf) ?_ _ _ (by simp) (by simp)
      exact ⟨by simp, fun l' hl => ⟨_, by simp at hl; subst hl; rfl⟩⟩
  · exact executeItem_good c hI _ _ _ _

/-- operands of predicates are evaluated silently: besides `Good`, no suppressible error comes out -/
theorem optUnwrapResultSilent_good (c : Ctx) {item : ItemK} (hI : GoodI item) (s : St) (n : Node) (v : Item)
    (unwrap : Bool) (f : Found) :
    Good s f (optUnwrapResultSilent c item s n v unwrap f) ∧
    (optUnwrapResultSilent c item s n v unwrap f).err ≠ some .verbose := by
  unfold optUnwrapResultSilent
  have key : ∀ r : Res, Good { s with verbose := false } f r →
      Good s f { r with st := { r.st with verbose := s.verbose } } ∧ r.err ≠ some .verbose := by
    intro r h
    obtain ⟨h1, h2, h3, h4, h5⟩ := h
    refine ⟨⟨?_, h2, h3, fun _ => h4 rfl, by simpa using h5⟩, h4 rfl⟩
    simp [St.ctxEq] at *; grind
  cases f with
  | some l => exact key _ (optUnwrapResult_good c hI _ _ _ _ _)
  | none => exact key _ (executeItem_good c hI _ _ _ _)

/-! ## predicates -/

theorem applyCompare_err (op : BinOp) (cmp : Int) :
    (applyCompare op cmp).2 ≠ some .verbose ∧ ((applyCompare op cmp).2 ≠ none → (applyCompare op cmp).1 = .unknown) := by
  unfold applyCompare; cases op <;> simp

/-- callback outcomes: an error is never suppressible and only accompanies `unknown` -/
def CbOK : CbOut → Prop
  | .val p e => e ≠ some .verbose ∧ e ≠ some .cancelled ∧ (e ≠ none → p = .unknown)
  | .panic => True

theorem cmpOut_cb (op : BinOp) (cmp : Int) : CbOK (cmpOut op cmp) := by
  unfold cmpOut applyCompare CbOK; cases op <;> simp

theorem compareNumberItems_cb (op : BinOp) (l r : Item) : CbOK (compareNumberItems op l r) := by
  unfold compareNumberItems
  repeat' split
  all_goals first | exact cmpOut_cb _ _ | (simp [CbOK]; done)

theorem compareItems_cb (c : Ctx) (op : BinOp) (l r : Item) : CbOK (compareItems c op l r) := by
  unfold compareItems
  repeat' split
  all_goals first | exact cmpOut_cb _ _ | exact compareNumberItems_cb _ _ _ | (simp [CbOK]; done)

theorem startsWith_cb (l r : Item) : CbOK (startsWith l r) := by
  unfold startsWith; split <;> simp [CbOK]

theorem likeRegex_cb (c : Ctx) (p : List Char) (fl : Nat) (v : Item) : CbOK (likeRegex c p fl v) := by
  unfold likeRegex; repeat' split
  all_goals simp [CbOK]

/-- what the pair loop can return early -/
def DoneOK (d : Option (Pred × Option Err × Bool)) : Prop :=
  ∀ p e k, d = some (p, e, k) → e ≠ some .verbose ∧ e ≠ some .cancelled ∧ (e ≠ none → p = .unknown)

theorem pairStep_done (strict : Bool) (cb : Item → Item → CbOut) (hcb : ∀ l r, CbOK (cb l r))
    (acc : PairAcc) (l r : Item) (h : DoneOK acc.done) : DoneOK (pairStep strict cb acc l r).done := by
  unfold pairStep
  split
  · exact h
  · have := hcb l r
    split
    · intro p e k hd; simp at hd; obtain ⟨rfl, rfl, rfl⟩ := hd; simp
    · rename_i p e heq
      rw [heq] at this
      simp only [CbOK] at this
      split
      · intro p' e' k hd; simp at hd; obtain ⟨rfl, rfl, rfl⟩ := hd
        exact ⟨this.1, this.2.1, fun _ => rfl⟩
      · split
        · split
          · intro p' e' k hd; simp at hd; obtain ⟨rfl, rfl, rfl⟩ := hd; simp
          · exact h
        · split
          · intro p' e' k hd; simp at hd; obtain ⟨rfl, rfl, rfl⟩ := hd; simp
          · exact h
        · exact h

theorem pairLoop_done (strict : Bool) (cb : Item → Item → CbOut) (hcb : ∀ l r, CbOK (cb l r))
    (ls rs : List Item) : DoneOK (pairLoop strict cb ls rs).done := by
  unfold pairLoop
  refine foldl_inv (fun acc : PairAcc => DoneOK acc.done) _ _ _ ?_ ?_
  · intro p e k h; simp at h
  · intro acc l hacc
    refine foldl_inv (fun acc : PairAcc => DoneOK acc.done) _ _ _ hacc ?_
    intro acc' r h'
    exact pairStep_done strict cb hcb acc' l r h'

theorem predicateTail_good (c : Ctx) {s s1 : St} (hm : Mid s s1) (cb : Item → Item → CbOut)
    (hcb : ∀ l r, CbOK (cb l r)) (ls rs : List Item) : GoodP s (predicateTail c s1 cb ls rs) := by
  unfold predicateTail
  have hd := pairLoop_done (!c.lax) cb hcb ls rs
  try dsimp only
  split
  · rename_i p e pk hdone
    have := hd p e pk hdone
    refine ⟨?_, this.2.2, this.1, fun hc hsc => ?_⟩
    · have := hm.1; simp [St.ctxEq] at *; grind
    · have := hm.2 hc; simp [this] at hsc
  · split
    · exact ⟨hm.1, by simp, by simp, fun hc hsc => by simp [hm.2 hc] at hsc⟩
    · split
      · exact ⟨hm.1, by simp, by simp, fun hc hsc => by simp [hm.2 hc] at hsc⟩
      · exact ⟨hm.1, by simp, by simp, fun hc hsc => by simp [hm.2 hc] at hsc⟩

/-- a failed silent operand evaluation is the predicate's outcome -/
theorem GoodP.ofFail {s s1 : St} {f : Found} {r : Res} (hm : Mid s s1) (h : Good s1 f r)
    (hv : r.err ≠ some .verbose) : GoodP s ⟨r.st, .unknown, r.err⟩ :=
  ⟨h.ctx.trans hm.1, fun _ => rfl, hv, fun hc hsc => ⟨rfl, (h.cancel (hm.2 hc) hsc).2⟩⟩

theorem executePredicate_good (c : Ctx) {item : ItemK} (hI : GoodI item) (s : St) (left : Node)
    (right : Option Node) (v : Item) (unwrapRight : Bool) (cb : Item → Item → CbOut)
    (hcb : ∀ l r, CbOK (cb l r)) : GoodP s (executePredicate c item s left right v unwrapRight cb) := by
  unfold executePredicate
  obtain ⟨hl, hlv⟩ := optUnwrapResultSilent_good c hI s left v true (some [])
  try dsimp only
  split
  · exact GoodP.ofFail (Mid.refl s) hl hlv
  · rename_i hnf
    have hm1 : Mid s (optUnwrapResultSilent c item s left v true (some [])).st := Good.mid hl hnf
    split
    · rename_i rn
      obtain ⟨hr, hrv⟩ := optUnwrapResultSilent_good c hI
        (optUnwrapResultSilent c item s left v true (some [])).st rn v unwrapRight (some [])
      split
      · exact GoodP.ofFail hm1 hr hrv
      · rename_i hrnf
        exact predicateTail_good c (hm1.trans (Good.mid hr hrnf)) cb hcb _ _
    · exact predicateTail_good c hm1 cb hcb _ _


/-- a literal predicate result from a mid state -/
theorem GoodP.ret {s s1 : St} (hm : Mid s s1) (p : Pred) (e : Option Err)
    (h1 : e ≠ none → p = .unknown) (h2 : e ≠ some .verbose) : GoodP s ⟨s1, p, e⟩ :=
  ⟨hm.1, h1, h2, fun hc hsc => by simp [hm.2 hc] at hsc⟩

theorem GoodP.panicRet {s s1 : St} (hm : Mid s s1) :
    GoodP s ⟨{ s1 with panicked := true }, .unknown, some .invalid⟩ := by
  refine ⟨?_, fun _ => rfl, by simp, fun hc hsc => ?_⟩
  · have := hm.1; simp [St.ctxEq] at *; grind
  · have := hm.2 hc; simp [this] at hsc

/-- a predicate evaluated from a mid state -/
theorem GoodP.tail {s s1 : St} {p : PRes} (hm : Mid s s1) (h : GoodP s1 p) : GoodP s p :=
  ⟨h.ctx.trans hm.1, h.errUnknown, h.noVerbose, fun hc => h.cancel (hm.2 hc)⟩

/-- the second operand of a connective: its state, another outcome and error taken from either -/
theorem GoodP.second {s : St} {a b : PRes} (ha : GoodP s a) (hae : a.err = none) (hb : GoodP a.st b)
    (hbe : b.err = none) (p : Pred) (e : Option Err) (he : e = none) : GoodP s ⟨b.st, p, e⟩ := by
  have hm := (GoodP.mid ha hae).trans (GoodP.mid hb hbe)
  subst he
  exact GoodP.ret hm p none (by simp) (by simp)

theorem executeBinaryBoolItem_good (c : Ctx) {item : ItemK} {bool : BoolK} (hI : GoodI item) (hB : GoodB bool)
    (s : St) (op : BinOp) (l r : Option Node) (v : Item) :
    GoodP s (executeBinaryBoolItem c item bool s op l r v) := by
  unfold executeBinaryBoolItem
  split
  · exact GoodP.panicRet (Mid.refl s)
  · rename_i ln
    split
    · split
      · exact GoodP.panicRet (Mid.refl s)
      · rename_i rn
        have ha := hB s ln v false
        try dsimp only
        split
        · exact ha
        · rename_i hcond
          have hae : (bool s ln v false).err = none := by
            cases h : (bool s ln v false).err <;> simp_all
          have hb := hB (bool s ln v false).st rn v false
          have hmid := GoodP.mid ha hae
          split
          · refine ⟨(hb.ctx.trans hmid.1), ?_, hb.noVerbose, fun hc hsc => ?_⟩
            · intro hne; have := hb.errUnknown hne; simp_all
            · have := hb.cancel (hmid.2 hc) hsc; simp_all
          · exact GoodP.tail hmid hb
    · split
      · exact GoodP.panicRet (Mid.refl s)
      · rename_i rn
        have ha := hB s ln v false
        try dsimp only
        split
        · exact ha
        · rename_i hcond
          have hae : (bool s ln v false).err = none := by
            cases h : (bool s ln v false).err <;> simp_all
          have hb := hB (bool s ln v false).st rn v false
          have hmid := GoodP.mid ha hae
          split
          · rename_i hbf
            refine ⟨(hb.ctx.trans hmid.1), ?_, by simp [hae], fun hc hsc => ?_⟩
            · simp [hae]
            · have := hb.cancel (hmid.2 hc) hsc; simp_all
          · exact GoodP.tail hmid hb
    · exact executePredicate_good c hI _ _ _ _ _ _ (fun l r => startsWith_cb l r)
    · split
      · exact executePredicate_good c hI _ _ _ _ _ _ (fun l r => compareItems_cb c _ l r)
      · exact GoodP.ret (Mid.refl s) _ _ (fun _ => rfl) (by simp)

theorem executeUnaryBoolItem_good (c : Ctx) {item : ItemK} {bool : BoolK} (hI : GoodI item) (hB : GoodB bool)
    (s : St) (op : UnOp) (x : Option Node) (v : Item) :
    GoodP s (executeUnaryBoolItem c item bool s op x v) := by
  unfold executeUnaryBoolItem
  split
  · -- not
    rename_i xn
    have ha := hB s xn v false
    try dsimp only
    split
    · exact ha
    · rename_i hout
      refine ⟨ha.ctx, by simp, by simp, fun hc hsc => ?_⟩
      have := ha.cancel hc hsc; simp_all
    · rename_i hout
      refine ⟨ha.ctx, by simp, by simp, fun hc hsc => ?_⟩
      have := ha.cancel hc hsc; simp_all
  · -- is unknown
    rename_i xn
    have ha := hB s xn v false
    try dsimp only
    split
    · rename_i hce
      refine ⟨ha.ctx, fun _ => rfl, by simp [hce], fun _ _ => ⟨rfl, hce⟩⟩
    · rename_i hce
      refine ⟨ha.ctx, by simp, by simp, fun hc hsc => ?_⟩
      have := (ha.cancel hc hsc).2; simp_all
  · -- exists
    rename_i xn
    split
    · obtain ⟨hr, hrv⟩ := optUnwrapResultSilent_good c hI s xn v false (some [])
      try dsimp only
      split
      · exact GoodP.ofFail (Mid.refl s) hr hrv
      · rename_i hnf
        split
        · exact GoodP.ret (Good.mid hr hnf) _ _ (by simp) (by simp)
        · exact GoodP.ret (Good.mid hr hnf) _ _ (by simp) (by simp)
    · obtain ⟨hr, hrv⟩ := optUnwrapResultSilent_good c hI s xn v false none
      try dsimp only
      split
      · exact GoodP.ofFail (Mid.refl s) hr hrv
      · rename_i hnf
        split
        · exact GoodP.ret (Good.mid hr hnf) _ _ (by simp) (by simp)
        · exact GoodP.ret (Good.mid hr hnf) _ _ (by simp) (by simp)
  · exact GoodP.panicRet (Mid.refl s)
  · exact GoodP.panicRet (Mid.refl s)
  · exact GoodP.panicRet (Mid.refl s)
  · exact GoodP.ret (Mid.refl s) _ _ (fun _ => rfl) (by simp)

theorem executeBoolItem_good (c : Ctx) {item : ItemK} {bool : BoolK} (hI : GoodI item) (hB : GoodB bool)
    (s : St) (n : Node) (v : Item) (chn : Bool) : GoodP s (executeBoolItem c item bool s n v chn) := by
  unfold executeBoolItem
  split
  · exact GoodP.ret (Mid.refl s) _ _ (fun _ => rfl) (by simp)
  · split
    · exact executeBinaryBoolItem_good c hI hB _ _ _ _ _
    · exact executeUnaryBoolItem_good c hI hB _ _ _ _
    · exact executePredicate_good c hI _ _ _ _ _ _ (fun l _ => likeRegex_cb c _ _ l)
    · exact GoodP.ret (Mid.refl s) _ _ (fun _ => rfl) (by simp)

theorem appendBoolResult_good (c : Ctx) {item : ItemK} (hI : GoodI item) (s : St) (nx : Option Node)
    (f : Found) (p : PRes) (hp : GoodP s p) : Good s f (appendBoolResult c item nx f p) := by
  unfold appendBoolResult
  split
  · rename_i e he
    refine ⟨hp.ctx, Shape.refl f, fun _ => rfl, fun _ => ?_, fun hc hsc => ⟨rfl, ?_⟩⟩
    · have := hp.noVerbose; simp_all
    · have := (hp.cancel hc hsc).2; simp_all
  · rename_i he
    have hm := GoodP.mid hp he
    split
    · exact Good.ret hm (Shape.refl f) _ _ (by simp) (by simp)
    · exact Good.tail hm (Shape.refl f) (executeNextItem_good c hI _ _ _ _)

theorem executeNestedBoolItem_good {bool : BoolK} (hB : GoodB bool) (s : St) (n : Node) (v : Item) :
    GoodP s (executeNestedBoolItem bool s n v) := by
  unfold executeNestedBoolItem
  obtain ⟨h1, h2, h3, h4⟩ := hB { s with current := v } n v false
  refine ⟨?_, h2, h3, by simpa using h4⟩
  simp [St.ctxEq] at *; grind


/-! ## arithmetic -/

/-- loop invariant shared by the element loops: an early return is `Good`; otherwise the loop is in
    a mid state with an extended result list -/
def UInv (s : St) (f : Found) (a : UAcc) : Prop :=
  (∀ r, a.ret = some r → Good s f r) ∧ (a.ret = none → Mid s a.st ∧ Shape f a.found)

theorem unaryStep_inv (c : Ctx) {item : ItemK} (hI : GoodI item) (cb : Num.UCallback) (nx : Option Node)
    (s : St) (f : Found) (a : UAcc) (v : Item) (h : UInv s f a) : UInv s f (unaryStep c item cb nx a v) := by
  unfold unaryStep
  split
  · exact h
  · rename_i hnone
    obtain ⟨hm, hs⟩ := h.2 hnone
    have early : UInv s f { a with ret := some ⟨a.st, a.found, .ok, none⟩ } :=
      ⟨fun r hr => by simp at hr; subst hr; exact Good.ret hm hs _ _ (by simp) (by simp), fun h => by simp at h⟩
    have bad : UInv s f { a with ret := some (returnVerboseError a.st a.found) } :=
      ⟨fun r hr => by simp at hr; subst hr; exact returnVerboseError_good hm hs, fun h => by simp at h⟩
    have go : ∀ val : Item, UInv s f
        (let r := executeNextItem c item a.st nx val a.found
         if r.status = .failed then { a with st := r.st, found := r.found, ret := some r }
         else if r.status = .ok then
           (if a.found.isNone then { a with st := r.st, found := r.found, ret := some ⟨r.st, r.found, .ok, none⟩ }
            else { a with st := r.st, found := r.found, res := .ok })
         else { a with st := r.st, found := r.found }) := by
      intro val
      have hr := executeNextItem_good c hI a.st nx val a.found
      have hg := Good.tail hm hs hr
      try dsimp only
      split
      · exact ⟨fun r hr' => by simp at hr'; subst hr'; exact hg, fun h => by simp at h⟩
      · rename_i hnf
        have hm' := Good.mid hg hnf
        split
        · split
          · exact ⟨fun r hr' => by simp at hr'; subst hr'; exact Good.ret hm' hg.shape _ _ (by simp) (by simp),
                   fun h => by simp at h⟩
          · exact ⟨fun r hr' => by simp [hnone] at hr', fun _ => ⟨hm', hg.shape⟩⟩
        · exact ⟨fun r hr' => by simp [hnone] at hr', fun _ => ⟨hm', hg.shape⟩⟩
    try dsimp only
    split
    · split
      · exact early
      · exact go _
    · split
      · exact early
      · exact go _
    · split
      · exact early
      · split
        · exact go _
        · exact bad
    · split
      · exact go _
      · exact bad

theorem execUnaryMathExpr_good (c : Ctx) {item : ItemK} (hI : GoodI item) (s : St) (operand nx : Option Node)
    (v : Item) (cb : Num.UCallback) (f : Found) : Good s f (execUnaryMathExpr c item s operand nx v cb f) := by
  unfold execUnaryMathExpr
  split
  · refine ⟨?_, Shape.refl f, fun _ => rfl, by simp, fun hc hsc => by simp [hc] at hsc⟩
    simp [St.ctxEq]
  · rename_i x
    have hr := optUnwrapResult_good c hI s x v true []
    try dsimp only
    split
    · exact Good.fail (Mid.refl s) hr (Shape.refl f)
    · rename_i hnf
      have hm := Good.mid hr hnf
      have hinv : UInv s f (((optUnwrapResult c item s x v true []).found.getD []).foldl
          (unaryStep c item cb nx) ⟨(optUnwrapResult c item s x v true []).st, f, .notFound, none⟩) := by
        refine foldl_inv (UInv s f) _ _ _ ?_ (fun a v h => unaryStep_inv c hI cb nx s f a v h)
        exact ⟨fun r hr => by simp at hr, fun _ => ⟨hm, Shape.refl f⟩⟩
      split
      · rename_i res hres
        exact hinv.1 res hres
      · rename_i hres
        obtain ⟨hm', hs'⟩ := hinv.2 hres
        exact Good.ret hm' hs' _ _ (by simp) (by simp)

theorem panicRes_good (s : St) (f : Found) : Good s f ⟨{ s with panicked := true }, f, .failed, some .invalid⟩ := by
  refine ⟨?_, Shape.refl f, fun _ => rfl, by simp, fun hc hsc => by simp [hc] at hsc⟩
  simp [St.ctxEq]

theorem execBinaryMathExpr_good (c : Ctx) {item : ItemK} (hI : GoodI item) (s : St) (op : BinOp)
    (l r nx : Option Node) (v : Item) (f : Found) : Good s f (execBinaryMathExpr c item s op l r nx v f) := by
  unfold execBinaryMathExpr
  split
  · rename_i ln rn
    have hl := optUnwrapResult_good c hI s ln v true []
    try dsimp only
    split
    · exact Good.fail (Mid.refl s) hl (Shape.refl f)
    · rename_i hnf
      have hm1 := Good.mid hl hnf
      split
      · have hr := optUnwrapResult_good c hI (optUnwrapResult c item s ln v true []).st rn v true []
        try dsimp only
        split
        · exact Good.fail hm1 hr (Shape.refl f)
        · rename_i hnf2
          have hm2 := hm1.trans (Good.mid hr hnf2)
          split
          · split
            · exact returnVerboseError_good hm2 (Shape.refl f)
            · split
              · exact returnVerboseError_good hm2 (Shape.refl f)
              · split
                · exact Good.ret hm2 (Shape.refl f) _ _ (by simp) (by simp)
                · exact Good.tail hm2 (Shape.refl f) (executeNextItem_good c hI _ _ _ _)
          · exact returnVerboseError_good hm2 (Shape.refl f)
      · exact returnVerboseError_good hm1 (Shape.refl f)
  · exact panicRes_good s f

/-! ## item methods -/

theorem execMethodSize_good (c : Ctx) {item : ItemK} (hI : GoodI item) (s : St) (nx : Option Node)
    (v : Item) (f : Found) : Good s f (execMethodSize c item s nx v f) := by
  unfold execMethodSize
  split
  · exact executeNextItem_good c hI _ _ _ _
  · split
    · exact structural_good (Mid.refl s) (Shape.refl f)
    · exact executeNextItem_good c hI _ _ _ _

theorem execConvMethod_good (c : Ctx) {item : ItemK} {any : AnyK} (hI : GoodI item) (hA : GoodA any) (s : St)
    (n : Node) (nx : Option Node) (v : Item) (f : Found) (unwrap : Bool) (conv : Item → Conv) :
    Good s f (execConvMethod c item any s n nx v f unwrap conv) := by
  unfold execConvMethod
  split
  · split
    · exact unwrapTargetArray_good hA _ _ _ _
    · exact returnVerboseError_good (Mid.refl s) (Shape.refl f)
  · split
    · exact executeNextItem_good c hI _ _ _ _
    · exact returnVerboseError_good (Mid.refl s) (Shape.refl f)
    · exact Good.ret (Mid.refl s) (Shape.refl f) _ _ (fun _ => rfl) (by simp)
    · exact returnError_good (Mid.refl s) (Shape.refl f) _

theorem executeDateTimeMethod_good (c : Ctx) {item : ItemK} (hI : GoodI item) (s : St) (op : UnOp)
    (arg nx : Option Node) (v : Item) (f : Found) : Good s f (executeDateTimeMethod c item s op arg nx v f) := by
  unfold executeDateTimeMethod
  split
  · dsimp only
    split
    · exact returnError_good (Mid.refl s) (Shape.refl f) _
    · split
      · exact returnError_good (Mid.refl s) (Shape.refl f) _
      · split
        · exact Good.ret (Mid.refl s) (Shape.refl f) _ _ (by simp) (by simp)
        · exact executeNextItem_good c hI _ _ _ _
  · exact returnVerboseError_good (Mid.refl s) (Shape.refl f)


/-! ## functions that change a context field for the duration of a loop (`defer` restores at exit) -/

/-- a call made from a state `s1` that differs from the function's context in some fields which the
    function restores on exit with `g` -/
theorem Good.frame {s s1 : St} {f f1 : Found} {r : Res} (g : St → St)
    (hctx : ∀ st : St, st.ctxEq s1 → (g st).ctxEq s) (hsc : ∀ st : St, (g st).sawCancel = st.sawCancel)
    (hv : s1.verbose = s.verbose) (hc : s.sawCancel = false → s1.sawCancel = false)
    (hs : Shape f f1) (h : Good s1 f1 r) : Good s f { r with st := g r.st } :=
  ⟨hctx _ h.ctx, hs.trans h.shape, h.errFailed, fun hv' => h.silent (by rw [hv]; exact hv'),
   fun hc' hsc' => h.cancel (hc hc') (by rw [hsc] at hsc'; exact hsc')⟩

theorem Good.frameMid {s s1 : St} {f1 : Found} {r : Res} (g : St → St)
    (hctx : ∀ st : St, st.ctxEq s1 → (g st).ctxEq s) (hsc : ∀ st : St, (g st).sawCancel = st.sawCancel)
    (hc : s.sawCancel = false → s1.sawCancel = false)
    (h : Good s1 f1 r) (hnf : r.status ≠ .failed) : Mid s (g r.st) :=
  ⟨hctx _ h.ctx, fun hc' => by
    rw [hsc]
    cases hsc' : r.st.sawCancel with
    | false => rfl
    | true => exact absurd (h.cancel (hc hc') hsc').1 hnf⟩

def restoreBase (s st : St) : St := { st with baseAddr := s.baseAddr, baseId := s.baseId }

def KVInv (s : St) (f : Found) (a : KVAcc) : Prop :=
  (∀ r, a.ret = some r → Good s f { r with st := restoreBase s r.st }) ∧
  (a.ret = none → Mid s (restoreBase s a.st) ∧ Shape f a.found)

theorem kvStep_inv (c : Ctx) {item : ItemK} (hI : GoodI item) (nx : Option Node) (id : Int)
    (s : St) (f : Found) (a : KVAcc) (kv : List Char × Item) (h : KVInv s f a) :
    KVInv s f (kvStep c item nx id a kv) := by
  unfold kvStep
  split
  · exact h
  · rename_i hcond
    have hnone : a.ret = none := by cases hr : a.ret <;> simp_all
    obtain ⟨hm, hs⟩ := h.2 hnone
    try dsimp only
    generalize hobj : kvObj id kv = obj
    generalize hs1 : kvEnter c a.st obj = s1
    have hr := executeNextItem_good c hI s1 nx obj a.found
    have hctx : ∀ st : St, st.ctxEq s1 → (restoreBase s st).ctxEq s := by
      intro st hst
      have := hm.1
      subst hs1
      simp [St.ctxEq, restoreBase, kvEnter] at *
      grind
    have hsc : ∀ st : St, (restoreBase s st).sawCancel = st.sawCancel := fun _ => rfl
    have hv : s1.verbose = s.verbose := by
      have := hm.verbose; subst hs1; simpa [restoreBase, kvEnter] using this
    have hc : s.sawCancel = false → s1.sawCancel = false := by
      intro hc'; have := hm.2 hc'; subst hs1; simpa [restoreBase, kvEnter] using this
    split
    · exact ⟨fun r hr' => by simp at hr'; subst hr'; exact Good.frame _ hctx hsc hv hc hs hr, fun h' => by simp at h'⟩
    · rename_i hnf
      have hm' := Good.frameMid (restoreBase s) hctx hsc hc hr hnf
      split
      · exact ⟨fun r hr' => by simp at hr', fun _ => ⟨hm', hs.trans hr.shape⟩⟩
      · exact ⟨fun r hr' => by simp [hnone] at hr', fun _ => ⟨hm', hs.trans hr.shape⟩⟩

theorem executeKeyValueMethod_good (c : Ctx) {item : ItemK} {any : AnyK} (hI : GoodI item) (hA : GoodA any)
    (s : St) (n : Node) (nx : Option Node) (v : Item) (f : Found) (unwrap : Bool) :
    Good s f (executeKeyValueMethod c item any s n nx v f unwrap) := by
  unfold executeKeyValueMethod
  split
  · split
    · exact unwrapTargetArray_good hA _ _ _ _
    · exact returnVerboseError_good (Mid.refl s) (Shape.refl f)
  · rename_i kvs
    split
    · exact Good.ret (Mid.refl s) (Shape.refl f) _ _ (by simp) (by simp)
    · split
      · exact Good.ret (Mid.refl s) (Shape.refl f) _ _ (by simp) (by simp)
      · try dsimp only
        generalize hid : (_ : Int) + s.baseId * 10000000000 = id
        have hinv : KVInv s f (kvs.foldl (kvStep c item nx id) ⟨s, f, .ok, none, false⟩) := by
          refine foldl_inv (KVInv s f) _ _ _ ?_ (fun a kv h => kvStep_inv c hI nx id s f a kv h)
          refine ⟨fun r hr => by simp at hr, fun _ => ⟨?_, Shape.refl f⟩⟩
          refine ⟨?_, fun h => by simpa [restoreBase] using h⟩
          simp [St.ctxEq, restoreBase]
        split
        · rename_i r hr
          exact hinv.1 r hr
        · rename_i hr
          obtain ⟨hm', hs'⟩ := hinv.2 hr
          exact Good.ret hm' hs' _ _ (by simp) (by simp)
  · exact returnVerboseError_good (Mid.refl s) (Shape.refl f)

theorem execMethodNode_good (c : Ctx) {item : ItemK} {any : AnyK} (hI : GoodI item) (hA : GoodA any)
    (s : St) (n : Node) (m : Method) (nx : Option Node) (v : Item) (f : Found) (unwrap : Bool) :
    Good s f (execMethodNode c item any s n m nx v f unwrap) := by
  unfold execMethodNode
  cases m <;> simp only
  all_goals first
    | exact execConvMethod_good c hI hA _ _ _ _ _ _ _
    | exact executeNextItem_good c hI _ _ _ _
    | exact execMethodSize_good c hI _ _ _ _
    | exact executeKeyValueMethod_good c hI hA _ _ _ _ _ _


/-! ## `.**` and the generic element loop -/

def restoreIgn (s st : St) : St := { st with ignoreSE := s.ignoreSE }

def AInv (s : St) (f : Found) (a : AAcc) : Prop :=
  (∀ r, a.ret = some r → Good s f { r with st := restoreIgn s r.st }) ∧
  (a.ret = none → Mid s (restoreIgn s a.st) ∧ Shape f a.found ∧ a.err = none)

theorem restoreIgn_ctx {s a s1 : St} (hm : Mid s (restoreIgn s a))
    (h1 : s1 = a ∨ s1 = { a with ignoreSE := true }) :
    ∀ st : St, st.ctxEq s1 → (restoreIgn s st).ctxEq s := by
  intro st hst
  have := hm.1
  rcases h1 with rfl | rfl <;> (simp [St.ctxEq, restoreIgn] at *; grind)

theorem anyVisit_inv {item : ItemK} (hI : GoodI item) (node : Option Node) (level first last : Nat)
    (ignore unwrapNext : Bool) (s : St) (f : Found) (a : AAcc) (v : Item) (h : AInv s f a)
    (hnone : a.ret = none) : AInv s f (anyVisit item node level first last ignore unwrapNext a v) := by
  unfold anyVisit
  obtain ⟨hm, hs, he⟩ := h.2 hnone
  split
  · split
    · rename_i n
      try dsimp only
      generalize hs1 : (if ignore = true then ({ a.st with ignoreSE := true } : St) else a.st) = s1
      have hs1' : s1 = a.st ∨ s1 = { a.st with ignoreSE := true } := by
        subst hs1; split <;> simp
      have hr := hI s1 n v a.found unwrapNext
      have hctx := restoreIgn_ctx hm hs1'
      have hsc : ∀ st : St, (restoreIgn s st).sawCancel = st.sawCancel := fun _ => rfl
      have hv : s1.verbose = s.verbose := by
        have := hm.verbose; rcases hs1' with rfl | rfl <;> simpa [restoreIgn] using this
      have hc : s.sawCancel = false → s1.sawCancel = false := by
        intro hc'; have := hm.2 hc'; rcases hs1' with rfl | rfl <;> simpa [restoreIgn] using this
      split
      · exact ⟨fun r hr' => by simp at hr'; subst hr'; exact Good.frame _ hctx hsc hv hc hs hr, fun h' => by simp at h'⟩
      · rename_i hcond
        have hnf : (item s1 n v a.found unwrapNext).status ≠ .failed := by
          intro hf; simp [hf] at hcond
        refine ⟨fun r hr' => by simp at hr', fun _ => ⟨Good.frameMid _ hctx hsc hc hr hnf, hs.trans hr.shape, ?_⟩⟩
        cases hre : (item s1 n v a.found unwrapNext).err with
        | none => rfl
        | some e => exact absurd (hr.errFailed (by simp [hre])) hnf
    · split
      · rename_i l hl
        refine ⟨fun r hr' => by simp [hnone] at hr', fun _ => ⟨hm, ?_, he⟩⟩
        refine hs.trans ?_
        rw [hl]
        exact ⟨by simp, fun l' hl' => ⟨[v], by simp at hl'; subst hl'; rfl⟩⟩
      · rename_i hfn
        refine ⟨fun r hr' => ?_, fun h' => by simp at h'⟩
        simp at hr'; subst hr'
        have : Shape f none := by rw [← hfn]; exact hs
        exact Good.ret hm this _ _ (by simp) (by simp)
  · exact h

theorem anyDescend_inv {any : AnyK} (hA : GoodA any) (node : Option Node) (level first last : Nat)
    (ignore unwrapNext : Bool) (s : St) (f : Found) (a : AAcc) (v : Item) (h : AInv s f a)
    (hnone : a.ret = none) : AInv s f (anyDescend any node level first last ignore unwrapNext a v) := by
  unfold anyDescend
  obtain ⟨hm, hs, he⟩ := h.2 hnone
  split
  · try dsimp only
    have hr := hA a.st node ((collection v).getD []) a.found (level + 1) first last ignore unwrapNext
    have hctx := restoreIgn_ctx hm (Or.inl rfl)
    have hsc : ∀ st : St, (restoreIgn s st).sawCancel = st.sawCancel := fun _ => rfl
    have hv : a.st.verbose = s.verbose := by have := hm.verbose; simpa [restoreIgn] using this
    have hc : s.sawCancel = false → a.st.sawCancel = false := by
      intro hc'; have := hm.2 hc'; simpa [restoreIgn] using this
    split
    · exact ⟨fun r hr' => by simp at hr'; subst hr'; exact Good.frame _ hctx hsc hv hc hs hr, fun h' => by simp at h'⟩
    · rename_i hcond
      have hnf : (any a.st node ((collection v).getD []) a.found (level + 1) first last ignore unwrapNext).status ≠ .failed := by
        intro hf; simp [hf] at hcond
      refine ⟨fun r hr' => by simp at hr', fun _ => ⟨Good.frameMid _ hctx hsc hc hr hnf, hs.trans hr.shape, ?_⟩⟩
      cases hre : (any a.st node ((collection v).getD []) a.found (level + 1) first last ignore unwrapNext).err with
      | none => rfl
      | some e => exact absurd (hr.errFailed (by simp [hre])) hnf
  · exact h

theorem anyStep_inv {item : ItemK} {any : AnyK} (hI : GoodI item) (hA : GoodA any) (node : Option Node)
    (level first last : Nat) (ignore unwrapNext : Bool) (s : St) (f : Found) (a : AAcc) (v : Item)
    (h : AInv s f a) : AInv s f (anyStep item any node level first last ignore unwrapNext a v) := by
  unfold anyStep
  split
  · exact h
  · rename_i hnone
    have h1 := anyVisit_inv hI node level first last ignore unwrapNext s f a v h hnone
    try dsimp only
    split
    · exact h1
    · rename_i hnone1
      exact anyDescend_inv hA node level first last ignore unwrapNext s f _ v h1 hnone1

theorem executeAnyItem_good {item : ItemK} {any : AnyK} (hI : GoodI item) (hA : GoodA any) (s : St)
    (node : Option Node) (vs : List Item) (f : Found) (level first last : Nat) (ignore unwrapNext : Bool) :
    Good s f (executeAnyItem item any s node vs f level first last ignore unwrapNext) := by
  unfold executeAnyItem
  split
  · exact Good.ret (Mid.refl s) (Shape.refl f) _ _ (by simp) (by simp)
  · try dsimp only
    have hinv : AInv s f (vs.foldl (anyStep item any node level first last ignore unwrapNext)
        ⟨s, f, .notFound, none, none⟩) := by
      refine foldl_inv (AInv s f) _ _ _ ?_ (fun a v h => anyStep_inv hI hA node level first last ignore unwrapNext s f a v h)
      refine ⟨fun r hr => by simp at hr, fun _ => ⟨⟨?_, fun h => by simpa [restoreIgn] using h⟩, Shape.refl f, rfl⟩⟩
      simp [St.ctxEq, restoreIgn]
    split
    · rename_i r hr
      exact hinv.1 r hr
    · rename_i hr
      obtain ⟨hm', hs', he'⟩ := hinv.2 hr
      rw [he']
      exact Good.ret hm' hs' _ _ (by simp) (by simp)

theorem anyInto_good (c : Ctx) {any : AnyK} (hA : GoodA any) (s : St) (first last : Nat)
    (nx : Option Node) (v : Item) (f : Found) : Good s f (anyInto c any s first last nx v f) := by
  unfold anyInto
  split
  · exact hA _ _ _ _ _ _ _ _ _
  · exact hA _ _ _ _ _ _ _ _ _
  · exact Good.ret (Mid.refl s) (Shape.refl f) _ _ (by simp) (by simp)

theorem execAnyNode_good (c : Ctx) {item : ItemK} {any : AnyK} (hI : GoodI item) (hA : GoodA any) (s : St)
    (first last : Nat) (nx : Option Node) (v : Item) (f : Found) :
    Good s f (execAnyNode c item any s first last nx v f) := by
  unfold execAnyNode
  have hsc : ∀ st : St, (restoreIgn s st).sawCancel = st.sawCancel := fun _ => rfl
  split
  · have hmS : Mid s (restoreIgn s s) := by
      refine ⟨?_, fun h => by simpa [restoreIgn] using h⟩
      simp [St.ctxEq, restoreIgn]
    have hr := executeNextItem_good c hI { s with ignoreSE := true } nx v f
    have hctx := restoreIgn_ctx hmS (Or.inr rfl)
    try dsimp only
    split
    · exact Good.frame (restoreIgn s) hctx hsc rfl (fun h => h) (Shape.refl f) hr
    · rename_i hcond
      have hnf : (executeNextItem c item { s with ignoreSE := true } nx v f).status ≠ .failed := by
        intro hf; simp [hf] at hcond
      have hm1 := Good.frameMid (restoreIgn s) hctx hsc (fun h => h) hr hnf
      have hctx1 := restoreIgn_ctx hm1 (Or.inl rfl)
      have hv : (executeNextItem c item { s with ignoreSE := true } nx v f).st.verbose = s.verbose := by
        have := hm1.verbose; simpa [restoreIgn] using this
      have hc : s.sawCancel = false → (executeNextItem c item { s with ignoreSE := true } nx v f).st.sawCancel = false := by
        intro hc'; have := hm1.2 hc'; simpa [restoreIgn] using this
      exact Good.frame (restoreIgn s) hctx1 hsc hv hc hr.shape (anyInto_good c hA _ _ _ _ _ _)
  · exact anyInto_good c hA _ _ _ _ _ _


/-! ## subscripts -/

def restoreInn (s st : St) : St := { st with innermost := s.innermost }

/-- a state inside `execArrayIndex` started at `s`: `s`'s context up to `innermostArraySize` -/
def IMid (s s1 : St) : Prop := Mid s (restoreInn s s1)

theorem IMid.ctx {s s1 : St} (hm : IMid s s1) : ∀ st : St, st.ctxEq s1 → (restoreInn s st).ctxEq s := by
  intro st hst
  have := hm.1
  simp [St.ctxEq, restoreInn] at *; grind

theorem IMid.verbose {s s1 : St} (hm : IMid s s1) : s1.verbose = s.verbose := by
  have := Mid.verbose hm; simpa [restoreInn] using this

theorem IMid.sc {s s1 : St} (hm : IMid s s1) : s.sawCancel = false → s1.sawCancel = false := by
  intro hc; have := hm.2 hc; simpa [restoreInn] using this

theorem restoreInn_sc (s : St) : ∀ st : St, (restoreInn s st).sawCancel = st.sawCancel := fun _ => rfl

/-- result of a subscript evaluation started in state `s1` (inside `execArrayIndex` at `s`) -/
def GoodIdx {α : Type} (s : St) (p : St × Except Err α) : Prop :=
  match p.2 with
  | .ok _ => IMid s p.1
  | .error e => (restoreInn s p.1).ctxEq s ∧ (s.sawCancel = false → p.1.sawCancel = true → e = .cancelled)

theorem getArrayIndex_good (c : Ctx) {item : ItemK} (hI : GoodI item) (s s1 : St) (hm : IMid s s1)
    (n : Node) (v : Item) : GoodIdx s (getArrayIndex c item s1 n v) := by
  unfold getArrayIndex
  have hr := executeItem_good c hI s1 n v (some [])
  try dsimp only
  have herr : ∀ e : Err, e ≠ .cancelled → GoodIdx (α := Int) s ((executeItem c item s1 n v (some [])).st, .error e) →
      True := fun _ _ _ => trivial
  split
  · rename_i hf
    split
    · rename_i e he
      refine ⟨hm.ctx _ hr.ctx, fun hc hsc => ?_⟩
      have := (hr.cancel (hm.sc hc) hsc).2
      simp_all
    · rename_i he
      refine ⟨hm.ctx _ hr.ctx, fun hc hsc => ?_⟩
      have := (hr.cancel (hm.sc hc) hsc).2
      simp_all
  · rename_i hnf
    have hmid : IMid s (executeItem c item s1 n v (some [])).st :=
      Good.frameMid (restoreInn s) hm.ctx (restoreInn_sc s) hm.sc hr hnf
    have herr2 : ∀ e : Err, GoodIdx (α := Int) s ((executeItem c item s1 n v (some [])).st, .error e) := by
      intro e
      refine ⟨hmid.1, fun hc hsc => ?_⟩
      have := hmid.sc hc; simp [this] at hsc
    split
    · split
      · exact hmid
      · exact herr2 _
      · exact herr2 _
    · exact herr2 _

theorem execSubscript_good (c : Ctx) {item : ItemK} (hI : GoodI item) (s s1 : St) (hm : IMid s s1)
    (sub : Node) (v : Item) (size : Int) : GoodIdx s (execSubscript c item s1 sub v size) := by
  unfold execSubscript
  split
  · rename_i l r _
    have h1 := getArrayIndex_good c hI s s1 hm l v
    split
    · rename_i s2 e heq
      rw [heq] at h1; exact h1
    · rename_i s2 from_ heq
      rw [heq] at h1
      have hm2 : IMid s s2 := h1
      cases r with
      | none =>
        simp only
        split
        · refine ⟨hm2.1, fun hc hsc => ?_⟩
          have := hm2.sc hc; simp [this] at hsc
        · exact hm2
      | some rn =>
        have h2 := getArrayIndex_good c hI s s2 hm2 rn v
        simp only
        split
        · rename_i e heq2
          unfold GoodIdx at h2; rw [heq2] at h2; exact h2
        · rename_i to_ heq2
          unfold GoodIdx at h2; rw [heq2] at h2
          have hm3 : IMid s (getArrayIndex c item s2 rn v).1 := h2
          split
          · refine ⟨hm3.1, fun hc hsc => ?_⟩
            have := hm3.sc hc; simp [this] at hsc
          · exact hm3
  · refine ⟨?_, fun hc hsc => ?_⟩
    · have := hm.1; simp [St.ctxEq, restoreInn] at *; grind
    · have := hm.sc hc; simp [this] at hsc
  · refine ⟨hm.1, fun hc hsc => ?_⟩
    have := hm.sc hc; simp [this] at hsc

def IInv (s : St) (f : Found) (a : IAcc) : Prop :=
  (∀ r, a.ret = some r → Good s f { r with st := restoreInn s r.st }) ∧
  (a.ret = none → IMid s a.st ∧ Shape f a.found)

theorem indexElemStep_inv (c : Ctx) {item : ItemK} (hI : GoodI item) (nx : Option Node) (s : St) (f : Found)
    (a : IAcc) (v : Item) (h : IInv s f a) : IInv s f (indexElemStep c item nx a v) := by
  unfold indexElemStep
  split
  · exact h
  · rename_i hsome
    have hnone : a.ret = none := by cases hr : a.ret <;> simp_all
    obtain ⟨hm, hs⟩ := h.2 hnone
    split
    · exact h
    · split
      · rename_i hcond
        refine ⟨fun r hr' => ?_, fun h' => by simp at h'⟩
        simp at hr'; subst hr'
        have hfn : a.found = none := by cases hf : a.found <;> simp_all
        have : Shape f none := by rw [← hfn]; exact hs
        exact Good.ret hm this _ _ (by simp) (by simp)
      · try dsimp only
        have hr := executeNextItem_good c hI a.st nx v a.found
        split
        · exact ⟨fun r hr' => by simp at hr'; subst hr'; exact Good.frame _ hm.ctx (restoreInn_sc s) hm.verbose hm.sc hs hr,
                 fun h' => by simp at h'⟩
        · rename_i hcond
          have hnf : (executeNextItem c item a.st nx v a.found).status ≠ .failed := by
            intro hf; simp [hf] at hcond
          exact ⟨fun r hr' => by simp at hr',
                 fun _ => ⟨Good.frameMid _ hm.ctx (restoreInn_sc s) hm.sc hr hnf, hs.trans hr.shape⟩⟩

theorem returnError_frame {s s1 : St} {f f1 : Found} (g : St → St) (hctx : (g s1).ctxEq s)
    (hsc : (g s1).sawCancel = s1.sawCancel) (hv : s1.verbose = s.verbose) (hs : Shape f f1) (e : Err)
    (hc : s.sawCancel = false → s1.sawCancel = true → e = .cancelled) :
    Good s f { (returnError s1 f1 e) with st := g (returnError s1 f1 e).st } := by
  unfold returnError
  split
  · rename_i hcond
    refine ⟨hctx, hs, fun _ => rfl, fun hv' h => ?_, fun hc' hsc' => ⟨rfl, ?_⟩⟩
    · simp at h; subst h; rw [hv, hv'] at hcond; simp [Err.isVerbose] at hcond
    · simp only [hsc] at hsc'; rw [hc hc' hsc']
  · rename_i hcond
    refine ⟨hctx, hs, fun _ => rfl, by simp, fun hc' hsc' => ⟨rfl, ?_⟩⟩
    simp only [hsc] at hsc'
    have := hc hc' hsc'; subst this
    simp [Err.isVerbose] at hcond

theorem indexSubStep_inv (c : Ctx) {item : ItemK} (hI : GoodI item) (nx : Option Node) (xs : List Item)
    (v : Item) (s : St) (f : Found) (a : IAcc) (sub : Node) (h : IInv s f a) :
    IInv s f (indexSubStep c item nx xs v a sub) := by
  unfold indexSubStep
  split
  · exact h
  · rename_i hsome
    have hnone : a.ret = none := by cases hr : a.ret <;> simp_all
    obtain ⟨hm, hs⟩ := h.2 hnone
    have hsub := execSubscript_good c hI s a.st hm sub v xs.length
    split
    · rename_i s1 e heq
      unfold GoodIdx at hsub; rw [heq] at hsub
      refine ⟨fun r hr' => ?_, fun h' => by simp at h'⟩
      simp at hr'; subst hr'
      have hv : s1.verbose = s.verbose := by
        have := hsub.1; simp [St.ctxEq, restoreInn] at this; exact this.2.2.2.2
      exact returnError_frame (restoreInn s) hsub.1 rfl hv hs e hsub.2
    · rename_i s1 from_ to_ heq
      unfold GoodIdx at hsub; rw [heq] at hsub
      refine foldl_inv (IInv s f) _ _ _ ?_ (fun a' v' h' => indexElemStep_inv c hI nx s f a' v' h')
      exact ⟨fun r hr' => by simp [hnone] at hr', fun _ => ⟨hsub, hs⟩⟩

theorem execArrayIndex_good (c : Ctx) {item : ItemK} (hI : GoodI item) (s : St) (subs : List Node)
    (nx : Option Node) (v : Item) (f : Found) : Good s f (execArrayIndex c item s subs nx v f) := by
  unfold execArrayIndex
  try dsimp only
  split
  · exact structural_good (Mid.refl s) (Shape.refl f)
  · rename_i xs _
    have hinv : IInv s f (subs.foldl (indexSubStep c item nx xs v)
        ⟨{ s with innermost := xs.length }, f, .notFound, none, none⟩) := by
      refine foldl_inv (IInv s f) _ _ _ ?_ (fun a sub h => indexSubStep_inv c hI nx xs v s f a sub h)
      refine ⟨fun r hr => by simp at hr, fun _ => ⟨⟨?_, fun h => by simpa [restoreInn] using h⟩, Shape.refl f⟩⟩
      simp [St.ctxEq, restoreInn]
    split
    · rename_i r hr
      exact hinv.1 r hr
    · rename_i hr
      obtain ⟨hm', hs'⟩ := hinv.2 hr
      exact Good.ret hm' hs' _ _ (by simp) (by simp)


/-! ## dispatch and the induction over fuel -/

theorem execBinaryNode_good (c : Ctx) {item : ItemK} {bool : BoolK} {any : AnyK} (hI : GoodI item)
    (hB : GoodB bool) (hA : GoodA any) (s : St) (n : Node) (op : BinOp) (l r nx : Option Node) (v : Item)
    (f : Found) (unwrap : Bool) : Good s f (execBinaryNode c item bool any s n op l r nx v f unwrap) := by
  unfold execBinaryNode
  split
  · exact appendBoolResult_good c hI s nx f _ (hB _ _ _ _)
  · split
    · exact execBinaryMathExpr_good c hI _ _ _ _ _ _ _
    · split
      · exact execConvMethod_good c hI hA _ _ _ _ _ _ _
      · exact Good.ret (Mid.refl s) (Shape.refl f) _ _ (fun _ => rfl) (by simp)

theorem execUnaryNode_good (c : Ctx) {item : ItemK} {bool : BoolK} {any : AnyK} (hI : GoodI item)
    (hB : GoodB bool) (hA : GoodA any) (s : St) (n : Node) (op : UnOp) (x nx : Option Node) (v : Item)
    (f : Found) (unwrap : Bool) : Good s f (execUnaryNode c item bool any s n op x nx v f unwrap) := by
  unfold execUnaryNode
  split
  · exact appendBoolResult_good c hI s nx f _ (hB _ _ _ _)
  · exact appendBoolResult_good c hI s nx f _ (hB _ _ _ _)
  · exact appendBoolResult_good c hI s nx f _ (hB _ _ _ _)
  · split
    · exact unwrapTargetArray_good hA _ _ _ _
    · split
      · exact panicRes_good s f
      · rename_i cond
        have hp := executeNestedBoolItem_good hB s cond v
        try dsimp only
        split
        · rename_i he
          refine ⟨hp.ctx, Shape.refl f, fun _ => rfl, fun _ => hp.noVerbose, fun hc hsc => ⟨rfl, (hp.cancel hc hsc).2⟩⟩
        · rename_i he
          have hne : (executeNestedBoolItem bool s cond v).err = none := by
            cases h : (executeNestedBoolItem bool s cond v).err <;> simp_all
          have hm := GoodP.mid hp hne
          split
          · exact Good.ret hm (Shape.refl f) _ _ (by simp) (by simp)
          · exact Good.tail hm (Shape.refl f) (executeNextItem_good c hI _ _ _ _)
  · exact execUnaryMathExpr_good c hI _ _ _ _ _ _
  · exact execUnaryMathExpr_good c hI _ _ _ _ _ _
  · split
    · exact hA _ _ _ _ _ _ _ _ _
    · exact executeDateTimeMethod_good c hI _ _ _ _ _ _

theorem dispatch_good (c : Ctx) {item : ItemK} {bool : BoolK} {any : AnyK} (hI : GoodI item)
    (hB : GoodB bool) (hA : GoodA any) (s : St) (n : Node) (v : Item) (f : Found) (unwrap : Bool) :
    Good s f (dispatch c item bool any s n v f unwrap) := by
  unfold dispatch
  split
  · exact execConstNode_good c hI hA _ _ _ _ _ _ _
  · exact execLiteral_good c hI _ _ _ _
  · exact execLiteral_good c hI _ _ _ _
  · exact execLiteral_good c hI _ _ _ _
  · exact execVariable_good c hI _ _ _ _
  · exact execKeyNode_good c hI hA _ _ _ _ _ _ _
  · exact execBinaryNode_good c hI hB hA _ _ _ _ _ _ _ _ _
  · exact execUnaryNode_good c hI hB hA _ _ _ _ _ _ _ _
  · exact appendBoolResult_good c hI s _ f _ (hB _ _ _ _)
  · exact execMethodNode_good c hI hA _ _ _ _ _ _ _
  · exact execAnyNode_good c hI hA _ _ _ _ _ _
  · exact execArrayIndex_good c hI _ _ _ _ _

theorem oofRes_good (s : St) (f : Found) : Good s f ⟨{ s with oof := true }, f, .failed, some .invalid⟩ := by
  refine ⟨?_, Shape.refl f, fun _ => rfl, by simp, fun hc hsc => by simp [hc] at hsc⟩
  simp [St.ctxEq]

/-- **the invariant holds for the three dispatchers, for every fuel** -/
theorem good_all (c : Ctx) : ∀ fuel : Nat,
    GoodI (xItem c fuel) ∧ GoodB (xBool c fuel) ∧ GoodA (xAny c fuel) := by
  intro fuel
  induction fuel with
  | zero =>
    refine ⟨fun s n v f u => ?_, fun s n v b => ?_, fun s n vs f l a b i u => ?_⟩
    · simp only [xItem]; exact oofRes_good s f
    · simp only [xBool]
      refine ⟨?_, fun _ => rfl, by simp, fun hc hsc => by simp [hc] at hsc⟩
      simp [St.ctxEq]
    · simp only [xAny]; exact oofRes_good s f
  | succ fuel ih =>
    obtain ⟨hI, hB, hA⟩ := ih
    refine ⟨fun s n v f u => ?_, fun s n v b => ?_, fun s n vs f l a b i u => ?_⟩
    · simp only [xItem]
      split
      · refine ⟨?_, Shape.refl f, fun _ => rfl, by simp, fun _ _ => ⟨rfl, rfl⟩⟩
        simp [St.ctxEq]
      · rename_i s' hpoll
        have hs' : Mid s s' := by
          unfold poll at hpoll
          split at hpoll
          · simp at hpoll; subst hpoll; exact Mid.refl s
          · simp at hpoll
          · simp at hpoll; subst hpoll
            exact ⟨by simp [St.ctxEq], fun h => h⟩
        exact Good.tail hs' (Shape.refl f) (dispatch_good c hI hB hA _ _ _ _ _)
    · simp only [xBool]; exact executeBoolItem_good c hI hB _ _ _ _
    · simp only [xAny]; exact executeAnyItem_good hI hA _ _ _ _ _ _ _ _ _

theorem xItem_good (c : Ctx) (fuel : Nat) (s : St) (n : Node) (v : Item) (f : Found) (u : Bool) :
    Good s f (xItem c fuel s n v f u) := (good_all c fuel).1 s n v f u

theorem xBool_good (c : Ctx) (fuel : Nat) (s : St) (n : Node) (v : Item) (b : Bool) :
    GoodP s (xBool c fuel s n v b) := (good_all c fuel).2.1 s n v b

end Exec
end Sqljson
