import Sqljson.Lemmas.Total
/-!
# Arithmetic of `F64.roundPos` and of the shortest-digits search (`Decimal.shortest`)

Everything is over `Nat`/`Int`; a rational `num/den` is compared with `c * 2^E` (`E : Int`) in the
cross-multiplied form `c * D den E ≤ N num E` where `N num E = num * 2^(-E).toNat`,
`D den E = den * 2^E.toNat` (one of the two powers is `1`).

Contents
* `pickExp_spec`, `pickExp_unique` — `F64.pickExp num den` is the unique exponent `E ≥ minExp` at which the
  quotient `⌊num/den / 2^E⌋` has 53 bits (or fewer, at `E = minExp`): `ExpOK`.
* `roundPos_mid`, `roundPos_carry` — sufficient conditions for `roundPos num den = fin m e`: `num/den` strictly
  within half a unit (at exponent `e`) of `m`, resp. within half a unit below `2^53` (carry into the next binade).
* `roundPos_scale`, `roundPos_congr` — `roundPos` depends on the fraction only.
* `digitCount_*`, `log10Floor_spec` (`10^k ≤ num/den < 10^(k+1)`), `log10Floor_bounds`.
* `scale10_unif`, `scale10_strip` — `scale10` uniformly in the sign of the exponent; trailing zeros.
* `foundFrom`/`found` (which branch ends the search of `shortest`), `shortestFrom_sound`, `found_of_17`.
* `neighbour_rounds`, `cand_17`, `found_wf`, `shortest_roundtrips` — **17 significant decimal digits determine
  a binary64**: for every well-formed nonzero `(m, e)` one of the two 17-digit neighbours of the exact value
  rounds back to it, so the search succeeds and its result parses back.
* text layer: `takeMant_allDig`, `takeMant_layoutF`, `layoutF_shape`, `parseFloat_digits`, `parse_layoutF`
  (`parseFloat (sign ++ layoutF (formatNat c) p) = .ok (scale10 neg c p)`).
-/

namespace Sqljson.FloatText
open Sqljson

/-! ## scaled numerator / denominator -/

def N (num : Nat) (E : Int) : Nat := num * 2 ^ (-E).toNat
def D (den : Nat) (E : Int) : Nat := den * 2 ^ E.toNat
def Q (num den : Nat) (E : Int) : Nat := N num E / D den E

theorem qr_eq (num den : Nat) (E : Int) :
    F64.qr num den E = (N num E / D den E, N num E % D den E, D den E) := by
  unfold F64.qr N D
  split
  · rename_i h
    have : (-E).toNat = 0 := by omega
    rw [this, Nat.pow_zero, Nat.mul_one]
  · rename_i h
    have : E.toNat = 0 := by omega
    rw [this, Nat.pow_zero, Nat.mul_one]

theorem D_pos {den : Nat} (hd : 0 < den) (E : Int) : 0 < D den E :=
  Nat.mul_pos hd (Nat.pow_pos (by decide))

theorem N_pos {num : Nat} (hn : 0 < num) (E : Int) : 0 < N num E :=
  Nat.mul_pos hn (Nat.pow_pos (by decide))

/-- going from `E` to `E + 1` halves the scaled value: either the denominator doubles or the
    numerator halves -/
theorem step_cases (num den : Nat) (E : Int) :
    (D den (E + 1) = 2 * D den E ∧ N num (E + 1) = N num E) ∨
    (D den (E + 1) = D den E ∧ N num E = 2 * N num (E + 1)) := by
  unfold D N
  by_cases h : 0 ≤ E
  · left
    have h1 : (E + 1).toNat = E.toNat + 1 := by omega
    have h2 : (-(E + 1)).toNat = 0 := by omega
    have h3 : (-E).toNat = 0 := by omega
    rw [h1, h2, h3, Nat.pow_succ]
    constructor
    · rw [Nat.mul_comm 2, Nat.mul_assoc]
    · rfl
  · right
    have h1 : (E + 1).toNat = 0 := by omega
    have h2 : E.toNat = 0 := by omega
    have h3 : (-E).toNat = (-(E + 1)).toNat + 1 := by omega
    rw [h1, h2, h3, Nat.pow_succ]
    constructor
    · rfl
    · rw [Nat.mul_comm 2, Nat.mul_assoc]

theorem Q_succ (num den : Nat) (E : Int) : Q num den (E + 1) = Q num den E / 2 := by
  unfold Q
  rcases step_cases num den E with ⟨h1, h2⟩ | ⟨h1, h2⟩
  · rw [h1, h2, Nat.mul_comm 2, Nat.div_div_eq_div_mul]
  · rw [h1, h2, Nat.mul_comm 2, Nat.div_div_eq_div_mul, Nat.mul_div_mul_right _ _ (by decide)]

theorem Q_add (num den : Nat) (E : Int) (j : Nat) : Q num den (E + j) = Q num den E / 2 ^ j := by
  induction j with
  | zero => simp
  | succ j ih =>
    have : E + ((j + 1 : Nat) : Int) = (E + j) + 1 := by omega
    rw [this, Q_succ, ih, Nat.div_div_eq_div_mul, Nat.pow_succ]

theorem Q_add_le (num den : Nat) (E : Int) (j : Nat) (hj : 0 < j) :
    Q num den (E + j) ≤ Q num den E / 2 := by
  obtain ⟨j', rfl⟩ : ∃ j', j = j' + 1 := ⟨j - 1, by omega⟩
  rw [Q_add, Nat.pow_succ, Nat.mul_comm, ← Nat.div_div_eq_div_mul]
  exact Nat.div_le_self _ _

theorem Q_lt_iff {num den : Nat} (hd : 0 < den) (E : Int) (c : Nat) :
    Q num den E < c ↔ N num E < c * D den E := by
  unfold Q
  exact Nat.div_lt_iff_lt_mul (D_pos hd E)

theorem le_Q_iff {num den : Nat} (hd : 0 < den) (E : Int) (c : Nat) :
    c ≤ Q num den E ↔ c * D den E ≤ N num E := by
  unfold Q
  exact Nat.le_div_iff_mul_le (D_pos hd E)

/-! ## `pickExp` -/

/-- what `pickExp` is supposed to return -/
def ExpOK (num den : Nat) (E : Int) : Prop :=
  F64.minExp ≤ E ∧ Q num den E < 2 ^ 53 ∧ (2 ^ 52 ≤ Q num den E ∨ E = F64.minExp)

theorem expOK_unique {num den : Nat} {E E' : Int} (h : ExpOK num den E) (h' : ExpOK num den E') :
    E = E' := by
  have key : ∀ {A B : Int}, ExpOK num den A → ExpOK num den B → ¬ A < B := by
    intro A B hA hB hlt
    obtain ⟨a1, a2, _⟩ := hA
    obtain ⟨_, _, b3⟩ := hB
    have hj : B = A + ((B - A).toNat : Nat) := by omega
    have hle := Q_add_le num den A (B - A).toNat (by omega)
    rw [← hj] at hle
    rcases b3 with b3 | b3
    · omega
    · omega
  have k1 := key h h'
  have k2 := key h' h
  omega

/-- the quotient at the first estimate has 52 or 53 bits -/
theorem Q_e0 {num den : Nat} (hn : 0 < num) (hd : 0 < den) :
    2 ^ 51 ≤ Q num den ((Nat.log2 num : Int) - (Nat.log2 den : Int) - 52) ∧
    Q num den ((Nat.log2 num : Int) - (Nat.log2 den : Int) - 52) < 2 ^ 53 := by
  have a1 : 2 ^ Nat.log2 num ≤ num := Nat.log2_self_le (by omega)
  have a2 : num < 2 ^ (Nat.log2 num + 1) := Nat.lt_log2_self
  have b1 : 2 ^ Nat.log2 den ≤ den := Nat.log2_self_le (by omega)
  have b2 : den < 2 ^ (Nat.log2 den + 1) := Nat.lt_log2_self
  generalize Nat.log2 num = a at *
  generalize Nat.log2 den = b at *
  rw [Nat.pow_succ] at a2 b2
  rw [le_Q_iff hd, Q_lt_iff hd]
  unfold N D
  by_cases h : (0 : Int) ≤ (a : Int) - (b : Int) - 52
  · have h1 : (-((a : Int) - (b : Int) - 52)).toNat = 0 := by omega
    obtain ⟨t, ht⟩ : ∃ t : Nat, ((a : Int) - (b : Int) - 52).toNat = t := ⟨_, rfl⟩
    have hab : a = b + 52 + t := by omega
    rw [h1, ht, Nat.pow_zero, Nat.mul_one]
    have hA : 2 ^ a = 2 ^ 52 * (2 ^ b * 2 ^ t) := by
      rw [hab, Nat.pow_add, Nat.pow_add]; ac_rfl
    have hx1 : 2 ^ b * 2 ^ t ≤ den * 2 ^ t := Nat.mul_le_mul_right _ b1
    have hx2 : den * 2 ^ t < 2 ^ b * 2 * 2 ^ t := Nat.mul_lt_mul_of_pos_right b2 (Nat.pow_pos (by decide))
    have hx3 : 2 ^ b * 2 * 2 ^ t = 2 * (2 ^ b * 2 ^ t) := by ac_rfl
    generalize 2 ^ b * 2 ^ t = y at *
    generalize den * 2 ^ t = x at *
    generalize 2 ^ a = A at *
    omega
  · have h1 : ((a : Int) - (b : Int) - 52).toNat = 0 := by omega
    obtain ⟨s, hs⟩ : ∃ s : Nat, (-((a : Int) - (b : Int) - 52)).toNat = s := ⟨_, rfl⟩
    have hab : a + s = b + 52 := by omega
    rw [h1, hs, Nat.pow_zero, Nat.mul_one]
    have hA : 2 ^ a * 2 ^ s = 2 ^ 52 * 2 ^ b := by
      rw [← Nat.pow_add, hab, Nat.pow_add]; ac_rfl
    have hx1 : 2 ^ a * 2 ^ s ≤ num * 2 ^ s := Nat.mul_le_mul_right _ a1
    have hx2 : num * 2 ^ s < 2 ^ a * 2 * 2 ^ s := Nat.mul_lt_mul_of_pos_right a2 (Nat.pow_pos (by decide))
    have hx3 : 2 ^ a * 2 * 2 ^ s = 2 * (2 ^ a * 2 ^ s) := by ac_rfl
    generalize 2 ^ a * 2 ^ s = w at *
    generalize num * 2 ^ s = u at *
    generalize 2 ^ b = B at *
    omega

theorem pickExp_spec {num den : Nat} (hn : 0 < num) (hd : 0 < den) :
    ExpOK num den (F64.pickExp num den) := by
  obtain ⟨q1, q2⟩ := Q_e0 hn hd
  unfold F64.pickExp
  simp only [qr_eq]
  generalize (Nat.log2 num : Int) - (Nat.log2 den : Int) - 52 = e0 at *
  change ExpOK num den
    (if (if Q num den e0 ≥ 2 ^ 53 then e0 + 1 else if Q num den e0 < 2 ^ 52 then e0 - 1 else e0) < F64.minExp
      then F64.minExp
      else (if Q num den e0 ≥ 2 ^ 53 then e0 + 1 else if Q num den e0 < 2 ^ 52 then e0 - 1 else e0))
  have hnot : ¬ (Q num den e0 ≥ 2 ^ 53) := by omega
  rw [if_neg hnot]
  -- the candidate before clamping
  have hcand : ∃ e1 : Int, (if Q num den e0 < 2 ^ 52 then e0 - 1 else e0) = e1 ∧
      2 ^ 52 ≤ Q num den e1 ∧ Q num den e1 < 2 ^ 53 := by
    by_cases hlt : Q num den e0 < 2 ^ 52
    · refine ⟨e0 - 1, by rw [if_pos hlt], ?_⟩
      have := Q_succ num den (e0 - 1)
      rw [Int.sub_add_cancel] at this
      omega
    · exact ⟨e0, by rw [if_neg hlt], by omega, q2⟩
  obtain ⟨e1, he1, c1, c2⟩ := hcand
  rw [he1]
  by_cases hcl : e1 < F64.minExp
  · rw [if_pos hcl]
    have hj : F64.minExp = e1 + ((F64.minExp - e1).toNat : Nat) := by omega
    have hle := Q_add_le num den e1 (F64.minExp - e1).toNat (by omega)
    rw [← hj] at hle
    exact ⟨Int.le_refl _, by omega, Or.inr rfl⟩
  · rw [if_neg hcl]
    exact ⟨by omega, c2, Or.inl c1⟩

theorem pickExp_unique {num den : Nat} (hn : 0 < num) (hd : 0 < den) {E : Int} (h : ExpOK num den E) :
    F64.pickExp num den = E :=
  expOK_unique (pickExp_spec hn hd) h

/-! ## `halfEven` and `roundPos` -/

/-- an integer strictly within one half of `n/d` is what `halfEven` returns -/
theorem halfEven_eq {n d t : Nat} (hd : 0 < d) (h1 : 2 * (t * d) < 2 * n + d) (h2 : 2 * n < 2 * (t * d) + d) :
    F64.halfEven (n / d) (n % d) d = t := by
  have hdiv : d * (n / d) + n % d = n := Nat.div_add_mod n d
  have hmod : n % d < d := Nat.mod_lt _ hd
  generalize n / d = q at *
  generalize n % d = r at *
  rw [Nat.mul_comm d q] at hdiv
  -- q = t or q + 1 = t
  have hq : q = t ∨ q + 1 = t := by
    rcases Nat.lt_trichotomy q t with hlt | heq | hgt
    · by_cases hq1 : q + 1 = t
      · exact Or.inr hq1
      · exfalso
        have : (q + 2) * d ≤ t * d := Nat.mul_le_mul_right _ (by omega)
        rw [Nat.add_mul] at this
        omega
    · exact Or.inl heq
    · exfalso
      have : (t + 1) * d ≤ q * d := Nat.mul_le_mul_right _ (by omega)
      rw [Nat.add_mul] at this
      omega
  unfold F64.halfEven
  rcases hq with rfl | rfl
  · have : ¬ (2 * r > d) := by omega
    have h' : 2 * r < d := by omega
    rw [if_neg this, if_pos h']
  · have : 2 * r > d := by rw [Nat.add_mul] at h1; omega
    rw [if_pos this]

theorem finish_fin (neg : Bool) (m : Nat) (e : Int) (he : e ≤ F64.maxExp) :
    F64.finish neg m e = .fin neg m e := by
  unfold F64.finish
  rw [if_neg (by omega)]

/-- `num/den` strictly within half a unit of `m * 2^e`, and `e` the right exponent for it -/
theorem roundPos_mid (neg : Bool) {num den m : Nat} {e : Int} (hn : 0 < num) (hd : 0 < den)
    (he1 : F64.minExp ≤ e) (he2 : e ≤ F64.maxExp) (hm : m < 2 ^ 53)
    (hlo : 2 * (m * D den e) < 2 * N num e + D den e) (hhi : 2 * N num e < 2 * (m * D den e) + D den e)
    (hnorm : 2 ^ 52 * D den e ≤ N num e ∨ e = F64.minExp) :
    F64.roundPos neg num den = .fin neg m e := by
  have hmD : m * D den e ≤ (2 ^ 53 - 1) * D den e := Nat.mul_le_mul_right _ (by omega)
  have hD := D_pos hd e
  have hE : F64.pickExp num den = e := by
    apply pickExp_unique hn hd
    refine ⟨he1, ?_, ?_⟩
    · rw [Q_lt_iff hd]; omega
    · rcases hnorm with h | h
      · left; rw [le_Q_iff hd]; exact h
      · right; exact h
  unfold F64.roundPos
  rw [if_neg (by omega)]
  simp only [hE, qr_eq, halfEven_eq hD hlo hhi]
  rw [if_neg (by omega)]
  exact finish_fin _ _ _ he2

/-- `num/den` strictly within half a unit below `2^53 * 2^e`: rounds up into the next binade -/
theorem roundPos_carry (neg : Bool) {num den : Nat} {e : Int} (hn : 0 < num) (hd : 0 < den)
    (he1 : F64.minExp ≤ e) (he2 : e + 1 ≤ F64.maxExp)
    (hlo : (2 ^ 54 - 1) * D den e < 2 * N num e) (hhi : N num e < 2 ^ 53 * D den e) :
    F64.roundPos neg num den = .fin neg (2 ^ 52) (e + 1) := by
  have hD := D_pos hd e
  have hE : F64.pickExp num den = e := by
    apply pickExp_unique hn hd
    refine ⟨he1, ?_, ?_⟩
    · rw [Q_lt_iff hd]; omega
    · left; rw [le_Q_iff hd]; omega
  have hh : F64.halfEven (N num e / D den e) (N num e % D den e) (D den e) = 2 ^ 53 :=
    halfEven_eq hD (by omega) (by omega)
  unfold F64.roundPos
  rw [if_neg (by omega)]
  simp only [hE, qr_eq, hh, if_true]
  exact finish_fin _ _ _ he2

/-! ## `roundPos` depends on the fraction only -/

theorem N_scale (num t : Nat) (E : Int) : N (num * t) E = N num E * t := by
  unfold N; ac_rfl

theorem D_scale (den t : Nat) (E : Int) : D (den * t) E = D den E * t := by
  unfold D; ac_rfl

theorem Q_scale (num den t : Nat) (ht : 0 < t) (E : Int) : Q (num * t) (den * t) E = Q num den E := by
  unfold Q
  rw [N_scale, D_scale, Nat.mul_div_mul_right _ _ ht]

theorem halfEven_scale (q r d t : Nat) (ht : 0 < t) :
    F64.halfEven q (r * t) (d * t) = F64.halfEven q r d := by
  unfold F64.halfEven
  have e1 : (2 * (r * t) > d * t) ↔ (2 * r > d) := by
    rw [← Nat.mul_assoc]
    exact ⟨fun h => Nat.lt_of_mul_lt_mul_right h, fun h => Nat.mul_lt_mul_of_pos_right h ht⟩
  have e2 : (2 * (r * t) < d * t) ↔ (2 * r < d) := by
    rw [← Nat.mul_assoc]
    exact ⟨fun h => Nat.lt_of_mul_lt_mul_right h, fun h => Nat.mul_lt_mul_of_pos_right h ht⟩
  simp only [e1, e2]

theorem roundPos_scale (neg : Bool) (num den t : Nat) (hd : 0 < den) (ht : 0 < t) :
    F64.roundPos neg (num * t) (den * t) = F64.roundPos neg num den := by
  by_cases hn : num = 0
  · subst hn; simp [F64.roundPos]
  · have hn' : 0 < num := by omega
    have hE : F64.pickExp (num * t) (den * t) = F64.pickExp num den := by
      apply pickExp_unique (Nat.mul_pos hn' ht) (Nat.mul_pos hd ht)
      have := pickExp_spec hn' hd
      unfold ExpOK at this ⊢
      rw [Q_scale _ _ _ ht]
      exact this
    have hnt : num * t ≠ 0 := by
      have := Nat.mul_pos hn' ht; omega
    unfold F64.roundPos
    rw [if_neg hn, if_neg hnt]
    simp only [hE, qr_eq, N_scale, D_scale, Nat.mul_div_mul_right _ _ ht, Nat.mul_mod_mul_right,
      halfEven_scale _ _ _ _ ht]

/-- fractions with equal cross products round to the same value -/
theorem roundPos_congr (neg : Bool) {n d n' d' : Nat} (hd : 0 < d) (hd' : 0 < d') (h : n * d' = n' * d) :
    F64.roundPos neg n d = F64.roundPos neg n' d' := by
  rw [← roundPos_scale neg n d d' hd hd', ← roundPos_scale neg n' d' d hd' hd, h, Nat.mul_comm d d']

/-! ## digit counts and `log10Floor` -/

theorem digitCount_pos (n : Nat) : 0 < Decimal.digitCount n := Nat.length_toDigits_pos

theorem digitCount_le_iff (n k : Nat) (hk : 0 < k) : Decimal.digitCount n ≤ k ↔ n < 10 ^ k :=
  Nat.length_toDigits_le_iff (by decide) hk

theorem lt_pow_digitCount (n : Nat) : n < 10 ^ Decimal.digitCount n :=
  (digitCount_le_iff n _ (digitCount_pos n)).mp (Nat.le_refl _)

theorem pow_digitCount_le (n : Nat) (hn : 0 < n) : 10 ^ (Decimal.digitCount n - 1) ≤ n := by
  by_cases h1 : Decimal.digitCount n = 1
  · rw [h1]; show 1 ≤ n; omega
  · have hp := digitCount_pos n
    have := not_congr (digitCount_le_iff n (Decimal.digitCount n - 1) (by omega))
    have h2 : ¬ (Decimal.digitCount n ≤ Decimal.digitCount n - 1) := by omega
    have := this.mp h2
    omega

theorem digitCount_eq (n d : Nat) (h1 : 10 ^ d ≤ n) (h2 : n < 10 ^ (d + 1)) : Decimal.digitCount n = d + 1 := by
  have a := (digitCount_le_iff n (d + 1) (by omega)).mpr h2
  by_cases hd : d = 0
  · have := digitCount_pos n; omega
  · have := (not_congr (digitCount_le_iff n d (by omega))).mpr (by omega)
    omega

theorem digitCount_mul_pow10 (c k : Nat) (hc : c ≠ 0) :
    Decimal.digitCount (c * 10 ^ k) = Decimal.digitCount c + k := by
  have hp := digitCount_pos c
  have h1 := pow_digitCount_le c (by omega)
  have h2 := lt_pow_digitCount c
  have e : Decimal.digitCount c + k = (Decimal.digitCount c - 1 + k) + 1 := by omega
  rw [e]
  apply digitCount_eq
  · rw [Nat.pow_add]; exact Nat.mul_le_mul_right _ h1
  · have : Decimal.digitCount c - 1 + k + 1 = Decimal.digitCount c + k := by omega
    rw [this, Nat.pow_add]
    exact Nat.mul_lt_mul_of_pos_right h2 (Nat.pow_pos (by decide))

/-- `10^(k+1)` against `10^k`, as pairs of natural powers -/
theorem pow10_step (k : Int) :
    (10 ^ (k + 1).toNat = 10 * 10 ^ k.toNat ∧ 10 ^ (-(k + 1)).toNat = 10 ^ (-k).toNat) ∨
    (10 ^ (k + 1).toNat = 10 ^ k.toNat ∧ 10 ^ (-k).toNat = 10 * 10 ^ (-(k + 1)).toNat) := by
  by_cases h : 0 ≤ k
  · left
    have h1 : (k + 1).toNat = k.toNat + 1 := by omega
    have h2 : (-(k + 1)).toNat = 0 := by omega
    have h3 : (-k).toNat = 0 := by omega
    rw [h1, h2, h3, Nat.pow_succ, Nat.mul_comm]
    exact ⟨rfl, rfl⟩
  · right
    have h1 : (k + 1).toNat = 0 := by omega
    have h2 : k.toNat = 0 := by omega
    have h3 : (-k).toNat = (-(k + 1)).toNat + 1 := by omega
    rw [h1, h2, h3, Nat.pow_succ, Nat.mul_comm]
    exact ⟨rfl, rfl⟩

/-- `num/den ≥ 10^k`, cross-multiplied -/
def Ge10 (num den : Nat) (k : Int) : Prop := den * 10 ^ k.toNat ≤ num * 10 ^ (-k).toNat

instance (num den : Nat) (k : Int) : Decidable (Ge10 num den k) := by unfold Ge10; infer_instance

theorem ge10_antitone_step {num den : Nat} {k : Int} (h : Ge10 num den (k + 1)) : Ge10 num den k := by
  unfold Ge10 at *
  rcases pow10_step k with ⟨a, b⟩ | ⟨a, b⟩
  · rw [a, b] at h
    have : den * (10 * 10 ^ k.toNat) = 10 * (den * 10 ^ k.toNat) := by ac_rfl
    omega
  · rw [a] at h
    rw [b]
    have : num * (10 * 10 ^ (-(k + 1)).toNat) = 10 * (num * 10 ^ (-(k + 1)).toNat) := by ac_rfl
    omega

theorem ge10_antitone {num den : Nat} {k : Int} (j : Nat) (h : Ge10 num den (k + j)) : Ge10 num den k := by
  induction j with
  | zero => simpa using h
  | succ j ih =>
    apply ih
    apply ge10_antitone_step
    have : k + ((j + 1 : Nat) : Int) = k + (j : Int) + 1 := by omega
    rw [← this]; exact h

/-- `num/den ≥ 10^(dn - 1 - dd)` and `< 10^(dn - dd + 1)` for the digit counts `dn`, `dd` -/
theorem ge10_est {num den : Nat} (hn : 0 < num) (hd : 0 < den) :
    Ge10 num den ((Decimal.digitCount num : Int) - (Decimal.digitCount den : Int) - 1) ∧
    ¬ Ge10 num den ((Decimal.digitCount num : Int) - (Decimal.digitCount den : Int) + 1) := by
  have a0 := digitCount_pos num
  have b0 := digitCount_pos den
  have a1 := pow_digitCount_le num hn
  have a2 := lt_pow_digitCount num
  have b1 := pow_digitCount_le den hd
  have b2 := lt_pow_digitCount den
  generalize Decimal.digitCount num = dn at *
  generalize Decimal.digitCount den = dd at *
  unfold Ge10
  constructor
  · -- den * 10^k⁺ < 10^dd * 10^k⁺ ,  10^(dn-1) * 10^k⁻ ≤ num * 10^k⁻ , and 10^dd * 10^k⁺ = 10^(dn-1) * 10^k⁻
    have key : 10 ^ dd * 10 ^ ((dn : Int) - (dd : Int) - 1).toNat
        = 10 ^ (dn - 1) * 10 ^ (-((dn : Int) - (dd : Int) - 1)).toNat := by
      rw [← Nat.pow_add, ← Nat.pow_add]; congr 1; omega
    have h1 : den * 10 ^ ((dn : Int) - (dd : Int) - 1).toNat ≤ 10 ^ dd * 10 ^ ((dn : Int) - (dd : Int) - 1).toNat :=
      Nat.mul_le_mul_right _ (Nat.le_of_lt b2)
    have h2 : 10 ^ (dn - 1) * 10 ^ (-((dn : Int) - (dd : Int) - 1)).toNat ≤ num * 10 ^ (-((dn : Int) - (dd : Int) - 1)).toNat :=
      Nat.mul_le_mul_right _ a1
    omega
  · have key : 10 ^ (dd - 1) * 10 ^ ((dn : Int) - (dd : Int) + 1).toNat
        = 10 ^ dn * 10 ^ (-((dn : Int) - (dd : Int) + 1)).toNat := by
      rw [← Nat.pow_add, ← Nat.pow_add]; congr 1; omega
    have h1 : 10 ^ (dd - 1) * 10 ^ ((dn : Int) - (dd : Int) + 1).toNat ≤ den * 10 ^ ((dn : Int) - (dd : Int) + 1).toNat :=
      Nat.mul_le_mul_right _ b1
    have h2 : num * 10 ^ (-((dn : Int) - (dd : Int) + 1)).toNat < 10 ^ dn * 10 ^ (-((dn : Int) - (dd : Int) + 1)).toNat :=
      Nat.mul_lt_mul_of_pos_right a2 (Nat.pow_pos (by decide))
    omega

theorem log10Floor_eq (num den : Nat) :
    Decimal.log10Floor num den =
      (let est : Int := (Decimal.digitCount num : Int) - (Decimal.digitCount den : Int)
       if Ge10 num den (est + 1) then est + 1 else if Ge10 num den est then est
       else if Ge10 num den (est - 1) then est - 1 else est - 2) := by
  have ge_eq : ∀ k : Int, (if k ≥ 0 then decide (num ≥ den * 10 ^ k.toNat) else decide (num * 10 ^ (-k).toNat ≥ den))
      = decide (Ge10 num den k) := by
    intro k
    split
    · have : (-k).toNat = 0 := by omega
      apply decide_eq_decide.mpr
      unfold Ge10
      rw [this, Nat.pow_zero, Nat.mul_one]
    · have : k.toNat = 0 := by omega
      apply decide_eq_decide.mpr
      unfold Ge10
      rw [this, Nat.pow_zero, Nat.mul_one]
  unfold Decimal.log10Floor
  simp only [ge_eq, decide_eq_true_eq]

/-- `10^k ≤ num/den < 10^(k+1)` for `k = log10Floor num den` -/
theorem log10Floor_spec {num den : Nat} (hn : 0 < num) (hd : 0 < den) :
    Ge10 num den (Decimal.log10Floor num den) ∧ ¬ Ge10 num den (Decimal.log10Floor num den + 1) := by
  obtain ⟨g1, g2⟩ := ge10_est hn hd
  rw [log10Floor_eq]
  simp only
  generalize (Decimal.digitCount num : Int) - (Decimal.digitCount den : Int) = est at *
  rw [if_neg g2]
  by_cases h : Ge10 num den est
  · rw [if_pos h]; exact ⟨h, g2⟩
  · rw [if_neg h, if_pos g1]
    refine ⟨g1, ?_⟩
    rw [Int.sub_add_cancel]; exact h

/-! ## `scale10`, uniformly in the sign of the exponent -/

theorem scale10_unif (neg : Bool) (c : Nat) (p : Int) :
    Decimal.scale10 neg c p =
      if c = 0 then .fin neg 0 F64.minExp
      else if (Decimal.digitCount c : Int) + p > 310 then .inf neg
      else if (Decimal.digitCount c : Int) + p < -330 then .fin neg 0 F64.minExp
      else F64.roundPos neg (c * 10 ^ p.toNat) (10 ^ (-p).toNat) := by
  unfold Decimal.scale10
  by_cases hp : p ≥ 0
  · have : (-p).toNat = 0 := by omega
    simp only [hp, if_true, this, Nat.pow_zero]
  · have : p.toNat = 0 := by omega
    simp only [hp, if_false, this, Nat.pow_zero, Nat.mul_one]

theorem scale10_eq (neg : Bool) {c : Nat} {p : Int} (hc : c ≠ 0)
    (h1 : (Decimal.digitCount c : Int) + p ≤ 310) (h2 : -330 ≤ (Decimal.digitCount c : Int) + p) :
    Decimal.scale10 neg c p = F64.roundPos neg (c * 10 ^ p.toNat) (10 ^ (-p).toNat) := by
  rw [scale10_unif, if_neg hc, if_neg (by omega), if_neg (by omega)]

/-- a trailing zero of the digits can be moved into the exponent -/
theorem scale10_strip (neg : Bool) (c : Nat) (p : Int) (hc : c ≠ 0) (h10 : c % 10 = 0) :
    Decimal.scale10 neg (c / 10) (p + 1) = Decimal.scale10 neg c p := by
  obtain ⟨c', rfl⟩ : ∃ c', c = c' * 10 := ⟨c / 10, by omega⟩
  have hc' : c' ≠ 0 := by intro h; subst h; simp at hc
  have hdc : Decimal.digitCount (c' * 10) = Decimal.digitCount c' + 1 := by
    have := digitCount_mul_pow10 c' 1 hc'
    simpa using this
  rw [Nat.mul_div_cancel _ (by decide : 0 < 10)]
  rw [scale10_unif, scale10_unif, hdc, if_neg hc', if_neg hc]
  have e1 : ((Decimal.digitCount c' : Int) + (p + 1) > 310) ↔ (((Decimal.digitCount c' + 1 : Nat) : Int) + p > 310) := by
    omega
  have e2 : ((Decimal.digitCount c' : Int) + (p + 1) < -330) ↔ (((Decimal.digitCount c' + 1 : Nat) : Int) + p < -330) := by
    omega
  simp only [e1, e2]
  split
  · rfl
  · split
    · rfl
    · apply roundPos_congr _ (Nat.pow_pos (by decide)) (Nat.pow_pos (by decide))
      rcases pow10_step p with ⟨a, b⟩ | ⟨a, b⟩
      · rw [a, b]; ac_rfl
      · rw [a, b]; ac_rfl

/-! ## the search -/

/-- does round `n` (digit count `n`) of the search have a candidate? -/
def cand (m : Nat) (e : Int) (num den : Nat) (k : Int) (n : Nat) : Bool :=
  let p : Int := k + 1 - (n : Int)
  let q := (Decimal.scaledQuot num den p).1
  (q ≠ 0 && Decimal.roundTrips m e q p) || Decimal.roundTrips m e (q + 1) p

/-- which branch ends the search: `true` iff some round finds a candidate before the fuel runs out
    (so the result is not the fallback `(m, e)`) -/
def foundFrom (m : Nat) (e : Int) (num den : Nat) (k : Int) : Nat → Nat → Bool
  | 0, _ => false
  | fuel + 1, n => cand m e num den k n || foundFrom m e num den k fuel (n + 1)

theorem foundFrom_of_later (m : Nat) (e : Int) (num den : Nat) (k : Int) :
    ∀ (j fuel n : Nat), j < fuel → cand m e num den k (n + j) = true → foundFrom m e num den k fuel n = true
  | 0, fuel + 1, n, _, h => by
    unfold foundFrom
    rw [Nat.add_zero] at h
    rw [h]; rfl
  | j + 1, fuel + 1, n, hj, h => by
    unfold foundFrom
    have : n + (j + 1) = (n + 1) + j := by omega
    rw [this] at h
    rw [foundFrom_of_later m e num den k j fuel (n + 1) (by omega) h]
    simp

theorem shortestFrom_sound (m : Nat) (e : Int) (num den : Nat) (k : Int) :
    ∀ (fuel n : Nat), foundFrom m e num den k fuel n = true →
      Decimal.roundTrips m e (Decimal.shortestFrom m e num den k fuel n).1
        (Decimal.shortestFrom m e num den k fuel n).2 = true
  | 0, _, h => by simp [foundFrom] at h
  | fuel + 1, n, h => by
    unfold foundFrom cand at h
    unfold Decimal.shortestFrom
    simp only at h ⊢
    rcases hs : Decimal.scaledQuot num den (k + 1 - (n : Int)) with ⟨q, r, d⟩
    rw [hs] at h
    simp only at h ⊢
    by_cases hdown : (q ≠ 0 && Decimal.roundTrips m e q (k + 1 - (n : Int))) = true
    · have hd' : Decimal.roundTrips m e q (k + 1 - (n : Int)) = true := by
        simp only [Bool.and_eq_true] at hdown; exact hdown.2
      by_cases hup : Decimal.roundTrips m e (q + 1) (k + 1 - (n : Int)) = true
      · simp only [hdown, hup, Bool.and_true, Bool.and_self, if_true]
        repeat' split
        all_goals first | exact hd' | exact hup
      · simp only [hdown, hup, Bool.and_true, Bool.and_false, Bool.false_eq_true, if_false, if_true]
        repeat' split
        all_goals first | exact hd' | exact hup
    · by_cases hup : Decimal.roundTrips m e (q + 1) (k + 1 - (n : Int)) = true
      · simp only [hdown, hup, Bool.and_false, Bool.false_and, Bool.false_eq_true, if_false, if_true]
      · have hdown' := Bool.eq_false_iff.mpr hdown
        have hup' := Bool.eq_false_iff.mpr hup
        simp only [hdown, hup, Bool.and_false, Bool.false_eq_true, if_false]
        apply shortestFrom_sound m e num den k fuel (n + 1)
        rw [hdown', hup'] at h
        simpa using h

/-! ## 17 significant digits are enough -/

theorem wf_bounds {m : Nat} {e : Int} (hwf : F64.WF (.fin false m e)) :
    m < 2 ^ 53 ∧ -1074 ≤ e ∧ e ≤ 971 ∧ (m < 2 ^ 52 → e = -1074) := by
  unfold F64.WF F64.minExp F64.maxExp at hwf
  obtain ⟨h1, h2⟩ := hwf
  by_cases h : m < 2 ^ 52
  · have := h1 h
    exact ⟨by omega, by omega, by omega, fun _ => this⟩
  · obtain ⟨a, b, c⟩ := h2 (by omega)
    exact ⟨a, b, c, fun h' => absurd h' h⟩

/-- the two neighbours `q·(a/b)`, `(q+1)·(a/b)` of `x = m·2^e` on a grid of spacing `a/b ≤ x / 10^16`:
    one of them rounds to `x`.  (`u` is the remainder: `x = (q + u/(a·2^-e)) · a/b`.) -/
theorem neighbour_rounds {m : Nat} {e : Int} (hm : m ≠ 0) (hwf : F64.WF (.fin false m e))
    {a b q u : Nat} (ha : 0 < a) (hb : 0 < b)
    (hdiv : m * (b * 2 ^ e.toNat) = q * (a * 2 ^ (-e).toNat) + u) (hu : u < a * 2 ^ (-e).toNat)
    (hk : 10 ^ 16 * (a * 2 ^ (-e).toNat) ≤ m * (b * 2 ^ e.toNat)) :
    (q ≠ 0 ∧ F64.roundPos false (q * a) b = .fin false m e) ∨
      F64.roundPos false ((q + 1) * a) b = .fin false m e := by
  obtain ⟨hm53, hemin, hemax, hsub⟩ := wf_bounds hwf
  have hmin : F64.minExp = -1074 := rfl
  have hmax : F64.maxExp = 971 := rfl
  have hN1 : N (q * a) e = q * (a * 2 ^ (-e).toNat) := by unfold N; rw [Nat.mul_assoc]
  have hN2 : N ((q + 1) * a) e = q * (a * 2 ^ (-e).toNat) + a * 2 ^ (-e).toNat := by
    unfold N; rw [Nat.mul_assoc, Nat.add_mul, Nat.one_mul]
  have hD : D b e = b * 2 ^ e.toNat := rfl
  have hDpos : 0 < b * 2 ^ e.toNat := Nat.mul_pos hb (Nat.pow_pos (by decide))
  have hYpos : 0 < a * 2 ^ (-e).toNat := Nat.mul_pos ha (Nat.pow_pos (by decide))
  have hmD : m * (b * 2 ^ e.toNat) ≤ (2 ^ 53 - 1) * (b * 2 ^ e.toNat) := Nat.mul_le_mul_right _ (by omega)
  have hmD1 : 1 * (b * 2 ^ e.toNat) ≤ m * (b * 2 ^ e.toNat) := Nat.mul_le_mul_right _ (by omega)
  -- q has 17 digits at least
  have hq : 10 ^ 16 ≤ q := by
    apply Classical.byContradiction
    intro hlt
    have : (q + 1) * (a * 2 ^ (-e).toNat) ≤ 10 ^ 16 * (a * 2 ^ (-e).toNat) := Nat.mul_le_mul_right _ (by omega)
    rw [Nat.add_mul, Nat.one_mul] at this
    omega
  have hqpos : 0 < q * a := Nat.mul_pos (by omega) ha
  have hq1pos : 0 < (q + 1) * a := Nat.mul_pos (by omega) ha
  -- the three regimes
  by_cases hB : m = 2 ^ 52 ∧ e ≠ -1074
  · -- binade boundary: the lower neighbour of `x` is half as far
    obtain ⟨rfl, hne⟩ := hB
    by_cases hu0 : u = 0
    · left
      refine ⟨by omega, ?_⟩
      apply roundPos_mid false hqpos hb (by omega) (by omega) hm53
      · rw [hN1, hD]; omega
      · rw [hN1, hD]; omega
      · left; rw [hN1, hD]; omega
    · by_cases h4 : 4 * u < b * 2 ^ e.toNat
      · left
        refine ⟨by omega, ?_⟩
        have hc := roundPos_carry false (num := q * a) (den := b) (e := e - 1) hqpos hb (by omega) (by omega)
        rw [Int.sub_add_cancel] at hc
        apply hc
        · rcases step_cases (q * a) b (e - 1) with ⟨s1, s2⟩ | ⟨s1, s2⟩
          · rw [Int.sub_add_cancel] at s1 s2
            rw [hD] at s1; rw [hN1] at s2
            omega
          · rw [Int.sub_add_cancel] at s1 s2
            rw [hD] at s1; rw [hN1] at s2
            omega
        · rcases step_cases (q * a) b (e - 1) with ⟨s1, s2⟩ | ⟨s1, s2⟩
          · rw [Int.sub_add_cancel] at s1 s2
            rw [hD] at s1; rw [hN1] at s2
            omega
          · rw [Int.sub_add_cancel] at s1 s2
            rw [hD] at s1; rw [hN1] at s2
            omega
      · right
        apply roundPos_mid false hq1pos hb (by omega) (by omega) hm53
        · rw [hN2, hD]; omega
        · rw [hN2, hD]; omega
        · left; rw [hN2, hD]; omega
  · have hnorm : 2 ^ 52 + 1 ≤ m ∨ e = F64.minExp := by
      by_cases h52 : m < 2 ^ 52
      · right; rw [hmin]; exact hsub h52
      · by_cases h52' : m = 2 ^ 52
        · right; rw [hmin]
          apply Classical.byContradiction
          intro hne; exact hB ⟨h52', hne⟩
        · left; omega
    have hmD2 : (2 ^ 52 + 1 ≤ m) → (2 ^ 52 + 1) * (b * 2 ^ e.toNat) ≤ m * (b * 2 ^ e.toNat) :=
      fun h => Nat.mul_le_mul_right _ h
    by_cases h2 : 2 * u < b * 2 ^ e.toNat
    · left
      refine ⟨by omega, ?_⟩
      apply roundPos_mid false hqpos hb (by omega) (by omega) hm53
      · rw [hN1, hD]; omega
      · rw [hN1, hD]; omega
      · rcases hnorm with h | h
        · left; rw [hN1, hD]; have := hmD2 h; omega
        · right; exact h
    · right
      apply roundPos_mid false hq1pos hb (by omega) (by omega) hm53
      · rw [hN2, hD]; omega
      · rw [hN2, hD]; omega
      · rcases hnorm with h | h
        · left; rw [hN2, hD]; have := hmD2 h; omega
        · right; exact h

theorem scaledQuot_eq (num den : Nat) (p : Int) :
    Decimal.scaledQuot num den p =
      (num * 10 ^ (-p).toNat / (den * 10 ^ p.toNat), num * 10 ^ (-p).toNat % (den * 10 ^ p.toNat),
        den * 10 ^ p.toNat) := by
  unfold Decimal.scaledQuot
  split
  · have : (-p).toNat = 0 := by omega
    rw [this, Nat.pow_zero, Nat.mul_one]
  · have : p.toNat = 0 := by omega
    rw [this, Nat.pow_zero, Nat.mul_one]

theorem ge10_succ_iff (num den : Nat) (c : Nat) (k : Int) :
    c * (den * 10 ^ (k + 1).toNat) ≤ num * 10 ^ (-(k + 1)).toNat ↔
      (10 * c) * (den * 10 ^ k.toNat) ≤ num * 10 ^ (-k).toNat := by
  rcases pow10_step k with ⟨a, b⟩ | ⟨a, b⟩
  · rw [a, b]
    have : c * (den * (10 * 10 ^ k.toNat)) = (10 * c) * (den * 10 ^ k.toNat) := by ac_rfl
    rw [this]
  · rw [a, b]
    have h1 : (10 * c) * (den * 10 ^ k.toNat) = 10 * (c * (den * 10 ^ k.toNat)) := by ac_rfl
    have h2 : num * (10 * 10 ^ (-(k + 1)).toNat) = 10 * (num * 10 ^ (-(k + 1)).toNat) := by ac_rfl
    rw [h1, h2]
    omega

theorem ge10_add (num den : Nat) (p : Int) (j : Nat) :
    Ge10 num den (p + j) ↔ 10 ^ j * (den * 10 ^ p.toNat) ≤ num * 10 ^ (-p).toNat := by
  induction j generalizing p with
  | zero => unfold Ge10; simp
  | succ j ih =>
    have : p + ((j + 1 : Nat) : Int) = (p + 1) + (j : Int) := by omega
    have e10 : 10 * 10 ^ j = 10 ^ (j + 1) := by rw [Nat.pow_succ, Nat.mul_comm]
    rw [this, ih (p + 1), ge10_succ_iff, e10]

theorem shortest_num_den (m : Nat) (e : Int) :
    (if e ≥ 0 then m * 2 ^ e.toNat else m) = m * 2 ^ e.toNat ∧
    (if e ≥ 0 then 1 else 2 ^ (-e).toNat) = 2 ^ (-e).toNat := by
  by_cases h : e ≥ 0
  · have : (-e).toNat = 0 := by omega
    simp [h, this]
  · have : e.toNat = 0 := by omega
    simp [h, this]

theorem mul_pow_lt_pow {m a b t : Nat} (hm : m < 2 ^ a) (ht : t ≤ b) : m * 2 ^ t < 2 ^ (a + b) := by
  have h1 : (2 : Nat) ^ t ≤ 2 ^ b := Nat.pow_le_pow_right (by decide) ht
  have h2 : m * 2 ^ t ≤ m * 2 ^ b := Nat.mul_le_mul_left _ h1
  have h3 : m * 2 ^ b < 2 ^ a * 2 ^ b := Nat.mul_lt_mul_of_pos_right hm (Nat.pow_pos (by decide))
  rw [Nat.pow_add]
  omega

set_option exponentiation.threshold 2000 in
/-- the decimal exponent of a finite nonzero binary64 is between -331 (in fact -324) and 308 -/
theorem log10Floor_bounds {m : Nat} {e : Int} (hm : m ≠ 0) (hwf : F64.WF (.fin false m e)) :
    -331 ≤ Decimal.log10Floor (m * 2 ^ e.toNat) (2 ^ (-e).toNat) ∧
      Decimal.log10Floor (m * 2 ^ e.toNat) (2 ^ (-e).toNat) ≤ 308 := by
  obtain ⟨hm53, hemin, hemax, _⟩ := wf_bounds hwf
  have hnum : 0 < m * 2 ^ e.toNat := Nat.mul_pos (by omega) (Nat.pow_pos (by decide))
  have hden : 0 < 2 ^ (-e).toNat := Nat.pow_pos (by decide)
  obtain ⟨g1, g2⟩ := log10Floor_spec hnum hden
  generalize Decimal.log10Floor (m * 2 ^ e.toNat) (2 ^ (-e).toNat) = k at *
  have hnumlt : m * 2 ^ e.toNat < 2 ^ 1024 :=
    mul_pow_lt_pow (a := 53) (b := 971) hm53 (by omega)
  have hdenle : (2 : Nat) ^ (-e).toNat ≤ 2 ^ 1074 := Nat.pow_le_pow_right (by decide) (by omega)
  constructor
  · apply Classical.byContradiction
    intro hlt
    have hj : (-331 : Int) = (k + 1) + ((-331 - (k + 1)).toNat : Nat) := by omega
    have : ¬ Ge10 (m * 2 ^ e.toNat) (2 ^ (-e).toNat) (-331) := by
      intro h
      rw [hj] at h
      exact g2 (ge10_antitone _ h)
    apply this
    unfold Ge10
    have e1 : (-331 : Int).toNat = 0 := rfl
    have e2 : (-(-331 : Int)).toNat = 331 := rfl
    rw [e1, e2, Nat.pow_zero, Nat.mul_one]
    have h5 : (2 : Nat) ^ 1074 ≤ 10 ^ 331 := by decide +kernel
    have h6 : 1 * 10 ^ 331 ≤ m * 2 ^ e.toNat * 10 ^ 331 := Nat.mul_le_mul_right _ hnum
    omega
  · apply Classical.byContradiction
    intro hgt
    have hj : k = 309 + ((k - 309).toNat : Nat) := by omega
    have h309 : Ge10 (m * 2 ^ e.toNat) (2 ^ (-e).toNat) 309 := by
      rw [hj] at g1
      exact ge10_antitone _ g1
    unfold Ge10 at h309
    have e1 : (309 : Int).toNat = 309 := rfl
    have e2 : (-(309 : Int)).toNat = 0 := rfl
    rw [e1, e2, Nat.pow_zero, Nat.mul_one] at h309
    have h5 : (2 : Nat) ^ 1024 ≤ 10 ^ 309 := by decide +kernel
    have h6 : 1 * 10 ^ 309 ≤ 2 ^ (-e).toNat * 10 ^ 309 := Nat.mul_le_mul_right _ hden
    omega

theorem roundTrips_iff (m : Nat) (e : Int) (c : Nat) (p : Int) :
    Decimal.roundTrips m e c p = true ↔ Decimal.scale10 false c p = .fin false m e := by
  unfold Decimal.roundTrips
  exact beq_iff_eq

/-- **17 digits suffice**: at digit count 17 one of the two candidates of the search parses back -/
theorem cand_17 {m : Nat} {e : Int} (hm : m ≠ 0) (hwf : F64.WF (.fin false m e)) :
    cand m e (m * 2 ^ e.toNat) (2 ^ (-e).toNat)
      (Decimal.log10Floor (m * 2 ^ e.toNat) (2 ^ (-e).toNat)) 17 = true := by
  obtain ⟨kl, ku⟩ := log10Floor_bounds hm hwf
  have hnum : 0 < m * 2 ^ e.toNat := Nat.mul_pos (by omega) (Nat.pow_pos (by decide))
  have hden : 0 < 2 ^ (-e).toNat := Nat.pow_pos (by decide)
  obtain ⟨g1, g2⟩ := log10Floor_spec hnum hden
  generalize Decimal.log10Floor (m * 2 ^ e.toNat) (2 ^ (-e).toNat) = k at *
  unfold cand
  simp only [scaledQuot_eq]
  have hp : k + 1 - ((17 : Nat) : Int) = k - 16 := by omega
  rw [hp]
  have hk1 : k = (k - 16) + ((16 : Nat) : Int) := by omega
  have hk2 : k + 1 = (k - 16) + ((17 : Nat) : Int) := by omega
  rw [hk1, ge10_add] at g1
  rw [hk2, ge10_add] at g2
  generalize hpp : k - 16 = p at *
  have hTp : 0 < 10 ^ p.toNat := Nat.pow_pos (by decide)
  have hTm : 0 < 10 ^ (-p).toNat := Nat.pow_pos (by decide)
  -- commute into the shape of `neighbour_rounds`
  have eX : m * 2 ^ e.toNat * 10 ^ (-p).toNat = m * (10 ^ (-p).toNat * 2 ^ e.toNat) := by ac_rfl
  have eY : 2 ^ (-e).toNat * 10 ^ p.toNat = 10 ^ p.toNat * 2 ^ (-e).toNat := by ac_rfl
  rw [eX, eY] at g1 g2 ⊢
  have hY : 0 < 10 ^ p.toNat * 2 ^ (-e).toNat := Nat.mul_pos hTp hden
  have hdiv := (Nat.div_add_mod (m * (10 ^ (-p).toNat * 2 ^ e.toNat)) (10 ^ p.toNat * 2 ^ (-e).toNat)).symm
  have hmod := Nat.mod_lt (m * (10 ^ (-p).toNat * 2 ^ e.toNat)) hY
  have hqlt : m * (10 ^ (-p).toNat * 2 ^ e.toNat) / (10 ^ p.toNat * 2 ^ (-e).toNat) < 10 ^ 17 := by
    rw [Nat.div_lt_iff_lt_mul hY]; omega
  have hqge : 10 ^ 16 ≤ m * (10 ^ (-p).toNat * 2 ^ e.toNat) / (10 ^ p.toNat * 2 ^ (-e).toNat) := by
    rw [Nat.le_div_iff_mul_le hY]; exact g1
  generalize m * (10 ^ (-p).toNat * 2 ^ e.toNat) / (10 ^ p.toNat * 2 ^ (-e).toNat) = q at *
  generalize m * (10 ^ (-p).toNat * 2 ^ e.toNat) % (10 ^ p.toNat * 2 ^ (-e).toNat) = u at *
  rw [Nat.mul_comm _ q] at hdiv
  have hdq : Decimal.digitCount q = 17 := digitCount_eq q 16 hqge hqlt
  have hdq1 : Decimal.digitCount (q + 1) ≤ 18 := (digitCount_le_iff _ 18 (by decide)).mpr (by omega)
  have hdq2 : 17 ≤ Decimal.digitCount (q + 1) := by
    have := (not_congr (digitCount_le_iff (q + 1) 16 (by decide))).mpr (by omega)
    omega
  have hs1 : Decimal.scale10 false q p = F64.roundPos false (q * 10 ^ p.toNat) (10 ^ (-p).toNat) :=
    scale10_eq false (by omega) (by omega) (by omega)
  have hs2 : Decimal.scale10 false (q + 1) p = F64.roundPos false ((q + 1) * 10 ^ p.toNat) (10 ^ (-p).toNat) :=
    scale10_eq false (by omega) (by omega) (by omega)
  rcases neighbour_rounds hm hwf hTp hTm hdiv hmod g1 with ⟨h0, h⟩ | h
  · have : Decimal.roundTrips m e q p = true := (roundTrips_iff ..).mpr (hs1.trans h)
    simp [h0, this]
  · have : Decimal.roundTrips m e (q + 1) p = true := (roundTrips_iff ..).mpr (hs2.trans h)
    simp [this]

/-- the decidable predicate "the search of `shortest m e` ends in a round, not in the fallback" -/
def found (m : Nat) (e : Int) : Bool :=
  let num : Nat := if e ≥ 0 then m * 2 ^ e.toNat else m
  let den : Nat := if e ≥ 0 then 1 else 2 ^ (-e).toNat
  foundFrom m e num den (Decimal.log10Floor num den) 18 1

/-- `found` holds as soon as one of the two 17-digit candidates round-trips -/
theorem found_of_17 (m : Nat) (e : Int)
    (h : cand m e (if e ≥ 0 then m * 2 ^ e.toNat else m) (if e ≥ 0 then 1 else 2 ^ (-e).toNat)
      (Decimal.log10Floor (if e ≥ 0 then m * 2 ^ e.toNat else m) (if e ≥ 0 then 1 else 2 ^ (-e).toNat)) 17 = true) :
    found m e = true := by
  unfold found
  exact foundFrom_of_later m e _ _ _ 16 18 1 (by omega) h

theorem found_wf {m : Nat} {e : Int} (hm : m ≠ 0) (hwf : F64.WF (.fin false m e)) : found m e = true := by
  apply found_of_17
  obtain ⟨e1, e2⟩ := shortest_num_den m e
  rw [e1, e2]
  exact cand_17 hm hwf

theorem strip_scale10 (neg : Bool) : ∀ (f : Nat) (c : Nat) (p : Int),
    Decimal.scale10 neg (Decimal.shortest.strip c p f).1 (Decimal.shortest.strip c p f).2 = Decimal.scale10 neg c p
  | 0, c, p => rfl
  | f + 1, c, p => by
    unfold Decimal.shortest.strip
    split
    · rename_i h
      simp only [ne_eq, Bool.and_eq_true, decide_eq_true_eq] at h
      rw [strip_scale10 neg f, scale10_strip neg c p h.1 h.2]
    · rfl

/-- if the search finds a candidate, the digits returned by `shortest` parse back -/
theorem shortest_sound_if_found (m : Nat) (e : Int) (h : found m e = true) :
    Decimal.scale10 false (Decimal.shortest m e).1 (Decimal.shortest m e).2 = .fin false m e := by
  unfold found at h
  have := shortestFrom_sound m e _ _ _ 18 1 h
  rw [roundTrips_iff] at this
  unfold Decimal.shortest
  simp only
  rw [strip_scale10]
  exact this

/-- **the search succeeds** on every well-formed nonzero finite value, and its result parses back -/
theorem shortest_roundtrips {m : Nat} {e : Int} (hm : m ≠ 0) (hwf : F64.WF (.fin false m e)) :
    Decimal.scale10 false (Decimal.shortest m e).1 (Decimal.shortest m e).2 = .fin false m e :=
  shortest_sound_if_found m e (found_wf hm hwf)

/-! ## the text layer: `layoutF` digits through `parseFloat` -/

open Sqljson.JNum

theorem isDigit_of_charIsDigit {c : Char} (h : c.isDigit = true) : Decimal.isDigit c = true := by
  simp only [Char.isDigit, Bool.and_eq_true, decide_eq_true_eq] at h
  simp only [Decimal.isDigit, Bool.and_eq_true, decide_eq_true_eq]
  exact ⟨h.1, h.2⟩

theorem formatNat_allDig (n : Nat) : AllDig (Decimal.formatNat n) := fun _ hc =>
  isDigit_of_charIsDigit (Nat.isDigit_of_mem_toDigits (by decide) (by decide) hc)

theorem zeros_allDig (n : Nat) : AllDig (Decimal.zeros n) := by
  intro c hc
  unfold Decimal.zeros at hc
  rw [List.mem_replicate] at hc
  rw [hc.2]; rfl

theorem allDig_append {a b : List Char} (ha : AllDig a) (hb : AllDig b) : AllDig (a ++ b) := by
  intro c hc
  rcases List.mem_append.mp hc with h | h
  · exact ha c h
  · exact hb c h

theorem formatNat_length_pos (n : Nat) : 0 < (Decimal.formatNat n).length := Nat.length_toDigits_pos

theorem formatNat_value (n : Nat) : Nat.ofDigitChars 10 (Decimal.formatNat n) 0 = n :=
  Nat.ofDigitChars_ten_toDigits

theorem takeMant_digit (c : Char) (cs : List Char) (h : Decimal.isDigit c = true) (acc nd nf : Nat) (dot : Bool) :
    Decimal.takeMant (c :: cs) acc nd nf dot =
      Decimal.takeMant cs (acc * 10 + Decimal.digitVal c) (nd + 1) (if dot then nf + 1 else nf) dot := by
  rw [Decimal.takeMant, if_pos h]

/-- a run of digits read by `takeMant` -/
theorem takeMant_allDig (ds rest : List Char) (h : AllDig ds) (acc nd nf : Nat) (dot : Bool) :
    Decimal.takeMant (ds ++ rest) acc nd nf dot =
      Decimal.takeMant rest (Nat.ofDigitChars 10 ds acc) (nd + ds.length)
        (if dot then nf + ds.length else nf) dot := by
  induction ds generalizing acc nd nf with
  | nil => cases dot <;> simp
  | cons c ds ih =>
    rw [List.cons_append, Decimal.takeMant, if_pos (allDig_head h), ih (allDig_tail h),
      Nat.ofDigitChars_cons, List.length_cons]
    have e1 : acc * 10 + Decimal.digitVal c = 10 * acc + (c.toNat - '0'.toNat) := by
      unfold Decimal.digitVal; omega
    have e2 : nd + 1 + ds.length = nd + (ds.length + 1) := by omega
    rw [e1, e2]
    cases dot
    · rfl
    · simp only [if_true]
      have : nf + 1 + ds.length = nf + (ds.length + 1) := by omega
      rw [this]

/-- a run of digits that ends the text -/
theorem takeMant_allDig_end (ds : List Char) (h : AllDig ds) (acc nd nf : Nat) (dot : Bool) :
    Decimal.takeMant ds acc nd nf dot =
      (Nat.ofDigitChars 10 ds acc, nd + ds.length, (if dot then nf + ds.length else nf), dot, []) := by
  have := takeMant_allDig ds [] h acc nd nf dot
  rw [List.append_nil] at this
  rw [this]; rfl

theorem takeDigits_allDig (ds : List Char) (h : AllDig ds) (acc n : Nat) :
    Decimal.takeDigits ds acc n = (Nat.ofDigitChars 10 ds acc, n + ds.length, []) := by
  induction ds generalizing acc n with
  | nil => simp [Decimal.takeDigits]
  | cons c ds ih =>
    rw [Decimal.takeDigits, if_pos (allDig_head h), ih (allDig_tail h), Nat.ofDigitChars_cons, List.length_cons]
    have e1 : acc * 10 + Decimal.digitVal c = 10 * acc + (c.toNat - '0'.toNat) := by
      unfold Decimal.digitVal; omega
    have e2 : n + 1 + ds.length = n + (ds.length + 1) := by omega
    rw [e1, e2]

theorem scale10_mul_pow10 (neg : Bool) (c k : Nat) (hc : c ≠ 0) :
    Decimal.scale10 neg (c * 10 ^ k) 0 = Decimal.scale10 neg c (k : Int) := by
  have hck : c * 10 ^ k ≠ 0 := by
    have := Nat.mul_pos (Nat.pos_of_ne_zero hc) (Nat.pow_pos (by decide : 0 < 10) (n := k)); omega
  rw [scale10_unif, scale10_unif, if_neg hc, if_neg hck, digitCount_mul_pow10 c k hc]
  have e1 : ((Decimal.digitCount c + k : Nat) : Int) + 0 = (Decimal.digitCount c : Int) + (k : Int) := by omega
  have e2 : ((k : Nat) : Int).toNat = k := by omega
  have e3 : (-((k : Nat) : Int)).toNat = 0 := by omega
  have e4 : (0 : Int).toNat = 0 := rfl
  have e5 : (-(0 : Int)).toNat = 0 := rfl
  rw [e1, e2, e3, e4, e5, Nat.pow_zero, Nat.mul_one]

/-- what `takeMant` computes on the `%f` layout of `c · 10^p` -/
theorem takeMant_layoutF (c : Nat) (p : Int) (hc : c ≠ 0) :
    ∃ mm nd nf dot, Decimal.takeMant (Decimal.layoutF (Decimal.formatNat c) p) 0 0 0 false = (mm, nd, nf, dot, []) ∧
      nd ≠ 0 ∧ ∀ neg, Decimal.scale10 neg mm (0 - (nf : Int)) = Decimal.scale10 neg c p := by
  have hall := formatNat_allDig c
  have hlen := formatNat_length_pos c
  have hval := formatNat_value c
  generalize Decimal.formatNat c = digs at *
  unfold Decimal.layoutF
  by_cases hp : p ≥ 0
  · rw [if_pos hp]
    rw [takeMant_allDig_end _ (allDig_append hall (zeros_allDig _))]
    refine ⟨_, _, _, _, rfl, by rw [List.length_append]; omega, ?_⟩
    intro neg
    unfold Decimal.zeros
    rw [Nat.ofDigitChars_append, hval, Nat.ofDigitChars_replicate_zero]
    simp only [Bool.false_eq_true, if_false]
    have : ((0 : Int) - ((0 : Nat) : Int)) = 0 := rfl
    rw [this, Nat.mul_comm, scale10_mul_pow10 neg c _ hc]
    congr 1; omega
  · rw [if_neg hp]
    simp only
    by_cases hl : digs.length > (-p).toNat
    · rw [if_pos hl]
      have h1 : AllDig (digs.take (digs.length - (-p).toNat)) := fun x hx => hall x (List.mem_of_mem_take hx)
      have h2 : AllDig (digs.drop (digs.length - (-p).toNat)) := fun x hx => hall x (List.mem_of_mem_drop hx)
      rw [takeMant_allDig _ _ h1, takeMant_dot, takeMant_allDig_end _ h2]
      refine ⟨_, _, _, _, rfl, ?_, ?_⟩
      · rw [List.length_take]; omega
      · intro neg
        rw [← Nat.ofDigitChars_append, List.take_append_drop, hval]
        simp only [Bool.false_eq_true, if_false, if_true, List.length_drop]
        congr 1; omega
    · rw [if_neg hl]
      have h1 : AllDig (Decimal.zeros ((-p).toNat - digs.length) ++ digs) := allDig_append (zeros_allDig _) hall
      have hd0 : Decimal.isDigit '0' = true := by decide
      rw [List.cons_append, List.cons_append, takeMant_digit _ _ hd0, takeMant_dot, takeMant_allDig_end _ h1]
      refine ⟨_, _, _, _, rfl, by omega, ?_⟩
      intro neg
      unfold Decimal.zeros
      rw [Nat.ofDigitChars_append, Nat.ofDigitChars_replicate_zero]
      have : (0 * 10 + Decimal.digitVal '0') = 0 := by decide
      rw [this, Nat.mul_zero, hval]
      simp only [Bool.false_eq_true, if_false, if_true, List.length_append, List.length_replicate]
      congr 1; omega

/-- the `%f` layout starts with a digit and consists of digits and at most one point -/
theorem layoutF_shape (c : Nat) (p : Int) :
    ∃ d rest, Decimal.layoutF (Decimal.formatNat c) p = d :: rest ∧ Decimal.isDigit d = true ∧
      ∀ x ∈ rest, Decimal.isDigit x = true ∨ x = '.' := by
  have hall := formatNat_allDig c
  have hlen := formatNat_length_pos c
  generalize Decimal.formatNat c = digs at *
  have hmem : ∀ x ∈ Decimal.layoutF digs p, Decimal.isDigit x = true ∨ x = '.' := by
    intro x hx
    unfold Decimal.layoutF at hx
    split at hx
    · rcases List.mem_append.mp hx with h | h
      · exact Or.inl (hall x h)
      · exact Or.inl (zeros_allDig _ x h)
    · simp only at hx
      split at hx
      · rcases List.mem_append.mp hx with h | h
        · exact Or.inl (hall x (List.mem_of_mem_take h))
        · rcases List.mem_cons.mp h with h | h
          · exact Or.inr h
          · exact Or.inl (hall x (List.mem_of_mem_drop h))
      · rcases List.mem_cons.mp hx with h | h
        · left; rw [h]; decide
        · rcases List.mem_cons.mp h with h | h
          · exact Or.inr h
          · rcases List.mem_append.mp h with h | h
            · exact Or.inl (zeros_allDig _ x h)
            · exact Or.inl (hall x h)
  have hhead : ∃ d rest, Decimal.layoutF digs p = d :: rest ∧ Decimal.isDigit d = true := by
    cases digs with
    | nil => simp at hlen
    | cons d0 ds =>
      unfold Decimal.layoutF
      split
      · exact ⟨d0, _, rfl, allDig_head hall⟩
      · simp only
        split
        · rename_i hl
          have : (d0 :: ds).length - (-p).toNat = ((d0 :: ds).length - (-p).toNat - 1) + 1 := by omega
          rw [this, List.take_succ_cons]
          exact ⟨d0, _, rfl, allDig_head hall⟩
        · exact ⟨'0', _, rfl, by decide⟩
  obtain ⟨d, rest, e, hd⟩ := hhead
  refine ⟨d, rest, e, hd, ?_⟩
  intro x hx
  exact hmem x (by rw [e]; exact List.mem_cons_of_mem _ hx)

theorem digit_or_dot_ok {x : Char} (h : Decimal.isDigit x = true ∨ x = '.') :
    x ≠ '_' ∧ Decimal.lowerC x ≠ 'x' := by
  rcases h with h | h
  · rw [digit_lowerC h]; exact ⟨(digit_ne h).2.2.2.2.2.1, (digit_ne h).2.2.2.2.2.2.1⟩
  · subst h; decide

/-- a text of digits and points that starts with a digit, with an optional minus sign, goes through the
    decimal branch of `ParseFloat` -/
theorem parseFloat_digits (neg : Bool) (d : Char) (rest : List Char) (hd : Decimal.isDigit d = true)
    (hrest : ∀ x ∈ rest, Decimal.isDigit x = true ∨ x = '.') :
    Decimal.parseFloat ((if neg then ['-'] else []) ++ d :: rest) =
      Decimal.parseFloatNoUnderscore.dec neg (d :: rest) := by
  have hdn := digit_ne hd
  have hx : ∀ x ∈ rest, Decimal.lowerC x ≠ 'x' := fun x hx => (digit_or_dot_ok (hrest x hx)).2
  have hu : ((if neg then ['-'] else []) ++ d :: rest).contains '_' = false := by
    apply no_underscore
    intro x hx
    have hbody : ∀ y ∈ d :: rest, y ≠ '_' := by
      intro y hy
      rcases List.mem_cons.mp hy with rfl | hy
      · exact hdn.2.2.2.2.2.1
      · exact (digit_or_dot_ok (hrest y hy)).1
    cases neg
    · exact hbody x hx
    · rcases List.mem_cons.mp hx with rfl | hx
      · decide
      · exact hbody x hx
  unfold Decimal.parseFloat
  rw [hu]
  simp only [Bool.false_eq_true, if_false]
  cases neg
  · show Decimal.parseFloatNoUnderscore (d :: rest) = _
    rw [pfnu_plain d _ hdn.2.2.2.1 hdn.2.2.2.2.1]
    refine pfBody_dec false d _ _ hd ?_ hx
    exact eqFold_head_false d _ "nan" 'n' ['a', 'n'] (by decide)
      (by rw [digit_lowerC hd]; exact hdn.2.2.2.2.2.2.2.2)
  · show Decimal.parseFloatNoUnderscore ('-' :: d :: rest) = _
    rw [pfnu_minus]
    refine pfBody_dec true d _ _ hd ?_ hx
    exact eqFold_head_false '-' _ "nan" 'n' ['a', 'n'] (by decide) (by decide)

/-- **the `%f` text of `c · 10^p` parses to `scale10 c p`** -/
theorem parse_layoutF (neg : Bool) (c : Nat) (p : Int) (hc : c ≠ 0)
    (hfin : (Decimal.scale10 neg c p).isInf = false) :
    Decimal.parseFloat ((if neg then ['-'] else []) ++ Decimal.layoutF (Decimal.formatNat c) p) =
      .ok (Decimal.scale10 neg c p) := by
  obtain ⟨d, rest, e, hd, hrest⟩ := layoutF_shape c p
  obtain ⟨mm, nd, nf, dot, hm, hnd, hs⟩ := takeMant_layoutF c p hc
  rw [e] at hm ⊢
  rw [parseFloat_digits neg d rest hd hrest]
  unfold Decimal.parseFloatNoUnderscore.dec
  rw [hm]
  have he : Decimal.takeExp 'e' [] = some (0, []) := rfl
  simp only [hnd, if_false, he, hs neg, hfin, Bool.false_eq_true]

end Sqljson.FloatText
