import Sqljson.Lemmas.Layout
/-!
# What the lexer accepts, exactly — lemma layer of `Props/C04b`

`Lemmas/Layout` §4 proves one direction at the token level: every *permitted* spelling lexes to the
intended token.  This file proves the converse, for ALL inputs: the unread source is an arbitrary
`List Src` (NUL runes and undecodable bytes included), the lexer state and the oracles are arbitrary
unless a hypothesis is named.  Each scanner of `Model/Lex.lean` returns a token other than the error
token IF AND ONLY IF the source begins with a text of a small declarative grammar followed by a
permitted rune — and then the result is given in closed form —; in every other case it returns
`stopTok` with an error on record.  So every malformed token form is rejected by theorem.

Contents.

* **Common vocabulary.** `srcChar`, `withRest`, `peekR`, `afterR`, `chs`: the stream "look-ahead rune
  `peekR X`, state `afterR s X`" stands before the source `X`.  `parse_err_of_lex_error`,
  `parse_err_of_first_token`: an error recorded by the first call of `Lex` rejects the input
  (by `Layout.allEM`: no parser function clears the error flag).
* **Part A, `LexReject.Misc`.**  Comments: `splitComment`, `commentLoop_spec` (the loop of `scanComment`
  returns the rune after the first `*/` iff the body before it is free of NUL / bad bytes; otherwise
  `stopTok` + error).  Separators over arbitrary tails: `lexFrom_skip_sep`, `parse_err_after_sep`.
  First characters: `StartsToken`, `lexFrom_dispatch`, `lexFrom_unk_iff`, the operator table
  `scanOperator_*`.  The parser: `parse_err_of_unk_first` (a rune the grammar does not mention is the
  token `$unk`, not a lexer error; the parser has no rule for it).  General position: `lexIter`,
  the invariant calculus `IM` / `allIM` (a generalisation of `Layout.EM` to any invariant of the lexer
  state kept by `Lex` and `setErr`), `parse_ok_lexIter_no_error` (an accepted input has no lexing error
  anywhere in its token stream), `Standing`, `parse_err_of_error_at`, `parse_err_after_sep_at`.
* **Part B, `LexReject.Str`.**  Escapes, string literals, `$"…"`, bare identifiers.  The grammar is
  `Layout.SpellsEsc` / `SpellsChar` / `SpellsStr` (they turn out to be complete).  Per function a
  soundness lemma `…_ok` and a completeness lemma `…_cases`; `scanString_iff`, `scanIdent_iff`;
  the rejection normal form `not_closed_iff` (`Stuck`), `NoEsc` lemmas for every malformed escape form.
* **Part C, `LexReject.Num`.**  Numbers, in two layers.  Layer 1 (`scanNumber_ref`, `scanNumber_dot_ref`):
  `scanNumber` is the closed-form *reference reading* `numRef` / `dotRef` of the source (maximal runs
  of digits and underscores cut by `takeRun`, then the checks) — `digitsLoop_run` is `digits` on an
  arbitrary source.  Layer 2 (`numRef_some`, `dotRef_some`): the reference reading accepts exactly the
  grammar `NumForm` with the follower rule `Follower`, or a `LooseRadix` text before `.`; the separator
  check `invalidSep` is analysed by `sepLoop_run` / `sepLoop_group` ("single underscores between
  digits" = `Digs`).  `scanNumber_accepts_iff`, `scanNumber_rejects_iff`, rejection lemmas for every
  continuation (`reject_*`), the `Lex` level (`lexFrom_digit`, `lexFrom_dot_digit`).
* **Glue.** `parse_err_bad_number`, `parse_err_bad_string_sep`, … : the malformed token stands after
  any separator, at the first or at any later token start.
-/

namespace Sqljson
namespace LexReject
open Parse Lex ParseLemmas Layout

/-! ## Vocabulary: the unread source as a list of `Src` -/

/-- what `next` hands out for one source position: the rune, or `none` (Go: `stopTok`, after
    recording an error) for NUL and for a byte that is not valid UTF-8 -/
def srcChar : Src → Option Char
  | .ch c => if c.toNat = 0 then none else some c
  | .bad => none

/-- the state `s` with `R` as the source still to be read -/
def withRest (s : LState) (R : List Src) : LState := { s with rest := R }

/-- the rune `next` returns when the unread source is `R` (`none`: end of input, NUL, bad byte) -/
def peekR : List Src → Option Char
  | [] => none
  | x :: _ => srcChar x

/-- the state after that call of `next`: one position consumed, the error recorded if it was NUL / bad -/
def afterR (s : LState) (R : List Src) : LState := (next (withRest s R)).2

@[simp] theorem withRest_rest (s : LState) (R : List Src) : (withRest s R).rest = R := rfl
@[simp] theorem withRest_err (s : LState) (R : List Src) : (withRest s R).err = s.err := rfl
@[simp] theorem withRest_oof (s : LState) (R : List Src) : (withRest s R).oof = s.oof := rfl
@[simp] theorem withRest_ch (s : LState) (R : List Src) : (withRest s R).ch = s.ch := rfl
@[simp] theorem withRest_withRest (s : LState) (R R' : List Src) : withRest (withRest s R) R' = withRest s R' := rfl
theorem withRest_self (s : LState) : withRest s s.rest = s := rfl

theorem next_withRest (s : LState) (R : List Src) : next (withRest s R) = (peekR R, afterR s R) := by
  unfold afterR
  cases R with
  | nil => simp [next, withRest, peekR]
  | cons x r =>
    cases x with
    | bad => simp [next, withRest, peekR, srcChar]
    | ch c => by_cases h : c.toNat = 0 <;> simp [next, withRest, peekR, srcChar, h]

/-- reading one clean character -/
theorem next_cons_ch (s : LState) (c : Char) (R : List Src) (hc : c.toNat ≠ 0) :
    next (withRest s (.ch c :: R)) = (some c, withRest s R) := by
  simp [next, withRest, hc]

theorem afterR_nil (s : LState) : afterR s [] = withRest s [] := by simp [afterR, next, withRest]
theorem afterR_cons_ch (s : LState) (c : Char) (R : List Src) (hc : c.toNat ≠ 0) :
    afterR s (.ch c :: R) = withRest s R := by simp [afterR, next, withRest, hc]
theorem afterR_err_of_none (s : LState) (x : Src) (R : List Src) (h : srcChar x = none) :
    (afterR s (x :: R)).err = true := by
  cases x with
  | bad => simp [afterR, next, withRest]
  | ch c =>
    have : c.toNat = 0 := by
      by_cases h0 : c.toNat = 0
      · exact h0
      · simp [srcChar, h0] at h
    simp [afterR, next, withRest, this]
theorem afterR_rest (s : LState) (R : List Src) : (afterR s R).rest = R.tail := by
  cases R with
  | nil => simp [afterR, next, withRest]
  | cons x r =>
    cases x with
    | bad => simp [afterR, next, withRest]
    | ch c => by_cases h : c.toNat = 0 <;> simp [afterR, next, withRest, h]
theorem afterR_err_mono (s : LState) (R : List Src) (h : s.err = true) : (afterR s R).err = true :=
  next_err_mono (withRest s R) h

/-- the source positions of a text -/
abbrev chs (l : List Char) : List Src := l.map Src.ch

/-! ## From the first token to `Parse` -/

/-- `parseBody` after its first `peek` -/
def bodyAfterPeek (o : Oracles) (fuel : Nat) (p : Tok × List Char) : P (Bool × Bool × EV) :=
  match p with
  | (t, _) => do
    let lax ←
      if t = .strict then do consume; pure false
      else if t = .lax then do consume; pure true
      else pure true
    let a ← parseAtom o fuel .top
    match a with
    | .expr v _ => pure (lax, false, v)
    | .pred v0 => do
      let (v, _) ← predLoop o fuel v0
      pure (lax, true, v)

theorem parseBody_split (o : Oracles) (f : Nat) : parseBody o f = peek o >>= bodyAfterPeek o f := rfl

theorem em_bodyAfterPeek (o : Oracles) (f : Nat) (p : Tok × List Char) : EM (bodyAfterPeek o f p) := by
  obtain ⟨t, txt⟩ := p
  unfold bodyAfterPeek
  emj

theorem em_finish (o : Oracles) (lax isPred : Bool) (root : EV) : EM (finish o lax isPred root) := by
  unfold finish
  emj

/-- **an error recorded by the first call of `Lex` rejects the input** -/
theorem parse_err_of_lex_error (o : Oracles) (bytes : List UInt8)
    (h : (Lex.lex o (LState.init bytes)).2.2.err = true) : parse o bytes = .err := by
  have hnp := ParseLemmas.parse_never_panics o bytes
  cases hr : Parse.run o bytes with
  | ok r s =>
    refine parse_err_of_error_recorded o bytes r s hr ?_
    unfold Parse.run parseTop at hr
    rw [parseBody_split, bind_apply, bind_apply] at hr
    cases hp : peek o { lx := LState.init bytes, la := none } with
    | ok t s1 =>
      rw [hp] at hr
      simp only at hr
      have h1 : s1.lx.err = true := by
        unfold peek at hp
        simp only at hp
        split at hp
        · simp at hp
        · split at hp
          · injection hp with _ h2; rw [← h2]; exact h
          · injection hp with _ h2; rw [← h2]; exact h
      have hem : EM (bodyAfterPeek o (fuelFor bytes) t >>= fun p => finish o p.1 p.2.1 p.2.2) :=
        em_bind (em_bodyAfterPeek o _ t) (fun p => em_finish o _ _ _)
      exact hem.mono s1 r s hr h1
    | syn => rw [hp] at hr; simp at hr
    | panic => rw [hp] at hr; simp at hr
    | fuel => rw [hp] at hr; simp at hr
  | syn => unfold parse; rw [hr]
  | panic => unfold parse at hnp; rw [hr] at hnp; simp at hnp
  | fuel => unfold parse; rw [hr]


/-- the first call of `Lex` on an input, in terms of the body of `Lex` (`lexFrom`) -/
theorem lex_init (o : Oracles) (bytes : List UInt8) :
    Lex.lex o (LState.init bytes) =
      (let s1 := afterR (LState.init bytes) (decodeAll bytes)
       let r := lexFrom o (s1.rest.length + 3) (peekR (decodeAll bytes)) s1
       (r.tok, r.text, { r.st with ch := r.ch })) := by
  have h : next (LState.init bytes) = (peekR (decodeAll bytes), afterR (LState.init bytes) (decodeAll bytes)) :=
    next_withRest (LState.init bytes) (decodeAll bytes)
  unfold Lex.lex
  simp only [show (LState.init bytes).ch = none from rfl, h]

/-- **if the body of `Lex`, started on the input, ends with an error on record, the input is rejected** -/
theorem parse_err_of_first_token (o : Oracles) (bytes : List UInt8)
    (h : (lexFrom o ((afterR (LState.init bytes) (decodeAll bytes)).rest.length + 3) (peekR (decodeAll bytes))
            (afterR (LState.init bytes) (decodeAll bytes))).st.err = true) : parse o bytes = .err := by
  apply parse_err_of_lex_error
  rw [lex_init]
  exact h

end LexReject
end Sqljson

/-! # Part A — comments, separators, single characters, the lift to `Parse` (`LexReject.Misc`) -/
/-!
# Comments, separators, single characters, and the lift of lexer-level rejection to `Parse.parse`

Lemma layer of `Props/C04b` (part "Misc").  Everything is stated over an ARBITRARY unread source
`X : List Src` (so including NUL runes `Src.ch (Char.ofNat 0)` and undecodable bytes `Src.bad`),
for arbitrary oracles `o` unless a hypothesis is named.  The stream convention is the one of the common
prelude: "current rune `peekR X`, state `afterR s X`" is what `next` leaves when the unread source is `X`.

§0 small facts about `srcChar` / `peekR` / `afterR` / `chs`.
§1 `splitComment`, `splitComment_some_iff`, `splitComment_none_iff`, `commentLoop_spec`, `commentLoop_closed`: the
   loop of `scanComment`, exactly.
§2 `lexFrom_none`, `lexFrom_ws_step`, `lexFrom_slash_star`, `lexFrom_comment_closed`, `lexFrom_comment_unclosed`,
   **`lexFrom_skip_sep`**: the body of `Lex` on a separator followed by anything.
§3 **`parse_err_after_sep`**: a token start after a separator at which the body of `Lex` records an error rejects
   the input.
§4 `opChars`, `tokChars`, `StartsToken`, `tokOfRune_unk`, `scanOperator_def` / `_eq` / `_gt` / `_lt` / `_bang` / `_amp` /
   `_bar` / `_star` / `_other` / `_unk_iff`, "no other scanner answers `$unk`" (`scanIdent_ne_unk`, `stringLoop_tok`,
   `scanVariable_tok`, `NumT`, `scanNumber_tok`), `lexFrom_dispatch`, `lexFrom_other`, `lexFrom_private`, `lexFrom_op`,
   `lexFrom_solo`, `lexFrom_unk_iff`, `lexFrom_ident` / `_digit` / `_quote` / `_dollar` / `_slash` / `_dot_digit` / `_dot_other`.
§5 `parseUnaryT_unk`, `parseAtom_unk(_cached)`, **`parse_err_of_unk_first`**, `parse_err_of_mode_unk`,
   `lex_first_after_sep`, `parse_err_of_other_char`, `parse_err_of_private_char`, `parse_err_of_lone_op`,
   `parse_err_of_unclosed_comment`.
§6 `lexIter`, `StepInv`, `IM` (the `EM` calculus of `Lemmas/Layout` for an arbitrary invariant of the lexer state kept
   by `Lex` and by recording an error), `allIM`, `im_parseBody`; `EndOk'`, `lex_stop'` (a `stopTok` without error comes
   with an empty look-ahead at the end of the source), `endState`, `parse_ok_reaches_end`,
   **`parse_ok_lexIter_no_error`**, `parse_err_of_lexIter_error`.
§7 `splitComment_stop`, `splitComment_unique`.
§8 `Standing`, `lex_standing`, `parse_err_of_error_at`, `parse_err_after_sep_at`, `parse_err_of_unclosed_comment_at`,
   `parse_err_of_private_char_at`: the lift at any token start the lexer reaches.
-/
namespace Sqljson
namespace LexReject
namespace Misc
open Parse Lex ParseLemmas Layout RoundTrip
set_option linter.unusedSimpArgs false
set_option linter.unusedSectionVars false
set_option linter.unusedVariables false

/-! ## §0 The vocabulary, small facts -/

theorem srcChar_ch (c : Char) (hc : c.toNat ≠ 0) : srcChar (.ch c) = some c := by simp [srcChar, hc]

theorem srcChar_eq_some {x : Src} {c : Char} (h : srcChar x = some c) : x = .ch c ∧ c.toNat ≠ 0 := by
  cases x with
  | bad => simp [srcChar] at h
  | ch d =>
    by_cases hd : d.toNat = 0
    · simp [srcChar, hd] at h
    · simp [srcChar, hd] at h
      subst h
      exact ⟨rfl, hd⟩

theorem peekR_eq_some {X : List Src} {c : Char} (h : peekR X = some c) : ∃ R, X = .ch c :: R ∧ c.toNat ≠ 0 := by
  cases X with
  | nil => simp [peekR] at h
  | cons x R =>
    obtain ⟨h1, h2⟩ := srcChar_eq_some (show srcChar x = some c from h)
    exact ⟨R, by rw [h1], h2⟩

theorem peekR_cons_ch (c : Char) (R : List Src) (hc : c.toNat ≠ 0) : peekR (.ch c :: R) = some c := by
  simp [peekR, srcChar, hc]

theorem chs_append (a b : List Char) : chs (a ++ b) = chs a ++ chs b := by simp [chs]
theorem chs_cons (a : Char) (b : List Char) : chs (a :: b) = .ch a :: chs b := rfl
theorem chs_length (a : List Char) : (chs a).length = a.length := by simp [chs]

/-- the state an error leaves keeps its error whatever is read next -/
theorem afterR_afterR_err (s : LState) (X Y : List Src) (h : (afterR s X).err = true) :
    (afterR (afterR s X) Y).err = true := afterR_err_mono _ _ h

/-- `NoNul` of a concrete text can be decided -/
instance instDecidableNoNul (l : List Char) : Decidable (NoNul l) := by unfold NoNul; infer_instance

theorem char_of_toNat {c : Char} {n : Nat} (h : c.toNat = n) : c = Char.ofNat n := by
  rw [← h, Char.ofNat_toNat]

/-! ## §1 Comments: the loop of `scanComment`, exactly

`splitComment X`, `X` the source after `/*`: the comment body and the source after the first `*/`, provided
nothing before that `*/` is NUL or an undecodable byte; `none` otherwise (end of input, NUL or a bad byte
before the first `*/`). -/

/-- the source `X` after `/*` split at the first `*/`: the body and what follows the comment; `none` if the
    end of the input, a NUL or an undecodable byte comes first -/
def splitComment : List Src → Option (List Char × List Src)
  | [] => none
  | x :: rest =>
    match srcChar x with
    | none => none
    | some c =>
      if c = '*' ∧ peekR rest = some '/' then some ([], rest.tail)
      else
        match splitComment rest with
        | some (b, R) => some (c :: b, R)
        | none => none

/-- **`splitComment` finds exactly the first `*/` after a NUL-free, well-decoded body** -/
theorem splitComment_some_iff (X : List Src) (body : List Char) (R : List Src) :
    splitComment X = some (body, R) ↔
      X = chs body ++ .ch '*' :: .ch '/' :: R ∧ NoNul body ∧ noClose body = true := by
  constructor
  · intro h
    induction X generalizing body with
    | nil => simp [splitComment] at h
    | cons x X' ih =>
      unfold splitComment at h
      cases hx : srcChar x with
      | none => simp [hx] at h
      | some c =>
        obtain ⟨hxc, hc0⟩ := srcChar_eq_some hx
        simp only [hx] at h
        by_cases hcl : c = '*' ∧ peekR X' = some '/'
        · rw [if_pos hcl] at h
          obtain ⟨R', hR', _⟩ := peekR_eq_some hcl.2
          simp only [Option.some.injEq, Prod.mk.injEq] at h
          obtain ⟨hb, hR⟩ := h
          subst hb
          refine ⟨?_, NoNul.nil, rfl⟩
          rw [hxc, hcl.1, hR', ← hR, hR']
          rfl
        · rw [if_neg hcl] at h
          cases hsp : splitComment X' with
          | none => simp [hsp] at h
          | some p =>
            obtain ⟨b, R'⟩ := p
            simp only [hsp, Option.some.injEq, Prod.mk.injEq] at h
            obtain ⟨hb, hR⟩ := h
            subst hb; subst hR
            obtain ⟨h1, h2, h3⟩ := ih b hsp
            refine ⟨by rw [hxc, h1]; rfl, NoNul.cons hc0 h2, ?_⟩
            cases b with
            | nil => rfl
            | cons b0 t =>
              have hb0 : b0.toNat ≠ 0 := (NoNul.of_cons h2).1
              have hp : peekR X' = some b0 := by rw [h1]; exact peekR_cons_ch _ _ hb0
              simp only [noClose, Bool.and_eq_true, Bool.not_eq_true', Bool.and_eq_false_iff,
                beq_eq_false_iff_ne]
              refine ⟨?_, h3⟩
              by_cases hcs : c = '*'
              · right
                intro hb
                exact hcl ⟨hcs, by rw [hp, hb]⟩
              · left; exact hcs
  · rintro ⟨hX, hn, hb⟩
    subst hX
    induction body with
    | nil =>
      simp [splitComment, srcChar, peekR]
    | cons a b ih =>
      have ha : a.toNat ≠ 0 := (NoNul.of_cons hn).1
      have hn' := (NoNul.of_cons hn).2
      have hb' : noClose b = true := by
        cases b with
        | nil => rfl
        | cons b0 t => simp only [noClose, Bool.and_eq_true] at hb; exact hb.2
      have hcl : ¬ (a = '*' ∧ peekR (chs b ++ .ch '*' :: .ch '/' :: R) = some '/') := by
        cases b with
        | nil => simp [peekR, srcChar]
        | cons b0 t =>
          have hb0 : b0.toNat ≠ 0 := (NoNul.of_cons hn').1
          simp only [noClose, Bool.and_eq_true, Bool.not_eq_true', Bool.and_eq_false_iff,
            beq_eq_false_iff_ne] at hb
          rw [chs_cons, List.cons_append, peekR_cons_ch _ _ hb0]
          rintro ⟨h1, h2⟩
          simp only [Option.some.injEq] at h2
          rcases hb.1 with h | h
          · exact h h1
          · exact h h2
      rw [chs_cons, List.cons_append, splitComment]
      simp only [srcChar_ch a ha, if_neg hcl, ih hn' hb']

theorem splitComment_none_iff (X : List Src) :
    splitComment X = none ↔
      ¬ ∃ body R, X = chs body ++ .ch '*' :: .ch '/' :: R ∧ NoNul body ∧ noClose body = true := by
  constructor
  · rintro h ⟨body, R, hx⟩
    rw [(splitComment_some_iff X body R).mpr hx] at h
    simp at h
  · intro h
    cases hs : splitComment X with
    | none => rfl
    | some p =>
      obtain ⟨body, R⟩ := p
      exact absurd ⟨body, R, (splitComment_some_iff X body R).mp hs⟩ h

/-- **the loop of `scanComment`, for every source**: entered with the rune after `/*` (stream "current rune
    `peekR X`, state `afterR s X`") and fuel for every position of `X`,
    * if `X` is a NUL-free, well-decoded body without `*/`, then `*/`, then `R`, it returns the rune after the
      comment, `(peekR R, afterR s R)`;
    * in every other case (`splitComment X = none`) it returns `none` (Go: `stopTok`) with an error on record. -/
theorem commentLoop_spec (s : LState) : ∀ (X : List Src) (f : Nat), X.length + 1 ≤ f →
    (∀ body R, splitComment X = some (body, R) →
        commentLoop f (peekR X) (afterR s X) = (peekR R, afterR s R)) ∧
    (splitComment X = none →
        (commentLoop f (peekR X) (afterR s X)).1 = none ∧ (commentLoop f (peekR X) (afterR s X)).2.err = true) := by
  intro X
  induction X with
  | nil =>
    intro f hf
    obtain ⟨f', rfl⟩ : ∃ f', f = f' + 1 := ⟨f - 1, by omega⟩
    refine ⟨fun body R h => by simp [splitComment] at h, fun _ => ?_⟩
    simp [commentLoop, peekR, setErr]
  | cons x X' ih =>
    intro f hf
    obtain ⟨f', rfl⟩ : ∃ f', f = f' + 1 := ⟨f - 1, by omega⟩
    cases hx : srcChar x with
    | none =>
      have hp : peekR (x :: X') = none := hx
      refine ⟨fun body R h => by simp [splitComment, hx] at h, fun _ => ?_⟩
      rw [hp]
      simp [commentLoop, setErr]
    | some c =>
      obtain ⟨hxc, hc0⟩ := srcChar_eq_some hx
      subst hxc
      have hp : peekR (.ch c :: X') = some c := hx
      have hstep : commentLoop (f' + 1) (some c) (withRest s X') =
          if c = '*' ∧ peekR X' = some '/' then next (afterR s X')
          else commentLoop f' (peekR X') (afterR s X') := by
        rw [commentLoop]
        simp only [next_withRest]
        by_cases hcl : c = '*' ∧ peekR X' = some '/'
        · rw [if_pos hcl]; simp [hcl.1, hcl.2]
        · rw [if_neg hcl]
          have : (decide (c = '*') && decide (peekR X' = some '/')) = false := by
            simp only [Bool.and_eq_false_iff, decide_eq_false_iff_not]
            by_cases h1 : c = '*'
            · right; exact fun h2 => hcl ⟨h1, h2⟩
            · left; exact h1
          simp only [this, Bool.false_eq_true, if_false]
      rw [hp, afterR_cons_ch s c X' hc0, hstep]
      have hih := ih f' (by simp at hf; omega)
      unfold splitComment
      simp only [hx]
      by_cases hcl : c = '*' ∧ peekR X' = some '/'
      · simp only [if_pos hcl]
        obtain ⟨R', hR', _⟩ := peekR_eq_some hcl.2
        refine ⟨fun body R h => ?_, fun h => by simp at h⟩
        simp only [Option.some.injEq, Prod.mk.injEq] at h
        rw [← h.2, hR', afterR_cons_ch s '/' R' (by decide)]
        exact next_withRest s R'
      · simp only [if_neg hcl]
        cases hsp : splitComment X' with
        | none =>
          refine ⟨fun body R h => by simp at h, fun _ => hih.2 hsp⟩
        | some p =>
          obtain ⟨b, R'⟩ := p
          refine ⟨fun body R h => ?_, fun h => by simp at h⟩
          simp only [Option.some.injEq, Prod.mk.injEq] at h
          rw [← h.2]
          exact hih.1 b R' hsp

/-- a closed comment: the loop returns the rune after the comment and the state it left -/
theorem commentLoop_closed (s : LState) (body : List Char) (R : List Src) (hn : NoNul body)
    (hb : noClose body = true) (f : Nat) (hf : body.length + 3 ≤ f) :
    commentLoop f (peekR (chs body ++ .ch '*' :: .ch '/' :: R)) (afterR s (chs body ++ .ch '*' :: .ch '/' :: R))
      = (peekR R, afterR s R) := by
  -- fuel: run the general statement on the source cut after the `*/` (the loop never looks further)
  have key : ∀ (body : List Char), NoNul body → noClose body = true → ∀ f, body.length + 1 ≤ f →
      commentLoop f (peekR (chs body ++ .ch '*' :: .ch '/' :: R)) (afterR s (chs body ++ .ch '*' :: .ch '/' :: R))
        = (peekR R, afterR s R) := by
    intro body
    induction body with
    | nil =>
      intro _ _ f hf
      obtain ⟨f', rfl⟩ : ∃ f', f = f' + 1 := ⟨f - 1, by simp at hf; omega⟩
      simp only [chs, List.map_nil, List.nil_append]
      rw [peekR_cons_ch _ _ (by decide), afterR_cons_ch s '*' _ (by decide), commentLoop]
      simp only [next_withRest, peekR_cons_ch '/' R (by decide), afterR_cons_ch s '/' R (by decide)]
      simp
    | cons a b ih =>
      intro hn hb f hf
      obtain ⟨f', rfl⟩ : ∃ f', f = f' + 1 := ⟨f - 1, by simp at hf; omega⟩
      have ha : a.toNat ≠ 0 := (NoNul.of_cons hn).1
      have hn' := (NoNul.of_cons hn).2
      have hb' : noClose b = true := by
        cases b with
        | nil => rfl
        | cons b0 t => simp only [noClose, Bool.and_eq_true] at hb; exact hb.2
      have hcond : (decide (a = '*') && decide (peekR (chs b ++ .ch '*' :: .ch '/' :: R) = some '/')) = false := by
        cases b with
        | nil => simp [peekR, srcChar]
        | cons b0 t =>
          have hb0 : b0.toNat ≠ 0 := (NoNul.of_cons hn').1
          simp only [noClose, Bool.and_eq_true, Bool.not_eq_true', Bool.and_eq_false_iff,
            beq_eq_false_iff_ne] at hb
          rw [chs_cons, List.cons_append, peekR_cons_ch _ _ hb0]
          simp only [Option.some.injEq, Bool.and_eq_false_iff, decide_eq_false_iff_not]
          exact hb.1
      rw [chs_cons, List.cons_append, peekR_cons_ch _ _ ha, afterR_cons_ch s a _ ha, commentLoop]
      simp only [next_withRest, hcond, Bool.false_eq_true, if_false]
      exact ih hn' hb' f' (by simp at hf ⊢; omega)
  exact key body hn hb f (by omega)

section
variable (o : Oracles)

/-! ## §2 The body of `Lex` on white space and comments, over any source -/

/-- `lexFrom` with no rune left answers `stopTok` and leaves the state alone -/
theorem lexFrom_none (f : Nat) (s : LState) : lexFrom o (f + 1) none s = ⟨.stop, [], none, s⟩ := by
  rw [lexFrom]
  simp [skipWs]

/-- the body of `Lex` skips one white-space character, whatever follows it -/
theorem lexFrom_ws_step (f : Nat) (s : LState) (w : Char) (hw : isWhitespace w = true) (Y : List Src) :
    lexFrom o (f + 1) (some w) (withRest s Y) = lexFrom o (f + 1) (peekR Y) (afterR s Y) := by
  have h1 : skipWs ((withRest s Y).rest.length + 3) (some w) (withRest s Y)
      = skipWs ((afterR s Y).rest.length + 3) (peekR Y) (afterR s Y) := by
    rw [afterR_rest, withRest_rest]
    cases Y with
    | nil =>
      simp [skipWs, hw, next_withRest, peekR]
    | cons x Y' =>
      simp only [List.length_cons, List.tail_cons]
      rw [show Y'.length + 1 + 3 = (Y'.length + 3) + 1 from rfl, skipWs]
      simp only [hw, if_true, next_withRest]
  rw [lexFrom, lexFrom, h1]

variable (hx : o.xidStart '/' = false)
include hx

/-- `/*` at a token start: the comment loop runs on what follows, then `Lex` starts over (`goto redo`) with
    one unit of fuel less -/
theorem lexFrom_slash_star (f : Nat) (s : LState) (X : List Src) :
    lexFrom o (f + 1) (some '/') (withRest s (.ch '*' :: X)) =
      lexFrom o f (commentLoop (X.tail.length + 3) (peekR X) (afterR s X)).1
        (commentLoop (X.tail.length + 3) (peekR X) (afterR s X)).2 := by
  rw [lexFrom]
  rw [skipWs_nonws _ _ _ (by decide)]
  simp only [isIdentStart, hx, next_cons_ch s '*' X (by decide), next_withRest, afterR_rest]
  simp [isDecimal]

/-- the body of `Lex` skips one closed comment (one unit of fuel) -/
theorem lexFrom_comment_closed (f : Nat) (s : LState) (body : List Char) (R : List Src) (hn : NoNul body)
    (hb : noClose body = true) :
    lexFrom o (f + 1) (some '/') (withRest s (.ch '*' :: (chs body ++ .ch '*' :: .ch '/' :: R)))
      = lexFrom o f (peekR R) (afterR s R) := by
  rw [lexFrom_slash_star o hx, commentLoop_closed s body R hn hb _ (by simp [chs_length])]

/-- **an unterminated comment at a token start** (end of input, NUL or an undecodable byte before the first
    `*/`): `Lex` answers `stopTok` with an error on record -/
theorem lexFrom_comment_unclosed (f : Nat) (s : LState) (X : List Src) (hX : splitComment X = none) :
    (lexFrom o (f + 2) (some '/') (withRest s (.ch '*' :: X))).tok = .stop ∧
    (lexFrom o (f + 2) (some '/') (withRest s (.ch '*' :: X))).ch = none ∧
    (lexFrom o (f + 2) (some '/') (withRest s (.ch '*' :: X))).st.err = true := by
  have h := (commentLoop_spec s X (X.tail.length + 3) (by simp [List.length_tail]; omega)).2 hX
  rw [lexFrom_slash_star o hx, h.1, lexFrom_none]
  exact ⟨rfl, rfl, h.2⟩

/-- **`lexFrom_skip_sep`**: the body of `Lex` started on a separator `sep` (blanks, tabs, newlines, carriage
    returns, closed comments) followed by ANY source `X` skips the separator entirely and goes on with the
    stream of `X`.  Fuel: only comments use fuel (one unit each); `f' ≤ f ≤ f' + sep.length`. -/
theorem lexFrom_skip_sep {sep : List Char} (hs : Sep sep) (s : LState) (X : List Src) :
    ∀ f, sep.length ≤ f → ∃ f', f' ≤ f ∧ f ≤ f' + sep.length ∧
      lexFrom o (f + 1) (peekR (chs sep ++ X)) (afterR s (chs sep ++ X))
        = lexFrom o (f' + 1) (peekR X) (afterR s X) := by
  induction hs with
  | nil => intro f _; exact ⟨f, Nat.le_refl _, by simp, rfl⟩
  | @ws w t hw ht ih =>
    intro f hf
    obtain ⟨f', h1, h2, h3⟩ := ih f (by simp at hf; omega)
    refine ⟨f', h1, by simp; omega, ?_⟩
    rw [← h3, chs_cons, List.cons_append, peekR_cons_ch _ _ (ws_ne_zero hw),
      afterR_cons_ch s w _ (ws_ne_zero hw)]
    exact lexFrom_ws_step o f s w hw _
  | @comment body t hn hb ht ih =>
    intro f hf
    obtain ⟨f0, rfl⟩ : ∃ f0, f = f0 + 1 := ⟨f - 1, by simp at hf; omega⟩
    obtain ⟨f', h1, h2, h3⟩ := ih f0 (by simp at hf; omega)
    refine ⟨f', by omega, by simp; omega, ?_⟩
    rw [← h3]
    have e : chs ('/' :: '*' :: (body ++ '*' :: '/' :: t)) ++ X
        = .ch '/' :: .ch '*' :: (chs body ++ .ch '*' :: .ch '/' :: (chs t ++ X)) := by
      simp [chs]
    rw [e, peekR_cons_ch _ _ (by decide), afterR_cons_ch s '/' _ (by decide)]
    exact lexFrom_comment_closed o hx (f0 + 1) s body (chs t ++ X) hn hb

/-! ## §3 A lexing error at the first token start (after a separator) rejects the input -/

/-- **`parse_err_after_sep`**: the input is a separator `sep` followed by `X`, and the body of `Lex`, started on
    the stream of `X` in the initial state with any fuel `f + 1 ≥ X.length + 2`, ends with an error on record:
    then the input is rejected.  (Instantiate `h` with a theorem "malformed token ⇒ `st.err = true`" that holds
    for every fuel ≥ 1 and every state, or every state without error: `LState.init bytes` has none.) -/
theorem parse_err_after_sep (bytes : List UInt8) {sep : List Char} (hs : Sep sep) (X : List Src)
    (hd : decodeAll bytes = chs sep ++ X)
    (h : ∀ f, X.length + 1 ≤ f →
      (lexFrom o (f + 1) (peekR X) (afterR (LState.init bytes) X)).st.err = true) :
    parse o bytes = .err := by
  apply parse_err_of_first_token
  rw [afterR_rest, hd]
  obtain ⟨f', h1, h2, h3⟩ := lexFrom_skip_sep o hx hs (LState.init bytes) X ((chs sep ++ X).tail.length + 2)
    (by simp [List.length_tail, chs_length]; omega)
  rw [show (chs sep ++ X).tail.length + 3 = ((chs sep ++ X).tail.length + 2) + 1 from rfl, h3]
  apply h
  simp [List.length_tail, chs_length] at h2
  omega

end

/-! ## §4 Which characters can start a token

`Lex`, having skipped white space, looks at the current rune `c` and takes the FIRST applicable case:
identifier start (`_`, a backslash — outside strings a backslash starts an identifier, it is the beginning of an
escape —, or `xid.Start`) → `scanIdent`; decimal digit → `scanNumber`; `"` → `scanString`; `$` → `scanVariable`;
`/` → comment or the token `/`; `.` → number or the token `.`; a private-use rune U+E000 … U+E032 → error
("invalid character"); everything else → `scanOperator`, which knows `= > < ! & | *` and returns any other rune as
its own token: one of the twelve `% ( ) + , - ? @ [ ] { }`, or — for EVERY other rune — goyacc's `$unk`
(`Tok.unk`), with the rune as text and WITHOUT recording an error.  The rejection of `$unk` is the parser's. -/

/-- the characters `scanOperator` knows -/
def opChars : List Char := ['=', '>', '<', '!', '&', '|', '*']

/-- the runes that are their own token in the grammar (`pathTok1`) -/
def tokChars : List Char := ['$', '%', '(', ')', '*', '+', ',', '-', '.', '/', '?', '@', '[', ']', '{', '}']

/-- **the characters that can start a token**: an identifier start (`_`, backslash, `xid.Start`), a decimal digit,
    `"`, `$`, `/`, `.`, one of `= > < ! & | *`, one of the twelve `( ) [ ] { } , ? @ + - %` (`RoundTrip.solo`) -/
def StartsToken (o : Oracles) (c : Char) : Prop :=
  (c = '_' ∨ c = '\\' ∨ o.xidStart c = true) ∨ isDecimal c = true ∨ c = '"' ∨ c = '$' ∨ c = '/' ∨ c = '.'
    ∨ c ∈ opChars ∨ c ∈ solo

theorem tokOfRune_unk (c : Char) (h : c ∉ tokChars) (hp : isPrivateTokenRune c = false) : tokOfRune c = .unk := by
  have hne : ∀ n, Char.ofNat n ∈ tokChars → c.toNat ≠ n :=
    fun n hm hc => h (by rw [char_of_toNat hc]; exact hm)
  have hk : (decide (firstNamed ≤ c.toNat) && decide (c.toNat < firstNamed + kwTable.length)) = false := by
    cases hd : (decide (firstNamed ≤ c.toNat) && decide (c.toNat < firstNamed + kwTable.length)) with
    | false => rfl
    | true =>
      exfalso
      have hl : kwTable.length = 48 := rfl
      have a := of_decide_eq_true (Bool.and_eq_true _ _ ▸ hd).1
      have b := of_decide_eq_true (Bool.and_eq_true _ _ ▸ hd).2
      rw [hl] at b
      have a' : 57346 ≤ c.toNat := a
      have b' : c.toNat < 57346 + 48 := b
      have : isPrivateTokenRune c = true := by
        unfold isPrivateTokenRune
        rw [Bool.and_eq_true]
        exact ⟨decide_eq_true (show 57344 ≤ c.toNat by omega), decide_eq_true (show c.toNat < 57344 + 51 by omega)⟩
      rw [hp] at this
      exact absurd this (by decide)
  unfold tokOfRune
  simp only [hne 36 (by decide), hne 37 (by decide), hne 40 (by decide), hne 41 (by decide), hne 42 (by decide),
    hne 43 (by decide), hne 44 (by decide), hne 45 (by decide), hne 46 (by decide), hne 47 (by decide),
    hne 63 (by decide), hne 64 (by decide), hne 91 (by decide), hne 93 (by decide), hne 123 (by decide),
    hne 125 (by decide), hk, if_false, Bool.false_eq_true]

theorem tokOfRune_solo (c : Char) (h : c ∈ solo) : tokOfRune c ≠ .unk := by
  simp [solo] at h
  rcases h with h | h | h | h | h | h | h | h | h | h | h | h <;> subst h <;> decide

/-! ### `scanOperator`: the exact outcomes -/

/-- the result of `scanOperator` when the operator has two characters -/
def twoR (t : Tok) (s : LState) : ScanR := ⟨t, [], (next (next s).2).1, (next (next s).2).2⟩
/-- the result of `scanOperator` when one character is consumed -/
def oneR (t : Tok) (c : Char) (s : LState) : ScanR := ⟨t, [c], (next s).1, (next s).2⟩

/-- `scanOperator`, with the two reads of `next` spelled out -/
theorem scanOperator_def (c : Char) (s : LState) :
    scanOperator c s =
      if c = '=' then (if (next s).1 = some '=' then twoR .equal s else oneR (tokOfRune c) c s)
      else if c = '>' then (if (next s).1 = some '=' then twoR .greaterEq s else oneR .greater c s)
      else if c = '<' then
        (if (next s).1 = some '=' then twoR .lessEq s
         else if (next s).1 = some '>' then twoR .notEq s else oneR .less c s)
      else if c = '!' then (if (next s).1 = some '=' then twoR .notEq s else oneR .not c s)
      else if c = '&' then (if (next s).1 = some '&' then twoR .and s else oneR (tokOfRune c) c s)
      else if c = '|' then (if (next s).1 = some '|' then twoR .or s else oneR (tokOfRune c) c s)
      else if c = '*' then (if (next s).1 = some '*' then twoR .any s else oneR (tokOfRune c) c s)
      else oneR (tokOfRune c) c s := rfl

theorem scanOperator_other (c : Char) (h : c ∉ opChars) (s : LState) :
    scanOperator c s = ⟨tokOfRune c, [c], (next s).1, (next s).2⟩ := by
  simp only [opChars, List.mem_cons, List.not_mem_nil, or_false, not_or] at h
  obtain ⟨h1, h2, h3, h4, h5, h6, h7⟩ := h
  rw [scanOperator_def, if_neg h1, if_neg h2, if_neg h3, if_neg h4, if_neg h5, if_neg h6, if_neg h7]
  rfl

theorem scanOperator_eq (s : LState) :
    scanOperator '=' s = if (next s).1 = some '=' then twoR .equal s else oneR .unk '=' s := by
  rw [scanOperator_def, if_pos rfl, show tokOfRune '=' = .unk by decide]
theorem scanOperator_gt (s : LState) :
    scanOperator '>' s = if (next s).1 = some '=' then twoR .greaterEq s else oneR .greater '>' s := by
  rw [scanOperator_def, if_neg (by decide), if_pos rfl]
theorem scanOperator_lt (s : LState) :
    scanOperator '<' s = if (next s).1 = some '=' then twoR .lessEq s
      else if (next s).1 = some '>' then twoR .notEq s else oneR .less '<' s := by
  rw [scanOperator_def, if_neg (by decide), if_neg (by decide), if_pos rfl]
theorem scanOperator_bang (s : LState) :
    scanOperator '!' s = if (next s).1 = some '=' then twoR .notEq s else oneR .not '!' s := by
  rw [scanOperator_def, if_neg (by decide), if_neg (by decide), if_neg (by decide), if_pos rfl]
theorem scanOperator_amp (s : LState) :
    scanOperator '&' s = if (next s).1 = some '&' then twoR .and s else oneR .unk '&' s := by
  rw [scanOperator_def, if_neg (by decide), if_neg (by decide), if_neg (by decide), if_neg (by decide), if_pos rfl,
    show tokOfRune '&' = .unk by decide]
theorem scanOperator_bar (s : LState) :
    scanOperator '|' s = if (next s).1 = some '|' then twoR .or s else oneR .unk '|' s := by
  rw [scanOperator_def, if_neg (by decide), if_neg (by decide), if_neg (by decide), if_neg (by decide),
    if_neg (by decide), if_pos rfl, show tokOfRune '|' = .unk by decide]
theorem scanOperator_star (s : LState) :
    scanOperator '*' s = if (next s).1 = some '*' then twoR .any s else oneR .star '*' s := by
  rw [scanOperator_def, if_neg (by decide), if_neg (by decide), if_neg (by decide), if_neg (by decide),
    if_neg (by decide), if_neg (by decide), if_pos rfl, show tokOfRune '*' = .star by decide]

/-- `scanOperator` answers `$unk` exactly for a lone `=`, `&`, `|` and for a rune that is no token of the grammar -/
theorem scanOperator_unk_iff (c : Char) (s : LState) :
    (scanOperator c s).tok = .unk ↔
      ((c = '=' ∨ c = '&' ∨ c = '|') ∧ (next s).1 ≠ some c) ∨ (c ∉ opChars ∧ tokOfRune c = .unk) := by
  by_cases hop : c ∈ opChars
  · simp only [opChars, List.mem_cons, List.not_mem_nil, or_false] at hop
    rcases hop with h | h | h | h | h | h | h <;> subst h
    · rw [scanOperator_eq]; by_cases hn : (next s).1 = some '=' <;> simp [hn, twoR, oneR, opChars]
    · rw [scanOperator_gt]; by_cases hn : (next s).1 = some '=' <;> simp [hn, twoR, oneR, opChars]
    · rw [scanOperator_lt]
      by_cases hn : (next s).1 = some '=' <;> by_cases hn2 : (next s).1 = some '>' <;>
        simp [hn, hn2, twoR, oneR, opChars]
    · rw [scanOperator_bang]; by_cases hn : (next s).1 = some '=' <;> simp [hn, twoR, oneR, opChars]
    · rw [scanOperator_amp]; by_cases hn : (next s).1 = some '&' <;> simp [hn, twoR, oneR, opChars]
    · rw [scanOperator_bar]; by_cases hn : (next s).1 = some '|' <;> simp [hn, twoR, oneR, opChars]
    · rw [scanOperator_star]; by_cases hn : (next s).1 = some '*' <;> simp [hn, twoR, oneR, opChars]
  · rw [scanOperator_other c hop]
    have h3 : ¬ (c = '=' ∨ c = '&' ∨ c = '|') := by
      intro h; apply hop; simp only [opChars]; rcases h with h | h | h <;> subst h <;> decide
    simp [hop, h3]

/-! ### no scanner other than `scanOperator` ever answers `$unk` -/

def isUnk (t : Tok) : Bool := t = .unk

theorem identToken_ne_unk (o : Oracles) (t : List Char) : identToken o t ≠ .unk := by
  have : isUnk (identToken o t) = false := by
    unfold identToken
    simp only [apply_ite isUnk]
    simp [isUnk]
  intro h; rw [h] at this; exact absurd this (by decide)

theorem scanIdent_ne_unk (o : Oracles) (c : Char) (s : LState) : (scanIdent o c s).tok ≠ .unk := by
  unfold scanIdent
  simp only []
  repeat' split
  all_goals first
    | (intro h; simp at h; done)
    | exact identToken_ne_unk o _

theorem scanIdent_stop_err' (o : Oracles) (c : Char) (s : LState) :
    (scanIdent o c s).tok = .stop → (scanIdent o c s).st.err = true := by
  unfold scanIdent
  simp only []
  repeat' split
  all_goals first
    | (intro _; assumption)
    | (intro h
       simp only [] at h
       have hh : ∀ t, identToken o t = .stop → False := by
         intro t ht
         have := identToken_notStop o t
         rw [ht] at this
         exact absurd this (by decide)
       exact absurd h (fun h' => hh _ h'))

theorem stringLoop_tok (ret : Tok) : ∀ (f : Nat) (ch : Option Char) (buf : List Char) (s : LState),
    (stringLoop f ret ch buf s).tok = ret ∨ (stringLoop f ret ch buf s).tok = .stop
  | 0, _, _, s => by simp [stringLoop]
  | f + 1, ch, buf, s => by
    unfold stringLoop
    split
    · exact Or.inr rfl
    · split
      · exact Or.inl rfl
      · split
        · exact Or.inr rfl
        · split
          · exact stringLoop_tok ret f _ _ _
          · exact stringLoop_tok ret f _ _ _

theorem scanString_tok (ret : Tok) (s : LState) : (scanString ret s).tok = ret ∨ (scanString ret s).tok = .stop := by
  unfold scanString
  exact stringLoop_tok ret _ _ _ _

theorem scanVariable_tok (o : Oracles) (s : LState) :
    (scanVariable o s).tok = .variable ∨ (scanVariable o s).tok = .dollar ∨ (scanVariable o s).tok = .stop := by
  unfold scanVariable
  simp only []
  split
  · rcases scanString_tok .variable (next s).2 with h | h
    · exact Or.inl h
    · exact Or.inr (Or.inr h)
  · split
    · exact Or.inl rfl
    · exact Or.inr (Or.inl rfl)

/-- the token of a number scanner: the one it was heading for, `NUMERIC_P`, or `stopTok` -/
def NumT (t0 t : Tok) : Prop := t = t0 ∨ t = .numeric ∨ t = .stop

theorem numFinish_tok (o : Oracles) (tok : Tok) (ch : Option Char) (digSep : Nat) (inv : Option Char)
    (acc : List Char) (s : LState) : NumT tok (numFinish o tok ch digSep inv acc s).tok := by
  unfold numFinish numErr
  repeat' split
  all_goals first
    | exact Or.inl rfl
    | exact Or.inr (Or.inr rfl)

theorem expPart_tok (o : Oracles) (pp : Bool) (tok1 : Tok) (ch1 : Option Char) (digSep1 : Nat)
    (inv1 : Option Char) (acc1 : List Char) (s1 : LState) :
    NumT tok1 (expPart o pp tok1 ch1 digSep1 inv1 acc1 s1).tok := by
  unfold expPart numErr
  simp only []
  repeat' split
  all_goals first
    | exact Or.inr (Or.inr rfl)
    | exact numFinish_tok o _ _ _ _ _ _
    | (rcases numFinish_tok o .numeric _ _ _ _ _ with h | h | h
       · exact Or.inr (Or.inl h)
       · exact Or.inr (Or.inl h)
       · exact Or.inr (Or.inr h))

theorem fracPart_tok1 (tok0 : Tok) (seenDot : Bool) (base : Nat) (ch : Option Char)
    (digSep : Nat) (inv : Option Char) (acc : List Char) (s : LState) :
    (fracPart tok0 seenDot base ch digSep inv acc s).1 = tok0 ∨
    (fracPart tok0 seenDot base ch digSep inv acc s).1 = .numeric := by
  unfold fracPart
  split
  · exact Or.inr rfl
  · exact Or.inl rfl

theorem scanNumberTail_tok (o : Oracles) (tok0 : Tok) (seenDot : Bool) (base : Nat)
    (pp : Bool) (ch : Option Char) (digSep : Nat) (inv : Option Char) (acc : List Char) (s : LState) :
    NumT tok0 (scanNumberTail o tok0 seenDot base pp ch digSep inv acc s).tok := by
  unfold scanNumberTail
  simp only []
  have h := fracPart_tok1 tok0 seenDot base ch digSep inv acc s
  generalize fracPart tok0 seenDot base ch digSep inv acc s = p at h ⊢
  obtain ⟨t1, c1, d1, i1, a1, s1⟩ := p
  simp only at h ⊢
  rcases expPart_tok o pp t1 c1 d1 i1 a1 s1 with h2 | h2 | h2
  · rcases h with h | h
    · exact Or.inl (h2.trans h)
    · exact Or.inr (Or.inl (h2.trans h))
  · exact Or.inr (Or.inl h2)
  · exact Or.inr (Or.inr h2)

theorem scanNumberBody_tok (o : Oracles) (base : Nat) (pp : Bool) (d0 : Nat) (ch : Option Char)
    (acc1 : List Char) (s1 : LState) : NumT .int (scanNumberBody o base pp d0 ch acc1 s1).tok := by
  unfold scanNumberBody numErr
  simp only []
  repeat' split
  all_goals first
    | exact Or.inl rfl
    | exact Or.inr (Or.inr rfl)
    | exact scanNumberTail_tok o .int _ _ _ _ _ _ _ _

theorem scanNumber_tok (o : Oracles) (c : Char) (seenDot : Bool) (acc : List Char) (s : LState) :
    NumT .int (scanNumber o c seenDot acc s).tok := by
  unfold scanNumber numErr
  repeat' split
  all_goals first
    | exact Or.inr (Or.inr rfl)
    | exact scanNumberBody_tok o _ _ _ _ _ _
    | (rcases scanNumberTail_tok o .numeric true 10 true (some c) 0 none acc s with h | h | h
       · exact Or.inr (Or.inl h)
       · exact Or.inr (Or.inl h)
       · exact Or.inr (Or.inr h))

theorem numT_ne_unk {t : Tok} (h : NumT .int t) : t ≠ .unk := by
  rcases h with h | h | h <;> (rw [h]; decide)

section
variable (o : Oracles)

/-- **the decision of `Lex` on the current rune** (white space already skipped), case by case in the order of
    the Go `switch` -/
theorem lexFrom_dispatch (c : Char) (hws : isWhitespace c = false) (f : Nat) (s : LState) :
    lexFrom o (f + 1) (some c) s =
      if isIdentStart o (some c) then scanIdent o c s
      else if isDecimal c then scanNumber o c false [] s
      else if c = '"' then scanString .string s
      else if c = '$' then scanVariable o s
      else if c = '/' then
        (if (next s).1 = some '*' then
          lexFrom o f
            (commentLoop ((next (next s).2).2.rest.length + 3) (next (next s).2).1 (next (next s).2).2).1
            (commentLoop ((next (next s).2).2.rest.length + 3) (next (next s).2).1 (next (next s).2).2).2
         else ⟨.slash, ['/'], (next s).1, (next s).2⟩)
      else if c = '.' then
        (match (next s).1 with
         | some d =>
           if isDecimal d then scanNumber o d true ['.'] (next s).2 else ⟨.dot, ['.'], (next s).1, (next s).2⟩
         | none => ⟨.dot, ['.'], (next s).1, (next s).2⟩)
      else if isPrivateTokenRune c then ⟨.stop, [], none, setErr (next s).2⟩
      else scanOperator c s := by
  rw [lexFrom, skipWs_nonws _ _ _ hws]
  rfl

/-- what `¬ StartsToken` says, spelled out -/
theorem not_startsToken {c : Char} (h : ¬ StartsToken o c) :
    isIdentStart o (some c) = false ∧ isDecimal c = false ∧ c ≠ '"' ∧ c ≠ '$' ∧ c ≠ '/' ∧ c ≠ '.' ∧
      c ∉ opChars ∧ c ∉ solo ∧ c ∉ tokChars := by
  unfold StartsToken at h
  simp only [not_or] at h
  obtain ⟨⟨h1, h2, h3⟩, h4, h5, h6, h7, h8, h9, h10⟩ := h
  refine ⟨by simp [isIdentStart, h1, h2, h3], by simpa using h4, h5, h6, h7, h8, h9, h10, ?_⟩
  intro hm
  simp only [tokChars, List.mem_cons, List.not_mem_nil, or_false] at hm
  rcases hm with h | h | h | h | h | h | h | h | h | h | h | h | h | h | h | h
  all_goals first
    | exact h6 h | exact h7 h | exact h8 h
    | (apply h9; rw [h]; decide)
    | (apply h10; rw [h]; decide)

/-- **every other rune is the token `$unk`**: a rune that is not white space, cannot start a token and is not one
    of the private-use runes U+E000 … U+E032 (e.g. `#`, `^`, `~`, backquote, `;`, `'`, `:`, a control character,
    a non-identifier Unicode rune) is returned as the token `unk` with the rune as its text; the lexer records
    NO error for it (the state is the one `next` leaves) -/
theorem lexFrom_other (c : Char) (hws : isWhitespace c = false) (hn : ¬ StartsToken o c)
    (hp : isPrivateTokenRune c = false) (f : Nat) (s : LState) :
    lexFrom o (f + 1) (some c) s = ⟨.unk, [c], (next s).1, (next s).2⟩ := by
  obtain ⟨h1, h2, h3, h4, h5, h6, h7, h8, h9⟩ := not_startsToken o hn
  rw [lexFrom_dispatch o c hws, if_neg (by simp [h1]), if_neg (by simp [h2]), if_neg h3, if_neg h4, if_neg h5,
    if_neg h6, if_neg (by simp [hp]), scanOperator_other c h7, tokOfRune_unk c h9 hp]

/-- **a private-use rune U+E000 … U+E032 at a token start** (that the oracle does not take for an identifier
    start): `stopTok` with an error ("invalid character") -/
theorem lexFrom_private (c : Char) (hp : isPrivateTokenRune c = true) (hid : o.xidStart c = false)
    (f : Nat) (s : LState) :
    lexFrom o (f + 1) (some c) s = ⟨.stop, [], none, setErr (next s).2⟩ := by
  have hn : 57344 ≤ c.toNat := by
    unfold isPrivateTokenRune at hp
    rw [Bool.and_eq_true] at hp
    exact of_decide_eq_true hp.1
  have hne : ∀ d : Char, d.toNat < 57344 → c ≠ d := by
    intro d hd h
    rw [h] at hn
    omega
  have hws : isWhitespace c = false := by
    simp [isWhitespace, hne '\t' (by decide), hne '\n' (by decide), hne '\r' (by decide), hne ' ' (by decide)]
  have hdec : isDecimal c = false := by
    cases hd : isDecimal c with
    | false => rfl
    | true =>
      exfalso
      have := (isDecimal_facts c hd).2.2.2.2.2
      omega
  have hident : isIdentStart o (some c) = false := by
    simp [isIdentStart, hid, hne '_' (by decide), hne '\\' (by decide)]
  rw [lexFrom_dispatch o c hws, if_neg (by simp [hident]), if_neg (by simp [hdec]), if_neg (hne '"' (by decide)),
    if_neg (hne '$' (by decide)), if_neg (hne '/' (by decide)), if_neg (hne '.' (by decide)), if_pos hp]

/-- one of `= > < ! & | *` (not an identifier start for the oracle) goes to `scanOperator` -/
theorem lexFrom_op (c : Char) (hc : c ∈ opChars) (hid : o.xidStart c = false) (f : Nat) (s : LState) :
    lexFrom o (f + 1) (some c) s = scanOperator c s := by
  simp only [opChars, List.mem_cons, List.not_mem_nil, or_false] at hc
  rcases hc with h | h | h | h | h | h | h <;> subst h <;>
    (rw [lexFrom_dispatch o _ (by decide)]; simp [isIdentStart, hid, isDecimal, isPrivateTokenRune, pathPrivate])

/-- one of the twelve `( ) [ ] { } , ? @ + - %` (not an identifier start for the oracle) is its own token -/
theorem lexFrom_solo (c : Char) (hc : c ∈ solo) (hid : o.xidStart c = false) (f : Nat) (s : LState) :
    lexFrom o (f + 1) (some c) s = ⟨tokOfRune c, [c], (next s).1, (next s).2⟩ := by
  simp only [solo, List.mem_cons, List.not_mem_nil, or_false] at hc
  rcases hc with h | h | h | h | h | h | h | h | h | h | h | h <;> subst h <;>
    (rw [lexFrom_dispatch o _ (by decide)]
     simp [isIdentStart, hid, isDecimal, isPrivateTokenRune, pathPrivate, scanOperator])

/-- **when the first token of a text is `$unk`** — exactly.  For a rune `c` that is not white space, at a token
    start, and not the opening of a comment: the body of `Lex` answers `unk` iff `c` cannot start a token (and is
    no private-use token rune), or `c` is a lone `=`, `&`, `|` (the oracle not taking it for an identifier start) -/
theorem lexFrom_unk_iff (c : Char) (hws : isWhitespace c = false) (f : Nat) (s : LState)
    (hcom : ¬ (c = '/' ∧ (next s).1 = some '*')) :
    (lexFrom o (f + 1) (some c) s).tok = .unk ↔
      (¬ StartsToken o c ∧ isPrivateTokenRune c = false) ∨
      (isIdentStart o (some c) = false ∧ (c = '=' ∨ c = '&' ∨ c = '|') ∧ (next s).1 ≠ some c) := by
  constructor
  · intro h
    rw [lexFrom_dispatch o c hws] at h
    by_cases h1 : isIdentStart o (some c) = true
    · rw [if_pos h1] at h; exact absurd h (scanIdent_ne_unk o c s)
    rw [if_neg h1] at h
    by_cases h2 : isDecimal c = true
    · rw [if_pos h2] at h; exact absurd h (numT_ne_unk (scanNumber_tok o c false [] s))
    rw [if_neg h2] at h
    by_cases h3 : c = '"'
    · rw [if_pos h3] at h
      rcases scanString_tok .string s with h' | h' <;> rw [h'] at h <;> simp at h
    rw [if_neg h3] at h
    by_cases h4 : c = '$'
    · rw [if_pos h4] at h
      rcases scanVariable_tok o s with h' | h' | h' <;> rw [h'] at h <;> simp at h
    rw [if_neg h4] at h
    by_cases h5 : c = '/'
    · rw [if_pos h5, if_neg (fun hh => hcom ⟨h5, hh⟩)] at h
      simp at h
    rw [if_neg h5] at h
    by_cases h6 : c = '.'
    · rw [if_pos h6] at h
      split at h
      · split at h
        · exact absurd h (numT_ne_unk (scanNumber_tok o _ true ['.'] _))
        · simp at h
      · simp at h
    rw [if_neg h6] at h
    by_cases h7 : isPrivateTokenRune c = true
    · rw [if_pos h7] at h; simp at h
    rw [if_neg h7] at h
    have h1' : isIdentStart o (some c) = false := by simpa using h1
    rcases (scanOperator_unk_iff c s).mp h with hl | ⟨hop, hu⟩
    · exact Or.inr ⟨h1', hl.1, hl.2⟩
    · left
      refine ⟨?_, by simpa using h7⟩
      simp only [isIdentStart, Bool.or_eq_false_iff, decide_eq_false_iff_not] at h1'
      unfold StartsToken
      simp only [not_or]
      refine ⟨⟨h1'.1.1, h1'.1.2, by simp [h1'.2]⟩, h2, h3, h4, h5, h6, hop, ?_⟩
      exact fun hs => tokOfRune_solo c hs hu
  · rintro (⟨hn, hp⟩ | ⟨hid, hc, hnx⟩)
    · rw [lexFrom_other o c hws hn hp]
    · have hid' : o.xidStart c = false := by
        simp only [isIdentStart, Bool.or_eq_false_iff] at hid; exact hid.2
      have hop : c ∈ opChars := by rcases hc with h | h | h <;> subst h <;> decide
      rw [lexFrom_op o c hop hid']
      exact (scanOperator_unk_iff c s).mpr (Or.inl ⟨hc, hnx⟩)

/-! ## §5 `$unk` as the first token rejects the input -/

/-- no production starts with `$unk`: an operand cannot begin with it -/
theorem parseUnaryT_unk (f : Nat) (txt : List Char) (s : PS) : parseUnaryT o (f + 2) (.unk, txt) s = .syn := by
  rw [parseUnaryT]
  simp only [show (Tok.unk = Tok.plus) = False by simp, show (Tok.unk = Tok.minus) = False by simp,
    show (Tok.unk = Tok.lparen) = False by simp, if_false]
  rw [parseScalar]
  all_goals first | rfl | simp

/-- a state in which a predicate or an expression must start, the look-ahead being `$unk`: syntax error -/
theorem parseAtom_unk_cached (f : Nat) (ctx : Ctx) (s : PS) (txt : List Char) (hla : s.la = some (.unk, txt)) :
    parseAtom o (f + 3) ctx s = .syn := by
  have hp : peek o s = .ok (.unk, txt) s := by simp [peek, hla]
  rw [parseAtom, bind_apply, hp]
  simp only [show (Tok.unk = Tok.not) = False by simp, show (Tok.unk = Tok.exists) = False by simp,
    show (Tok.unk = Tok.lparen) = False by simp, show (Tok.unk = Tok.stop) = False by simp, if_false]
  rw [bind_apply, parseUnaryT_unk]

/-- the same when the token is still to be read: syntax error (or the fuel guard of the model) -/
theorem parseAtom_unk (f : Nat) (ctx : Ctx) (s : PS) (hla : s.la = none) (h : (Lex.lex o s.lx).1 = .unk) :
    parseAtom o (f + 3) ctx s = .syn ∨ parseAtom o (f + 3) ctx s = .fuel := by
  rw [parseAtom, bind_apply]
  by_cases hoof : (Lex.lex o s.lx).2.2.oof = true
  · right
    simp [peek, hla, hoof]
  · left
    have hp : peek o s = .ok (.unk, (Lex.lex o s.lx).2.1)
        { lx := (Lex.lex o s.lx).2.2, la := some (.unk, (Lex.lex o s.lx).2.1) } := by
      simp [peek, hla, hoof, h]
    rw [hp]
    simp only [show (Tok.unk = Tok.not) = False by simp, show (Tok.unk = Tok.exists) = False by simp,
      show (Tok.unk = Tok.lparen) = False by simp, show (Tok.unk = Tok.stop) = False by simp, if_false]
    rw [bind_apply, parseUnaryT_unk]

/-- **(5a) if the first token of the input is `$unk`, the input is rejected** (`Lex` itself skips a separator
    before the token) -/
theorem parse_err_of_unk_first (bytes : List UInt8) (h : (Lex.lex o (LState.init bytes)).1 = .unk) :
    parse o bytes = .err := by
  have key : Parse.run o bytes = .syn ∨ Parse.run o bytes = .fuel := by
    unfold Parse.run parseTop
    rw [parseBody_split, bind_apply, bind_apply]
    by_cases hoof : (Lex.lex o (LState.init bytes)).2.2.oof = true
    · right
      simp [peek, hoof]
    · have hp : peek o { lx := LState.init bytes, la := none } = .ok (.unk, (Lex.lex o (LState.init bytes)).2.1)
          { lx := (Lex.lex o (LState.init bytes)).2.2, la := some (.unk, (Lex.lex o (LState.init bytes)).2.1) } := by
        simp [peek, hoof, h]
      rw [hp]
      have hf : fuelFor bytes = (16 * bytes.length + 61) + 3 := rfl
      simp only [bodyAfterPeek, show (Tok.unk = Tok.strict) = False by simp,
        show (Tok.unk = Tok.lax) = False by simp, if_false]
      have hc := parseAtom_unk_cached o (16 * bytes.length + 61) .top
        { lx := (Lex.lex o (LState.init bytes)).2.2, la := some (.unk, (Lex.lex o (LState.init bytes)).2.1) } _ rfl
      simp only [bind_apply, pure_apply, hf, hc]
      left; trivial
  unfold parse
  rcases key with k | k <;> rw [k]

/-- the same after the mode: `strict` / `lax` followed by `$unk` -/
theorem parse_err_of_mode_unk (bytes : List UInt8)
    (h1 : (Lex.lex o (LState.init bytes)).1 = .strict ∨ (Lex.lex o (LState.init bytes)).1 = .lax)
    (h2 : (Lex.lex o (Lex.lex o (LState.init bytes)).2.2).1 = .unk) :
    parse o bytes = .err := by
  have key : Parse.run o bytes = .syn ∨ Parse.run o bytes = .fuel := by
    unfold Parse.run parseTop
    rw [parseBody_split, bind_apply, bind_apply]
    by_cases hoof : (Lex.lex o (LState.init bytes)).2.2.oof = true
    · right
      simp [peek, hoof]
    · have hns : (Lex.lex o (LState.init bytes)).1 ≠ .stop := by
        rcases h1 with h | h <;> rw [h] <;> simp
      have hp : peek o { lx := LState.init bytes, la := none } =
          .ok ((Lex.lex o (LState.init bytes)).1, (Lex.lex o (LState.init bytes)).2.1)
          { lx := (Lex.lex o (LState.init bytes)).2.2,
            la := some ((Lex.lex o (LState.init bytes)).1, (Lex.lex o (LState.init bytes)).2.1) } := by
        simp [peek, hoof, hns]
      rw [hp]
      have hf : fuelFor bytes = (16 * bytes.length + 61) + 3 := rfl
      have hat := parseAtom_unk o (16 * bytes.length + 61) .top
        { lx := (Lex.lex o (LState.init bytes)).2.2, la := none } rfl h2
      rcases h1 with h | h
      · simp only [bodyAfterPeek, h, if_true]
        simp only [bind_apply, consume, pure_apply, hf]
        rcases hat with k | k <;> rw [k] <;> simp
      · simp only [bodyAfterPeek, h, show (Tok.lax = Tok.strict) = False by simp, if_false, if_true]
        simp only [bind_apply, consume, pure_apply, hf]
        rcases hat with k | k <;> rw [k] <;> simp
  unfold parse
  rcases key with k | k <;> rw [k]

variable (hx : o.xidStart '/' = false)
include hx

/-- the first token of a text that is a separator followed by the rune `c` and anything: what the body of `Lex`
    answers on `c` -/
theorem lex_first_after_sep (bytes : List UInt8) {sep : List Char} (hs : Sep sep) (c : Char) (hc : c.toNat ≠ 0)
    (X : List Src) (hd : decodeAll bytes = chs sep ++ .ch c :: X) :
    ∃ f, (Lex.lex o (LState.init bytes)).1 = (lexFrom o (f + 1) (some c) (withRest (LState.init bytes) X)).tok ∧
      (Lex.lex o (LState.init bytes)).2.2.err
        = (lexFrom o (f + 1) (some c) (withRest (LState.init bytes) X)).st.err := by
  rw [lex_init]
  simp only [afterR_rest]
  rw [hd]
  obtain ⟨f', _, _, h3⟩ := lexFrom_skip_sep o hx hs (LState.init bytes) (.ch c :: X)
    ((chs sep ++ .ch c :: X).tail.length + 2) (by simp [List.length_tail, chs_length]; omega)
  refine ⟨f', ?_, ?_⟩ <;>
    rw [show (chs sep ++ .ch c :: X).tail.length + 3 = ((chs sep ++ .ch c :: X).tail.length + 2) + 1 from rfl, h3,
      peekR_cons_ch c X hc, afterR_cons_ch _ c X hc]

/-- **a text whose first character (after an optional separator) cannot start a token is rejected** -/
theorem parse_err_of_other_char (bytes : List UInt8) {sep : List Char} (hs : Sep sep) (c : Char) (hc : c.toNat ≠ 0)
    (hws : isWhitespace c = false) (hn : ¬ StartsToken o c) (hp : isPrivateTokenRune c = false)
    (X : List Src) (hd : decodeAll bytes = chs sep ++ .ch c :: X) : parse o bytes = .err := by
  obtain ⟨f, h1, _⟩ := lex_first_after_sep o hx bytes hs c hc X hd
  apply parse_err_of_unk_first
  rw [h1, lexFrom_other o c hws hn hp]

/-- **a text whose first character (after an optional separator) is a private-use rune U+E000 … U+E032** (not an
    identifier start for the oracle) is rejected -/
theorem parse_err_of_private_char (bytes : List UInt8) {sep : List Char} (hs : Sep sep) (c : Char)
    (hp : isPrivateTokenRune c = true) (hid : o.xidStart c = false)
    (X : List Src) (hd : decodeAll bytes = chs sep ++ .ch c :: X) : parse o bytes = .err := by
  have hc : c.toNat ≠ 0 := by
    unfold isPrivateTokenRune at hp
    rw [Bool.and_eq_true] at hp
    have : 57344 ≤ c.toNat := of_decide_eq_true hp.1
    omega
  obtain ⟨f, _, h2⟩ := lex_first_after_sep o hx bytes hs c hc X hd
  apply parse_err_of_lex_error
  rw [h2, lexFrom_private o c hp hid]
  rfl

/-- **a text whose first token (after an optional separator) is a lone `=`, `&` or `|`** is rejected -/
theorem parse_err_of_lone_op (bytes : List UInt8) {sep : List Char} (hs : Sep sep) (c : Char)
    (hc : c = '=' ∨ c = '&' ∨ c = '|') (hid : o.xidStart c = false)
    (X : List Src) (hX : peekR X ≠ some c) (hd : decodeAll bytes = chs sep ++ .ch c :: X) :
    parse o bytes = .err := by
  have hc0 : c.toNat ≠ 0 := by rcases hc with h | h | h <;> subst h <;> decide
  have hws : isWhitespace c = false := by rcases hc with h | h | h <;> subst h <;> decide
  obtain ⟨f, h1, _⟩ := lex_first_after_sep o hx bytes hs c hc0 X hd
  apply parse_err_of_unk_first
  rw [h1]
  refine (lexFrom_unk_iff o c hws f _ ?_).mpr (Or.inr ⟨?_, hc, ?_⟩)
  · rintro ⟨h, _⟩; rcases hc with h' | h' | h' <;> subst h' <;> simp at h
  · rcases hc with h | h | h <;> subst h <;> simp [isIdentStart, hid]
  · rw [next_withRest]; exact hX

/-- **an unterminated comment before the first token** (after an optional separator) rejects the input -/
theorem parse_err_of_unclosed_comment (bytes : List UInt8) {sep : List Char} (hs : Sep sep)
    (X : List Src) (hX : splitComment X = none) (hd : decodeAll bytes = chs sep ++ .ch '/' :: .ch '*' :: X) :
    parse o bytes = .err := by
  refine parse_err_after_sep o hx bytes hs _ hd ?_
  intro f hf
  obtain ⟨f0, rfl⟩ : ∃ f0, f = f0 + 1 := ⟨f - 1, by simp at hf; omega⟩
  rw [peekR_cons_ch _ _ (by decide), afterR_cons_ch _ '/' _ (by decide)]
  exact (lexFrom_comment_unclosed o hx f0 _ X hX).2.2

end

/-! ### the other first-character classes, one by one -/

section
variable (o : Oracles)

/-- an identifier start (`_`, backslash, `xid.Start`) goes to `scanIdent` — first, before every other case -/
theorem lexFrom_ident (c : Char) (hws : isWhitespace c = false) (h : isIdentStart o (some c) = true) (f : Nat)
    (s : LState) : lexFrom o (f + 1) (some c) s = scanIdent o c s := by
  rw [lexFrom_dispatch o c hws, if_pos h]

/-- `scanIdent` answers a keyword / identifier token, or `stopTok` with an error on record; never `$unk` -/
theorem scanIdent_outcome (c : Char) (s : LState) :
    ((scanIdent o c s).tok = .stop ∧ (scanIdent o c s).st.err = true) ∨
    ((scanIdent o c s).tok ≠ .stop ∧ (scanIdent o c s).tok ≠ .unk) := by
  by_cases h : (scanIdent o c s).tok = .stop
  · exact Or.inl ⟨h, scanIdent_stop_err' o c s h⟩
  · exact Or.inr ⟨h, scanIdent_ne_unk o c s⟩

/-- a decimal digit (no identifier start for the oracle) goes to `scanNumber` -/
theorem lexFrom_digit (c : Char) (hd : isDecimal c = true) (hid : o.xidStart c = false) (f : Nat) (s : LState) :
    lexFrom o (f + 1) (some c) s = scanNumber o c false [] s := by
  have hf := isDecimal_facts c hd
  have h1 : isIdentStart o (some c) = false := by simp [isIdentStart, hid, hf.2.1, hf.2.2.2.2.1]
  rw [lexFrom_dispatch o c hf.2.2.2.1, if_neg (by simp [h1]), if_pos hd]

/-- `"` goes to `scanString` -/
theorem lexFrom_quote (hid : o.xidStart '"' = false) (f : Nat) (s : LState) :
    lexFrom o (f + 1) (some '"') s = scanString .string s := by
  rw [lexFrom_dispatch o '"' (by decide)]
  simp [isIdentStart, hid, isDecimal]

/-- `$` goes to `scanVariable`: a variable (`$name`, `$"name"`), the token `$`, or `stopTok` -/
theorem lexFrom_dollar (hid : o.xidStart '$' = false) (f : Nat) (s : LState) :
    lexFrom o (f + 1) (some '$') s = scanVariable o s := by
  rw [lexFrom_dispatch o '$' (by decide)]
  simp [isIdentStart, hid, isDecimal]

/-- `/` not followed by `*` is the token `/` -/
theorem lexFrom_slash (hid : o.xidStart '/' = false) (f : Nat) (s : LState) (h : (next s).1 ≠ some '*') :
    lexFrom o (f + 1) (some '/') s = ⟨.slash, ['/'], (next s).1, (next s).2⟩ := by
  rw [lexFrom_dispatch o '/' (by decide)]
  simp [isIdentStart, hid, isDecimal, h]

/-- `.` followed by a decimal digit goes to `scanNumber` (fraction first) -/
theorem lexFrom_dot_digit (hid : o.xidStart '.' = false) (f : Nat) (s : LState) (d : Char)
    (h : (next s).1 = some d) (hd : isDecimal d = true) :
    lexFrom o (f + 1) (some '.') s = scanNumber o d true ['.'] (next s).2 := by
  rw [lexFrom_dispatch o '.' (by decide), if_neg (by simp [isIdentStart, hid]), if_neg (by decide),
    if_neg (by decide), if_neg (by decide), if_neg (by decide), if_pos rfl, h]
  simp only [hd, if_true]

/-- `.` followed by anything else is the token `.` -/
theorem lexFrom_dot_other (hid : o.xidStart '.' = false) (f : Nat) (s : LState)
    (h : isDecimalR (next s).1 = false) :
    lexFrom o (f + 1) (some '.') s = ⟨.dot, ['.'], (next s).1, (next s).2⟩ := by
  rw [lexFrom_dispatch o '.' (by decide)]
  cases hn : (next s).1 with
  | none => simp [isIdentStart, hid, isDecimal]
  | some d =>
    rw [hn] at h
    simp only [isDecimalR] at h
    simp [isIdentStart, hid, h]
    simp [isDecimal]

end

/-! ## §6 General position: an accepted input has no lexing error anywhere in its token stream

`lexIter o k s`: the lexer state after `k` calls of `Lex` from `s`.  The parser only ever changes the lexer state
by calling `Lex` (`peek`) or by recording an error of its own, so the lexer state of a run is always an iterate
`lexIter o k (LState.init bytes)` — or has an error on record.  `IM` is the calculus `EM` of `Lemmas/Layout`
("no parser function clears the error flag") for an arbitrary such invariant. -/

/-- the lexer state after `k` calls of `Lex` -/
def lexIter (o : Oracles) : Nat → LState → LState
  | 0, s => s
  | k + 1, s => (Lex.lex o (lexIter o k s)).2.2

theorem lexIter_succ' (o : Oracles) (k : Nat) (s : LState) :
    lexIter o (k + 1) s = lexIter o k (Lex.lex o s).2.2 := by
  induction k with
  | zero => rfl
  | succ k ih => simp only [lexIter] at ih ⊢; rw [ih]

theorem lexIter_add (o : Oracles) (j k : Nat) (s : LState) : lexIter o (k + j) s = lexIter o j (lexIter o k s) := by
  induction j with
  | zero => rfl
  | succ j ih => rw [← Nat.add_assoc]; simp only [lexIter]; rw [ih]

/-- an error, once on record, stays on record in every later iterate -/
theorem lexIter_err_mono (o : Oracles) (s : LState) (k : Nat) (h : (lexIter o k s).err = true) :
    ∀ j, k ≤ j → (lexIter o j s).err = true := by
  intro j hj
  obtain ⟨d, rfl⟩ : ∃ d, j = k + d := ⟨j - k, by omega⟩
  clear hj
  induction d with
  | zero => exact h
  | succ d ih => rw [← Nat.add_assoc]; simp only [lexIter]; exact lex_err_mono o _ ih

/-- an invariant of the lexer state kept by `Lex` and by recording an error -/
structure StepInv (o : Oracles) (I : LState → Prop) : Prop where
  lex : ∀ s, I s → I (Lex.lex o s).2.2
  setErr : ∀ s, I s → I (Lex.setErr s)

/-- `m` keeps the invariant `I` of the lexer state -/
structure IM (I : LState → Prop) {α : Type} (m : P α) : Prop where
  keep : ∀ s v s1, m s = .ok v s1 → I s.lx → I s1.lx

section im
variable {I : LState → Prop}

theorem im_pure {α : Type} (a : α) : IM I (pure a : P α) := by
  constructor
  intro s v s1 h he
  rw [pure_apply] at h
  injection h with _ h2
  rw [← h2]; exact he

theorem im_syn {α : Type} : IM I (syn : P α) := by constructor; intro s v s1 h; simp [syn] at h
theorem im_panic {α : Type} : IM I (Parse.panic : P α) := by constructor; intro s v s1 h; simp [Parse.panic] at h
theorem im_outOfFuel {α : Type} : IM I (outOfFuel : P α) := by constructor; intro s v s1 h; simp [outOfFuel] at h

theorem im_bind {α β : Type} {m : P α} {f : α → P β} (hm : IM I m) (hf : ∀ a, IM I (f a)) : IM I (m >>= f) := by
  constructor
  intro s v s1 h he
  rw [bind_apply] at h
  cases hms : m s with
  | ok a s' =>
    rw [hms] at h
    exact (hf a).keep s' v s1 h (hm.keep s a s' hms he)
  | syn => rw [hms] at h; simp at h
  | panic => rw [hms] at h; simp at h
  | fuel => rw [hms] at h; simp at h

theorem im_consume : IM I consume := by
  constructor
  intro s v s1 h he
  simp only [consume] at h
  injection h with _ h2
  rw [← h2]; exact he

theorem im_hasError : IM I hasError := by
  constructor
  intro s v s1 h he
  simp only [hasError] at h
  injection h with _ h2
  rw [← h2]; exact he

theorem im_ite {α : Type} {c : Prop} [Decidable c] {a b : P α} (ha : IM I a) (hb : IM I b) :
    IM I (if c then a else b) := by
  split
  · exact ha
  · exact hb

variable (o : Oracles) (hI : StepInv o I)
include hI

theorem im_recordError : IM I recordError := by
  constructor
  intro s v s1 h he
  simp only [recordError] at h
  injection h with _ h2
  rw [← h2]; exact hI.setErr _ he

theorem im_peek : IM I (peek o) := by
  constructor
  intro s t s' hp h
  unfold peek at hp
  cases hla : s.la with
  | some t' =>
    simp only [hla] at hp
    injection hp with _ h2
    rw [← h2]; exact h
  | none =>
    simp only [hla] at hp
    have hm := hI.lex s.lx h
    by_cases hoof : (Lex.lex o s.lx).2.2.oof = true
    · simp [hoof] at hp
    · simp only [hoof, if_false, Bool.false_eq_true] at hp
      by_cases hs : (Lex.lex o s.lx).1 = Tok.stop
      · simp only [hs, if_true] at hp
        injection hp with _ h2
        rw [← h2]; exact hm
      · simp only [hs, if_false] at hp
        injection hp with _ h2
        rw [← h2]; exact hm

/-- prove `IM I m` for a computation built from the primitives -/
syntax "im_more" : tactic
macro_rules | `(tactic| im_more) => `(tactic| exact im_pure _)
macro_rules | `(tactic| im_more) => `(tactic| exact im_syn)
macro_rules | `(tactic| im_more) => `(tactic| exact im_panic)
macro_rules | `(tactic| im_more) => `(tactic| exact im_outOfFuel)
macro_rules | `(tactic| im_more) => `(tactic| exact im_peek _ (by assumption))
macro_rules | `(tactic| im_more) => `(tactic| exact im_consume)
macro_rules | `(tactic| im_more) => `(tactic| exact im_recordError _ (by assumption))
macro_rules | `(tactic| im_more) => `(tactic| exact im_hasError)

macro "im" : tactic => `(tactic| repeat' (first | im_more | apply im_bind | apply im_ite | intro _ | split))

theorem im_expect (t : Tok) : IM I (expect o t) := by unfold expect; im
theorem im_astNewInteger (l : List Char) : IM I (astNewInteger l) := by unfold astNewInteger; im
theorem im_astNewNumeric (l : List Char) : IM I (astNewNumeric l) := by unfold astNewNumeric; im
theorem im_newInteger (l : List Char) : IM I (newInteger l) := by unfold newInteger; im
theorem im_newNumeric (l : List Char) : IM I (newNumeric l) := by unfold newNumeric; im
theorem im_newUnaryOrNumber (op : UnOp) (v : EV) : IM I (newUnaryOrNumber op v) := by
  unfold newUnaryOrNumber
  repeat' (first | im_more | exact im_astNewInteger o hI _ | exact im_astNewNumeric o hI _ | split)
theorem im_mkRegex (v : EV) (p f : List Char) : IM I (mkRegex o v p f) := by unfold mkRegex; im
theorem im_anyLevelOf (l : List Char) : IM I (anyLevelOf l) := by unfold anyLevelOf; im

macro_rules | `(tactic| im_more) => `(tactic| exact im_expect _ (by assumption) _)
macro_rules | `(tactic| im_more) => `(tactic| exact im_newInteger _ (by assumption) _)
macro_rules | `(tactic| im_more) => `(tactic| exact im_newNumeric _ (by assumption) _)
macro_rules | `(tactic| im_more) => `(tactic| exact im_newUnaryOrNumber _ (by assumption) _ _)
macro_rules | `(tactic| im_more) => `(tactic| exact im_mkRegex _ (by assumption) _ _ _)
macro_rules | `(tactic| im_more) => `(tactic| exact im_anyLevelOf _ (by assumption) _)

theorem im_anyLevel : IM I (anyLevel o) := by unfold anyLevel; im
theorem im_csvElem (t : Tok × List Char) : IM I (csvElem o t) := by
  obtain ⟨k, txt⟩ := t
  unfold csvElem; im

macro_rules | `(tactic| im_more) => `(tactic| exact im_anyLevel _ (by assumption))
macro_rules | `(tactic| im_more) => `(tactic| exact im_csvElem _ (by assumption) _)

omit hI in
/-- the invariant is kept by each of the 16 functions of the parser's mutual block, at fuel `f` -/
structure AllIM (I : LState → Prop) (f : Nat) : Prop where
  unaryT : ∀ t, IM I (parseUnaryT o f t)
  unary : IM I (parseUnary o f)
  scalar : ∀ t, IM I (parseScalar o f t)
  accLoop : ∀ head ops, IM I (accessorLoop o f head ops)
  paren : ∀ ctx, IM I (parenTail o f ctx)
  atom : ∀ ctx, IM I (parseAtom o f ctx)
  exists_ : IM I (existsTail o f)
  exprT : ∀ ctx v, IM I (exprTail o f ctx v)
  arith : ∀ v, IM I (arithLoop o f v)
  mul : ∀ v, IM I (mulLoop o f v)
  pred : ∀ v, IM I (predLoop o f v)
  or_ : ∀ v, IM I (orLoop o f v)
  accOp : ∀ t, IM I (accessorOp o f t)
  index : ∀ t acc, IM I (indexList o f t acc)
  csv : IM I (csvList o f)
  csvM : ∀ acc, IM I (csvMore o f acc)

theorem allIM_zero : AllIM o I 0 := by
  constructor
  all_goals intros
  all_goals first
    | (simp only [parseUnaryT, parseUnary, parseScalar, accessorLoop, parenTail, parseAtom, existsTail, exprTail,
        arithLoop, mulLoop, predLoop, orLoop, accessorOp, indexList, csvList, csvMore]; exact im_outOfFuel)

section step
variable {f : Nat} (ih : AllIM o I f)
include ih

macro "imi" : tactic => `(tactic| repeat' (first | im_more | exact AllIM.unaryT (by assumption) _ | exact AllIM.unary (by assumption) | exact AllIM.scalar (by assumption) _ | exact AllIM.accLoop (by assumption) _ _ | exact AllIM.paren (by assumption) _ | exact AllIM.atom (by assumption) _ | exact AllIM.exists_ (by assumption) | exact AllIM.exprT (by assumption) _ _ | exact AllIM.arith (by assumption) _ | exact AllIM.mul (by assumption) _ | exact AllIM.pred (by assumption) _ | exact AllIM.or_ (by assumption) _ | exact AllIM.accOp (by assumption) _ | exact AllIM.index (by assumption) _ _ | exact AllIM.csv (by assumption) | exact AllIM.csvM (by assumption) _  | apply im_bind | apply im_ite | intro _ | split))

theorem imstep_unaryT (t : Tok × List Char) : IM I (parseUnaryT o (f + 1) t) := by
  obtain ⟨k, txt⟩ := t
  rw [parseUnaryT]; imi
theorem imstep_unary : IM I (parseUnary o (f + 1)) := by rw [parseUnary]; imi
theorem imstep_scalar (t : Tok × List Char) : IM I (parseScalar o (f + 1) t) := by
  obtain ⟨k, txt⟩ := t
  unfold parseScalar
  cases k <;> imi
theorem imstep_accLoop (head : EV) (ops : List Node) : IM I (accessorLoop o (f + 1) head ops) := by
  rw [accessorLoop]; imi
theorem imstep_paren (ctx : Ctx) : IM I (parenTail o (f + 1) ctx) := by unfold parenTail; imi
theorem imstep_atom (ctx : Ctx) : IM I (parseAtom o (f + 1) ctx) := by unfold parseAtom; imi
theorem imstep_exists : IM I (existsTail o (f + 1)) := by unfold existsTail; imi
theorem imstep_exprT (ctx : Ctx) (v : EV) : IM I (exprTail o (f + 1) ctx v) := by unfold exprTail; imi
theorem imstep_arith (v : EV) : IM I (arithLoop o (f + 1) v) := by unfold arithLoop; imi
theorem imstep_mul (v : EV) : IM I (mulLoop o (f + 1) v) := by unfold mulLoop; imi
theorem imstep_pred (v : EV) : IM I (predLoop o (f + 1) v) := by unfold predLoop; imi
theorem imstep_or (v : EV) : IM I (orLoop o (f + 1) v) := by unfold orLoop; imi
theorem imstep_accOp (t : Tok) : IM I (accessorOp o (f + 1) t) := by unfold accessorOp; imi
theorem imstep_index (t : Tok × List Char) (acc : List Node) : IM I (indexList o (f + 1) t acc) := by
  unfold indexList; imi
theorem imstep_csv : IM I (csvList o (f + 1)) := by unfold csvList; imi
theorem imstep_csvM (acc : List Node) : IM I (csvMore o (f + 1) acc) := by unfold csvMore; imi

end step

theorem allIM : ∀ f, AllIM o I f
  | 0 => allIM_zero o hI
  | f + 1 =>
    have ih := allIM f
    { unaryT := imstep_unaryT o hI ih
      unary := imstep_unary o hI ih
      scalar := imstep_scalar o hI ih
      accLoop := imstep_accLoop o hI ih
      paren := imstep_paren o hI ih
      atom := imstep_atom o hI ih
      exists_ := imstep_exists o hI ih
      exprT := imstep_exprT o hI ih
      arith := imstep_arith o hI ih
      mul := imstep_mul o hI ih
      pred := imstep_pred o hI ih
      or_ := imstep_or o hI ih
      accOp := imstep_accOp o hI ih
      index := imstep_index o hI ih
      csv := imstep_csv o hI ih
      csvM := imstep_csvM o hI ih }

/-- `mode expr_or_predicate` keeps the invariant -/
theorem im_parseBody (f : Nat) : IM I (parseBody o f) := by
  have h := allIM o hI f
  unfold parseBody
  repeat' (first | im_more | exact h.atom _ | exact h.pred _ | apply im_bind | apply im_ite | intro _ | split)

end im

/-! ### `Lex` answers `stopTok` without an error only at the end of the source, with nothing in the look-ahead -/

/-- an error is on record, or a loop of the model ran out of fuel, or nothing is left to read and the look-ahead
    rune is `stopTok` -/
def EndOk' (ch : Option Char) (s : LState) : Prop := s.err = true ∨ s.oof = true ∨ (s.rest = [] ∧ ch = none)

theorem scanIdent_stop_err (o : Oracles) (c : Char) (s : LState) :
    (scanIdent o c s).tok = .stop → (scanIdent o c s).st.err = true := scanIdent_stop_err' o c s

theorem stringLoop_stop_err (ret : Tok) (hret : isStop ret = false) :
    ∀ (f : Nat) (ch : Option Char) (buf : List Char) (s : LState),
      (stringLoop f ret ch buf s).tok = .stop →
        (stringLoop f ret ch buf s).st.err = true ∨ (stringLoop f ret ch buf s).st.oof = true
  | 0, _, _, s => by simp only [stringLoop]; intro _; exact Or.inr rfl
  | f + 1, ch, buf, s => by
    unfold stringLoop
    split
    · intro _; exact Or.inl rfl
    · split
      · simp only []
        intro h; rw [h] at hret; exact absurd hret (by decide)
      · split
        · intro _; exact Or.inl rfl
        · split
          · exact stringLoop_stop_err ret hret f _ _ _
          · exact stringLoop_stop_err ret hret f _ _ _

theorem scanString_stop_err (ret : Tok) (hret : isStop ret = false) (s : LState)
    (h : (scanString ret s).tok = .stop) :
    (scanString ret s).st.err = true ∨ (scanString ret s).st.oof = true := by
  unfold scanString at h ⊢
  exact stringLoop_stop_err ret hret _ _ _ _ h

theorem scanVariable_stop_err (o : Oracles) (s : LState) (h : (scanVariable o s).tok = .stop) :
    (scanVariable o s).st.err = true ∨ (scanVariable o s).st.oof = true := by
  unfold scanVariable at h ⊢
  simp only [] at h ⊢
  split
  · rename_i hq
    rw [if_pos hq] at h
    exact scanString_stop_err .variable rfl _ h
  · rename_i hq
    rw [if_neg hq] at h
    split
    · rename_i hv; rw [if_pos hv] at h; simp at h
    · rename_i hv; rw [if_neg hv] at h; simp at h

theorem lexFrom_stop' (o : Oracles) : ∀ (f : Nat) (ch : Option Char) (s : LState), NoneOk ch s →
    (lexFrom o f ch s).tok = .stop → EndOk' (lexFrom o f ch s).ch (lexFrom o f ch s).st
  | 0, _, s, _ => by simp only [lexFrom]; intro _; exact Or.inr (Or.inl rfl)
  | f + 1, ch0, s0, h0 => by
    unfold lexFrom
    simp only
    have hws := skipWs_noneOk (s0.rest.length + 3) ch0 s0 h0
    split
    · rename_i hnone
      intro _
      rcases hws hnone with h | h | h
      · exact Or.inl h
      · exact Or.inr (Or.inl h)
      · exact Or.inr (Or.inr ⟨h, rfl⟩)
    · rename_i c hsk
      split
      · intro h; exact Or.inl (scanIdent_stop_err o c _ h)
      · split
        · intro h; exact Or.inl (scanNumber_stop o c _ _ _ h)
        · split
          · intro h
            rcases scanString_stop_err _ rfl _ h with e | e
            · exact Or.inl e
            · exact Or.inr (Or.inl e)
          · split
            · intro h
              rcases scanVariable_stop_err o _ h with e | e
              · exact Or.inl e
              · exact Or.inr (Or.inl e)
            · split
              · split
                · exact lexFrom_stop' o f _ _ (commentLoop_noneOk _ _ _)
                · intro h; simp at h
              · split
                · split
                  · split
                    · intro h; exact Or.inl (scanNumber_stop o _ _ _ _ h)
                    · intro h; simp at h
                  · intro h; simp at h
                · split
                  · intro _; exact Or.inl rfl
                  · intro h
                    have := scanOperator_notStop c (skipWs (s0.rest.length + 3) ch0 s0).2
                    rw [h] at this
                    exact absurd this (by decide)

/-- `Lex` answers `stopTok` only after an error, or at the end of the source with an empty look-ahead -/
theorem lex_stop' (o : Oracles) (s : LState) (h : (Lex.lex o s).1 = .stop) :
    EndOk' (Lex.lex o s).2.2.ch (Lex.lex o s).2.2 := by
  unfold Lex.lex at h ⊢
  simp only [] at h ⊢
  have hn : NoneOk (match s.ch with | some c => (some c, s) | none => next s).1
      (match s.ch with | some c => (some c, s) | none => next s).2 := by
    split
    · intro hh; simp at hh
    · exact noneOk_next s
  have := lexFrom_stop' o _ _ _ hn h
  rcases this with h1 | h1 | h1
  · exact Or.inl h1
  · exact Or.inr (Or.inl h1)
  · exact Or.inr (Or.inr h1)

/-- the state of the lexer at the end of an accepted input -/
def endState : LState := { rest := [], ch := none, err := false, oof := false }

/-- at the end of the input `Lex` is idempotent -/
theorem lex_endState (o : Oracles) : Lex.lex o endState = (.stop, [], endState) := by
  simp [Lex.lex, endState, next, lexFrom, skipWs]

theorem lexIter_endState (o : Oracles) (j : Nat) : lexIter o j endState = endState := by
  induction j with
  | zero => rfl
  | succ j ih => simp only [lexIter]; rw [ih, lex_endState]

section
variable (o : Oracles)

/-- **an accepted input: the parser called `Lex` some `k` times, the last call answered `stopTok` at the end of the
    source, and the lexer state then is the clean end state** -/
theorem parse_ok_reaches_end (bytes : List UInt8) (a : AST) (h : parse o bytes = .ok a) :
    ∃ k, lexIter o k (LState.init bytes) = endState := by
  obtain ⟨s, hrun, herr⟩ := parse_ok_no_error o bytes a h
  let I : LState → Prop := fun x => x.err = true ∨ ∃ k, x = lexIter o k (LState.init bytes)
  have hI : StepInv o I := by
    constructor
    · intro x hx
      rcases hx with hx | ⟨k, hk⟩
      · exact Or.inl (lex_err_mono o x hx)
      · exact Or.inr ⟨k + 1, by rw [hk]; rfl⟩
    · intro x _
      exact Or.inl rfl
  unfold Parse.run parseTop at hrun
  rw [bind_apply] at hrun
  have hsafe := safe_parseBody (L := decodeAll bytes) o (fuelFor bytes) { lx := LState.init bytes, la := none }
    ⟨by intro t ht; simp at ht, ⟨[], by simp [LState.init], by simp⟩⟩
  cases hb : parseBody o (fuelFor bytes) { lx := LState.init bytes, la := none } with
  | ok v s1 =>
    rw [hb] at hrun hsafe
    obtain ⟨lax, isPred, root⟩ := v
    simp only at hrun
    have hinv : PSInv (decodeAll bytes) s1 := hsafe.2
    have hI1 : I s1.lx := (im_parseBody o hI (fuelFor bytes)).keep _ _ _ hb (Or.inr ⟨0, rfl⟩)
    obtain ⟨t, hpeek, hstop⟩ := finish_some_peek o lax isPred root s1 s a hrun
    unfold peek at hpeek
    cases hla : s1.la with
    | some t' =>
      simp only [hla] at hpeek
      injection hpeek with h1 h2
      subst h1
      exact absurd hstop (hinv.1 t' hla).2
    | none =>
      simp only [hla] at hpeek
      by_cases hoof : (Lex.lex o s1.lx).2.2.oof = true
      · simp [hoof] at hpeek
      · simp only [hoof, if_false, Bool.false_eq_true] at hpeek
        by_cases hs : (Lex.lex o s1.lx).1 = Tok.stop
        · simp only [hs, if_true] at hpeek
          injection hpeek with h1 h2
          have hlx : s.lx = (Lex.lex o s1.lx).2.2 := by rw [← h2]
          have hend := lex_stop' o s1.lx hs
          rw [← hlx] at hend
          rcases hI1 with he | ⟨k, hk⟩
          · have := lex_err_mono o s1.lx he
            rw [← hlx, herr] at this
            exact absurd this (by decide)
          · refine ⟨k + 1, ?_⟩
            have e1 : lexIter o (k + 1) (LState.init bytes) = s.lx := by
              rw [hlx, hk]; rfl
            rw [e1]
            rcases hend with he | he | ⟨he1, he2⟩
            · rw [herr] at he; exact absurd he (by decide)
            · rw [hlx] at he; exact absurd he hoof
            · have ho : s.lx.oof = false := by
                rw [hlx]; cases hx : (Lex.lex o s1.lx).2.2.oof with
                | false => rfl
                | true => exact absurd hx hoof
              have hext : ∀ L : LState, L.rest = [] → L.ch = none → L.err = false → L.oof = false →
                  L = endState := by
                intro L a b c d
                obtain ⟨r, ch, e, oo⟩ := L
                simp only at a b c d
                subst a; subst b; subst c; subst d
                rfl
              exact hext _ he1 he2 herr ho
        · simp only [hs, if_false] at hpeek
          injection hpeek with h1 h2
          rw [← h1] at hstop
          exact absurd hstop hs
  | syn => rw [hb] at hrun; simp at hrun
  | panic => rw [hb] at hrun; simp at hrun
  | fuel => rw [hb] at hrun; simp at hrun

/-- **(5c) an accepted input has no lexing error anywhere in its token stream**: none of the successive calls of
    `Lex` on the input — however many — leaves an error on record -/
theorem parse_ok_lexIter_no_error (bytes : List UInt8) (a : AST) (h : parse o bytes = .ok a) :
    ∀ k, (lexIter o k (LState.init bytes)).err = false := by
  obtain ⟨k0, hk0⟩ := parse_ok_reaches_end o bytes a h
  intro k
  by_cases hk : k0 ≤ k
  · obtain ⟨d, rfl⟩ : ∃ d, k = k0 + d := ⟨k - k0, by omega⟩
    rw [lexIter_add, hk0, lexIter_endState]
    rfl
  · cases he : (lexIter o k (LState.init bytes)).err with
    | false => rfl
    | true =>
      have := lexIter_err_mono o (LState.init bytes) k he k0 (by omega)
      rw [hk0] at this
      exact absurd this (by decide)

/-- **a lexing error at ANY token start the lexer reaches rejects the input** -/
theorem parse_err_of_lexIter_error (bytes : List UInt8) (k : Nat)
    (h : (lexIter o k (LState.init bytes)).err = true) : parse o bytes = .err := by
  cases hp : parse o bytes with
  | ok a =>
    have := parse_ok_lexIter_no_error o bytes a hp k
    rw [h] at this
    exact absurd this (by decide)
  | err => rfl
  | panic => exact absurd hp (ParseLemmas.parse_never_panics o bytes)

end

/-! ## §7 Unterminated comments, concretely -/

/-- a NUL-free body without `*/`, followed by the end of the input, a NUL or an undecodable byte: not a closed
    comment (whatever comes after that) -/
theorem splitComment_stop (pre : List Char) (hn : NoNul pre) (hb : noClose pre = true) (Y : List Src)
    (hY : peekR Y = none) : splitComment (chs pre ++ Y) = none := by
  induction pre with
  | nil =>
    cases Y with
    | nil => rfl
    | cons x Y' =>
      have : srcChar x = none := hY
      simp [splitComment, this]
  | cons a pre ih =>
    have ha : a.toNat ≠ 0 := (NoNul.of_cons hn).1
    have hn' := (NoNul.of_cons hn).2
    have hb' : noClose pre = true := by
      cases pre with
      | nil => rfl
      | cons b0 t => simp only [noClose, Bool.and_eq_true] at hb; exact hb.2
    have hcl : ¬ (a = '*' ∧ peekR (chs pre ++ Y) = some '/') := by
      cases pre with
      | nil => simp [hY]
      | cons b0 t =>
        have hb0 : b0.toNat ≠ 0 := (NoNul.of_cons hn').1
        simp only [noClose, Bool.and_eq_true, Bool.not_eq_true', Bool.and_eq_false_iff,
          beq_eq_false_iff_ne] at hb
        rw [chs_cons, List.cons_append, peekR_cons_ch _ _ hb0]
        rintro ⟨h1, h2⟩
        simp only [Option.some.injEq] at h2
        rcases hb.1 with h | h
        · exact h h1
        · exact h h2
    rw [chs_cons, List.cons_append, splitComment]
    simp only [srcChar_ch a ha, if_neg hcl, ih hn' hb']

/-- the decomposition of a closed comment is unique: the FIRST `*/` closes -/
theorem splitComment_unique {X : List Src} {b1 b2 : List Char} {R1 R2 : List Src}
    (h1 : X = chs b1 ++ .ch '*' :: .ch '/' :: R1 ∧ NoNul b1 ∧ noClose b1 = true)
    (h2 : X = chs b2 ++ .ch '*' :: .ch '/' :: R2 ∧ NoNul b2 ∧ noClose b2 = true) : b1 = b2 ∧ R1 = R2 := by
  have e1 := (splitComment_some_iff X b1 R1).mpr h1
  have e2 := (splitComment_some_iff X b2 R2).mpr h2
  rw [e1] at e2
  simp only [Option.some.injEq, Prod.mk.injEq] at e2
  exact e2

/-! ## §8 The lift in general position: a token start anywhere in the token stream

`Standing s Y`: between two calls of `Lex`, the lexer state `s` stands before the source `Y` — either nothing is in
the look-ahead and `Y` is unread, or the first position of `Y` (a clean rune) is in the look-ahead. -/

/-- the lexer state `s`, between two calls of `Lex`, stands before the source `Y` -/
def Standing (s : LState) (Y : List Src) : Prop :=
  (s.ch = none ∧ s.rest = Y) ∨ ∃ c Y', Y = .ch c :: Y' ∧ c.toNat ≠ 0 ∧ s.ch = some c ∧ s.rest = Y'

theorem standing_init (bytes : List UInt8) : Standing (LState.init bytes) (decodeAll bytes) := Or.inl ⟨rfl, rfl⟩

section
variable (o : Oracles)

/-- a call of `Lex` in terms of its body, for a state standing before `Y` -/
theorem lex_standing (s : LState) (Y : List Src) (h : Standing s Y) :
    Lex.lex o s =
      ((lexFrom o (Y.tail.length + 3) (peekR Y) (afterR s Y)).tok,
       (lexFrom o (Y.tail.length + 3) (peekR Y) (afterR s Y)).text,
       { (lexFrom o (Y.tail.length + 3) (peekR Y) (afterR s Y)).st with
          ch := (lexFrom o (Y.tail.length + 3) (peekR Y) (afterR s Y)).ch }) := by
  rcases h with ⟨h1, h2⟩ | ⟨c, Y', hY, hc, h1, h2⟩
  · have hs : s = withRest s Y := by rw [← h2]; rfl
    have hn : next s = (peekR Y, afterR s Y) := by
      conv => lhs; rw [hs]
      exact next_withRest s Y
    unfold Lex.lex
    simp only [h1, hn, afterR_rest]
  · have hs : afterR s Y = s := by
      rw [hY, afterR_cons_ch s c Y' hc, ← h2]; rfl
    unfold Lex.lex
    simp only [h1]
    rw [hs, hY, peekR_cons_ch c Y' hc, List.tail_cons, h2]

/-- **a lexing error at ANY token start**: after `k` calls of `Lex` the lexer stands before `Y`, and the body of
    `Lex` on the stream of `Y` ends with an error on record — the input is rejected -/
theorem parse_err_of_error_at (bytes : List UInt8) (k : Nat) (Y : List Src)
    (hst : Standing (lexIter o k (LState.init bytes)) Y)
    (h : (lexFrom o (Y.tail.length + 3) (peekR Y) (afterR (lexIter o k (LState.init bytes)) Y)).st.err = true) :
    parse o bytes = .err := by
  apply parse_err_of_lexIter_error o bytes (k + 1)
  simp only [lexIter]
  rw [lex_standing o _ Y hst]
  exact h

variable (hx : o.xidStart '/' = false)
include hx

/-- **the same with a separator before the malformed token**: after `k` calls of `Lex` the lexer stands before a
    separator `sep` followed by `X`, and the body of `Lex` on the stream of `X` (any fuel `f + 1 ≥ X.length + 2`)
    ends with an error on record — the input is rejected -/
theorem parse_err_after_sep_at (bytes : List UInt8) (k : Nat) {sep : List Char} (hs : Sep sep) (X : List Src)
    (hst : Standing (lexIter o k (LState.init bytes)) (chs sep ++ X))
    (h : ∀ f, X.length + 1 ≤ f →
      (lexFrom o (f + 1) (peekR X) (afterR (lexIter o k (LState.init bytes)) X)).st.err = true) :
    parse o bytes = .err := by
  apply parse_err_of_error_at o bytes k _ hst
  obtain ⟨f', h1, h2, h3⟩ := lexFrom_skip_sep o hx hs (lexIter o k (LState.init bytes)) X
    ((chs sep ++ X).tail.length + 2) (by simp [List.length_tail, chs_length]; omega)
  rw [show (chs sep ++ X).tail.length + 3 = ((chs sep ++ X).tail.length + 2) + 1 from rfl, h3]
  apply h
  simp [List.length_tail, chs_length] at h2
  omega

/-- **an unterminated comment at ANY token start** the lexer reaches rejects the input -/
theorem parse_err_of_unclosed_comment_at (bytes : List UInt8) (k : Nat) {sep : List Char} (hs : Sep sep)
    (X : List Src) (hX : splitComment X = none)
    (hst : Standing (lexIter o k (LState.init bytes)) (chs sep ++ .ch '/' :: .ch '*' :: X)) :
    parse o bytes = .err := by
  refine parse_err_after_sep_at o hx bytes k hs _ hst ?_
  intro f hf
  obtain ⟨f0, rfl⟩ : ∃ f0, f = f0 + 1 := ⟨f - 1, by simp at hf; omega⟩
  rw [peekR_cons_ch _ _ (by decide), afterR_cons_ch _ '/' _ (by decide)]
  exact (lexFrom_comment_unclosed o hx f0 _ X hX).2.2

/-- **a private-use rune U+E000 … U+E032 at ANY token start** the lexer reaches rejects the input -/
theorem parse_err_of_private_char_at (bytes : List UInt8) (k : Nat) {sep : List Char} (hs : Sep sep) (c : Char)
    (hp : isPrivateTokenRune c = true) (hid : o.xidStart c = false) (X : List Src)
    (hst : Standing (lexIter o k (LState.init bytes)) (chs sep ++ .ch c :: X)) :
    parse o bytes = .err := by
  have hc : c.toNat ≠ 0 := by
    unfold isPrivateTokenRune at hp
    rw [Bool.and_eq_true] at hp
    have : 57344 ≤ c.toNat := of_decide_eq_true hp.1
    omega
  refine parse_err_after_sep_at o hx bytes k hs _ hst ?_
  intro f _
  rw [peekR_cons_ch _ _ hc, afterR_cons_ch _ c _ hc, lexFrom_private o c hp hid]
  rfl

end

end Misc
end LexReject
end Sqljson

/-! # Part B — string literals, `$"…"` variables, escapes, bare identifiers (`LexReject.Str`) -/
namespace Sqljson
namespace LexReject
namespace Str
open Parse Lex ParseLemmas RoundTrip Layout
set_option linter.unusedSimpArgs false
set_option linter.unusedVariables false

/-! # String literals, quoted variables and escapes: exact characterisation

Everything is stated for `withRest s X`: an arbitrary lexer state `s` whose unread source is an
*arbitrary* `X : List Src` (characters including NUL, and undecodable bytes `Src.bad`).

For every function of the escape machinery there are two lemmas:
* `…_ok`    — on a source that starts with a spelled form the function returns its value (soundness);
* `…_cases` — on *any* source, either the source starts with a spelled form, or the function
  returns the stop outcome with an error on record (completeness).
-/

/-! ## reading one position -/

theorem peekR_cons_ch (c : Char) (R : List Src) (hc : c.toNat ≠ 0) : peekR (.ch c :: R) = some c := by
  simp [peekR, srcChar, hc]

/-- `next` hands out a character only for a clean (non-NUL, decodable) source position -/
theorem peekR_some {X : List Src} {c : Char} (h : peekR X = some c) : ∃ R, X = .ch c :: R ∧ c.toNat ≠ 0 := by
  cases X with
  | nil => simp [peekR] at h
  | cons x R =>
    cases x with
    | bad => simp [peekR, srcChar] at h
    | ch d =>
      by_cases hd : d.toNat = 0
      · simp [peekR, srcChar, hd] at h
      · simp [peekR, srcChar, hd] at h
        subst h
        exact ⟨R, rfl, hd⟩

/-- `next` returns `stopTok` at the end of the input, or on NUL / an undecodable byte – and then an
    error is on record -/
theorem peekR_none {X : List Src} (h : peekR X = none) (s : LState) : X = [] ∨ (afterR s X).err = true := by
  cases X with
  | nil => exact Or.inl rfl
  | cons x R => exact Or.inr (afterR_err_of_none s x R h)

theorem afterR_err_false {X : List Src} {s : LState} (h : (afterR s X).err = false) : s.err = false := by
  cases hs : s.err with
  | false => rfl
  | true => rw [afterR_err_mono s X hs] at h; exact absurd h (by decide)

theorem afterR_of_peek {X : List Src} {c : Char} {R : List Src} (s : LState) (h : X = .ch c :: R) (hc : c.toNat ≠ 0) :
    afterR s X = withRest s R := by
  subst h; exact afterR_cons_ch s c R hc

theorem char_eq_of_toNat {c : Char} {n : Nat} (h : c.toNat = n) : c = Char.ofNat n := by
  rw [← Char.ofNat_toNat c, h]

theorem chs_append (a b : List Char) : chs (a ++ b) = chs a ++ chs b := by simp [chs]
theorem chs_cons (a : Char) (b : List Char) : chs (a :: b) = .ch a :: chs b := rfl
theorem chs_nil : chs [] = [] := rfl
theorem chs_length (a : List Char) : (chs a).length = a.length := by simp [chs]

/-! ## hexadecimal digits -/

/-- `hexChar` recognises exactly the hexadecimal digits of either case -/
theorem hexDig_of_hexChar {c : Char} {d : Nat} (h : hexChar (some c) = some d) : HexDig c d := by
  simp only [hexChar] at h
  split at h
  · rename_i h1
    simp only [Bool.and_eq_true, decide_eq_true_eq] at h1
    have a1 : 48 ≤ c.toNat := h1.1
    have a2 : c.toNat ≤ 57 := h1.2
    injection h with h
    subst h
    refine ⟨by omega, Or.inl ?_⟩
    have : c.toNat = 48 ∨ c.toNat = 49 ∨ c.toNat = 50 ∨ c.toNat = 51 ∨ c.toNat = 52 ∨ c.toNat = 53 ∨
        c.toNat = 54 ∨ c.toNat = 55 ∨ c.toNat = 56 ∨ c.toNat = 57 := by omega
    rcases this with e | e | e | e | e | e | e | e | e | e <;>
      (have := char_eq_of_toNat e; subst this; decide)
  · split at h
    · rename_i _ h1
      simp only [Bool.and_eq_true, decide_eq_true_eq] at h1
      have a1 : 97 ≤ c.toNat := h1.1
      have a2 : c.toNat ≤ 102 := h1.2
      injection h with h
      subst h
      refine ⟨by omega, Or.inl ?_⟩
      have : c.toNat = 97 ∨ c.toNat = 98 ∨ c.toNat = 99 ∨ c.toNat = 100 ∨ c.toNat = 101 ∨ c.toNat = 102 := by omega
      rcases this with e | e | e | e | e | e <;>
        (have := char_eq_of_toNat e; subst this; decide)
    · split at h
      · rename_i _ _ h1
        simp only [Bool.and_eq_true, decide_eq_true_eq] at h1
        have a1 : 65 ≤ c.toNat := h1.1
        have a2 : c.toNat ≤ 70 := h1.2
        injection h with h
        subst h
        refine ⟨by omega, Or.inr ?_⟩
        have : c.toNat = 65 ∨ c.toNat = 66 ∨ c.toNat = 67 ∨ c.toNat = 68 ∨ c.toNat = 69 ∨ c.toNat = 70 := by omega
        rcases this with e | e | e | e | e | e <;>
          (have := char_eq_of_toNat e; subst this; decide)
      · exact absurd h (by simp)

theorem hexChar_iff (c : Char) (d : Nat) : hexChar (some c) = some d ↔ HexDig c d :=
  ⟨hexDig_of_hexChar, fun h => h.facts.1⟩

/-- a hexadecimal digit at the head of the source, or `hexChar` of what `next` returns is `-1` -/
theorem hex_head (X : List Src) :
    (∃ c d R, X = .ch c :: R ∧ HexDig c d) ∨ hexChar (peekR X) = none := by
  cases hp : peekR X with
  | none => exact Or.inr rfl
  | some c =>
    obtain ⟨R, rfl, hc⟩ := peekR_some hp
    cases hh : hexChar (some c) with
    | none => exact Or.inr rfl
    | some d => exact Or.inl ⟨c, d, R, rfl, hexDig_of_hexChar hh⟩

theorem peekR_hex {c : Char} {d : Nat} (h : HexDig c d) (R : List Src) : peekR (.ch c :: R) = some c :=
  peekR_cons_ch c R h.facts.2.1

theorem afterR_hex {c : Char} {d : Nat} (h : HexDig c d) (s : LState) (R : List Src) :
    afterR s (.ch c :: R) = withRest s R := afterR_cons_ch s c R h.facts.2.1

/-! ## `\uHHHH`: the three digits after the first -/

theorem fixedDigits_ok (s : LState) (R : List Src) : ∀ (cs : List Char) (ds : List Nat), HexDigs cs ds → ∀ rr,
    fixedDigits cs.length rr (withRest s (chs cs ++ R)) = (some (ds.foldl (fun a x => a * 16 + x) rr), withRest s R) := by
  intro cs ds h
  induction h with
  | nil => intro rr; simp [fixedDigits, chs]
  | @cons c d cs ds hd _ ih =>
    intro rr
    simp only [List.length_cons, chs_cons, List.cons_append, List.foldl_cons]
    unfold fixedDigits
    rw [next_cons_ch _ _ _ hd.facts.2.1]
    simp only [hd.facts.1]
    exact ih _

theorem fixedDigits_cases (s : LState) : ∀ (k rr : Nat) (X : List Src),
    (∃ cs ds R, X = chs cs ++ R ∧ HexDigs cs ds ∧ cs.length = k) ∨
    (∃ s', fixedDigits k rr (withRest s X) = (none, s') ∧ s'.err = true) := by
  intro k
  induction k with
  | zero => intro rr X; exact Or.inl ⟨[], [], X, rfl, .nil, rfl⟩
  | succ k ih =>
    intro rr X
    rcases hex_head X with ⟨c, d, R, rfl, hd⟩ | hn
    · rcases ih (rr * 16 + d) R with ⟨cs, ds, R', rfl, hds, hl⟩ | ⟨s', h1, h2⟩
      · exact Or.inl ⟨c :: cs, d :: ds, R', rfl, .cons hd hds, by simp [hl]⟩
      · refine Or.inr ⟨s', ?_, h2⟩
        unfold fixedDigits
        rw [next_cons_ch _ _ _ hd.facts.2.1]
        simp only [hd.facts.1]
        exact h1
    · refine Or.inr ⟨setErr (afterR s X), ?_, rfl⟩
      unfold fixedDigits
      rw [next_withRest]
      simp only [hn]

/-! ## `\u{H…}` -/

theorem braceDigits_ok (s : LState) (R : List Src) : ∀ (cs : List Char) (ds : List Nat), HexDigs cs ds →
    ∀ (f i rr : Nat), cs.length + 1 ≤ f → i + cs.length ≤ 6 →
      braceDigits f i (peekR (chs cs ++ .ch '}' :: R)) rr (afterR s (chs cs ++ .ch '}' :: R))
        = (some (ds.foldl (fun a x => a * 16 + x) rr), withRest s R) := by
  intro cs ds h
  induction h with
  | nil =>
    intro f i rr hf hi
    obtain ⟨f1, rfl⟩ : ∃ f1, f = f1 + 1 := ⟨f - 1, by simp at hf; omega⟩
    simp only [chs_nil, List.nil_append, List.foldl_nil]
    rw [peekR_cons_ch _ _ (by decide), afterR_cons_ch _ _ _ (by decide)]
    unfold braceDigits
    simp
  | @cons c d cs ds hd _ ih =>
    intro f i rr hf hi
    obtain ⟨f1, rfl⟩ : ∃ f1, f = f1 + 1 := ⟨f - 1, by simp at hf; omega⟩
    have hi' : i < 6 := by simp at hi; omega
    simp only [chs_cons, List.cons_append, List.foldl_cons]
    rw [peekR_hex hd, afterR_hex hd]
    unfold braceDigits
    have hc : (decide (i < 6) && decide (some c ≠ some '}')) = true := by
      simp [hi', hd.facts.2.2.2]
    rw [if_pos hc]
    simp only [hd.facts.1]
    rw [next_withRest]
    exact ih f1 (i + 1) (rr * 16 + d) (by simp at hf; omega) (by simp at hi ⊢; omega)

theorem braceDigits_cases (s : LState) : ∀ (f i rr : Nat) (X : List Src), i ≤ 6 → 7 ≤ f + i →
    (∃ cs ds R, X = chs cs ++ .ch '}' :: R ∧ HexDigs cs ds ∧ i + cs.length ≤ 6) ∨
    (∃ s', braceDigits f i (peekR X) rr (afterR s X) = (none, s') ∧ s'.err = true) := by
  intro f
  induction f with
  | zero => intro i rr X h1 h2; omega
  | succ f ih =>
    intro i rr X h1 h2
    by_cases hq : peekR X = some '}'
    · obtain ⟨R, rfl, _⟩ := peekR_some hq
      exact Or.inl ⟨[], [], R, rfl, .nil, by simpa using h1⟩
    · by_cases hi : i < 6
      · have hc : (decide (i < 6) && decide (peekR X ≠ some '}')) = true := by simp [hi, hq]
        rcases hex_head X with ⟨c, d, R, rfl, hd⟩ | hn
        · rcases ih (i + 1) (rr * 16 + d) R (by omega) (by omega) with ⟨cs, ds, R', rfl, hds, hl⟩ | ⟨s', e1, e2⟩
          · exact Or.inl ⟨c :: cs, d :: ds, R', rfl, .cons hd hds, by simp; omega⟩
          · refine Or.inr ⟨s', ?_, e2⟩
            rw [peekR_hex hd, afterR_hex hd]
            rw [peekR_hex hd] at hc
            unfold braceDigits
            rw [if_pos hc]
            simp only [hd.facts.1]
            rw [next_withRest]
            exact e1
        · refine Or.inr ⟨setErr (afterR s X), ?_, rfl⟩
          unfold braceDigits
          rw [if_pos hc]
          simp only [hn]
      · have hc : ¬ ((decide (i < 6) && decide (peekR X ≠ some '}')) = true) := by simp [hi]
        refine Or.inr ⟨setErr (afterR s X), ?_, rfl⟩
        unfold braceDigits
        rw [if_neg hc, if_pos hq]

/-! ## one code unit: `decodeUnicode` -/

theorem hexDigs_len4 {cs : List Char} {ds : List Nat} (h : HexDigs cs ds) (hl : cs.length = 3) :
    ∃ b c d d2 d3 d4, cs = [b, c, d] ∧ ds = [d2, d3, d4] ∧ HexDig b d2 ∧ HexDig c d3 ∧ HexDig d d4 := by
  cases h with
  | nil => simp at hl
  | @cons b d2 cs ds hb h =>
    cases h with
    | nil => simp at hl
    | @cons c d3 cs ds hc h =>
      cases h with
      | nil => simp at hl
      | @cons d d4 cs ds hd h =>
        cases h with
        | nil => exact ⟨b, c, d, d2, d3, d4, rfl, rfl, hb, hc, hd⟩
        | cons _ _ => simp at hl

/-- `decodeUnicode` reads one spelled code unit (not 0, not beyond U+10FFFF), whatever follows -/
theorem decodeUnicode_ok (s : LState) {us : List Char} {v : Nat} (h : SpellsUnit us v)
    (h0 : v ≠ 0) (hmax : v ≤ 0x10FFFF) (R : List Src) :
    decodeUnicode (withRest s (chs us ++ R)) = (some v, withRest s R) := by
  have hm : ¬ (v > 0x10FFFF) := by omega
  cases h with
  | @fixed a b c d d1 d2 d3 d4 h1 h2 h3 h4 =>
    have hds : HexDigs [b, c, d] [d2, d3, d4] := .cons h2 (.cons h3 (.cons h4 .nil))
    have this : fixedDigits 3 d1 (withRest s (.ch b :: .ch c :: .ch d :: R))
        = (some (((d1 * 16 + d2) * 16 + d3) * 16 + d4), withRest s R) := fixedDigits_ok s R _ _ hds d1
    simp only [chs_cons, chs_nil, List.cons_append, List.nil_append]
    unfold decodeUnicode
    rw [next_cons_ch _ _ _ h1.facts.2.1]
    have hb : (some a = some '{') = False := by simp [h1.facts.2.2.1]
    simp only [hb, if_false, h1.facts.1]
    rw [this]
    simp only [hm, h0, if_false]
  | @brace cs ds hds h1 h6 =>
    have := braceDigits_ok s R cs ds hds 8 0 0 (by omega) (by omega)
    simp only [chs_cons, chs_append, List.cons_append, List.append_assoc, chs_nil, List.nil_append]
    unfold decodeUnicode
    rw [next_cons_ch _ _ _ (by decide)]
    simp only [if_true]
    rw [next_withRest, this]
    have hv : List.foldl (fun a x => a * 16 + x) 0 ds = hexVal ds := rfl
    rw [hv]
    simp only [hm, h0, if_false]

/-- on any source, `decodeUnicode` either finds a spelled code unit (`HHHH`, or `{`, one to six
    digits, `}`; not 0; not beyond U+10FFFF) or stops with an error -/
theorem decodeUnicode_cases (s : LState) (X : List Src) :
    (∃ us v R, X = chs us ++ R ∧ SpellsUnit us v ∧ v ≠ 0 ∧ v ≤ 0x10FFFF) ∨
    (∃ s', decodeUnicode (withRest s X) = (none, s') ∧ s'.err = true) := by
  cases hp : peekR X with
  | none =>
    refine Or.inr ⟨setErr (afterR s X), ?_, rfl⟩
    unfold decodeUnicode
    rw [next_withRest, hp]
    simp [hexChar]
  | some c =>
    obtain ⟨X', rfl, hc0⟩ := peekR_some hp
    by_cases hb : c = '{'
    · subst hb
      rcases braceDigits_cases s 8 0 0 X' (by omega) (by omega) with ⟨cs, ds, R, rfl, hds, hl⟩ | ⟨s', e1, e2⟩
      · have hbd := braceDigits_ok s R cs ds hds 8 0 0 (by omega) (by omega)
        have hv : List.foldl (fun a x => a * 16 + x) 0 ds = hexVal ds := rfl
        rw [hv] at hbd
        have hdec : decodeUnicode (withRest s (.ch '{' :: (chs cs ++ .ch '}' :: R))) =
            (if hexVal ds > 0x10FFFF then (none, setErr (withRest s R))
             else if hexVal ds = 0 then (none, setErr (withRest s R)) else (some (hexVal ds), withRest s R)) := by
          unfold decodeUnicode
          rw [next_cons_ch _ _ _ (by decide)]
          simp only [if_true]
          rw [next_withRest, hbd]
        by_cases hmax : hexVal ds > 0x10FFFF
        · refine Or.inr ⟨setErr (withRest s R), ?_, rfl⟩
          rw [hdec, if_pos hmax]
        · by_cases h0 : hexVal ds = 0
          · refine Or.inr ⟨setErr (withRest s R), ?_, rfl⟩
            rw [hdec, if_neg hmax, if_pos h0]
          · have hlen : 1 ≤ cs.length := by
              cases hds with
              | nil => exact absurd rfl h0
              | cons _ _ => simp
            refine Or.inl ⟨'{' :: (cs ++ ['}']), hexVal ds, R, ?_, .brace hds hlen (by omega), h0, by omega⟩
            simp [chs]
      · refine Or.inr ⟨s', ?_, e2⟩
        unfold decodeUnicode
        rw [next_cons_ch _ _ _ (by decide)]
        simp only [if_true]
        rw [next_withRest, e1]
    · have hb' : (some c = some '{') = False := by simp [hb]
      cases hh : hexChar (some c) with
      | none =>
        refine Or.inr ⟨setErr (withRest s X'), ?_, rfl⟩
        unfold decodeUnicode
        rw [next_cons_ch _ _ _ hc0]
        simp only [hb', if_false, hh]
      | some d1 =>
        have h1 := hexDig_of_hexChar hh
        rcases fixedDigits_cases s 3 d1 X' with ⟨cs, ds, R, rfl, hds, hl⟩ | ⟨s', e1, e2⟩
        · obtain ⟨b, c', d, d2, d3, d4, rfl, rfl, h2, h3, h4⟩ := hexDigs_len4 hds hl
          have hsp : SpellsUnit [c, b, c', d] (((d1 * 16 + d2) * 16 + d3) * 16 + d4) := .fixed h1 h2 h3 h4
          have hfd : fixedDigits 3 d1 (withRest s (.ch b :: .ch c' :: .ch d :: R))
              = (some (((d1 * 16 + d2) * 16 + d3) * 16 + d4), withRest s R) := fixedDigits_ok s R _ _ hds d1
          have hdec : decodeUnicode (withRest s (.ch c :: .ch b :: .ch c' :: .ch d :: R)) =
              (if (((d1 * 16 + d2) * 16 + d3) * 16 + d4) > 0x10FFFF then (none, setErr (withRest s R))
               else if (((d1 * 16 + d2) * 16 + d3) * 16 + d4) = 0 then (none, setErr (withRest s R))
               else (some (((d1 * 16 + d2) * 16 + d3) * 16 + d4), withRest s R)) := by
            unfold decodeUnicode
            rw [next_cons_ch _ _ _ hc0]
            simp only [hb', if_false, hh]
            rw [hfd]
          have hmax : ¬ ((((d1 * 16 + d2) * 16 + d3) * 16 + d4) > 0x10FFFF) := by
            have := h1.1; have := h2.1; have := h3.1; have := h4.1; omega
          by_cases h0 : (((d1 * 16 + d2) * 16 + d3) * 16 + d4) = 0
          · refine Or.inr ⟨setErr (withRest s R), ?_, rfl⟩
            show decodeUnicode (withRest s (.ch c :: .ch b :: .ch c' :: .ch d :: R)) = _
            rw [hdec, if_neg hmax, if_pos h0]
          · exact Or.inl ⟨[c, b, c', d], _, R, by simp [chs], hsp, h0, by omega⟩
        · refine Or.inr ⟨s', ?_, e2⟩
          unfold decodeUnicode
          rw [next_cons_ch _ _ _ hc0]
          simp only [hb', if_false, hh]
          rw [e1]

/-! ## `\u…`: `scanUnicode` -/

theorem scanUnicode_single_ok (s : LState) {us : List Char} {v : Nat} (h : SpellsUnit us v)
    (h0 : v ≠ 0) (hmax : v ≤ 0x10FFFF) (hs : isSurrogate v = false) (R : List Src) :
    scanUnicode (withRest s (chs us ++ R)) = ⟨peekR R, some (Char.ofNat v), afterR s R⟩ := by
  unfold scanUnicode
  rw [decodeUnicode_ok s h h0 hmax R]
  simp only [hs, Bool.false_eq_true, if_false]
  rw [next_withRest, runeOfNat_valid hs hmax]

theorem decodePair_some {hi lo : Nat} (a1 : 0xD800 ≤ hi) (a2 : hi < 0xDC00) (a3 : 0xDC00 ≤ lo) (a4 : lo < 0xE000) :
    decodePair hi lo = some (pairVal hi lo) := by
  unfold decodePair pairVal
  have : (decide (0xD800 ≤ hi) && decide (hi < 0xDC00) && decide (0xDC00 ≤ lo) && decide (lo < 0xE000)) = true := by
    simp only [Bool.and_eq_true, decide_eq_true_eq]; omega
  rw [if_pos this]

theorem decodePair_none {hi lo : Nat} (h : ¬ (0xD800 ≤ hi ∧ hi < 0xDC00 ∧ 0xDC00 ≤ lo ∧ lo < 0xE000)) :
    decodePair hi lo = none := by
  unfold decodePair
  have : ¬ ((decide (0xD800 ≤ hi) && decide (hi < 0xDC00) && decide (0xDC00 ≤ lo) && decide (lo < 0xE000)) = true) := by
    simp only [Bool.and_eq_true, decide_eq_true_eq]; omega
  rw [if_neg this]

theorem runeOfNat_pair {hi lo : Nat} (a1 : 0xD800 ≤ hi) (a2 : hi < 0xDC00) (a3 : 0xDC00 ≤ lo) (a4 : lo < 0xE000) :
    runeOfNat (pairVal hi lo) = Char.ofNat (pairVal hi lo) := by
  have hge : 0x10000 ≤ pairVal hi lo ∧ pairVal hi lo ≤ 0x10FFFF := by unfold pairVal; omega
  have hv : isSurrogate (pairVal hi lo) = false := by
    generalize pairVal hi lo = p at hge
    simp only [isSurrogate, Bool.and_eq_false_imp, decide_eq_true_eq, decide_eq_false_iff_not]
    omega
  exact runeOfNat_valid hv hge.2

theorem scanUnicode_pair_ok (s : LState) {us1 us2 : List Char} {hi lo : Nat}
    (h1 : SpellsUnit us1 hi) (h2 : SpellsUnit us2 lo)
    (a1 : 0xD800 ≤ hi) (a2 : hi < 0xDC00) (a3 : 0xDC00 ≤ lo) (a4 : lo < 0xE000) (R : List Src) :
    scanUnicode (withRest s (chs (us1 ++ '\\' :: 'u' :: us2) ++ R))
      = ⟨peekR R, some (Char.ofNat (pairVal hi lo)), afterR s R⟩ := by
  have e : chs (us1 ++ '\\' :: 'u' :: us2) ++ R = chs us1 ++ (.ch '\\' :: .ch 'u' :: (chs us2 ++ R)) := by
    simp [chs]
  rw [e]
  unfold scanUnicode
  rw [decodeUnicode_ok s h1 (by omega) (by omega)]
  have hs : isSurrogate hi = true := by
    simp only [isSurrogate, Bool.and_eq_true, decide_eq_true_eq]; omega
  simp only [hs, if_true]
  rw [next_cons_ch _ _ _ (by decide)]
  simp only [ne_eq, not_true_eq_false, if_false]
  rw [next_cons_ch _ _ _ (by decide)]
  simp only [ne_eq, not_true_eq_false, if_false]
  rw [decodeUnicode_ok s h2 (by omega) (by omega)]
  simp only [decodePair_some a1 a2 a3 a4]
  rw [next_withRest, runeOfNat_pair a1 a2 a3 a4]

/-- on any source, `scanUnicode` (entered after `\u`) either finds the rest of a spelled `\u` escape
    – one non-surrogate code unit, or a high surrogate directly followed by `\u` and a low
    surrogate – or stops with an error -/
theorem scanUnicode_cases (s : LState) (X : List Src) :
    (∃ w c R, X = chs w ++ R ∧ SpellsEsc ('u' :: w) c) ∨
    (∃ s', scanUnicode (withRest s X) = ⟨none, none, s'⟩ ∧ s'.err = true) := by
  rcases decodeUnicode_cases s X with ⟨us, v, R, rfl, hsp, h0, hmax⟩ | ⟨s', e1, e2⟩
  · have hdec := decodeUnicode_ok s hsp h0 hmax R
    cases hs : isSurrogate v with
    | false => exact Or.inl ⟨us, _, R, rfl, .uni hsp h0 hmax hs⟩
    | true =>
      -- the next two positions must be `\` and `u`
      by_cases hq : peekR R = some '\\'
      · obtain ⟨R1, rfl, _⟩ := peekR_some hq
        by_cases hq2 : peekR R1 = some 'u'
        · obtain ⟨R2, rfl, _⟩ := peekR_some hq2
          rcases decodeUnicode_cases s R2 with ⟨us2, v2, R3, rfl, hsp2, h02, hmax2⟩ | ⟨s', e1, e2⟩
          · have hdec2 := decodeUnicode_ok s hsp2 h02 hmax2 R3
            by_cases hpair : 0xD800 ≤ v ∧ v < 0xDC00 ∧ 0xDC00 ≤ v2 ∧ v2 < 0xE000
            · refine Or.inl ⟨us ++ '\\' :: 'u' :: us2, _, R3, by simp [chs],
                .pair hsp hsp2 hpair.1 hpair.2.1 hpair.2.2.1 hpair.2.2.2⟩
            · refine Or.inr ⟨setErr (withRest s R3), ?_, rfl⟩
              unfold scanUnicode
              rw [hdec]
              simp only [hs, if_true]
              rw [next_cons_ch _ _ _ (by decide)]
              simp only [ne_eq, not_true_eq_false, if_false]
              rw [next_cons_ch _ _ _ (by decide)]
              simp only [ne_eq, not_true_eq_false, if_false]
              rw [hdec2]
              simp only [decodePair_none hpair]
          · refine Or.inr ⟨s', ?_, e2⟩
            unfold scanUnicode
            rw [hdec]
            simp only [hs, if_true]
            rw [next_cons_ch _ _ _ (by decide)]
            simp only [ne_eq, not_true_eq_false, if_false]
            rw [next_cons_ch _ _ _ (by decide)]
            simp only [ne_eq, not_true_eq_false, if_false]
            rw [e1]
        · refine Or.inr ⟨setErr { withRest s R1 with err := (afterR s R1).err }, ?_, rfl⟩
          unfold scanUnicode
          rw [hdec]
          simp only [hs, if_true]
          rw [next_cons_ch _ _ _ (by decide)]
          simp only [ne_eq, not_true_eq_false, if_false]
          rw [next_withRest]
          simp only [ne_eq, hq2, not_false_eq_true, if_true]
      · refine Or.inr ⟨setErr (afterR s R), ?_, rfl⟩
        unfold scanUnicode
        rw [hdec]
        simp only [hs, if_true]
        rw [next_withRest]
        simp only [ne_eq, hq, not_false_eq_true, if_true]
  · refine Or.inr ⟨s', ?_, e2⟩
    unfold scanUnicode
    rw [e1]

/-! ## `\xHH`: `scanHex` -/

theorem scanHex_ok (s : LState) {a b : Char} {d1 d2 : Nat} (h1 : HexDig a d1) (h2 : HexDig b d2)
    (hpos : 0 < d1 * 16 + d2) (R : List Src) :
    scanHex (withRest s (.ch a :: .ch b :: R)) = ⟨peekR R, some (Char.ofNat (d1 * 16 + d2)), afterR s R⟩ := by
  unfold scanHex
  rw [next_cons_ch _ _ _ h1.facts.2.1]
  simp only [h1.facts.1]
  rw [next_cons_ch _ _ _ h2.facts.2.1]
  simp only [h2.facts.1]
  rw [next_withRest]
  simp [hpos]

theorem scanHex_cases (s : LState) (X : List Src) :
    (∃ a b d1 d2 R, X = .ch a :: .ch b :: R ∧ HexDig a d1 ∧ HexDig b d2 ∧ 0 < d1 * 16 + d2) ∨
    (∃ s', scanHex (withRest s X) = ⟨none, none, s'⟩ ∧ s'.err = true) := by
  rcases hex_head X with ⟨a, d1, X1, rfl, h1⟩ | hn
  · rcases hex_head X1 with ⟨b, d2, R, rfl, h2⟩ | hn
    · by_cases hpos : 0 < d1 * 16 + d2
      · exact Or.inl ⟨a, b, d1, d2, R, rfl, h1, h2, hpos⟩
      · refine Or.inr ⟨setErr (withRest s R), ?_, rfl⟩
        unfold scanHex
        rw [next_cons_ch _ _ _ h1.facts.2.1]
        simp only [h1.facts.1]
        rw [next_cons_ch _ _ _ h2.facts.2.1]
        simp only [h2.facts.1]
        have : ¬ (d1 * 16 + d2 > 0) := hpos
        simp only [this, if_false]
    · refine Or.inr ⟨setErr (afterR s X1), ?_, rfl⟩
      unfold scanHex
      rw [next_cons_ch _ _ _ h1.facts.2.1]
      simp only [h1.facts.1]
      rw [next_withRest]
      simp only [hn]
  · refine Or.inr ⟨setErr (afterR s X), ?_, rfl⟩
    unfold scanHex
    rw [next_withRest]
    simp only [hn]

/-! ## one escape: `scanEscape` -/

/-- the `switch` of `scanEscape`: the look-ahead rune after the escape, the character to append -/
def escRaw (s : LState) : EscR :=
  let (ch, s1) := next s
  match ch with
  | none => ⟨none, none, setErr s1⟩
  | some c =>
    let simple (x : Char) : EscR := let (c', s2) := next s1; ⟨c', some x, s2⟩
    if c = 'b' then simple (Char.ofNat 8)
    else if c = 'f' then simple (Char.ofNat 12)
    else if c = 'n' then simple '\n'
    else if c = 'r' then simple '\r'
    else if c = 't' then simple '\t'
    else if c = 'v' then simple (Char.ofNat 11)
    else if c = 'x' then scanHex s1
    else if c = 'u' then scanUnicode s1
    else simple c

/-- the end of `scanEscape`: append, and reset the buffer on `stopTok` with an error on record -/
def escFinish (buf : List Char) (r : EscR) : Option Char × List Char × LState :=
  let buf' := match r.out with | some x => x :: buf | none => buf
  match r.ch with
  | none => if r.st.err then (none, [], r.st) else (none, buf', r.st)
  | some c' => (some c', buf', r.st)

theorem scanEscape_eq (buf : List Char) (s : LState) : scanEscape buf s = escFinish buf (escRaw s) := by
  unfold scanEscape escRaw escFinish
  rfl

/-- `escRaw` on a source that starts with the characters of an escape (after the backslash) -/
theorem escRaw_ok (s : LState) {es : List Char} {c : Char} (h : SpellsEsc es c) (R : List Src) :
    escRaw (withRest s (chs es ++ R)) = ⟨peekR R, some c, afterR s R⟩ := by
  cases h with
  | b => unfold escRaw; rw [chs_cons, List.cons_append, next_cons_ch _ _ _ (by decide)]; simp [next_withRest, chs]
  | f => unfold escRaw; rw [chs_cons, List.cons_append, next_cons_ch _ _ _ (by decide)]; simp [next_withRest, chs]
  | n => unfold escRaw; rw [chs_cons, List.cons_append, next_cons_ch _ _ _ (by decide)]; simp [next_withRest, chs]
  | r => unfold escRaw; rw [chs_cons, List.cons_append, next_cons_ch _ _ _ (by decide)]; simp [next_withRest, chs]
  | t => unfold escRaw; rw [chs_cons, List.cons_append, next_cons_ch _ _ _ (by decide)]; simp [next_withRest, chs]
  | v => unfold escRaw; rw [chs_cons, List.cons_append, next_cons_ch _ _ _ (by decide)]; simp [next_withRest, chs]
  | self c h0 a1 a2 a3 a4 a5 a6 a7 a8 =>
    unfold escRaw; rw [chs_cons, List.cons_append, next_cons_ch _ _ _ h0]
    simp [next_withRest, chs, a1, a2, a3, a4, a5, a6, a7, a8]
  | @hex a b d1 d2 h1 h2 hpos =>
    unfold escRaw; rw [chs_cons, List.cons_append, next_cons_ch _ _ _ (by decide)]
    have := scanHex_ok s h1 h2 hpos R
    simp [chs, this]
  | @uni us v h h0 hmax hs =>
    unfold escRaw; rw [chs_cons, List.cons_append, next_cons_ch _ _ _ (by decide)]
    have := scanUnicode_single_ok s h h0 hmax hs R
    simp [this]
  | @pair us1 us2 hi lo h1 h2 a1 a2 a3 a4 =>
    unfold escRaw; rw [chs_cons, List.cons_append, next_cons_ch _ _ _ (by decide)]
    have := scanUnicode_pair_ok s h1 h2 a1 a2 a3 a4 R
    simp only [this]
    simp

/-- **completeness for one escape**: on any source, either the source starts with the characters of
    an escape (`SpellsEsc`), or `scanEscape` meets the stop outcome with an error on record -/
theorem escRaw_cases (s : LState) (X : List Src) :
    (∃ es c R, X = chs es ++ R ∧ SpellsEsc es c) ∨
    (∃ s', escRaw (withRest s X) = ⟨none, none, s'⟩ ∧ s'.err = true) := by
  cases hp : peekR X with
  | none =>
    refine Or.inr ⟨setErr (afterR s X), ?_, rfl⟩
    unfold escRaw
    rw [next_withRest, hp]
  | some c =>
    obtain ⟨X', rfl, hc0⟩ := peekR_some hp
    by_cases hb : c = 'b'
    · subst hb; exact Or.inl ⟨['b'], _, X', rfl, .b⟩
    by_cases hf : c = 'f'
    · subst hf; exact Or.inl ⟨['f'], _, X', rfl, .f⟩
    by_cases hn : c = 'n'
    · subst hn; exact Or.inl ⟨['n'], _, X', rfl, .n⟩
    by_cases hr : c = 'r'
    · subst hr; exact Or.inl ⟨['r'], _, X', rfl, .r⟩
    by_cases ht : c = 't'
    · subst ht; exact Or.inl ⟨['t'], _, X', rfl, .t⟩
    by_cases hv : c = 'v'
    · subst hv; exact Or.inl ⟨['v'], _, X', rfl, .v⟩
    by_cases hx : c = 'x'
    · subst hx
      rcases scanHex_cases s X' with ⟨a, b, d1, d2, R, rfl, h1, h2, hpos⟩ | ⟨s', e1, e2⟩
      · exact Or.inl ⟨['x', a, b], _, R, rfl, .hex h1 h2 hpos⟩
      · refine Or.inr ⟨s', ?_, e2⟩
        unfold escRaw
        rw [next_cons_ch _ _ _ (by decide)]
        simp [e1]
    by_cases hu : c = 'u'
    · subst hu
      rcases scanUnicode_cases s X' with ⟨w, c, R, rfl, hsp⟩ | ⟨s', e1, e2⟩
      · exact Or.inl ⟨'u' :: w, c, R, rfl, hsp⟩
      · refine Or.inr ⟨s', ?_, e2⟩
        unfold escRaw
        rw [next_cons_ch _ _ _ (by decide)]
        simp [e1]
    exact Or.inl ⟨[c], c, X', rfl, .self c hc0 hb hf hn hr ht hv hx hu⟩

/-- the value of `scanEscape` after a spelled escape, by what follows it -/
def escOut (buf : List Char) (c : Char) (s : LState) (R : List Src) : Option Char × List Char × LState :=
  match peekR R with
  | some y => (some y, c :: buf, afterR s R)
  | none => if (afterR s R).err then (none, [], afterR s R) else (none, c :: buf, afterR s R)

theorem scanEscape_ok (buf : List Char) (s : LState) {es : List Char} {c : Char} (h : SpellsEsc es c) (R : List Src) :
    scanEscape buf (withRest s (chs es ++ R)) = escOut buf c s R := by
  rw [scanEscape_eq, escRaw_ok s h R]
  unfold escFinish escOut
  cases peekR R <;> rfl

/-- a spelled escape followed by a clean character -/
theorem scanEscape_ok_some (buf : List Char) (s : LState) {es : List Char} {c : Char} (h : SpellsEsc es c)
    (R : List Src) {y : Char} (hy : peekR R = some y) :
    scanEscape buf (withRest s (chs es ++ R)) = (peekR R, c :: buf, afterR s R) := by
  rw [scanEscape_ok buf s h R]
  unfold escOut
  rw [hy]

/-- the source (after a backslash) does not start with an escape -/
def NoEsc (X : List Src) : Prop := ¬ ∃ es c R, X = chs es ++ R ∧ SpellsEsc es c

/-- **a malformed escape**: `scanEscape` returns `stopTok`, the emptied buffer and an error -/
theorem scanEscape_bad (buf : List Char) (s : LState) {X : List Src} (h : NoEsc X) :
    ∃ s', scanEscape buf (withRest s X) = (none, [], s') ∧ s'.err = true := by
  rcases escRaw_cases s X with h' | ⟨s', e1, e2⟩
  · exact absurd h' h
  · refine ⟨s', ?_, e2⟩
    rw [scanEscape_eq, e1]
    simp [escFinish, e2]

/-! ## the body of a literal: `stringLoop` -/

/-- the scanner's rejection outcome: `stopTok`, no text, an error on record -/
def Rej (r : ScanR) : Prop := r.tok = .stop ∧ r.text = [] ∧ r.st.err = true

/-- the source, from the position after the opening quote, is a well-formed body (`SpellsStr`),
    the closing quote, and anything -/
def Closed (X : List Src) : Prop := ∃ body val R, X = chs body ++ .ch '"' :: R ∧ SpellsStr body val

theorem stringLoop_none (ret : Tok) (f : Nat) (buf : List Char) (s : LState) (h : 1 ≤ f ∨ s.err = true) :
    Rej (stringLoop f ret none buf s) := by
  cases f with
  | zero =>
    rcases h with h | h
    · omega
    · exact ⟨rfl, rfl, h⟩
  | succ f => exact ⟨rfl, rfl, rfl⟩

/-- the first position of a body followed by the closing quote is a clean character -/
theorem peekR_body {body val : List Char} (h : SpellsStr body val) (R : List Src) :
    ∃ y, peekR (chs body ++ .ch '"' :: R) = some y := by
  have hn := h.noNul
  cases body with
  | nil => exact ⟨'"', peekR_cons_ch _ _ (by decide)⟩
  | cons d b => exact ⟨d, peekR_cons_ch _ _ (hn d (by simp))⟩

/-- **soundness of the loop**: entered on the first position of `body ++ '"' :: R`, the loop returns
    the token with the value of the body and stops on the position after the closing quote -/
theorem stringLoop_ok (ret : Tok) (R : List Src) {body val : List Char} (h : SpellsStr body val) :
    ∀ (buf : List Char) (fuel : Nat) (s : LState), val.length + 1 ≤ fuel →
      stringLoop fuel ret (peekR (chs body ++ .ch '"' :: R)) buf (afterR s (chs body ++ .ch '"' :: R))
        = ⟨ret, buf.reverse ++ val, peekR R, afterR s R⟩ := by
  induction h with
  | nil =>
    intro buf fuel s hf
    obtain ⟨f, rfl⟩ : ∃ f, fuel = f + 1 := ⟨fuel - 1, by simp at hf; omega⟩
    simp only [chs_nil, List.nil_append]
    rw [peekR_cons_ch _ _ (by decide), afterR_cons_ch _ _ _ (by decide), stringLoop_succ]
    simp [next_withRest]
  | @cons cs body c val hc hs ih =>
    intro buf fuel s hf
    obtain ⟨f, rfl⟩ : ∃ f, fuel = f + 1 := ⟨fuel - 1, by simp at hf; omega⟩
    have hf' : val.length + 1 ≤ f := by simp at hf; omega
    have e : chs (cs ++ body) ++ .ch '"' :: R = chs cs ++ (chs body ++ .ch '"' :: R) := by simp [chs]
    rw [e]
    cases hc with
    | plain c a1 a2 a3 h0 =>
      simp only [chs_cons, chs_nil, List.cons_append, List.nil_append]
      rw [peekR_cons_ch _ _ h0, afterR_cons_ch _ _ _ h0, stringLoop_succ]
      simp only [a1, a2, a3, if_false]
      rw [next_withRest]
      simp only []
      rw [ih (c :: buf) f s hf']
      simp
    | @esc es c hesc =>
      obtain ⟨y, hy⟩ := peekR_body hs R
      simp only [chs_cons, List.cons_append]
      rw [peekR_cons_ch _ _ (by decide), afterR_cons_ch _ _ _ (by decide), stringLoop_succ]
      have q1 : ('\\' = '"') = False := by decide
      have q2 : ('\\' = '\n') = False := by decide
      simp only [q1, q2, if_false, if_true]
      rw [scanEscape_ok_some buf s hesc _ hy]
      simp only []
      rw [ih (c :: buf) f s hf']
      simp

/-- **completeness of the loop**: on *any* source, either the source is a well-formed body followed
    by the closing quote, or the loop ends in the rejection outcome -/
theorem stringLoop_cases (ret : Tok) (s : LState) : ∀ (n : Nat) (X : List Src), X.length ≤ n →
    ∀ (fuel : Nat) (buf : List Char), n + 1 ≤ fuel →
      Closed X ∨ Rej (stringLoop fuel ret (peekR X) buf (afterR s X)) := by
  intro n
  induction n with
  | zero =>
    intro X hX fuel buf hf
    have : X = [] := by cases X with | nil => rfl | cons _ _ => simp at hX
    subst this
    exact Or.inr (stringLoop_none ret fuel buf _ (Or.inl (by omega)))
  | succ n ih =>
    intro X hX fuel buf hf
    obtain ⟨f, rfl⟩ : ∃ f, fuel = f + 1 := ⟨fuel - 1, by omega⟩
    cases hp : peekR X with
    | none => exact Or.inr (stringLoop_none ret _ buf _ (Or.inl (by omega)))
    | some c =>
      obtain ⟨X', rfl, hc0⟩ := peekR_some hp
      have hX' : X'.length ≤ n := by simp at hX; omega
      rw [afterR_cons_ch _ _ _ hc0, stringLoop_succ]
      by_cases hq : c = '"'
      · subst hq; exact Or.inl ⟨[], [], X', rfl, .nil⟩
      by_cases hnl : c = '\n'
      · subst hnl
        simp only [hq, if_false, if_true]
        exact Or.inr ⟨rfl, rfl, rfl⟩
      by_cases hbs : c = '\\'
      · subst hbs
        simp only [hq, hnl, if_false, if_true]
        rcases escRaw_cases s X' with ⟨es, c', Y, rfl, hesc⟩ | ⟨s', e1, e2⟩
        · have hYlen : Y.length ≤ n := by
            have := hesc.ne_nil
            simp only [List.length_append, chs_length] at hX'
            omega
          have hf1 : 1 ≤ f := by
            have : 1 ≤ es.length := by
              have := hesc.ne_nil
              cases es with
              | nil => exact absurd rfl this
              | cons _ _ => simp
            simp only [List.length_append, chs_length] at hX'
            omega
          cases hy : peekR Y with
          | none =>
            right
            rw [scanEscape_ok buf s hesc Y]
            unfold escOut
            rw [hy]
            simp only []
            split <;> exact stringLoop_none ret f _ _ (Or.inl hf1)
          | some y =>
            rw [scanEscape_ok_some buf s hesc Y hy]
            simp only []
            rcases ih Y hYlen f (c' :: buf) (by omega) with ⟨body, val, R, rfl, hb⟩ | hr
            · left
              refine ⟨'\\' :: es ++ body, c' :: val, R, by simp [chs], ?_⟩
              have := SpellsStr.cons (SpellsChar.esc hesc) hb
              simpa using this
            · exact Or.inr hr
        · right
          have hbad : scanEscape buf (withRest s X') = (none, [], s') := by
            rw [scanEscape_eq, e1]; simp [escFinish, e2]
          rw [hbad]
          exact stringLoop_none ret f _ _ (Or.inr e2)
      · simp only [hq, hnl, hbs, if_false]
        rw [next_withRest]
        simp only []
        rcases ih X' hX' f (c :: buf) (by omega) with ⟨body, val, R, rfl, hb⟩ | hr
        · left
          refine ⟨c :: body, c :: val, R, by simp [chs], ?_⟩
          exact SpellsStr.cons (cs := [c]) (SpellsChar.plain c hq hbs hnl hc0) hb
        · exact Or.inr hr

/-! ## `scanString` -/

theorem scanString_withRest (ret : Tok) (s : LState) (X : List Src) :
    scanString ret (withRest s X) = stringLoop (X.tail.length + 3) ret (peekR X) [] (afterR s X) := by
  unfold scanString
  rw [next_withRest]
  simp only [afterR_rest]

/-- **soundness**: the literal is read, whatever state the lexer is in and whatever follows -/
theorem scanString_ok (ret : Tok) (s : LState) {body val : List Char} (h : SpellsStr body val) (R : List Src) :
    scanString ret (withRest s (chs body ++ .ch '"' :: R)) = ⟨ret, val, peekR R, afterR s R⟩ := by
  rw [scanString_withRest]
  have hl := h.length_le
  have hlen : val.length + 1 ≤ (chs body ++ .ch '"' :: R).tail.length + 3 := by
    simp only [List.length_tail, List.length_append, chs_length, List.length_cons]
    omega
  rw [stringLoop_ok ret R h [] _ s hlen]
  simp

/-- **completeness**: any other source is rejected with an error -/
theorem scanString_cases (ret : Tok) (s : LState) (X : List Src) :
    Closed X ∨ Rej (scanString ret (withRest s X)) := by
  rw [scanString_withRest]
  exact stringLoop_cases ret s X.length X (Nat.le_refl _) _ [] (by simp only [List.length_tail]; omega)

theorem scanString_bad (ret : Tok) (s : LState) {X : List Src} (h : ¬ Closed X) :
    Rej (scanString ret (withRest s X)) := by
  rcases scanString_cases ret s X with h' | h'
  · exact absurd h' h
  · exact h'

/-- **the main theorem for `scanString`** (called on the position after the opening quote, with any
    state – the error flag included, see the remark at `C04b.string_literal_iff`) -/
theorem scanString_iff (ret : Tok) (hret : ret ≠ .stop) (s : LState) :
    (scanString ret s).tok ≠ .stop ↔ Closed s.rest := by
  constructor
  · intro h
    rcases scanString_cases ret s s.rest with h' | h'
    · exact h'
    · exact absurd h'.1 h
  · rintro ⟨body, val, R, hX, hb⟩
    have : s = withRest s (chs body ++ .ch '"' :: R) := by rw [← hX]; rfl
    rw [this, scanString_ok ret s hb R]
    exact hret

/-! ## at the level of `Lex`: `"…"` and `$"…"` -/

section
variable (o : Oracles)

theorem lexFrom_quote (hq : o.xidStart '"' = false) (f : Nat) (s : LState) :
    lexFrom o (f + 1) (some '"') s = scanString .string s := by
  simp only [lexFrom]
  rw [skipWs_nonws _ _ _ (by decide)]
  simp [isIdentStart, hq, isDecimal]

theorem lexFrom_dollar (hd : o.xidStart '$' = false) (f : Nat) (s : LState) :
    lexFrom o (f + 1) (some '$') s = scanVariable o s := by
  simp only [lexFrom]
  rw [skipWs_nonws _ _ _ (by decide)]
  have e1 : isIdentStart o (some '$') = false := by simp [isIdentStart, hd]
  have e2 : isDecimal '$' = false := by decide
  have e3 : ('$' = '"') = False := by decide
  simp only [e1, e2, e3, Bool.false_eq_true, if_false, if_true]

theorem scanVariable_quote (s : LState) (X : List Src) :
    scanVariable o (withRest s (.ch '"' :: X)) = scanString .variable (withRest s X) := by
  unfold scanVariable
  rw [next_cons_ch _ _ _ (by decide)]
  simp only [if_true]

theorem lexFrom_dollar_quote (hd : o.xidStart '$' = false) (f : Nat) (s : LState) (X : List Src) :
    lexFrom o (f + 1) (some '$') (withRest s (.ch '"' :: X)) = scanString .variable (withRest s X) := by
  rw [lexFrom_dollar o hd, scanVariable_quote]

/-! ## white space before the first token -/

theorem ws_clean {c : Char} (h : isWhitespace c = true) : c.toNat ≠ 0 := by
  simp only [isWhitespace, Bool.or_eq_true, decide_eq_true_eq] at h
  rcases h with ((h | h) | h) | h <;> subst h <;> decide

theorem skipWs_ws (s : LState) (q : Char) (hq : isWhitespace q = false) (hq0 : q.toNat ≠ 0) (X : List Src) :
    ∀ (ws : List Char), (∀ c ∈ ws, isWhitespace c = true) → ∀ f, ws.length + 1 ≤ f →
      skipWs f (peekR (chs ws ++ .ch q :: X)) (afterR s (chs ws ++ .ch q :: X)) = (some q, withRest s X) := by
  intro ws
  induction ws with
  | nil =>
    intro _ f hf
    obtain ⟨f1, rfl⟩ : ∃ f1, f = f1 + 1 := ⟨f - 1, by simp at hf; omega⟩
    simp only [chs_nil, List.nil_append]
    rw [peekR_cons_ch _ _ hq0, afterR_cons_ch _ _ _ hq0, skipWs_nonws _ _ _ hq]
  | cons w ws ih =>
    intro hws f hf
    obtain ⟨f1, rfl⟩ : ∃ f1, f = f1 + 1 := ⟨f - 1, by simp at hf; omega⟩
    have hw := hws w (by simp)
    simp only [chs_cons, List.cons_append]
    rw [peekR_cons_ch _ _ (ws_clean hw), afterR_cons_ch _ _ _ (ws_clean hw)]
    unfold skipWs
    simp only [hw, if_true]
    rw [next_withRest]
    exact ih (fun c hc => hws c (by simp [hc])) f1 (by simp at hf; omega)

/-- the body of `Lex`, started anywhere before white space and a non-blank clean character `q`,
    is the body of `Lex` started on `q` -/
theorem lexFrom_ws (s : LState) (q : Char) (hq : isWhitespace q = false) (hq0 : q.toNat ≠ 0) (X : List Src)
    (ws : List Char) (hws : ∀ c ∈ ws, isWhitespace c = true) (f : Nat) :
    lexFrom o (f + 1) (peekR (chs ws ++ .ch q :: X)) (afterR s (chs ws ++ .ch q :: X))
      = lexFrom o (f + 1) (some q) (withRest s X) := by
  have h1 := skipWs_ws s q hq hq0 X ws hws ((afterR s (chs ws ++ .ch q :: X)).rest.length + 3) (by
    rw [afterR_rest]
    simp only [List.length_tail, List.length_append, chs_length, List.length_cons]
    omega)
  have h2 : skipWs ((withRest s X).rest.length + 3) (some q) (withRest s X) = (some q, withRest s X) :=
    skipWs_nonws _ _ _ hq
  rw [lexFrom, lexFrom, h1, h2]

end

/-! ## lift to `Parse.parse` -/

/-- **an input whose first token (after optional white space) is a malformed `"…"` literal is rejected** -/
theorem parse_err_bad_string (o : Oracles) (hq : o.xidStart '"' = false) (bytes : List UInt8)
    (ws : List Char) (hws : ∀ c ∈ ws, isWhitespace c = true) (X : List Src)
    (h : decodeAll bytes = chs ws ++ .ch '"' :: X) (hbad : ¬ Closed X) : parse o bytes = .err := by
  apply parse_err_of_first_token
  rw [h, lexFrom_ws o _ '"' (by decide) (by decide) X ws hws, lexFrom_quote o hq]
  exact (scanString_bad .string _ hbad).2.2

/-- the same for `$"…"` -/
theorem parse_err_bad_variable (o : Oracles) (hd : o.xidStart '$' = false) (bytes : List UInt8)
    (ws : List Char) (hws : ∀ c ∈ ws, isWhitespace c = true) (X : List Src)
    (h : decodeAll bytes = chs ws ++ .ch '$' :: .ch '"' :: X) (hbad : ¬ Closed X) : parse o bytes = .err := by
  apply parse_err_of_first_token
  rw [h, lexFrom_ws o _ '$' (by decide) (by decide) _ ws hws, lexFrom_dollar_quote o hd]
  exact (scanString_bad .variable _ hbad).2.2

/-! ## the grammar is unambiguous (prefix-free) – obtained from the soundness lemmas: the lexer is a
    function, so two readings of the same source give the same answer -/

/-- a fresh state without error -/
def s0 : LState := { rest := [], ch := none, err := false }

theorem length_of_afterR {Y Y' : List Src} (hp : peekR Y = peekR Y') (h : afterR s0 Y = afterR s0 Y') :
    Y.length = Y'.length := by
  cases Y with
  | nil =>
    cases Y' with
    | nil => rfl
    | cons x r =>
      have he : (afterR s0 (x :: r)).err = true := afterR_err_of_none s0 x r (by simpa [peekR] using hp.symm)
      rw [← h, afterR_nil] at he
      exact absurd he (by decide)
  | cons x r =>
    cases Y' with
    | nil =>
      have he : (afterR s0 (x :: r)).err = true := afterR_err_of_none s0 x r (by simpa [peekR] using hp)
      rw [h, afterR_nil] at he
      exact absurd he (by decide)
    | cons x' r' =>
      have := congrArg LState.rest h
      rw [afterR_rest, afterR_rest] at this
      simp only [List.tail_cons] at this
      simp [this]

theorem chs_inj {a b : List Char} (h : chs a = chs b) : a = b := by
  induction a generalizing b with
  | nil => cases b with
    | nil => rfl
    | cons _ _ => simp [chs] at h
  | cons x a ih => cases b with
    | nil => simp [chs] at h
    | cons y b =>
      simp only [chs_cons, List.cons.injEq, Src.ch.injEq] at h
      rw [h.1, ih h.2]

/-- **one escape can be read in one way only** -/
theorem esc_unique {es es' : List Char} {c c' : Char} {Y Y' : List Src} (h : SpellsEsc es c) (h' : SpellsEsc es' c')
    (e : chs es ++ Y = chs es' ++ Y') : es = es' ∧ c = c' ∧ Y = Y' := by
  have h1 := escRaw_ok s0 h Y
  have h2 := escRaw_ok s0 h' Y'
  rw [e, h2] at h1
  injection h1 with a1 a2 a3
  injection a2 with a2
  have hl := length_of_afterR a1 a3
  have := List.append_inj' e hl.symm
  exact ⟨chs_inj this.1, a2.symm, this.2⟩

/-- one code unit (not 0, not beyond U+10FFFF) can be read in one way only -/
theorem unit_unique {us us' : List Char} {v v' : Nat} {Y Y' : List Src}
    (h : SpellsUnit us v) (h0 : v ≠ 0) (hm : v ≤ 0x10FFFF) (h' : SpellsUnit us' v') (h0' : v' ≠ 0) (hm' : v' ≤ 0x10FFFF)
    (e : chs us ++ Y = chs us' ++ Y') : us = us' ∧ v = v' ∧ Y = Y' := by
  have h1 := decodeUnicode_ok s0 h h0 hm Y
  have h2 := decodeUnicode_ok s0 h' h0' hm' Y'
  rw [e, h2] at h1
  injection h1 with a1 a2
  injection a1 with a1
  have hY : Y' = Y := congrArg LState.rest a2
  subst hY
  exact ⟨chs_inj (List.append_cancel_right e), a1.symm, rfl⟩

theorem hexDig_fun {c : Char} {d d' : Nat} (h : HexDig c d) (h' : HexDig c d') : d = d' := by
  have := h.facts.1
  rw [h'.facts.1] at this
  injection this with this
  exact this.symm

theorem not_hexDig_of {c : Char} (h : hexChar (some c) = none) {d : Nat} : ¬ HexDig c d := by
  intro hd; rw [hd.facts.1] at h; exact absurd h (by simp)

/-- two runs of hexadecimal digits at the same place: one continues the other -/
theorem hexrun_cmp : ∀ {cs : List Char} {cv : List Nat}, HexDigs cs cv → ∀ {ds : List Char} {dv : List Nat},
    HexDigs ds dv → ∀ {A B : List Src}, chs cs ++ A = chs ds ++ B →
      (∃ more mv, HexDigs more mv ∧ cs = ds ++ more ∧ B = chs more ++ A ∧ cv = dv ++ mv) ∨
      (∃ more mv, HexDigs more mv ∧ ds = cs ++ more ∧ A = chs more ++ B ∧ dv = cv ++ mv) := by
  intro cs cv h
  induction h with
  | nil =>
    intro ds dv hd A B e
    exact Or.inr ⟨ds, dv, hd, rfl, by simpa [chs] using e, rfl⟩
  | @cons c d cs cv hc hcs ih =>
    intro ds dv hd A B e
    cases hd with
    | nil => exact Or.inl ⟨c :: cs, d :: cv, .cons hc hcs, rfl, by simpa [chs] using e.symm, rfl⟩
    | @cons c' d' ds dv hc' hds =>
      simp only [chs_cons, List.cons_append, List.cons.injEq, Src.ch.injEq] at e
      obtain ⟨e1, e2⟩ := e
      subst e1
      have hdd := hexDig_fun hc hc'
      subst hdd
      rcases ih hds e2 with ⟨more, mv, hm, a1, a2, a3⟩ | ⟨more, mv, hm, a1, a2, a3⟩
      · exact Or.inl ⟨more, mv, hm, by rw [a1]; rfl, a2, by rw [a3]; rfl⟩
      · exact Or.inr ⟨more, mv, hm, by rw [a1]; rfl, a2, by rw [a3]; rfl⟩

/-! ## inversion: what a source that starts with an escape looks like -/

/-- a spelled code unit at the head of a source -/
theorem unit_src_inv {w : List Char} {v : Nat} (h : SpellsUnit w v) (R : List Src) :
    (∃ a b c d d1 d2 d3 d4, chs w ++ R = .ch a :: .ch b :: .ch c :: .ch d :: R ∧ HexDig a d1 ∧ HexDig b d2 ∧
        HexDig c d3 ∧ HexDig d d4 ∧ v = ((d1 * 16 + d2) * 16 + d3) * 16 + d4) ∨
    (∃ cs cv, chs w ++ R = .ch '{' :: (chs cs ++ .ch '}' :: R) ∧ HexDigs cs cv ∧ 1 ≤ cs.length ∧ cs.length ≤ 6 ∧
        v = hexVal cv) := by
  cases h with
  | @fixed a b c d d1 d2 d3 d4 h1 h2 h3 h4 => exact Or.inl ⟨a, b, c, d, d1, d2, d3, d4, rfl, h1, h2, h3, h4, rfl⟩
  | @brace cs ds hds h1 h6 => exact Or.inr ⟨cs, ds, by simp [chs], hds, h1, h6, rfl⟩

/-- the escapes that start with `u` -/
theorem esc_u_src_inv {es : List Char} {c : Char} (h : SpellsEsc es c) {Y R : List Src}
    (e : .ch 'u' :: Y = chs es ++ R) :
    (∃ us v, Y = chs us ++ R ∧ SpellsUnit us v ∧ v ≠ 0 ∧ v ≤ 0x10FFFF ∧ isSurrogate v = false) ∨
    (∃ us1 us2 hi lo, Y = chs us1 ++ .ch '\\' :: .ch 'u' :: (chs us2 ++ R) ∧ SpellsUnit us1 hi ∧ SpellsUnit us2 lo ∧
        0xD800 ≤ hi ∧ hi < 0xDC00 ∧ 0xDC00 ≤ lo ∧ lo < 0xE000) := by
  cases h with
  | b | f | n | r | t | v => simp [chs] at e
  | self c h0 a1 a2 a3 a4 a5 a6 a7 a8 =>
    simp only [chs_cons, chs_nil, List.cons_append, List.nil_append, List.cons.injEq, Src.ch.injEq] at e
    exact absurd e.1.symm a8
  | hex _ _ _ => simp [chs] at e
  | @uni us v hu h0 hmax hs =>
    simp only [chs_cons, List.cons_append, List.cons.injEq, true_and] at e
    exact Or.inl ⟨us, v, e, hu, h0, hmax, hs⟩
  | @pair us1 us2 hi lo h1 h2 a1 a2 a3 a4 =>
    simp only [chs_cons, List.cons_append, List.cons.injEq, true_and] at e
    refine Or.inr ⟨us1, us2, hi, lo, ?_, h1, h2, a1, a2, a3, a4⟩
    rw [e]; simp [chs]

/-- the escapes that start with `x` -/
theorem esc_x_src_inv {es : List Char} {c : Char} (h : SpellsEsc es c) {Y R : List Src}
    (e : .ch 'x' :: Y = chs es ++ R) :
    ∃ a b d1 d2, Y = .ch a :: .ch b :: R ∧ HexDig a d1 ∧ HexDig b d2 ∧ 0 < d1 * 16 + d2 := by
  cases h with
  | b | f | n | r | t | v => simp [chs] at e
  | self c h0 a1 a2 a3 a4 a5 a6 a7 a8 =>
    simp only [chs_cons, chs_nil, List.cons_append, List.nil_append, List.cons.injEq, Src.ch.injEq] at e
    exact absurd e.1.symm a7
  | @hex a b d1 d2 h1 h2 hpos =>
    simp only [chs_cons, chs_nil, List.cons_append, List.nil_append, List.cons.injEq, true_and] at e
    exact ⟨a, b, d1, d2, e, h1, h2, hpos⟩
  | uni _ _ _ _ => simp [chs] at e
  | pair _ _ _ _ _ _ => simp [chs] at e

/-- an escape starts with a clean character -/
theorem esc_src_head {es : List Char} {c : Char} (h : SpellsEsc es c) (R : List Src) :
    ∃ e Y, chs es ++ R = .ch e :: Y ∧ e.toNat ≠ 0 := by
  have hn := h.noNul
  have := h.ne_nil
  cases es with
  | nil => exact absurd rfl this
  | cons e w => exact ⟨e, chs w ++ R, rfl, hn e (by simp)⟩

/-! ## malformed escapes (`NoEsc`) -/

/-- backslash at the end of the input -/
theorem noEsc_nil : NoEsc [] := by
  rintro ⟨es, c, R, e, h⟩
  obtain ⟨x, Y, e', _⟩ := esc_src_head h R
  rw [← e] at e'
  exact absurd e' (by simp)

/-- backslash before an undecodable byte -/
theorem noEsc_bad (Y : List Src) : NoEsc (.bad :: Y) := by
  rintro ⟨es, c, R, e, h⟩
  obtain ⟨x, Y', e', _⟩ := esc_src_head h R
  rw [← e] at e'
  simp at e'

/-- backslash before NUL -/
theorem noEsc_nul (c : Char) (hc : c.toNat = 0) (Y : List Src) : NoEsc (.ch c :: Y) := by
  rintro ⟨es, c', R, e, h⟩
  obtain ⟨x, Y', e', hx⟩ := esc_src_head h R
  rw [← e] at e'
  simp only [List.cons.injEq, Src.ch.injEq] at e'
  rw [← e'.1] at hx
  exact hx hc

/-- **`\x`**: exactly two hexadecimal digits of non-zero value are required -/
theorem noEsc_x_iff (Y : List Src) :
    NoEsc (.ch 'x' :: Y) ↔ ¬ ∃ a b d1 d2 R, Y = .ch a :: .ch b :: R ∧ HexDig a d1 ∧ HexDig b d2 ∧ 0 < d1 * 16 + d2 := by
  constructor
  · rintro h ⟨a, b, d1, d2, R, rfl, h1, h2, hpos⟩
    exact h ⟨['x', a, b], _, R, rfl, .hex h1 h2 hpos⟩
  · rintro h ⟨es, c, R, e, hesc⟩
    obtain ⟨a, b, d1, d2, rfl, h1, h2, hpos⟩ := esc_x_src_inv hesc e
    exact h ⟨a, b, d1, d2, R, rfl, h1, h2, hpos⟩

/-- `\x` followed by something that is not a hexadecimal digit (also: nothing, NUL, a bad byte) -/
theorem noEsc_x_first (Y : List Src) (h : hexChar (peekR Y) = none) : NoEsc (.ch 'x' :: Y) := by
  rw [noEsc_x_iff]
  rintro ⟨a, b, d1, d2, R, rfl, h1, h2, _⟩
  rw [peekR_hex h1] at h
  exact not_hexDig_of h h1

/-- `\xH` followed by something that is not a hexadecimal digit -/
theorem noEsc_x_second (a : Char) (Y : List Src) (h : hexChar (peekR Y) = none) : NoEsc (.ch 'x' :: .ch a :: Y) := by
  rw [noEsc_x_iff]
  rintro ⟨a', b, d1, d2, R, e, h1, h2, _⟩
  simp only [List.cons.injEq, Src.ch.injEq] at e
  rw [e.2, peekR_hex h2] at h
  exact not_hexDig_of h h2

/-- `\x00` -/
theorem noEsc_x00 (Y : List Src) : NoEsc (.ch 'x' :: .ch '0' :: .ch '0' :: Y) := by
  rw [noEsc_x_iff]
  rintro ⟨a, b, d1, d2, R, e, h1, h2, hpos⟩
  simp only [List.cons.injEq, Src.ch.injEq] at e
  obtain ⟨ea, eb, _⟩ := e
  subst ea; subst eb
  have z : HexDig '0' 0 := ⟨by decide, Or.inl (by decide)⟩
  have := hexDig_fun h1 z
  have := hexDig_fun h2 z
  omega

/-- **`\u`, not followed by `{`**: four hexadecimal digits are required -/
theorem noEsc_u_fixed (Y : List Src) (hb : peekR Y ≠ some '{')
    (h : ¬ ∃ a b c d d1 d2 d3 d4 R, Y = .ch a :: .ch b :: .ch c :: .ch d :: R ∧ HexDig a d1 ∧ HexDig b d2 ∧
        HexDig c d3 ∧ HexDig d d4) : NoEsc (.ch 'u' :: Y) := by
  rintro ⟨es, c, R, e, hesc⟩
  have key : ∀ {us v} (R' : List Src), SpellsUnit us v → Y = chs us ++ R' → False := by
    intro us v R' hu hY
    rcases unit_src_inv hu R' with ⟨a, b, c, d, d1, d2, d3, d4, e', h1, h2, h3, h4, _⟩ | ⟨cs, cv, e', _⟩
    · exact h ⟨a, b, c, d, d1, d2, d3, d4, R', by rw [hY, e'], h1, h2, h3, h4⟩
    · rw [hY, e', peekR_cons_ch _ _ (by decide)] at hb
      exact hb rfl
  rcases esc_u_src_inv hesc e with ⟨us, v, hY, hu, _⟩ | ⟨us1, us2, hi, lo, hY, hu, _⟩
  · exact key R hu hY
  · exact key _ hu hY

/-- `\u` and at most three hexadecimal digits, then something that is not one (also: nothing, NUL, a
    bad byte) -/
theorem noEsc_u_short {ds : List Char} {dv : List Nat} (hd : HexDigs ds dv) (hl : ds.length < 4) (Z : List Src)
    (hz : hexChar (peekR Z) = none) (hb : ds = [] → peekR Z ≠ some '{') : NoEsc (.ch 'u' :: (chs ds ++ Z)) := by
  apply noEsc_u_fixed
  · cases hd with
    | nil => simpa [chs] using hb rfl
    | cons h1 _ =>
      simp only [chs_cons, List.cons_append]
      rw [peekR_hex h1]
      intro hh; injection hh with hh
      exact h1.facts.2.2.1 hh
  · rintro ⟨a, b, c, d, d1, d2, d3, d4, R, e, h1, h2, h3, h4⟩
    have hfour : HexDigs [a, b, c, d] [d1, d2, d3, d4] := .cons h1 (.cons h2 (.cons h3 (.cons h4 .nil)))
    have e' : chs ds ++ Z = chs [a, b, c, d] ++ R := by rw [e]; rfl
    rcases hexrun_cmp hd hfour e' with ⟨more, mv, hm, a1, a2, a3⟩ | ⟨more, mv, hm, a1, a2, a3⟩
    · have := congrArg List.length a1
      simp at this; omega
    · cases hm with
      | nil =>
        have := congrArg List.length a1
        simp at this; omega
      | cons hx _ =>
        rw [a2] at hz
        simp only [chs_cons, List.cons_append] at hz
        rw [peekR_hex hx] at hz
        exact not_hexDig_of hz hx

/-- `\u0000` (in either case of the digits there is only one spelling) and any four digits of value 0 -/
theorem noEsc_u_zero {a b c d : Char} (h1 : HexDig a 0) (h2 : HexDig b 0) (h3 : HexDig c 0) (h4 : HexDig d 0)
    (Y : List Src) : NoEsc (.ch 'u' :: .ch a :: .ch b :: .ch c :: .ch d :: Y) := by
  rintro ⟨es, ch, R, e, hesc⟩
  have key : ∀ {us v} (R' : List Src), SpellsUnit us v → v ≠ 0 →
      .ch a :: .ch b :: .ch c :: .ch d :: Y = chs us ++ R' → False := by
    intro us v R' hu hv hY
    rcases unit_src_inv hu R' with ⟨a', b', c', d', d1, d2, d3, d4, e', g1, g2, g3, g4, ev⟩ | ⟨cs, cv, e', _⟩
    · rw [e'] at hY
      simp only [List.cons.injEq, Src.ch.injEq] at hY
      obtain ⟨q1, q2, q3, q4, _⟩ := hY
      subst q1; subst q2; subst q3; subst q4
      have := hexDig_fun h1 g1; have := hexDig_fun h2 g2; have := hexDig_fun h3 g3; have := hexDig_fun h4 g4
      omega
    · rw [e'] at hY
      simp only [List.cons.injEq, Src.ch.injEq] at hY
      exact h1.facts.2.2.1 hY.1
  rcases esc_u_src_inv hesc e with ⟨us, v, hY, hu, h0, _⟩ | ⟨us1, us2, hi, lo, hY, hu, _, hhi, _⟩
  · exact key R hu h0 hY
  · exact key _ hu (by omega) hY

/-- **the surrogate rule**: after `\u`, a code unit in D800–DFFF is accepted only if it is a high
    surrogate directly followed by `\u` and a low surrogate -/
theorem noEsc_u_surrogate {us : List Char} {v : Nat} (hu : SpellsUnit us v) (hs : isSurrogate v = true) (Z : List Src)
    (h : ¬ (v < 0xDC00 ∧ ∃ us2 lo R, Z = .ch '\\' :: .ch 'u' :: (chs us2 ++ R) ∧ SpellsUnit us2 lo ∧
          0xDC00 ≤ lo ∧ lo < 0xE000)) : NoEsc (.ch 'u' :: (chs us ++ Z)) := by
  have hv : 0xD800 ≤ v ∧ v < 0xE000 := by
    simpa [isSurrogate] using hs
  rintro ⟨es, ch, R, e, hesc⟩
  rcases esc_u_src_inv hesc e with ⟨us', v', hY, hu', h0', hm', hs'⟩ | ⟨us1, us2, hi, lo, hY, hu1, hu2, b1, b2, b3, b4⟩
  · obtain ⟨_, ev, _⟩ := unit_unique hu (by omega) (by omega) hu' h0' hm' hY
    subst ev
    rw [hs] at hs'
    exact absurd hs' (by decide)
  · obtain ⟨_, ev, eZ⟩ := unit_unique hu (by omega) (by omega) hu1 (by omega) (by omega) hY
    subst ev
    exact h ⟨b2, us2, lo, R, eZ, hu2, b3, b4⟩

/-- a lone low surrogate (`\uDC00` … `\uDFFF`, in either form), whatever follows -/
theorem noEsc_u_low {us : List Char} {v : Nat} (hu : SpellsUnit us v) (h1 : 0xDC00 ≤ v) (h2 : v < 0xE000)
    (Z : List Src) : NoEsc (.ch 'u' :: (chs us ++ Z)) :=
  noEsc_u_surrogate hu (by simp [isSurrogate]; omega) Z (by omega)

/-- a high surrogate followed by something that is not a backslash -/
theorem noEsc_u_high_alone {us : List Char} {v : Nat} (hu : SpellsUnit us v) (h1 : 0xD800 ≤ v) (h2 : v < 0xDC00)
    (Z : List Src) (hz : peekR Z ≠ some '\\') : NoEsc (.ch 'u' :: (chs us ++ Z)) := by
  refine noEsc_u_surrogate hu (by simp [isSurrogate]; omega) Z ?_
  rintro ⟨_, us2, lo, R, rfl, _⟩
  exact hz (peekR_cons_ch _ _ (by decide))

/-- a high surrogate followed by a backslash and something that is not `u` -/
theorem noEsc_u_high_esc {us : List Char} {v : Nat} (hu : SpellsUnit us v) (h1 : 0xD800 ≤ v) (h2 : v < 0xDC00)
    (Z : List Src) (hz : peekR Z ≠ some 'u') : NoEsc (.ch 'u' :: (chs us ++ .ch '\\' :: Z)) := by
  refine noEsc_u_surrogate hu (by simp [isSurrogate]; omega) _ ?_
  rintro ⟨_, us2, lo, R, e, _⟩
  simp only [List.cons.injEq, true_and] at e
  rw [e] at hz
  exact hz (peekR_cons_ch _ _ (by decide))

/-- a high surrogate followed by `\u` and a code unit that is not a low surrogate -/
theorem noEsc_u_high_nonlow {us us2 : List Char} {v v2 : Nat} (hu : SpellsUnit us v) (h1 : 0xD800 ≤ v) (h2 : v < 0xDC00)
    (hu2 : SpellsUnit us2 v2) (h02 : v2 ≠ 0) (hm2 : v2 ≤ 0x10FFFF) (hlow : ¬ (0xDC00 ≤ v2 ∧ v2 < 0xE000)) (Z : List Src) :
    NoEsc (.ch 'u' :: (chs us ++ .ch '\\' :: .ch 'u' :: (chs us2 ++ Z))) := by
  refine noEsc_u_surrogate hu (by simp [isSurrogate]; omega) _ ?_
  rintro ⟨_, us3, lo, R, e, hu3, b3, b4⟩
  simp only [List.cons.injEq, true_and] at e
  obtain ⟨_, ev, _⟩ := unit_unique hu2 h02 hm2 hu3 (by omega) (by omega) e
  subst ev
  exact hlow ⟨b3, b4⟩

/-- **`\u{`**: what follows must be one to six hexadecimal digits and `}` -/
theorem noEsc_u_brace (Y : List Src)
    (h : ¬ ∃ cs cv R, Y = chs cs ++ .ch '}' :: R ∧ HexDigs cs cv ∧ 1 ≤ cs.length ∧ cs.length ≤ 6 ∧
        hexVal cv ≠ 0 ∧ hexVal cv ≤ 0x10FFFF) : NoEsc (.ch 'u' :: .ch '{' :: Y) := by
  rintro ⟨es, ch, R, e, hesc⟩
  have key : ∀ {us v} (R' : List Src), SpellsUnit us v → v ≠ 0 → v ≤ 0x10FFFF → .ch '{' :: Y = chs us ++ R' → False := by
    intro us v R' hu hv hm hY
    rcases unit_src_inv hu R' with ⟨a', b', c', d', d1, d2, d3, d4, e', g1, _⟩ | ⟨cs, cv, e', hcs, l1, l6, ev⟩
    · rw [e'] at hY
      simp only [List.cons.injEq, Src.ch.injEq] at hY
      exact g1.facts.2.2.1 hY.1.symm
    · rw [e'] at hY
      simp only [List.cons.injEq, true_and] at hY
      subst ev
      exact h ⟨cs, cv, R', hY, hcs, l1, l6, hv, hm⟩
  rcases esc_u_src_inv hesc e with ⟨us, v, hY, hu, h0, hm, _⟩ | ⟨us1, us2, hi, lo, hY, hu, _, hhi, _⟩
  · exact key R hu h0 hm hY
  · exact key _ hu (by omega) (by omega) hY

/-- `\u{}` -/
theorem noEsc_u_brace_empty (Y : List Src) : NoEsc (.ch 'u' :: .ch '{' :: .ch '}' :: Y) := by
  apply noEsc_u_brace
  rintro ⟨cs, cv, R, e, hcs, l1, _⟩
  cases hcs with
  | nil => simp at l1
  | cons hc _ =>
    simp only [chs_cons, List.cons_append, List.cons.injEq, Src.ch.injEq] at e
    exact hc.facts.2.2.2 e.1.symm

/-- `\u{` and seven or more hexadecimal digits -/
theorem noEsc_u_brace_long {ds : List Char} {dv : List Nat} (hd : HexDigs ds dv) (hl : 7 ≤ ds.length) (Z : List Src) :
    NoEsc (.ch 'u' :: .ch '{' :: (chs ds ++ Z)) := by
  apply noEsc_u_brace
  rintro ⟨cs, cv, R, e, hcs, l1, l6, _⟩
  rcases hexrun_cmp hd hcs e with ⟨more, mv, hm, a1, a2, a3⟩ | ⟨more, mv, hm, a1, a2, a3⟩
  · cases hm with
    | nil => have := congrArg List.length a1; simp at this; omega
    | cons hx _ =>
      simp only [chs_cons, List.cons_append, List.cons.injEq, Src.ch.injEq] at a2
      exact hx.facts.2.2.2 a2.1.symm
  · have := congrArg List.length a1; simp at this; omega

/-- `\u{H…` not continued by a hexadecimal digit or `}`: unterminated (`\u{12` at the end of the
    input or before the closing quote), or a character that is not a hexadecimal digit, NUL, a bad
    byte inside the braces -/
theorem noEsc_u_brace_open {ds : List Char} {dv : List Nat} (hd : HexDigs ds dv) (Z : List Src)
    (hz : hexChar (peekR Z) = none) (hq : peekR Z ≠ some '}') : NoEsc (.ch 'u' :: .ch '{' :: (chs ds ++ Z)) := by
  apply noEsc_u_brace
  rintro ⟨cs, cv, R, e, hcs, l1, l6, _⟩
  rcases hexrun_cmp hd hcs e with ⟨more, mv, hm, a1, a2, a3⟩ | ⟨more, mv, hm, a1, a2, a3⟩
  · cases hm with
    | nil =>
      simp only [chs_nil, List.nil_append] at a2
      -- `'}' :: R = Z`
      rw [← a2] at hq
      exact hq (peekR_cons_ch _ _ (by decide))
    | cons hx _ =>
      simp only [chs_cons, List.cons_append, List.cons.injEq, Src.ch.injEq] at a2
      exact hx.facts.2.2.2 a2.1.symm
  · cases hm with
    | nil =>
      simp only [chs_nil, List.nil_append] at a2
      rw [a2] at hq
      exact hq (peekR_cons_ch _ _ (by decide))
    | cons hx _ =>
      rw [a2] at hz
      simp only [chs_cons, List.cons_append] at hz
      rw [peekR_hex hx] at hz
      exact not_hexDig_of hz hx

/-- `\u{H…}` of value 0 or beyond U+10FFFF (`\u{0}`, `\u{110000}`, `\u{FFFFFF}`) -/
theorem noEsc_u_brace_range {ds : List Char} {dv : List Nat} (hd : HexDigs ds dv)
    (hv : hexVal dv = 0 ∨ 0x10FFFF < hexVal dv) (Z : List Src) :
    NoEsc (.ch 'u' :: .ch '{' :: (chs ds ++ .ch '}' :: Z)) := by
  apply noEsc_u_brace
  rintro ⟨cs, cv, R, e, hcs, l1, l6, h0, hm⟩
  have bad : ∀ {m : Char} {d : Nat}, HexDig m d → ∀ {A B : List Src}, .ch '}' :: A = .ch m :: B → False := by
    intro m d hx A B e
    simp only [List.cons.injEq, Src.ch.injEq] at e
    exact hx.facts.2.2.2 e.1.symm
  rcases hexrun_cmp hd hcs e with ⟨more, mv, hm', a1, a2, a3⟩ | ⟨more, mv, hm', a1, a2, a3⟩
  · cases hm' with
    | nil =>
      simp only [List.append_nil] at a3
      subst a3
      omega
    | cons hx _ => exact bad hx (by simpa [chs] using a2)
  · cases hm' with
    | nil =>
      simp only [List.append_nil] at a3
      subst a3
      omega
    | cons hx _ => exact bad hx (by simpa [chs] using a2)

/-! ## the body, one position at a time -/

/-- the first position of a well-formed body followed by the closing quote -/
theorem closed_inv {X : List Src} (h : Closed X) :
    ∃ c X', X = .ch c :: X' ∧ c.toNat ≠ 0 ∧
      (c = '"' ∨ (c ≠ '"' ∧ c ≠ '\\' ∧ c ≠ '\n' ∧ Closed X') ∨
        (c = '\\' ∧ ∃ es c' Y, X' = chs es ++ Y ∧ SpellsEsc es c' ∧ Closed Y)) := by
  obtain ⟨body, val, R, rfl, hb⟩ := h
  cases hb with
  | nil => exact ⟨'"', R, rfl, by decide, Or.inl rfl⟩
  | @cons cs body c val hc hs =>
    cases hc with
    | plain c a1 a2 a3 h0 =>
      exact ⟨c, chs body ++ .ch '"' :: R, by simp [chs], h0, Or.inr (Or.inl ⟨a1, a2, a3, body, val, R, rfl, hs⟩)⟩
    | @esc es c hesc =>
      exact ⟨'\\', chs es ++ (chs body ++ .ch '"' :: R), by simp [chs], by decide,
        Or.inr (Or.inr ⟨rfl, es, c, _, rfl, hesc, body, val, R, rfl, hs⟩)⟩

/-- end of input before the closing quote -/
theorem not_closed_nil : ¬ Closed [] := by
  intro h; obtain ⟨c, X', e, _⟩ := closed_inv h; simp at e

/-- an undecodable byte -/
theorem not_closed_bad (Y : List Src) : ¬ Closed (.bad :: Y) := by
  intro h; obtain ⟨c, X', e, _⟩ := closed_inv h; simp at e

/-- NUL -/
theorem not_closed_nul (c : Char) (hc : c.toNat = 0) (Y : List Src) : ¬ Closed (.ch c :: Y) := by
  intro h
  obtain ⟨c', X', e, h0, _⟩ := closed_inv h
  simp only [List.cons.injEq, Src.ch.injEq] at e
  rw [← e.1] at h0
  exact h0 hc

/-- a raw line feed -/
theorem not_closed_newline (Y : List Src) : ¬ Closed (.ch '\n' :: Y) := by
  intro h
  obtain ⟨c', X', e, h0, h1⟩ := closed_inv h
  simp only [List.cons.injEq, Src.ch.injEq] at e
  obtain ⟨e1, _⟩ := e
  subst e1
  rcases h1 with h1 | ⟨_, _, h1, _⟩ | ⟨h1, _⟩
  · exact absurd h1 (by decide)
  · exact h1 rfl
  · exact absurd h1 (by decide)

theorem closed_quote (Y : List Src) : Closed (.ch '"' :: Y) := ⟨[], [], Y, rfl, .nil⟩

/-- a raw character other than `"`, `\`, line feed, NUL -/
theorem closed_plain_iff {c : Char} (a1 : c ≠ '"') (a2 : c ≠ '\\') (a3 : c ≠ '\n') (h0 : c.toNat ≠ 0) (Y : List Src) :
    Closed (.ch c :: Y) ↔ Closed Y := by
  constructor
  · intro h
    obtain ⟨c', X', e, _, h1⟩ := closed_inv h
    simp only [List.cons.injEq, Src.ch.injEq] at e
    obtain ⟨e1, e2⟩ := e
    subst e1; subst e2
    rcases h1 with h1 | ⟨_, _, _, h1⟩ | ⟨h1, _⟩
    · exact absurd h1 a1
    · exact h1
    · exact absurd h1 a2
  · rintro ⟨body, val, R, rfl, hb⟩
    exact ⟨c :: body, c :: val, R, by simp [chs], SpellsStr.cons (cs := [c]) (.plain c a1 a2 a3 h0) hb⟩

/-- a backslash: an escape must follow, and the rest must be well-formed -/
theorem closed_backslash_iff (Y : List Src) :
    Closed (.ch '\\' :: Y) ↔ ∃ es c Z, Y = chs es ++ Z ∧ SpellsEsc es c ∧ Closed Z := by
  constructor
  · intro h
    obtain ⟨c', X', e, _, h1⟩ := closed_inv h
    simp only [List.cons.injEq, Src.ch.injEq] at e
    obtain ⟨e1, e2⟩ := e
    subst e1; subst e2
    rcases h1 with h1 | ⟨_, h1, _⟩ | ⟨_, h1⟩
    · exact absurd h1 (by decide)
    · exact absurd rfl h1
    · exact h1
  · rintro ⟨es, c, Z, rfl, hesc, body, val, R, rfl, hb⟩
    refine ⟨'\\' :: es ++ body, c :: val, R, by simp [chs], ?_⟩
    have := SpellsStr.cons (SpellsChar.esc hesc) hb
    simpa using this

/-- a malformed escape anywhere spoils the literal -/
theorem not_closed_noEsc {Y : List Src} (h : NoEsc Y) : ¬ Closed (.ch '\\' :: Y) := by
  rw [closed_backslash_iff]
  rintro ⟨es, c, Z, e, hesc, _⟩
  exact h ⟨es, c, Z, e, hesc⟩

/-- a well-formed escape -/
theorem closed_esc_iff {es : List Char} {c : Char} (h : SpellsEsc es c) (Y : List Src) :
    Closed (.ch '\\' :: (chs es ++ Y)) ↔ Closed Y := by
  rw [closed_backslash_iff]
  constructor
  · rintro ⟨es', c', Z, e, hesc', hZ⟩
    obtain ⟨_, _, eY⟩ := esc_unique h hesc' e
    rw [eY]; exact hZ
  · intro hY; exact ⟨es, c, Y, rfl, h, hY⟩

/-- **well-formed text before a position does not matter**: a source that starts with a well-formed
    piece of body is a terminated literal iff the rest is -/
theorem closed_prefix_iff {pre v : List Char} (h : SpellsStr pre v) (Y : List Src) :
    Closed (chs pre ++ Y) ↔ Closed Y := by
  induction h with
  | nil => simp [chs]
  | @cons cs body c val hc hs ih =>
    have e : chs (cs ++ body) ++ Y = chs cs ++ (chs body ++ Y) := by simp [chs]
    rw [e, ← ih]
    cases hc with
    | plain c a1 a2 a3 h0 => exact closed_plain_iff a1 a2 a3 h0 _
    | esc hesc => exact closed_esc_iff hesc _

/-- the positions at which the string loop gives up: the end of the input, an undecodable byte, NUL,
    a raw line feed, or a backslash that does not start an escape -/
def Stuck (Y : List Src) : Prop :=
  Y = [] ∨ (∃ Z, Y = .bad :: Z) ∨ (∃ c Z, Y = .ch c :: Z ∧ (c.toNat = 0 ∨ c = '\n')) ∨
    (∃ Z, Y = .ch '\\' :: Z ∧ NoEsc Z)

theorem not_closed_stuck {Y : List Src} (hY : Stuck Y) : ¬ Closed Y := by
  rcases hY with rfl | ⟨Z, rfl⟩ | ⟨c, Z, rfl, hc | hc⟩ | ⟨Z, rfl, hne⟩
  · exact not_closed_nil
  · exact not_closed_bad Z
  · exact not_closed_nul c hc Z
  · subst hc; exact not_closed_newline Z
  · exact not_closed_noEsc hne

/-- **where a literal goes wrong**: a source is *not* a terminated literal iff, after some well-formed
    piece of body, it ends, or continues with a line feed, NUL, an undecodable byte, or a backslash
    that does not start an escape -/
theorem not_closed_iff (X : List Src) :
    ¬ Closed X ↔ ∃ pre v Y, X = chs pre ++ Y ∧ SpellsStr pre v ∧ Stuck Y := by
  constructor
  · -- by induction on the length: follow the source
    have main : ∀ n (X : List Src), X.length ≤ n → ¬ Closed X →
        ∃ pre v Y, X = chs pre ++ Y ∧ SpellsStr pre v ∧ Stuck Y := by
      intro n
      induction n with
      | zero =>
        intro X hX _
        have : X = [] := by cases X with | nil => rfl | cons _ _ => simp at hX
        exact ⟨[], [], X, rfl, .nil, Or.inl this⟩
      | succ n ih =>
        intro X hX hnc
        cases X with
        | nil => exact ⟨[], [], [], rfl, .nil, Or.inl rfl⟩
        | cons x X' =>
          have hX' : X'.length ≤ n := by simp at hX; omega
          cases x with
          | bad => exact ⟨[], [], _, rfl, .nil, Or.inr (Or.inl ⟨X', rfl⟩)⟩
          | ch c =>
            by_cases h0 : c.toNat = 0
            · exact ⟨[], [], _, rfl, .nil, Or.inr (Or.inr (Or.inl ⟨c, X', rfl, Or.inl h0⟩))⟩
            by_cases hnl : c = '\n'
            · exact ⟨[], [], _, rfl, .nil, Or.inr (Or.inr (Or.inl ⟨c, X', rfl, Or.inr hnl⟩))⟩
            by_cases hq : c = '"'
            · subst hq; exact absurd (closed_quote X') hnc
            by_cases hbs : c = '\\'
            · subst hbs
              by_cases hne : NoEsc X'
              · exact ⟨[], [], _, rfl, .nil, Or.inr (Or.inr (Or.inr ⟨X', rfl, hne⟩))⟩
              · have hne' : ∃ es c R, X' = chs es ++ R ∧ SpellsEsc es c := Classical.not_not.mp hne
                obtain ⟨es, c', Z, rfl, hesc⟩ := hne'
                have hZ : ¬ Closed Z := fun hZ => hnc ((closed_esc_iff hesc Z).mpr hZ)
                have hZl : Z.length ≤ n := by
                  simp only [List.length_append] at hX'; omega
                obtain ⟨pre, v, Y, rfl, hpre, hY⟩ := ih Z hZl hZ
                refine ⟨'\\' :: es ++ pre, c' :: v, Y, by simp [chs], ?_, hY⟩
                have := SpellsStr.cons (SpellsChar.esc hesc) hpre
                simpa using this
            · have hZ : ¬ Closed X' := fun hZ => hnc ((closed_plain_iff hq hbs hnl h0 X').mpr hZ)
              obtain ⟨pre, v, Y, rfl, hpre, hY⟩ := ih X' hX' hZ
              exact ⟨c :: pre, c :: v, Y, by simp [chs],
                SpellsStr.cons (cs := [c]) (.plain c hq hbs hnl h0) hpre, hY⟩
    exact main X.length X (Nat.le_refl _)
  · rintro ⟨pre, v, Y, rfl, hpre, hY⟩
    rw [closed_prefix_iff hpre]
    exact not_closed_stuck hY

/-! ## bare identifiers with escapes: `identLoop`, `scanIdent`

Quirks of the lexer that the statements below make explicit:
* inside an identifier a backslash is an identifier character (`isIdentRune`), and the escape it
  starts may denote *any* character (`a\ b` is the name `a b`, `a\"` the name `a"`);
* an escape at the plain end of the input keeps the text scanned so far (`a\n` at the end of the
  input is the name `a⏎`): `scanEscape` empties the buffer only if an error is on record – which is
  why the statements need `s.err = false` (with an error already on record `scanIdent` answers
  `stopTok` for every identifier);
* `scanIdent` ends with `if l.hasError()`: the rune *after* the identifier has been read by then,
  so an identifier directly followed by NUL or an undecodable byte is itself answered with `stopTok`. -/

section
variable (o : Oracles)

/-- what may follow a bare identifier: the end of the input, or a clean character that does not
    continue an identifier -/
def IdEnd (Y : List Src) : Prop :=
  Y = [] ∨ ∃ y Y', Y = .ch y :: Y' ∧ y.toNat ≠ 0 ∧ isIdentCont o (some y) = false

theorem IdEnd.cont {Y : List Src} (h : IdEnd o Y) : isIdentCont o (peekR Y) = false := by
  rcases h with rfl | ⟨y, Y', rfl, hy, hc⟩
  · rfl
  · rw [peekR_cons_ch _ _ hy]; exact hc

theorem IdEnd.err {Y : List Src} (h : IdEnd o Y) {s : LState} (hs : s.err = false) : (afterR s Y).err = false := by
  rcases h with rfl | ⟨y, Y', rfl, hy, hc⟩
  · rw [afterR_nil]; exact hs
  · rw [afterR_cons_ch _ _ _ hy]; exact hs

/-- the rest of an identifier, then something that may follow it: `next` does not stop with an error
    on its first position -/
theorem idtail_clean {w t : List Char} (h : SpellsIdTail o w t) {Y : List Src} (hY : IdEnd o Y) {s : LState}
    (hs : s.err = false) (hp : peekR (chs w ++ Y) = none) : (afterR s (chs w ++ Y)).err = false := by
  have hn := h.noNul
  cases w with
  | nil => exact hY.err o hs
  | cons c w =>
    rw [chs_cons, List.cons_append, peekR_cons_ch _ _ (hn c (by simp))] at hp
    exact absurd hp (by simp)

theorem escOut_clean (buf : List Char) (c : Char) (s : LState) (Z : List Src)
    (h : peekR Z = none → (afterR s Z).err = false) : escOut buf c s Z = (peekR Z, c :: buf, afterR s Z) := by
  unfold escOut
  cases hp : peekR Z with
  | none => simp [h hp]
  | some y => rfl

theorem identLoop_none (f : Nat) (buf : List Char) (s : LState) (h : s.err = true) :
    (identLoop o f none buf s).2.2.err = true :=
  track_identLoop (L := errInv) o f none buf s h

/-- **soundness of the identifier loop** on an arbitrary tail -/
theorem identLoop_ok {Y : List Src} (hY : IdEnd o Y) {w t : List Char} (h : SpellsIdTail o w t) :
    ∀ (buf : List Char) (fuel : Nat) (s : LState), s.err = false → t.length + 1 ≤ fuel →
      identLoop o fuel (peekR (chs w ++ Y)) buf (afterR s (chs w ++ Y)) = (peekR Y, t.reverse ++ buf, afterR s Y) := by
  induction h with
  | nil =>
    intro buf fuel s hs hf
    obtain ⟨f, rfl⟩ : ∃ f, fuel = f + 1 := ⟨fuel - 1, by simp at hf; omega⟩
    rw [identLoop_succ]
    simp [hY.cont o, chs]
  | @plain c w t a1 a2 h0 hw ih =>
    intro buf fuel s hs hf
    obtain ⟨f, rfl⟩ : ∃ f, fuel = f + 1 := ⟨fuel - 1, by simp at hf; omega⟩
    have hc : isIdentCont o (some c) = true := by
      rcases a2 with a2 | a2 <;> simp [isIdentCont, a2]
    rw [chs_cons, List.cons_append, peekR_cons_ch _ _ h0, afterR_cons_ch _ _ _ h0, identLoop_succ]
    simp only [hc, if_true, a1, if_false]
    rw [next_withRest]
    simp only []
    rw [ih (c :: buf) f s hs (by simp at hf; omega)]
    simp
  | @esc es c w t hesc hw ih =>
    intro buf fuel s hs hf
    obtain ⟨f, rfl⟩ : ∃ f, fuel = f + 1 := ⟨fuel - 1, by simp at hf; omega⟩
    have hc : isIdentCont o (some '\\') = true := by simp [isIdentCont]
    have e : chs ('\\' :: (es ++ w)) ++ Y = .ch '\\' :: (chs es ++ (chs w ++ Y)) := by simp [chs]
    rw [e, peekR_cons_ch _ _ (by decide), afterR_cons_ch _ _ _ (by decide), identLoop_succ]
    simp only [hc, if_true]
    rw [scanEscape_ok buf s hesc, escOut_clean _ _ _ _ (idtail_clean o hw hY hs)]
    simp only []
    rw [ih (c :: buf) f s hs (by simp at hf; omega)]
    simp

/-- the source continues an identifier (possibly with nothing) up to a position where it may end -/
def TailAt (X : List Src) : Prop := ∃ w t Y, X = chs w ++ Y ∧ SpellsIdTail o w t ∧ IdEnd o Y

/-- the step "backslash inside an identifier", for any continuation `K` (the loop of `scanIdent`) -/
theorem esc_step (s : LState) (hs : s.err = false) (X' : List Src) (buf : List Char)
    (K : Option Char × List Char × LState → LState)
    (hK_none : ∀ b st, st.err = true → (K (none, b, st)).err = true)
    (hK : ∀ Z b, Z.length < X'.length → TailAt o Z ∨ (K (peekR Z, b, afterR s Z)).err = true) :
    (∃ es c' Z, X' = chs es ++ Z ∧ SpellsEsc es c' ∧ TailAt o Z) ∨
    (K (scanEscape buf (withRest s X'))).err = true := by
  rcases escRaw_cases s X' with ⟨es, c', Z, rfl, hesc⟩ | ⟨s', e1, e2⟩
  · rw [scanEscape_ok buf s hesc Z]
    have hZl : Z.length < (chs es ++ Z).length := by
      have := hesc.ne_nil
      have : 1 ≤ es.length := by
        cases es with
        | nil => exact absurd rfl this
        | cons _ _ => simp
      simp only [List.length_append, chs_length]; omega
    cases hz : peekR Z with
    | none =>
      rcases peekR_none hz s with rfl | herr
      · exact Or.inl ⟨es, c', [], rfl, hesc, [], [], [], rfl, .nil, Or.inl rfl⟩
      · right
        unfold escOut
        rw [hz]
        simp only [herr, if_true]
        exact hK_none _ _ herr
    | some y =>
      unfold escOut
      rw [hz]
      simp only []
      rw [← hz]
      rcases hK Z (c' :: buf) hZl with hT | hr
      · exact Or.inl ⟨es, c', Z, rfl, hesc, hT⟩
      · exact Or.inr hr
  · right
    have hbad : scanEscape buf (withRest s X') = (none, [], s') := by
      rw [scanEscape_eq, e1]; simp [escFinish, e2]
    rw [hbad]
    exact hK_none _ _ e2

theorem TailAt.cons_esc {es : List Char} {c : Char} {Z : List Src} (hesc : SpellsEsc es c) (h : TailAt o Z) :
    TailAt o (.ch '\\' :: (chs es ++ Z)) := by
  obtain ⟨w, t, Y, rfl, hw, hY⟩ := h
  exact ⟨'\\' :: (es ++ w), c :: t, Y, by simp [chs], .esc hesc hw, hY⟩

theorem TailAt.cons_plain {c : Char} {Z : List Src} (a1 : c ≠ '\\') (a2 : c = '_' ∨ o.xidContinue c = true)
    (h0 : c.toNat ≠ 0) (h : TailAt o Z) : TailAt o (.ch c :: Z) := by
  obtain ⟨w, t, Y, rfl, hw, hY⟩ := h
  exact ⟨c :: w, c :: t, Y, by simp [chs], .plain c a1 a2 h0 hw, hY⟩

/-- **completeness of the identifier loop**: on any source, either the source continues an identifier
    in a well-formed way up to a position where it may end, or the loop ends with an error on record -/
theorem identLoop_cases (s : LState) (hs : s.err = false) : ∀ (n : Nat) (X : List Src), X.length ≤ n →
    ∀ (fuel : Nat) (buf : List Char), n + 1 ≤ fuel →
      TailAt o X ∨ (identLoop o fuel (peekR X) buf (afterR s X)).2.2.err = true := by
  intro n
  induction n with
  | zero =>
    intro X hX fuel buf hf
    have : X = [] := by cases X with | nil => rfl | cons _ _ => simp at hX
    subst this
    exact Or.inl ⟨[], [], [], rfl, .nil, Or.inl rfl⟩
  | succ n ih =>
    intro X hX fuel buf hf
    obtain ⟨f, rfl⟩ : ∃ f, fuel = f + 1 := ⟨fuel - 1, by omega⟩
    cases hp : peekR X with
    | none =>
      rcases peekR_none hp s with rfl | herr
      · exact Or.inl ⟨[], [], [], rfl, .nil, Or.inl rfl⟩
      · exact Or.inr (identLoop_none o _ _ _ herr)
    | some c =>
      obtain ⟨X', rfl, hc0⟩ := peekR_some hp
      have hX' : X'.length ≤ n := by simp at hX; omega
      cases hcont : isIdentCont o (some c) with
      | false => exact Or.inl ⟨[], [], _, rfl, .nil, Or.inr ⟨c, X', rfl, hc0, hcont⟩⟩
      | true =>
        rw [afterR_cons_ch _ _ _ hc0, identLoop_succ]
        simp only [hcont, if_true]
        by_cases hbs : c = '\\'
        · subst hbs
          simp only [if_true]
          have := esc_step o s hs X' buf (fun r => (identLoop o f r.1 r.2.1 r.2.2).2.2)
            (fun b st h => identLoop_none o f b st h)
            (fun Z b hZ => ih Z (by omega) f b (by omega))
          rcases this with ⟨es, c', Z, rfl, hesc, hT⟩ | hr
          · exact Or.inl (hT.cons_esc o hesc)
          · exact Or.inr hr
        · simp only [hbs, if_false]
          rw [next_withRest]
          simp only []
          rcases ih X' hX' f (c :: buf) (by omega) with hT | hr
          · have a2 : c = '_' ∨ o.xidContinue c = true := by
              simp only [isIdentCont, Bool.or_eq_true, decide_eq_true_eq] at hcont
              rcases hcont with (h | h) | h
              · exact Or.inl h
              · exact absurd h hbs
              · exact Or.inr h
            exact Or.inl (hT.cons_plain o hbs a2 hc0)
          · exact Or.inr hr

/-- the text after the first character `c` of a bare identifier (for `c = '\\'`: after the backslash),
    and the name it denotes -/
inductive IdSpell : Char → List Char → List Char → Prop
  | plain {c : Char} {w t : List Char} : c ≠ '\\' → SpellsIdTail o w t → IdSpell c w (c :: t)
  | esc {es : List Char} {c' : Char} {w t : List Char} : SpellsEsc es c' → SpellsIdTail o w t →
      IdSpell '\\' (es ++ w) (c' :: t)

/-- `scanIdent`, entered on the character `c`, finds a well-formed identifier in the source `X` -/
def IdentAt (c : Char) (X : List Src) : Prop := ∃ w text Y, X = chs w ++ Y ∧ IdSpell o c w text ∧ IdEnd o Y

/-- the grammar of `Layout` (which adds what `Lex` checks before it calls `scanIdent`) is an instance -/
theorem idSpell_of_spellsIdent {c : Char} {w text : List Char} (h : SpellsIdent o (c :: w) text) : IdSpell o c w text := by
  generalize hcw : c :: w = cw at h
  cases h with
  | plain c' a1 a2 h0 hws hw =>
    injection hcw with e1 e2
    subst e1; subst e2
    exact .plain a1 hw
  | esc hesc hw =>
    injection hcw with e1 e2
    subst e1; subst e2
    exact .esc hesc hw

theorem spellsIdent_of_idSpell {c : Char} {w text : List Char} (h : IdSpell o c w text)
    (hst : isIdentStart o (some c) = true) (h0 : c.toNat ≠ 0) (hws : isWhitespace c = false) :
    SpellsIdent o (c :: w) text := by
  cases h with
  | plain a1 hw =>
    have a2 : c = '_' ∨ o.xidStart c = true := by
      simp only [isIdentStart, Bool.or_eq_true, decide_eq_true_eq] at hst
      rcases hst with (h | h) | h
      · exact Or.inl h
      · exact absurd h a1
      · exact Or.inr h
    exact .plain c a1 a2 h0 hws hw
  | esc hesc hw => exact .esc hesc hw

theorem scanIdent_eq (c : Char) (s : LState) :
    scanIdent o c s =
      (let r0 : Option Char × List Char × LState := if c = '\\' then scanEscape [] s else ((next s).1, [c], (next s).2)
       let r := identLoop o (r0.2.2.rest.length + 3) r0.1 r0.2.1 r0.2.2
       if r.2.2.err then ⟨.stop, [], r.1, r.2.2⟩
       else ⟨identToken o r.2.1.reverse, r.2.1.reverse, r.1, r.2.2⟩) := by
  unfold scanIdent
  by_cases h : c = '\\' <;> simp [h]

theorem identToken_ne_stop (t : List Char) : identToken o t ≠ .stop := by
  intro h
  have := identToken_notStop o t
  rw [h] at this
  exact absurd this (by decide)

/-- **soundness of `scanIdent`** on an arbitrary tail -/
theorem scanIdent_ok {c : Char} {w text : List Char} (h : IdSpell o c w text) {Y : List Src} (hY : IdEnd o Y)
    (s : LState) (hs : s.err = false) :
    scanIdent o c (withRest s (chs w ++ Y)) = ⟨identToken o text, text, peekR Y, afterR s Y⟩ := by
  rw [scanIdent_eq]
  cases h with
  | @plain c w t a1 hw =>
    simp only [a1, if_false]
    rw [next_withRest]
    simp only []
    have hlen : t.length + 1 ≤ (afterR s (chs w ++ Y)).rest.length + 3 := by
      have := hw.length_le
      rw [afterR_rest]
      simp only [List.length_tail, List.length_append, chs_length]; omega
    rw [identLoop_ok o hY hw [c] _ s hs hlen]
    simp [hY.err o hs]
  | @esc es c' w t hesc hw =>
    simp only [if_true]
    have e : chs (es ++ w) ++ Y = chs es ++ (chs w ++ Y) := by simp [chs]
    rw [e, scanEscape_ok [] s hesc, escOut_clean _ _ _ _ (idtail_clean o hw hY hs)]
    simp only []
    have hlen : t.length + 1 ≤ (afterR s (chs w ++ Y)).rest.length + 3 := by
      have := hw.length_le
      rw [afterR_rest]
      simp only [List.length_tail, List.length_append, chs_length]; omega
    rw [identLoop_ok o hY hw [c'] _ s hs hlen]
    simp [hY.err o hs]

/-- **completeness of `scanIdent`**: any other source is answered with `stopTok` and an error -/
theorem scanIdent_cases (c : Char) (s : LState) (hs : s.err = false) (X : List Src) :
    IdentAt o c X ∨ Rej (scanIdent o c (withRest s X)) := by
  have rej : ∀ (r : Option Char × List Char × LState), r.2.2.err = true →
      Rej (if r.2.2.err then (⟨.stop, [], r.1, r.2.2⟩ : ScanR)
           else ⟨identToken o r.2.1.reverse, r.2.1.reverse, r.1, r.2.2⟩) := by
    intro r hr
    rw [if_pos hr]
    exact ⟨rfl, rfl, hr⟩
  rw [scanIdent_eq]
  by_cases hbs : c = '\\'
  · subst hbs
    simp only [if_true]
    have := esc_step o s hs X []
      (fun r => (identLoop o (r.2.2.rest.length + 3) r.1 r.2.1 r.2.2).2.2)
      (fun b st h => identLoop_none o _ b st h)
      (fun Z b _ => identLoop_cases o s hs Z.length Z (Nat.le_refl _) _ b (by
        rw [afterR_rest]; simp only [List.length_tail]; omega))
    rcases this with ⟨es, c', Z, rfl, hesc, w, t, Y, rfl, hw, hY⟩ | hr
    · exact Or.inl ⟨es ++ w, c' :: t, Y, by simp [chs], .esc hesc hw, hY⟩
    · exact Or.inr (rej _ hr)
  · simp only [hbs, if_false]
    rw [next_withRest]
    simp only []
    rcases identLoop_cases o s hs X.length X (Nat.le_refl _) ((afterR s X).rest.length + 3) [c] (by
        rw [afterR_rest]; simp only [List.length_tail]; omega) with ⟨w, t, Y, rfl, hw, hY⟩ | hr
    · exact Or.inl ⟨w, c :: t, Y, rfl, .plain hbs hw, hY⟩
    · exact Or.inr (rej _ hr)

/-- **the main theorem for bare identifiers** -/
theorem scanIdent_iff (c : Char) (s : LState) (hs : s.err = false) :
    (scanIdent o c s).tok ≠ .stop ↔ IdentAt o c s.rest := by
  constructor
  · intro h
    rcases scanIdent_cases o c s hs s.rest with h' | h'
    · exact h'
    · exact absurd h'.1 h
  · rintro ⟨w, text, Y, hX, hw, hY⟩
    have : s = withRest s (chs w ++ Y) := by rw [← hX]; rfl
    rw [this, scanIdent_ok o hw hY s hs]
    exact identToken_ne_stop o text

theorem scanIdent_bad (c : Char) (s : LState) (hs : s.err = false) {X : List Src} (h : ¬ IdentAt o c X) :
    Rej (scanIdent o c (withRest s X)) := by
  rcases scanIdent_cases o c s hs X with h' | h'
  · exact absurd h' h
  · exact h'

/-! ### where an identifier goes wrong -/

/-- the first position of a continuation -/
theorem tailAt_inv {X : List Src} (h : TailAt o X) :
    X = [] ∨ ∃ c X', X = .ch c :: X' ∧ c.toNat ≠ 0 ∧
      (isIdentCont o (some c) = false ∨ (c ≠ '\\' ∧ TailAt o X') ∨
        (c = '\\' ∧ ∃ es c' Z, X' = chs es ++ Z ∧ SpellsEsc es c' ∧ TailAt o Z)) := by
  obtain ⟨w, t, Y, rfl, hw, hY⟩ := h
  cases hw with
  | nil =>
    rcases hY with rfl | ⟨y, Y', rfl, hy, hc⟩
    · exact Or.inl rfl
    · exact Or.inr ⟨y, Y', rfl, hy, Or.inl hc⟩
  | @plain c w t a1 a2 h0 hw =>
    exact Or.inr ⟨c, chs w ++ Y, rfl, h0, Or.inr (Or.inl ⟨a1, w, t, Y, rfl, hw, hY⟩)⟩
  | @esc es c w t hesc hw =>
    exact Or.inr ⟨'\\', chs es ++ (chs w ++ Y), by simp [chs], by decide,
      Or.inr (Or.inr ⟨rfl, es, c, _, rfl, hesc, w, t, Y, rfl, hw, hY⟩)⟩

/-- a malformed escape cannot continue an identifier -/
theorem not_tailAt_noEsc {Z : List Src} (h : NoEsc Z) : ¬ TailAt o (.ch '\\' :: Z) := by
  intro hT
  rcases tailAt_inv o hT with e | ⟨c, X', e, _, h1⟩
  · simp at e
  · simp only [List.cons.injEq, Src.ch.injEq] at e
    obtain ⟨e1, e2⟩ := e
    subst e1; subst e2
    rcases h1 with h1 | ⟨h1, _⟩ | ⟨_, es, c', Z', e, hesc, _⟩
    · simp [isIdentCont] at h1
    · exact h1 rfl
    · exact h ⟨es, c', Z', e, hesc⟩

/-- NUL or an undecodable byte directly after the identifier -/
theorem not_tailAt_dirty {x : Src} (hx : srcChar x = none) (Z : List Src) : ¬ TailAt o (x :: Z) := by
  intro hT
  rcases tailAt_inv o hT with e | ⟨c, X', e, h0, _⟩
  · simp at e
  · simp only [List.cons.injEq] at e
    rw [e.1] at hx
    simp [srcChar, h0] at hx

theorem tailAt_esc_iff {es : List Char} {c : Char} (hesc : SpellsEsc es c) (Z : List Src) :
    TailAt o (.ch '\\' :: (chs es ++ Z)) ↔ TailAt o Z := by
  constructor
  · intro hT
    rcases tailAt_inv o hT with e | ⟨c0, X', e, _, h1⟩
    · simp at e
    · simp only [List.cons.injEq, Src.ch.injEq] at e
      obtain ⟨e1, e2⟩ := e
      subst e1; subst e2
      rcases h1 with h1 | ⟨h1, _⟩ | ⟨_, es', c', Z', e, hesc', hT'⟩
      · simp [isIdentCont] at h1
      · exact absurd rfl h1
      · obtain ⟨_, _, eZ⟩ := esc_unique hesc hesc' e
        rw [eZ]; exact hT'
  · exact fun h => h.cons_esc o hesc

theorem tailAt_plain_iff {c : Char} (a1 : c ≠ '\\') (a2 : c = '_' ∨ o.xidContinue c = true) (h0 : c.toNat ≠ 0)
    (Z : List Src) : TailAt o (.ch c :: Z) ↔ TailAt o Z := by
  constructor
  · intro hT
    rcases tailAt_inv o hT with e | ⟨c0, X', e, _, h1⟩
    · simp at e
    · simp only [List.cons.injEq, Src.ch.injEq] at e
      obtain ⟨e1, e2⟩ := e
      subst e1; subst e2
      rcases h1 with h1 | ⟨_, h1⟩ | ⟨h1, _⟩
      · rcases a2 with a2 | a2 <;> simp [isIdentCont, a2] at h1
      · exact h1
      · exact absurd h1 a1
  · exact fun h => h.cons_plain o a1 a2 h0

/-- well-formed identifier text before a position does not matter -/
theorem tailAt_prefix_iff {w t : List Char} (h : SpellsIdTail o w t) (Z : List Src) :
    TailAt o (chs w ++ Z) ↔ TailAt o Z := by
  induction h with
  | nil => simp [chs]
  | @plain c w t a1 a2 h0 hw ih =>
    rw [chs_cons, List.cons_append, tailAt_plain_iff o a1 a2 h0, ih]
  | @esc es c w t hesc hw ih =>
    have e : chs ('\\' :: (es ++ w)) ++ Z = .ch '\\' :: (chs es ++ (chs w ++ Z)) := by simp [chs]
    rw [e, tailAt_esc_iff o hesc, ih]

/-- `IdentAt` in terms of `TailAt` -/
theorem identAt_plain_iff {c : Char} (hc : c ≠ '\\') (X : List Src) : IdentAt o c X ↔ TailAt o X := by
  constructor
  · rintro ⟨w, text, Y, rfl, hsp, hY⟩
    cases hsp with
    | plain _ hw => exact ⟨w, _, Y, rfl, hw, hY⟩
    | esc _ _ => exact absurd rfl hc
  · rintro ⟨w, t, Y, rfl, hw, hY⟩
    exact ⟨w, c :: t, Y, rfl, .plain hc hw, hY⟩

theorem identAt_backslash_iff (X : List Src) :
    IdentAt o '\\' X ↔ ∃ es c Z, X = chs es ++ Z ∧ SpellsEsc es c ∧ TailAt o Z := by
  constructor
  · rintro ⟨w, text, Y, rfl, hsp, hY⟩
    generalize hb : '\\' = b at hsp
    cases hsp with
    | plain h1 hw => exact absurd hb.symm h1
    | @esc es c' w' t hesc hw => exact ⟨es, c', chs w' ++ Y, by simp [chs], hesc, w', t, Y, rfl, hw, hY⟩
  · rintro ⟨es, c, Z, rfl, hesc, w, t, Y, rfl, hw, hY⟩
    exact ⟨es ++ w, c :: t, Y, by simp [chs], .esc hesc hw, hY⟩

/-- **(d), rejection**: a malformed escape inside a bare identifier – after the first character `c`
    and any well-formed identifier text `w` – makes the token `stopTok`, with an error on record -/
theorem scanIdent_bad_escape {c : Char} (hc : c ≠ '\\') {w t : List Char} (hw : SpellsIdTail o w t)
    {Z : List Src} (hZ : NoEsc Z) (s : LState) (hs : s.err = false) :
    Rej (scanIdent o c (withRest s (chs w ++ .ch '\\' :: Z))) := by
  apply scanIdent_bad o c s hs
  rw [identAt_plain_iff o hc, tailAt_prefix_iff o hw]
  exact not_tailAt_noEsc o hZ

/-- the same when the identifier starts with a (well-formed) escape -/
theorem scanIdent_bad_escape' {es : List Char} {c' : Char} (hesc : SpellsEsc es c') {w t : List Char}
    (hw : SpellsIdTail o w t) {Z : List Src} (hZ : NoEsc Z) (s : LState) (hs : s.err = false) :
    Rej (scanIdent o '\\' (withRest s (chs es ++ (chs w ++ .ch '\\' :: Z)))) := by
  apply scanIdent_bad o '\\' s hs
  rw [identAt_backslash_iff]
  rintro ⟨es', c'', Z', e, hesc', hT⟩
  obtain ⟨_, _, eZ⟩ := esc_unique hesc hesc' e
  rw [← eZ, tailAt_prefix_iff o hw] at hT
  exact not_tailAt_noEsc o hZ hT

/-- … and when the very first escape is malformed -/
theorem scanIdent_bad_first {Z : List Src} (hZ : NoEsc Z) (s : LState) (hs : s.err = false) :
    Rej (scanIdent o '\\' (withRest s Z)) := by
  apply scanIdent_bad o '\\' s hs
  rw [identAt_backslash_iff]
  rintro ⟨es, c, Z', e, hesc, _⟩
  exact hZ ⟨es, c, Z', e, hesc⟩

/-! ### at the level of `Lex` and `Parse` -/

theorem lexFrom_ident (c : Char) (hst : isIdentStart o (some c) = true) (hws : isWhitespace c = false)
    (f : Nat) (s : LState) : lexFrom o (f + 1) (some c) s = scanIdent o c s := by
  simp only [lexFrom]
  rw [skipWs_nonws _ _ _ hws]
  simp only [hst, if_true]

/-- **an input whose first token (after optional white space) is a bare identifier that goes wrong is
    rejected** -/
theorem parse_err_bad_ident (bytes : List UInt8) (ws : List Char) (hws : ∀ c ∈ ws, isWhitespace c = true)
    (c : Char) (hst : isIdentStart o (some c) = true) (hcw : isWhitespace c = false) (hc0 : c.toNat ≠ 0)
    (X : List Src) (h : decodeAll bytes = chs ws ++ .ch c :: X) (hbad : ¬ IdentAt o c X) : parse o bytes = .err := by
  apply parse_err_of_first_token
  rw [h, lexFrom_ws o _ c hcw hc0 X ws hws, lexFrom_ident o c hst hcw]
  exact (scanIdent_bad o c _ rfl hbad).2.2

end

end Str
end LexReject
end Sqljson

/-! # Part C — numbers (`LexReject.Num`) -/
namespace Sqljson
namespace LexReject
namespace Num
open Parse Lex ParseLemmas
set_option linter.unusedSimpArgs false

/-! ## Layer 0: the digit loops on an arbitrary source -/

/-- the characters a digit loop consumes: `_` and the digits of the loop's class
    (hexadecimal digits for base 16, all ten decimal digits for bases 10, 8 and 2) -/
def runCh (hex : Bool) (c : Char) : Bool := c = '_' || (if hex then isHex c else isDecimal c)

def runChR (hex : Bool) : Option Char → Bool
  | some c => runCh hex c
  | none => false

/-- the longest prefix of the source made of such characters, and what is left -/
def takeRun (hex : Bool) : List Src → List Char × List Src
  | .ch c :: r => if runCh hex c then (c :: (takeRun hex r).1, (takeRun hex r).2) else ([], .ch c :: r)
  | .bad :: r => ([], .bad :: r)
  | [] => ([], [])

/-- the digit/separator bit set of `digits` -/
def bits : List Char → Nat
  | [] => 0
  | x :: r => (if x = '_' then 2 else 1) ||| bits r

/-- the "first invalid digit" of `digits` -/
def invOf (hex : Bool) (maxCh : Nat) : Option Char → List Char → Option Char
  | inv, [] => inv
  | inv, x :: r =>
    if x = '_' then invOf hex maxCh inv r
    else invOf hex maxCh (if !hex && x.toNat ≥ maxCh && inv.isNone then some x else inv) r

theorem runCh_ne_zero {hex : Bool} {c : Char} (h : runCh hex c = true) : c.toNat ≠ 0 := by
  unfold runCh at h
  simp only [Bool.or_eq_true, decide_eq_true_eq] at h
  rcases h with h | h
  · subst h; decide
  · cases hex
    · simp only [Bool.false_eq_true, if_false] at h
      exact (isDecimal_facts c h).1
    · simp only [if_true, isHex, Bool.or_eq_true] at h
      rcases h with h | h
      · exact (isDecimal_facts c h).1
      · intro h0
        have : c = Char.ofNat 0 := by
          apply Char.ext; apply UInt32.toNat.inj; simpa using h0
        subst this
        revert h; decide

theorem takeRun_spec (hex : Bool) : ∀ X : List Src,
    X = chs (takeRun hex X).1 ++ (takeRun hex X).2 ∧ (∀ x ∈ (takeRun hex X).1, runCh hex x = true) ∧
      runChR hex (peekR (takeRun hex X).2) = false
  | [] => by simp [takeRun, peekR, runChR]
  | .bad :: r => by simp [takeRun, peekR, runChR, srcChar]
  | .ch c :: r => by
    by_cases h : runCh hex c = true
    · have ih := takeRun_spec hex r
      simp only [takeRun, h, if_true]
      refine ⟨?_, ?_, ih.2.2⟩
      · simp only [chs, List.map_cons, List.cons_append]
        congr 1
        exact ih.1
      · intro x hx
        rcases List.mem_cons.mp hx with rfl | hx
        · exact h
        · exact ih.2.1 x hx
    · simp only [takeRun, h]
      refine ⟨by simp [chs], by simp, ?_⟩
      have h' : runCh hex c = false := by simpa using h
      by_cases h0 : c.toNat = 0
      · simp [peekR, srcChar, h0, runChR]
      · simp [peekR, srcChar, h0, runChR, h']

/-- the decomposition is unique -/
theorem takeRun_unique (hex : Bool) : ∀ (rn : List Char) (R : List Src),
    (∀ x ∈ rn, runCh hex x = true) → runChR hex (peekR R) = false → takeRun hex (chs rn ++ R) = (rn, R)
  | [], R, _, hR => by
    cases R with
    | nil => rfl
    | cons x r =>
      cases x with
      | bad => rfl
      | ch c =>
        by_cases h0 : c.toNat = 0
        · have : runCh hex c = false := by
            cases h : runCh hex c with
            | false => rfl
            | true => exact absurd h0 (runCh_ne_zero h)
          simp [takeRun, this, chs]
        · have : runCh hex c = false := by simpa [peekR, srcChar, h0, runChR] using hR
          simp [takeRun, this, chs]
  | c :: rn, R, hrun, hR => by
    have hc := hrun c (by simp)
    have ih := takeRun_unique hex rn R (fun x hx => hrun x (by simp [hx])) hR
    simp only [chs, List.map_cons, List.cons_append, takeRun, hc, if_true]
    simp only [chs] at ih
    rw [ih]

/-- stepping the stream over one clean character -/
theorem peekR_cons_ch (c : Char) (X : List Src) (hc : c.toNat ≠ 0) : peekR (.ch c :: X) = some c := by
  simp [peekR, srcChar, hc]

theorem next_afterR_cons (s : LState) (c : Char) (X : List Src) (hc : c.toNat ≠ 0) :
    next (afterR s (.ch c :: X)) = (peekR X, afterR s X) := by
  rw [afterR_cons_ch s c X hc, next_withRest]

/-- **`digits` on an arbitrary source**: the loop consumes exactly the longest run of digit-class
    characters and `_` -/
theorem digitsLoop_run (hex : Bool) (maxCh : Nat) (s : LState) : ∀ (X : List Src) (f ds : Nat) (inv : Option Char)
    (acc : List Char), X.length + 1 ≤ f →
    digitsLoop hex maxCh f (peekR X) ds inv acc (afterR s X)
      = (peekR (takeRun hex X).2, ds ||| bits (takeRun hex X).1, invOf hex maxCh inv (takeRun hex X).1,
          (takeRun hex X).1.reverse ++ acc, afterR s (takeRun hex X).2)
  | [], f, ds, inv, acc, hf => by
    obtain ⟨f', rfl⟩ : ∃ f', f = f' + 1 := ⟨f - 1, by omega⟩
    simp [digitsLoop, peekR, takeRun, bits, invOf]
  | .bad :: r, f, ds, inv, acc, hf => by
    obtain ⟨f', rfl⟩ : ∃ f', f = f' + 1 := ⟨f - 1, by omega⟩
    simp [digitsLoop, peekR, srcChar, takeRun, bits, invOf]
  | .ch c :: r, f, ds, inv, acc, hf => by
    obtain ⟨f', rfl⟩ : ∃ f', f = f' + 1 := ⟨f - 1, by omega⟩
    have hf' : r.length + 1 ≤ f' := by simp at hf; omega
    by_cases h0 : c.toNat = 0
    · have hr : runCh hex c = false := by
        cases h : runCh hex c with
        | false => rfl
        | true => exact absurd h0 (runCh_ne_zero h)
      simp [digitsLoop, peekR, srcChar, h0, takeRun, hr, bits, invOf]
    · rw [peekR_cons_ch c r h0]
      by_cases hr : runCh hex c = true
      · have ih := digitsLoop_run hex maxCh s r f'
        simp only [takeRun, hr, if_true]
        unfold digitsLoop
        simp only [next_afterR_cons s c r h0]
        by_cases hu : c = '_'
        · simp only [hu, if_true]
          rw [ih _ _ _ hf']
          simp [bits, invOf, Nat.or_assoc]
        · have hd : (if hex = true then isHex c else isDecimal c) = true := by
            simpa [runCh, hu] using hr
          simp only [hu, if_false, hd, if_true]
          rw [ih _ _ _ hf']
          simp [bits, invOf, hu, Nat.or_assoc]
      · have hr' : runCh hex c = false := by simpa using hr
        have hu : c ≠ '_' := by intro h; subst h; simp [runCh] at hr'
        have hd : (if hex = true then isHex c else isDecimal c) = false := by
          simpa [runCh, hu] using hr'
        simp only [takeRun, hr', Bool.false_eq_true, if_false]
        unfold digitsLoop
        simp [hu, hd, bits, invOf, peekR_cons_ch c r h0]

theorem digits_run (base : Nat) (s : LState) (X : List Src) (inv : Option Char) (acc : List Char) :
    digits base (peekR X) inv acc (afterR s X)
      = (peekR (takeRun (decide (base > 10)) X).2, bits (takeRun (decide (base > 10)) X).1,
          invOf (decide (base > 10)) (48 + base) inv (takeRun (decide (base > 10)) X).1,
          (takeRun (decide (base > 10)) X).1.reverse ++ acc, afterR s (takeRun (decide (base > 10)) X).2) := by
  unfold digits
  rw [digitsLoop_run _ _ s X _ _ _ _ (by rw [afterR_rest]; cases X <;> simp <;> omega)]
  simp

/-! ## Layer 1: `scanNumber` is a function of the source — the reference reading `numRef` -/

theorem bits_and1 : ∀ rn : List Char, bits rn &&& 1 = 0 ↔ ∀ x ∈ rn, x = '_'
  | [] => by simp [bits]
  | x :: r => by
    have ih := bits_and1 r
    simp only [bits, Nat.and_or_distrib_right, Nat.or_eq_zero_iff, ih, List.mem_cons, forall_eq_or_imp]
    by_cases hx : x = '_' <;> simp [hx]

theorem bits_and2 : ∀ rn : List Char, bits rn &&& 2 = 0 ↔ '_' ∉ rn
  | [] => by simp [bits]
  | x :: r => by
    have ih := bits_and2 r
    simp only [bits, Nat.and_or_distrib_right, Nat.or_eq_zero_iff, ih, List.mem_cons, not_or]
    by_cases hx : x = '_'
    · simp [hx]
    · have : ¬ '_' = x := fun h => hx h.symm
      simp [hx, this]

/-- a run contains a digit -/
def hasDigit (rn : List Char) : Bool := rn.any (fun x => x ≠ '_')

theorem bits_hasDigit (rn : List Char) : (bits rn &&& 1 = 0) ↔ hasDigit rn = false := by
  rw [bits_and1]
  simp [hasDigit]

/-- some digit of the run is not below `maxCh` -/
def badDigit (maxCh : Nat) (rn : List Char) : Bool := rn.any (fun x => x ≠ '_' && decide (x.toNat ≥ maxCh))

theorem invOf_isSome (maxCh : Nat) : ∀ (rn : List Char) (inv : Option Char),
    (invOf false maxCh inv rn).isSome = (inv.isSome || badDigit maxCh rn)
  | [], inv => by simp [invOf, badDigit]
  | x :: r, inv => by
    simp only [invOf]
    by_cases hx : x = '_'
    · simp [hx, invOf_isSome maxCh r, badDigit]
    · simp only [hx, if_false, invOf_isSome maxCh r]
      by_cases hm : x.toNat ≥ maxCh
      · cases inv <;> simp [badDigit, hx, hm]
      · cases inv <;> simp [badDigit, hx, hm]

theorem invOf_hex (maxCh : Nat) : ∀ (rn : List Char) (inv : Option Char), invOf true maxCh inv rn = inv
  | [], inv => rfl
  | x :: r, inv => by
    simp only [invOf]
    by_cases hx : x = '_' <;> simp [hx, invOf_hex maxCh r]

/-- the outcome "error token": `stopTok`, no text, an error on record -/
def Rejects (r : ScanR) : Prop := r.tok = .stop ∧ r.text = [] ∧ r.ch = none ∧ r.st.err = true

theorem rejects_numErr (s : LState) : Rejects (numErr s) := ⟨rfl, rfl, rfl, rfl⟩

/-- the scanner result `r` is what the reference reading says: the token `tok` with text `t`, the
    source `R` left (the look-ahead rune is its first position), or the error token -/
def Agrees (s : LState) (r : ScanR) : Option (Tok × List Char × List Src) → Prop
  | some (tok, t, R) => r = ⟨tok, t, peekR R, afterR s R⟩
  | none => Rejects r

/-- bookkeeping invariant: if the text so far has an underscore, bit 1 of `digSep` is set -/
def SepInv (digSep : Nat) (acc : List Char) : Prop := '_' ∈ acc → digSep &&& 2 ≠ 0

theorem SepInv.run {digSep : Nat} {acc : List Char} (h : SepInv digSep acc) (rn : List Char) :
    SepInv (digSep ||| bits rn) (rn.reverse ++ acc) := by
  intro hm
  simp only [List.mem_append, List.mem_reverse] at hm
  rw [Nat.and_or_distrib_right]
  intro h0
  rw [Nat.or_eq_zero_iff] at h0
  rcases hm with hm | hm
  · exact (bits_and2 rn).mp h0.2 hm
  · exact h hm h0.1

theorem SepInv.push {digSep : Nat} {acc : List Char} (h : SepInv digSep acc) (c : Char) (hc : c ≠ '_') :
    SepInv digSep (c :: acc) := by
  intro hm
  rcases List.mem_cons.mp hm with hm | hm
  · exact absurd hm.symm hc
  · exact h hm

theorem invalidSepLoop_mem (hp : Bool) : ∀ (cs : List Char) (p : Char), p ≠ '_' → invalidSepLoop hp cs p = true → '_' ∈ cs
  | [], p, hp0, h => by simp [invalidSepLoop] at h; exact absurd h hp0
  | c :: cs, p, hp0, h => by
    unfold invalidSepLoop at h
    by_cases hc : c = '_'
    · simp [hc]
    · simp only [hc, if_false] at h
      by_cases hd : (isDecimal c || (hp && isHex c)) = true
      · rw [if_pos hd] at h
        exact List.mem_cons_of_mem _ (invalidSepLoop_mem hp cs '0' (by decide) h)
      · rw [if_neg hd, if_neg hp0] at h
        exact List.mem_cons_of_mem _ (invalidSepLoop_mem hp cs '.' (by decide) h)

theorem invalidSep_mem (x : List Char) (h : invalidSep x = true) : '_' ∈ x := by
  unfold invalidSep at h
  split at h
  · rename_i c1 rest
    simp only [] at h
    split at h
    · have := invalidSepLoop_mem _ rest '0' (by decide) h
      simp [this]
    · exact invalidSepLoop_mem _ _ '.' (by decide) h
  · exact invalidSepLoop_mem _ _ '.' (by decide) h

section
variable (o : Oracles)

/-- the final checks of `scanNumber` -/
def refFinish (tok : Tok) (hasInv : Bool) (text : List Char) (R : List Src) : Option (Tok × List Char × List Src) :=
  if tok = .int && hasInv then none
  else if invalidSep text then none
  else if isIdentStart o (peekR R) then none
  else some (tok, text, R)

theorem numFinish_ref (tok : Tok) (R : List Src) (digSep : Nat) (inv : Option Char) (acc : List Char) (s : LState)
    (hasInv : Bool) (hsep : SepInv digSep acc) (hinv : tok = .int → hasInv = inv.isSome) :
    Agrees s (numFinish o tok (peekR R) digSep inv acc (afterR s R)) (refFinish o tok hasInv acc.reverse R) := by
  unfold numFinish refFinish
  by_cases ht : tok = .int
  · have := hinv ht
    subst ht
    cases hi : inv.isSome
    · rw [hi] at this
      simp only [this, hi, Bool.and_false, Bool.false_eq_true, if_false, decide_true]
      by_cases hs : invalidSep acc.reverse = true
      · have hb := hsep (by simpa using invalidSep_mem _ hs)
        simp only [hs, if_true, ne_eq, hb, not_false_eq_true, decide_true, Bool.and_self]
        exact rejects_numErr _
      · simp only [hs, Bool.and_false, Bool.false_eq_true, if_false]
        by_cases hid : isIdentStart o (peekR R) = true
        · simp only [hid, if_true]; exact rejects_numErr _
        · simp only [hid, if_false]; rfl
    · rw [hi] at this
      simp only [this, hi, Bool.and_true, decide_true, if_true]
      exact rejects_numErr _
  · simp only [ht, decide_false, Bool.false_and, Bool.false_eq_true, if_false]
    by_cases hs : invalidSep acc.reverse = true
    · have hb := hsep (by simpa using invalidSep_mem _ hs)
      simp only [hs, if_true, ne_eq, hb, not_false_eq_true, decide_true, Bool.and_self]
      exact rejects_numErr _
    · simp only [hs, Bool.and_false, Bool.false_eq_true, if_false]
      by_cases hid : isIdentStart o (peekR R) = true
      · simp only [hid, if_true]; exact rejects_numErr _
      · simp only [hid, if_false]; rfl

end

theorem peekR_some {X : List Src} {y : Char} (h : peekR X = some y) : X = .ch y :: X.tail ∧ y.toNat ≠ 0 := by
  cases X with
  | nil => simp [peekR] at h
  | cons x r =>
    cases x with
    | bad => simp [peekR, srcChar] at h
    | ch c =>
      by_cases h0 : c.toNat = 0
      · simp [peekR, srcChar, h0] at h
      · simp only [peekR, srcChar, h0, if_false, Option.some.injEq] at h
        subst h
        exact ⟨rfl, h0⟩

/-- reading on from a position whose rune is a clean character -/
theorem next_afterR_of_peek (s : LState) {X : List Src} {y : Char} (h : peekR X = some y) :
    next (afterR s X) = (peekR X.tail, afterR s X.tail) := by
  obtain ⟨hX, hy⟩ := peekR_some h
  rw [hX]
  exact next_afterR_cons s y _ hy

section
variable (o : Oracles)

/-- the sign of an exponent at the source position `X` -/
def expSign (X : List Src) : List Char :=
  if peekR X = some '+' then ['+'] else if peekR X = some '-' then ['-'] else []

/-- the source after that sign -/
def afterSign (X : List Src) : List Src :=
  if peekR X = some '+' ∨ peekR X = some '-' then X.tail else X

/-- the "exponent" block of `scanNumber` and the final checks, as a function of the source `X` -/
def refExp (plain : Bool) (tok1 : Tok) (hasInv : Bool) (text1 : List Char) (X : List Src) :
    Option (Tok × List Char × List Src) :=
  if (peekR X).map lowerBit = some 'e' then
    if !plain then none
    else
      let X2 := afterSign X.tail
      if hasDigit (takeRun false X2).1 = false then none
      else refFinish o .numeric hasInv
        (text1 ++ (peekR X).getD 'e' :: expSign X.tail ++ (takeRun false X2).1) (takeRun false X2).2
  else if isIdentStart o ((peekR X).map lowerBit) then none
  else refFinish o tok1 hasInv text1 X

theorem expPart_ref (plain : Bool) (tok1 : Tok) (X : List Src) (digSep1 : Nat) (inv1 : Option Char)
    (acc1 : List Char) (s : LState) (hasInv : Bool) (hsep : SepInv digSep1 acc1)
    (hinv : hasInv = inv1.isSome) :
    Agrees s (expPart o plain tok1 (peekR X) digSep1 inv1 acc1 (afterR s X))
      (refExp o plain tok1 hasInv acc1.reverse X) := by
  unfold expPart refExp
  by_cases he : (peekR X).map lowerBit = some 'e'
  · simp only [he, if_true]
    cases plain with
    | false => simp only [Bool.not_false, if_true]; exact rejects_numErr _
    | true =>
      simp only [Bool.not_true, Bool.false_eq_true, if_false]
      obtain ⟨y, hy⟩ : ∃ y, peekR X = some y := by
        cases h : peekR X with
        | none => rw [h] at he; simp at he
        | some y => exact ⟨y, rfl⟩
      rw [next_afterR_of_peek s hy]
      simp only [hy, Option.getD_some]
      -- the sign
      have hsign : ∀ (X1 : List Src),
          (if (peekR X1 = some '+' || peekR X1 = some '-') = true then
              ((next (afterR s X1)).1, (peekR X1).getD '+' :: y :: acc1, (next (afterR s X1)).2)
            else (peekR X1, y :: acc1, afterR s X1))
          = (peekR (afterSign X1), (expSign X1).reverse ++ y :: acc1, afterR s (afterSign X1)) := by
        intro X1
        by_cases hp : peekR X1 = some '+'
        · rw [next_afterR_of_peek s hp]
          simp [hp, afterSign, expSign]
        · by_cases hm : peekR X1 = some '-'
          · rw [next_afterR_of_peek s hm]
            simp [hm, afterSign, expSign]
          · simp [hp, hm, afterSign, expSign]
      have hsign' := hsign X.tail
      simp only [Bool.or_eq_true, decide_eq_true_eq] at hsign'
      simp only [Bool.or_eq_true, decide_eq_true_eq]
      simp only [hsign', digits_run 10 s]
      simp only [show decide (10 > 10) = false from rfl]
      by_cases hd : hasDigit (takeRun false (afterSign X.tail)).1 = false
      · simp only [(bits_hasDigit _).mpr hd, hd, if_true]
        exact rejects_numErr _
      · have hd' : ¬ (bits (takeRun false (afterSign X.tail)).1 &&& 1 = 0) := fun h => hd ((bits_hasDigit _).mp h)
        simp only [hd', hd, if_false]
        have hacc : ((takeRun false (afterSign X.tail)).1.reverse ++ ((expSign X.tail).reverse ++ y :: acc1)).reverse
            = acc1.reverse ++ y :: expSign X.tail ++ (takeRun false (afterSign X.tail)).1 := by simp
        rw [← hacc]
        refine numFinish_ref o .numeric _ _ inv1 _ s hasInv ?_ (fun h => by cases h)
        have hs1 : SepInv digSep1 ((expSign X.tail).reverse ++ y :: acc1) := by
          have hy_ : y ≠ '_' := by
            intro h; subst h
            rw [hy] at he; revert he; decide
          have h1 := hsep.push y hy_
          unfold expSign
          split
          · exact h1.push '+' (by decide)
          · split
            · exact h1.push '-' (by decide)
            · exact h1
        exact hs1.run _
  · simp only [he, if_false]
    by_cases hj : isIdentStart o ((peekR X).map lowerBit) = true
    · simp only [hj, if_true]; exact rejects_numErr _
    · simp only [hj, if_false]
      exact numFinish_ref o tok1 X digSep1 inv1 acc1 s hasInv hsep (fun _ => hinv)

end

section
variable (o : Oracles)

/-- `scanNumber` from "fractional part" on, as a function of the source `X` -/
def refTail (tok0 : Tok) (seenDot : Bool) (plain : Bool) (hasInv : Bool) (text : List Char) (X : List Src) :
    Option (Tok × List Char × List Src) :=
  if seenDot then refExp o plain .numeric false (text ++ (takeRun false X).1) (takeRun false X).2
  else refExp o plain tok0 hasInv text X

theorem refExp_numeric_inv (plain : Bool) (h1 h2 : Bool) (text : List Char) (X : List Src) :
    refExp o plain .numeric h1 text X = refExp o plain .numeric h2 text X := by
  unfold refExp refFinish
  simp

theorem scanNumberTail_ref (tok0 : Tok) (seenDot : Bool) (base : Nat) (hb : base ≤ 10) (plain : Bool) (X : List Src)
    (digSep : Nat) (inv : Option Char) (acc : List Char) (s : LState) (hasInv : Bool) (hsep : SepInv digSep acc)
    (hinv : hasInv = inv.isSome) :
    Agrees s (scanNumberTail o tok0 seenDot base plain (peekR X) digSep inv acc (afterR s X))
      (refTail o tok0 seenDot plain hasInv acc.reverse X) := by
  unfold scanNumberTail fracPart refTail
  have hbase : decide (base > 10) = false := by simp; omega
  cases seenDot with
  | true =>
    simp only [if_true, digits_run base s, hbase]
    have := expPart_ref o plain .numeric (takeRun false X).2 (digSep ||| bits (takeRun false X).1)
      (invOf false (48 + base) inv (takeRun false X).1) ((takeRun false X).1.reverse ++ acc) s
      (invOf false (48 + base) inv (takeRun false X).1).isSome (hsep.run _) rfl
    rw [refExp_numeric_inv o plain _ false] at this
    simpa using this
  | false =>
    simp only [Bool.false_eq_true, if_false]
    exact expPart_ref o plain tok0 X digSep inv acc s hasInv hsep hinv

/-- a radix literal (`0x…`, `0o…`, `0b…`) from the rune after the prefix letter on; `pre` is the prefix -/
def refRadix (hex : Bool) (maxCh : Nat) (pre : List Char) (X : List Src) : Option (Tok × List Char × List Src) :=
  if peekR X = some '_' then none
  else if hasDigit (takeRun hex X).1 = false then none
  else if peekR (takeRun hex X).2 = some '.' then some (.int, pre ++ (takeRun hex X).1, (takeRun hex X).2)
  else refTail o .int false false (!hex && badDigit maxCh (takeRun hex X).1) (pre ++ (takeRun hex X).1) (takeRun hex X).2

theorem scanNumberBody_radix (base : Nat) (hb : base = 16 ∨ base ≤ 10) (X : List Src) (acc1 : List Char) (s : LState)
    (hacc : '_' ∉ acc1) :
    Agrees s (scanNumberBody o base false 0 (peekR X) acc1 (afterR s X))
      (refRadix o (decide (base > 10)) (48 + base) acc1.reverse X) := by
  unfold scanNumberBody refRadix
  by_cases hu : peekR X = some '_'
  · simp only [hu, if_true]; exact rejects_numErr _
  · simp only [hu, if_false, digits_run base s, Nat.zero_or]
    by_cases hd : hasDigit (takeRun (decide (base > 10)) X).1 = false
    · simp only [(bits_hasDigit _).mpr hd, hd, if_true]; exact rejects_numErr _
    · have hd' : ¬ (bits (takeRun (decide (base > 10)) X).1 &&& 1 = 0) := fun h => hd ((bits_hasDigit _).mp h)
      simp only [hd', hd, if_false]
      by_cases hdot : peekR (takeRun (decide (base > 10)) X).2 = some '.'
      · simp [hdot, Agrees]
      · simp only [hdot, if_false]
        have hsep : SepInv (bits (takeRun (decide (base > 10)) X).1) ((takeRun (decide (base > 10)) X).1.reverse ++ acc1) := by
          have h0 : SepInv 0 acc1 := fun h => absurd h hacc
          simpa using h0.run (takeRun (decide (base > 10)) X).1
        have := scanNumberTail_ref o .int false 10 (by omega) false (takeRun (decide (base > 10)) X).2 _
          (invOf (decide (base > 10)) (48 + base) none (takeRun (decide (base > 10)) X).1) _ s
          (!decide (base > 10) && badDigit (48 + base) (takeRun (decide (base > 10)) X).1) hsep (by
            rcases hb with hb | hb
            · subst hb; simp [invOf_hex]
            · have : decide (base > 10) = false := by simp; omega
              simp [this, invOf_isSome])
        unfold scanNumberTail fracPart at this ⊢
        simpa using this

/-- a number that starts with a non-zero decimal digit `c`, the source after it being `X` -/
def refDecimal (c : Char) (X : List Src) : Option (Tok × List Char × List Src) :=
  if peekR (takeRun false X).2 = some '.' then
    refTail o .int true true false (c :: (takeRun false X).1 ++ ['.']) (takeRun false X).2.tail
  else refTail o .int false true false (c :: (takeRun false X).1) (takeRun false X).2

theorem badDigit_decimal (rn : List Char) (h : ∀ x ∈ rn, runCh false x = true) : badDigit 58 rn = false := by
  unfold badDigit
  rw [List.any_eq_false]
  intro x hx
  have := h x hx
  by_cases hu : x = '_'
  · simp [hu]
  · have hd : isDecimal x = true := by simpa [runCh, hu] using this
    have := (isDecimal_facts x hd).2.2.2.2.2
    simp [this]

theorem scanNumberBody_decimal (c : Char) (hc : isDecimal c = true) (s : LState) :
    Agrees s (scanNumberBody o 10 true 0 (some c) [] s) (refDecimal o c s.rest) := by
  have hc0 := (isDecimal_facts c hc).1
  have hcu := (isDecimal_facts c hc).2.1
  have hstream : (some c, s) = (peekR (.ch c :: s.rest), afterR s (.ch c :: s.rest)) := by
    rw [peekR_cons_ch c _ hc0, afterR_cons_ch s c _ hc0]; rfl
  have hrun : takeRun false (.ch c :: s.rest) = (c :: (takeRun false s.rest).1, (takeRun false s.rest).2) := by
    simp [takeRun, runCh, hc]
  have h1 : scanNumberBody o 10 true 0 (some c) [] s
      = scanNumberBody o 10 true 0 (peekR (.ch c :: s.rest)) [] (afterR s (.ch c :: s.rest)) := by
    rw [peekR_cons_ch c _ hc0, afterR_cons_ch s c _ hc0]; rfl
  rw [h1]
  unfold scanNumberBody refDecimal
  have hne : peekR (.ch c :: s.rest) ≠ some '_' := by
    rw [peekR_cons_ch c _ hc0]; intro h; injection h with h; exact hcu h
  simp only [hne, if_false, digits_run 10 s, show decide (10 > 10) = false from rfl, hrun, Nat.zero_or]
  have hbit : ¬ (bits (c :: (takeRun false s.rest).1) &&& 1 = 0) := by
    rw [bits_and1]
    intro h
    exact hcu (h c (by simp))
  simp only [hbit, if_false]
  have hsep : SepInv (bits (c :: (takeRun false s.rest).1)) ((c :: (takeRun false s.rest).1).reverse ++ []) := by
    have h0 : SepInv 0 [] := fun h => by simp at h
    simpa using h0.run (c :: (takeRun false s.rest).1)
  have hrunOK : ∀ x ∈ c :: (takeRun false s.rest).1, runCh false x = true := by
    intro x hx
    rcases List.mem_cons.mp hx with rfl | hx
    · simp [runCh, hc]
    · exact (takeRun_spec false s.rest).2.1 x hx
  have hinv : false = (invOf false (48 + 10) none (c :: (takeRun false s.rest).1)).isSome := by
    rw [invOf_isSome]
    simp [badDigit_decimal _ hrunOK]
  by_cases hdot : peekR (takeRun false s.rest).2 = some '.'
  · simp only [hdot, if_true, Bool.not_true, Bool.false_eq_true, if_false]
    rw [next_afterR_of_peek s hdot]
    have := scanNumberTail_ref o .int true 10 (by omega) true (takeRun false s.rest).2.tail _ _
      ('.' :: ((c :: (takeRun false s.rest).1).reverse ++ [])) s false (hsep.push '.' (by decide)) hinv
    simpa using this
  · simp only [hdot, if_false]
    have := scanNumberTail_ref o .int false 10 (by omega) true (takeRun false s.rest).2 _ _
      ((c :: (takeRun false s.rest).1).reverse ++ []) s false hsep hinv
    simpa using this

end

theorem decimal_cases (d : Char) (h : isDecimal d = true) :
    d = '0' ∨ d = '1' ∨ d = '2' ∨ d = '3' ∨ d = '4' ∨ d = '5' ∨ d = '6' ∨ d = '7' ∨ d = '8' ∨ d = '9' := by
  simp only [isDecimal, Bool.and_eq_true, decide_eq_true_eq] at h
  have a1 : 48 ≤ d.toNat := h.1
  have a2 : d.toNat ≤ 57 := h.2
  have hd : d = Char.ofNat d.toNat := (Char.ofNat_toNat d).symm
  have : d.toNat = 48 ∨ d.toNat = 49 ∨ d.toNat = 50 ∨ d.toNat = 51 ∨ d.toNat = 52 ∨ d.toNat = 53 ∨ d.toNat = 54 ∨
      d.toNat = 55 ∨ d.toNat = 56 ∨ d.toNat = 57 := by omega
  rcases this with h | h | h | h | h | h | h | h | h | h <;> rw [h] at hd <;> simp [hd]

theorem lowerBit_decimal (d : Char) (h : isDecimal d = true) : lowerBit d = d := by
  rcases decimal_cases d h with h | h | h | h | h | h | h | h | h | h <;> subst h <;> decide

theorem takeRun_none (hex : Bool) (X : List Src) (h : runChR hex (peekR X) = false) : takeRun hex X = ([], X) := by
  have := takeRun_unique hex [] X (by simp) h
  simpa [chs] using this

section
variable (o : Oracles)

/-- a number that starts with `0`, the source after it being `X` -/
def refZero (X : List Src) : Option (Tok × List Char × List Src) :=
  if (peekR X).map lowerBit = some 'x' then refRadix o true 64 ['0', (peekR X).getD 'x'] X.tail
  else if (peekR X).map lowerBit = some 'o' then refRadix o false 56 ['0', (peekR X).getD 'x'] X.tail
  else if (peekR X).map lowerBit = some 'b' then refRadix o false 50 ['0', (peekR X).getD 'x'] X.tail
  else if peekR X = some '_' then none
  else if isDecimalR (peekR X) then none
  else if peekR X = some '.' then refTail o .int true true false ['0', '.'] X.tail
  else refTail o .int false true false ['0'] X

/-- `0` not followed by a radix letter, `_` or a digit: the body of `scanNumber` with the "leading 0" bit -/
theorem scanNumberBody_zero (s : LState) (hrc : runChR false (peekR s.rest) = false) :
    Agrees s (scanNumberBody o 8 true 1 (peekR s.rest) ['0'] (afterR s s.rest))
      (if peekR s.rest = some '.' then refTail o .int true true false ['0', '.'] s.rest.tail
       else refTail o .int false true false ['0'] s.rest) := by
  have hrun : takeRun false s.rest = ([], s.rest) := takeRun_none false s.rest hrc
  have hu : peekR s.rest ≠ some '_' := by
    intro h; rw [h] at hrc; simp [runChR, runCh] at hrc
  unfold scanNumberBody
  simp only [hu, if_false, digits_run 8 s, show decide (8 > 10) = false from rfl, hrun, bits, invOf, Nat.or_zero,
    show (1 &&& 1 = 0) ↔ False from by decide]
  by_cases hdot : peekR s.rest = some '.'
  · simp only [hdot, if_true, Bool.not_true, Bool.false_eq_true, if_false]
    rw [next_afterR_of_peek s hdot]
    have := scanNumberTail_ref o .int true 8 (by omega) true s.rest.tail 1 none ['.', '0'] s false
      (fun h => by simp at h) rfl
    simpa using this
  · simp only [hdot, if_false]
    have := scanNumberTail_ref o .int false 8 (by omega) true s.rest 1 none ['0'] s false
      (fun h => by simp at h) rfl
    simpa using this

theorem scanNumber_zero_ref (s : LState) :
    Agrees s (scanNumber o '0' false [] s) (refZero o s.rest) := by
  unfold scanNumber refZero
  simp only [Bool.false_eq_true, if_false, if_true]
  have hnx : next s = (peekR s.rest, afterR s s.rest) := next_withRest s s.rest
  unfold zeroPrefix
  simp only [hnx]
  -- the three radix prefixes
  have radix : ∀ (base : Nat) (hb : base = 16 ∨ base ≤ 10) (y : Char), peekR s.rest = some y → y ≠ '_' →
      Agrees s (scanNumberBody o base false 0 (next (afterR s s.rest)).1 [y, '0'] (next (afterR s s.rest)).2)
        (refRadix o (decide (base > 10)) (48 + base) ['0', y] s.rest.tail) := by
    intro base hb y hy hyu
    rw [next_afterR_of_peek s hy]
    have := scanNumberBody_radix o base hb s.rest.tail [y, '0'] s (by
      simp only [List.mem_cons, List.mem_nil_iff, or_false, not_or]
      exact ⟨fun h => hyu h.symm, by decide⟩)
    simpa using this
  have hzero := scanNumberBody_zero o s
  cases hy : peekR s.rest with
  | none =>
    rw [hy] at hzero
    simpa [isDecimalR] using hzero (by simp [runChR])
  | some y =>
    rw [hy] at hzero
    simp only [Option.map_some, Option.some.injEq, Option.getD_some]
    by_cases hx : lowerBit y = 'x'
    · have hyu : y ≠ '_' := by intro h; subst h; revert hx; decide
      simp only [hx, decide_true, Bool.true_or, if_true]
      exact radix 16 (Or.inl rfl) y hy hyu
    · by_cases ho : lowerBit y = 'o'
      · have hyu : y ≠ '_' := by intro h; subst h; revert ho; decide
        simp only [hx, ho, decide_false, decide_true, Bool.false_or, Bool.true_or, Bool.or_true, if_true, if_false,
          show ('o' : Char) = 'x' ↔ False from by decide]
        exact radix 8 (Or.inr (by omega)) y hy hyu
      · by_cases hb : lowerBit y = 'b'
        · have hyu : y ≠ '_' := by intro h; subst h; revert hb; decide
          simp only [hx, ho, hb, decide_false, decide_true, Bool.false_or, Bool.or_true, if_true, if_false,
            show ('b' : Char) = 'x' ↔ False from by decide, show ('b' : Char) = 'o' ↔ False from by decide]
          exact radix 2 (Or.inr (by omega)) y hy hyu
        · simp only [hx, ho, hb, decide_false, Bool.or_self, Bool.false_eq_true, if_false]
          by_cases hu : y = '_'
          · subst hu
            simp only [show lowerBit '_' = '.' ↔ False from by decide, decide_false, Bool.false_eq_true, if_false,
              decide_true, if_true]
            exact rejects_numErr _
          · by_cases hd : isDecimal y = true
            · have hl : lowerBit y ≠ '.' := by
                rw [lowerBit_decimal y hd]; exact (isDecimal_facts y hd).2.2.1
              simp only [hl, hu, decide_false, Bool.false_eq_true, if_false, isDecimalR, hd, if_true]
              exact rejects_numErr _
            · have hd' : isDecimal y = false := by simpa using hd
              have hz := hzero (by simp [runChR, runCh, hu, hd'])
              -- both remaining branches of `zeroPrefix` give the same values
              have hsame : (if (decide (lowerBit y = '.')) = true then
                    some (8, true, 1, some y, ['0'], afterR s s.rest)
                  else if (decide (y = '_')) = true then none
                  else if isDecimalR (some y) = true then none
                  else some (8, true, 1, some y, ['0'], afterR s s.rest))
                  = some (8, true, 1, some y, ['0'], afterR s s.rest) := by
                simp [hu, isDecimalR, hd']
              simp only [hsame, hu, isDecimalR, hd', Bool.false_eq_true, if_false]
              simpa using hz

end

section
variable (o : Oracles)

/-- **the reference reading of a number that starts with the decimal digit `c`**; `X` is the source
    after `c` -/
def numRef (c : Char) (X : List Src) : Option (Tok × List Char × List Src) :=
  if c = '0' then refZero o X else refDecimal o c X

/-- … and of a number that starts with `.` followed by the decimal digit `d`; `X` is the source after `d` -/
def dotRef (d : Char) (X : List Src) : Option (Tok × List Char × List Src) :=
  refTail o .numeric true true false ['.'] (.ch d :: X)

/-- **Layer 1**: `scanNumber` started on a decimal digit is the reference reading of the source -/
theorem scanNumber_ref (c : Char) (hc : isDecimal c = true) (s : LState) :
    Agrees s (scanNumber o c false [] s) (numRef o c s.rest) := by
  unfold numRef
  by_cases h0 : c = '0'
  · subst h0
    simp only [if_true]
    exact scanNumber_zero_ref o s
  · simp only [h0, if_false]
    have := scanNumberBody_decimal o c hc s
    unfold scanNumber
    simpa [h0] using this

theorem scanNumber_dot_ref (d : Char) (hd : isDecimal d = true) (s : LState) :
    Agrees s (scanNumber o d true ['.'] s) (dotRef o d s.rest) := by
  have hd0 := (isDecimal_facts d hd).1
  unfold scanNumber dotRef
  simp only [if_true]
  have := scanNumberTail_ref o .numeric true 10 (by omega) true (.ch d :: s.rest) 0 none ['.'] s false
    (fun h => by simp at h) rfl
  rw [peekR_cons_ch d _ hd0, afterR_cons_ch s d _ hd0, withRest_self] at this
  simpa using this

end

/-! ## Layer 2: the grammar of number texts -/

/-- digits, each optionally preceded by ONE underscore (what may follow a digit inside a digit group) -/
inductive DigTail (P : Char → Prop) : List Char → Prop
  | nil : DigTail P []
  | dig {d : Char} {r : List Char} : P d → DigTail P r → DigTail P (d :: r)
  | sep {d : Char} {r : List Char} : P d → DigTail P r → DigTail P ('_' :: d :: r)

/-- a digit group: at least one digit of the class `P`, single underscores only between two digits -/
def Digs (P : Char → Prop) (l : List Char) : Prop := ∃ d r, l = d :: r ∧ P d ∧ DigTail P r

/-- digit of `invalidSep`: decimal, or hexadecimal after the prefix `0x` -/
def dg (hp : Bool) (c : Char) : Bool := isDecimal c || (hp && isHex c)

theorem runCh_eq (hex : Bool) (c : Char) : runCh hex c = (decide (c = '_') || dg hex c) := by
  unfold runCh dg isHex
  cases hex <;> simp

theorem dg_not_underscore (hp : Bool) : dg hp '_' = false := by cases hp <;> decide

theorem DigTail.cons_underscore_iff {hp : Bool} {l : List Char} :
    DigTail (fun c => dg hp c = true) ('_' :: l) ↔ ∃ d r, l = d :: r ∧ dg hp d = true ∧ DigTail (fun c => dg hp c = true) r := by
  constructor
  · intro h
    cases h with
    | dig hd _ => rw [dg_not_underscore] at hd; cases hd
    | sep hd hr => exact ⟨_, _, rfl, hd, hr⟩
  · rintro ⟨d, r, rfl, hd, hr⟩
    exact DigTail.sep hd hr

theorem DigTail.cons_digit_iff {hp : Bool} {c : Char} {l : List Char} (hc : dg hp c = true) :
    DigTail (fun c => dg hp c = true) (c :: l) ↔ DigTail (fun c => dg hp c = true) l := by
  constructor
  · intro h
    cases h with
    | dig _ hr => exact hr
    | sep _ _ => rw [dg_not_underscore] at hc; cases hc
  · intro h; exact DigTail.dig hc h

/-- the head of `rest` is neither `_` nor a digit of the class -/
def StopsRun (hp : Bool) (rest : List Char) : Prop := ∀ x r, rest = x :: r → x ≠ '_' ∧ dg hp x = false

/-- the separator scan after a digit (`p = '0'`) and after an underscore (`p = '_'`), over a run -/
theorem sepLoop_run (hp : Bool) (rest : List Char) (hrest : StopsRun hp rest) : ∀ (r : List Char),
    (∀ x ∈ r, x = '_' ∨ dg hp x = true) →
    ((invalidSepLoop hp (r ++ rest) '0' = false ↔
        DigTail (fun c => dg hp c = true) r ∧ invalidSepLoop hp rest '0' = false) ∧
     (invalidSepLoop hp (r ++ rest) '_' = false ↔
        (∃ d r', r = d :: r' ∧ dg hp d = true ∧ DigTail (fun c => dg hp c = true) r') ∧
          invalidSepLoop hp rest '0' = false))
  | [], _ => by
    refine ⟨by simp [DigTail.nil], ?_⟩
    simp only [List.nil_append]
    constructor
    · intro h
      exfalso
      cases rest with
      | nil => simp [invalidSepLoop] at h
      | cons x r =>
        obtain ⟨h1, h2⟩ := hrest x r rfl
        unfold invalidSepLoop at h
        unfold dg at h2
        simp [h1, h2] at h
    · rintro ⟨⟨d, r', h, _⟩, _⟩; cases h
  | c :: r, hr => by
    have ih := sepLoop_run hp rest hrest r (fun x hx => hr x (by simp [hx]))
    rcases hr c (by simp) with hc | hc
    · subst hc
      constructor
      · rw [DigTail.cons_underscore_iff, ← ih.2]
        simp [invalidSepLoop]
      · simp only [List.cons_append]
        constructor
        · intro h; simp [invalidSepLoop] at h
        · rintro ⟨⟨d, r', h, hd, _⟩, _⟩
          injection h with h1 _
          subst h1
          rw [dg_not_underscore] at hd; cases hd
    · have hcu : c ≠ '_' := by intro h; subst h; rw [dg_not_underscore] at hc; cases hc
      have hstep : ∀ p, invalidSepLoop hp (c :: r ++ rest) p = invalidSepLoop hp (r ++ rest) '0' := by
        intro p
        simp only [List.cons_append]
        rw [invalidSepLoop]
        unfold dg at hc
        simp [hcu, hc]
      constructor
      · rw [hstep, DigTail.cons_digit_iff hc]; exact ih.1
      · rw [hstep, ih.1]
        constructor
        · rintro ⟨h1, h2⟩; exact ⟨⟨c, r, rfl, hc, h1⟩, h2⟩
        · rintro ⟨⟨d, r', h, hd, h1⟩, h2⟩
          injection h with ha hb
          subst ha; subst hb
          exact ⟨h1, h2⟩

/-- after a run has stopped, the class of the previous character no longer matters -/
theorem sepLoop_stop (hp : Bool) (rest : List Char) (hrest : StopsRun hp rest) (p : Char) (hp0 : p ≠ '_') :
    invalidSepLoop hp rest p = invalidSepLoop hp rest.tail '.' ∨ rest = [] ∧ invalidSepLoop hp rest p = false := by
  cases rest with
  | nil => right; exact ⟨rfl, by simp [invalidSepLoop, hp0]⟩
  | cons x r =>
    left
    obtain ⟨h1, h2⟩ := hrest x r rfl
    rw [invalidSepLoop]
    unfold dg at h2
    simp [h1, h2, hp0]

theorem sepLoop_stop_eq (hp : Bool) (rest : List Char) (hrest : StopsRun hp rest) (p q : Char) (hp0 : p ≠ '_')
    (hq0 : q ≠ '_') : invalidSepLoop hp rest p = invalidSepLoop hp rest q := by
  cases rest with
  | nil => simp [invalidSepLoop, hp0, hq0]
  | cons x r =>
    obtain ⟨h1, h2⟩ := hrest x r rfl
    rw [invalidSepLoop, invalidSepLoop]
    unfold dg at h2
    simp [h1, h2, hp0, hq0]

/-- **a digit group in the separator scan**: started after a non-digit (`p = '.'`) the scan passes a
    maximal run `rn` of digits and underscores iff the run is empty or a well-formed digit group -/
theorem sepLoop_group (hp : Bool) (rn rest : List Char) (hrn : ∀ x ∈ rn, x = '_' ∨ dg hp x = true)
    (hrest : StopsRun hp rest) :
    invalidSepLoop hp (rn ++ rest) '.' = false ↔
      (rn = [] ∨ Digs (fun c => dg hp c = true) rn) ∧ invalidSepLoop hp rest '.' = false := by
  cases rn with
  | nil => simp
  | cons c r =>
    have hr : ∀ x ∈ r, x = '_' ∨ dg hp x = true := fun x hx => hrn x (by simp [hx])
    rcases hrn c (by simp) with hc | hc
    · subst hc
      simp only [List.cons_append, reduceCtorEq, false_or]
      constructor
      · intro h; simp [invalidSepLoop] at h
      · rintro ⟨⟨d, r', h, hd, _⟩, _⟩
        injection h with h1 _
        subst h1
        rw [dg_not_underscore] at hd; cases hd
    · have hcu : c ≠ '_' := by intro h; subst h; rw [dg_not_underscore] at hc; cases hc
      have hstep : invalidSepLoop hp (c :: r ++ rest) '.' = invalidSepLoop hp (r ++ rest) '0' := by
        simp only [List.cons_append]
        rw [invalidSepLoop]
        unfold dg at hc
        simp [hcu, hc]
      rw [hstep, (sepLoop_run hp rest hrest r hr).1,
        sepLoop_stop_eq hp rest hrest '0' '.' (by decide) (by decide)]
      simp only [reduceCtorEq, false_or]
      constructor
      · rintro ⟨h1, h2⟩; exact ⟨⟨c, r, rfl, hc, h1⟩, h2⟩
      · rintro ⟨⟨d, r', h, hd, h1⟩, h2⟩
        injection h with ha hb
        subst ha; subst hb
        exact ⟨h1, h2⟩

/-- the same after the radix prefix (which counts as a digit), for a run that starts with a digit -/
theorem sepLoop_group_prefix (hp : Bool) (rn rest : List Char) (hrn : ∀ x ∈ rn, x = '_' ∨ dg hp x = true)
    (hrest : StopsRun hp rest) (hne : rn ≠ []) (hhd : rn.head? ≠ some '_') :
    invalidSepLoop hp (rn ++ rest) '0' = false ↔
      Digs (fun c => dg hp c = true) rn ∧ invalidSepLoop hp rest '.' = false := by
  cases rn with
  | nil => exact absurd rfl hne
  | cons c r =>
    have hr : ∀ x ∈ r, x = '_' ∨ dg hp x = true := fun x hx => hrn x (by simp [hx])
    have hcu : c ≠ '_' := by intro h; subst h; simp at hhd
    have hc : dg hp c = true := by
      rcases hrn c (by simp) with h | h
      · exact absurd h hcu
      · exact h
    have hstep : invalidSepLoop hp (c :: r ++ rest) '0' = invalidSepLoop hp (r ++ rest) '0' := by
      simp only [List.cons_append]
      rw [invalidSepLoop]
      unfold dg at hc
      simp [hcu, hc]
    rw [hstep, (sepLoop_run hp rest hrest r hr).1,
      sepLoop_stop_eq hp rest hrest '0' '.' (by decide) (by decide)]
    constructor
    · rintro ⟨h1, h2⟩; exact ⟨⟨c, r, rfl, hc, h1⟩, h2⟩
    · rintro ⟨⟨d, r', h, hd, h1⟩, h2⟩
      injection h with ha hb
      subst ha; subst hb
      exact ⟨h1, h2⟩

/-- a character that is neither `_` nor a digit is passed when the previous one was no underscore -/
theorem sepLoop_other (hp : Bool) (x : Char) (rest : List Char) (p : Char) (hx : x ≠ '_') (hd : dg hp x = false)
    (hp0 : p ≠ '_') : invalidSepLoop hp (x :: rest) p = invalidSepLoop hp rest '.' := by
  rw [invalidSepLoop]
  unfold dg at hd
  simp [hx, hd, hp0]

/-! ### `lower(ch)` -/

theorem ofNat_toNat_ne (m k : Nat) (hk : k ≠ 0) (h : (Char.ofNat m).toNat = k) : m = k := by
  unfold Char.ofNat at h
  split at h
  · simpa [Char.toNat, Char.ofNatAux, UInt32.toNat_ofNatLT] using h
  · exfalso; apply hk; rw [← h]; rfl

theorem lowerBit_inv (x t : Char) (ht : t.toNat ≠ 0) (h : lowerBit x = t) : x.toNat ||| 32 = t.toNat :=
  ofNat_toNat_ne _ _ ht (by unfold lowerBit at h; rw [h])

/-- `lower(ch) == lo` exactly for the letter `lo` in either case -/
theorem lowerBit_letter (x lo up : Char) (hlo : lo.toNat ≠ 0)
    (key : ∀ n, n < lo.toNat + 1 → n ||| 32 = lo.toNat → n = up.toNat ∨ n = lo.toNat)
    (hl : lowerBit lo = lo) (hu : lowerBit up = lo) : lowerBit x = lo ↔ x = lo ∨ x = up := by
  constructor
  · intro h
    have h1 := lowerBit_inv x lo hlo h
    have hle : x.toNat ≤ lo.toNat := by
      have := @Nat.left_le_or x.toNat 32
      rw [h1] at this; exact this
    rcases key _ (by omega) h1 with h | h
    · right; exact Char.toNat_inj.mp h
    · left; exact Char.toNat_inj.mp h
  · rintro (h | h) <;> subst h <;> assumption

theorem lowerBit_e (x : Char) : lowerBit x = 'e' ↔ x = 'e' ∨ x = 'E' :=
  lowerBit_letter x 'e' 'E' (by decide) (by decide) (by decide) (by decide)
theorem lowerBit_x (x : Char) : lowerBit x = 'x' ↔ x = 'x' ∨ x = 'X' :=
  lowerBit_letter x 'x' 'X' (by decide) (by decide) (by decide) (by decide)
theorem lowerBit_o (x : Char) : lowerBit x = 'o' ↔ x = 'o' ∨ x = 'O' :=
  lowerBit_letter x 'o' 'O' (by decide) (by decide) (by decide) (by decide)
theorem lowerBit_b (x : Char) : lowerBit x = 'b' ↔ x = 'b' ∨ x = 'B' :=
  lowerBit_letter x 'b' 'B' (by decide) (by decide) (by decide) (by decide)

/-! ### The grammar -/

/-- `0` … `9` -/
def DecDigit (c : Char) : Prop := isDecimal c = true
/-- `0` … `9`, `a` … `f`, `A` … `F` -/
def HexDigit (c : Char) : Prop := isHex c = true
/-- a decimal digit below the base: `maxCh = 56` (`'8'`) for octal, `50` (`'2'`) for binary -/
def LowDigit (maxCh : Nat) (c : Char) : Prop := isDecimal c = true ∧ c.toNat < maxCh

/-- an exponent: `e` or `E`, an optional sign, a digit group -/
def ExpPart (l : List Char) : Prop :=
  ∃ x sg ds, l = x :: sg ++ ds ∧ (x = 'e' ∨ x = 'E') ∧ (sg = [] ∨ sg = ['+'] ∨ sg = ['-']) ∧ Digs DecDigit ds

/-- the integer part of a decimal number: the single digit `0`, or a digit group that does not
    start with `0` -/
def IntPart (i : List Char) : Prop := i = ['0'] ∨ (Digs DecDigit i ∧ i.head? ≠ some '0')

/-- a fraction: `.` and an optional digit group -/
def FracPart (f : List Char) : Prop := ∃ ds, f = '.' :: ds ∧ (ds = [] ∨ Digs DecDigit ds)

/-- the kinds of number texts (they differ in the token and in what may follow) -/
inductive NumKind
  | zero | dec | hex | lowRadix | frac | exp
deriving DecidableEq

/-- **the grammar of number texts**, by kind -/
inductive NumForm : NumKind → List Char → Prop
  /-- the single digit `0` -/
  | zero : NumForm .zero ['0']
  /-- a decimal digit group that does not start with `0` -/
  | dec {l : List Char} : Digs DecDigit l → l.head? ≠ some '0' → NumForm .dec l
  /-- `0x` / `0X` and a hexadecimal digit group -/
  | hex {x : Char} {ds : List Char} : (x = 'x' ∨ x = 'X') → Digs HexDigit ds → NumForm .hex ('0' :: x :: ds)
  /-- `0o` / `0O` and an octal digit group -/
  | oct {x : Char} {ds : List Char} : (x = 'o' ∨ x = 'O') → Digs (LowDigit 56) ds → NumForm .lowRadix ('0' :: x :: ds)
  /-- `0b` / `0B` and a binary digit group -/
  | bin {x : Char} {ds : List Char} : (x = 'b' ∨ x = 'B') → Digs (LowDigit 50) ds → NumForm .lowRadix ('0' :: x :: ds)
  /-- integer part and fraction: `1.`, `1.5`, `0.25` -/
  | frac {i f : List Char} : IntPart i → FracPart f → NumForm .frac (i ++ f)
  /-- `.` and a digit group: `.5` -/
  | dotFrac {ds : List Char} : Digs DecDigit ds → NumForm .frac ('.' :: ds)
  /-- an integer part followed by an exponent: `1e5`, `0E-3` -/
  | expInt {m e : List Char} : IntPart m → ExpPart e → NumForm .exp (m ++ e)
  /-- a fraction followed by an exponent: `1.e5`, `1.5e+5`, `.5E-3` -/
  | expFrac {m e : List Char} : NumForm .frac m → ExpPart e → NumForm .exp (m ++ e)

/-- the token of a kind: `INT_P` for the integers, `NUMERIC_P` for fractions and exponents -/
def tokOf : NumKind → Tok
  | .zero | .dec | .hex | .lowRadix => .int
  | .frac | .exp => .numeric

/-- integer literal texts -/
def IntegerText (t : List Char) : Prop := NumForm .zero t ∨ NumForm .dec t ∨ NumForm .hex t ∨ NumForm .lowRadix t
/-- non-integer literal texts -/
def NumericText (t : List Char) : Prop := NumForm .frac t ∨ NumForm .exp t
/-- **number literal texts** -/
def NumberText (t : List Char) : Prop := ∃ k, NumForm k t

def isHexR : Option Char → Bool
  | some c => isHex c
  | none => false

section
variable (o : Oracles)

/-- **what may stand directly after a number text of kind `k`** (`none`: the end of the input — or a
    NUL / undecodable byte, which is an error of its own).  In all cases the follower is neither a
    digit of the class being read nor an identifier start (`_`, `\`, XID_Start) — "trailing junk" —;
    unless an exponent has been read, `lower(ch) = ch | 0x20` must not be an identifier start either,
    nor `e`; after an integer the follower is not `.` (the number would go on, or — after a radix
    integer — the lexer stops early, see `LooseRadix`); after the single `0` not `x o b` in either case. -/
def Follower : NumKind → Option Char → Prop
  | .exp, y => isDecimalR y = false ∧ isIdentStart o y = false
  | .frac, y => isDecimalR y = false ∧ isIdentStart o y = false ∧ y.map lowerBit ≠ some 'e' ∧
      isIdentStart o (y.map lowerBit) = false
  | .dec, y => isDecimalR y = false ∧ isIdentStart o y = false ∧ y.map lowerBit ≠ some 'e' ∧
      isIdentStart o (y.map lowerBit) = false ∧ y ≠ some '.'
  | .zero, y => isDecimalR y = false ∧ isIdentStart o y = false ∧ y.map lowerBit ≠ some 'e' ∧
      isIdentStart o (y.map lowerBit) = false ∧ y ≠ some '.' ∧
      y.map lowerBit ≠ some 'x' ∧ y.map lowerBit ≠ some 'o' ∧ y.map lowerBit ≠ some 'b'
  | .hex, y => isHexR y = false ∧ isIdentStart o y = false ∧
      isIdentStart o (y.map lowerBit) = false ∧ y ≠ some '.'
  | .lowRadix, y => isDecimalR y = false ∧ isIdentStart o y = false ∧ y.map lowerBit ≠ some 'e' ∧
      isIdentStart o (y.map lowerBit) = false ∧ y ≠ some '.'

end

/-- **the early return**: a radix prefix and ANY non-empty run of digit-class characters and
    underscores that starts with a digit — accepted as an integer token when `.` follows directly,
    without the digit and separator checks (`0b2`, `0x1_`, `0o1__9` before a `.`) -/
def LooseRadix (t : List Char) : Prop :=
  ∃ x d rn, t = '0' :: x :: d :: rn ∧ (lowerBit x = 'x' ∨ lowerBit x = 'o' ∨ lowerBit x = 'b') ∧
    d ≠ '_' ∧ ∀ c ∈ d :: rn, runCh (decide (lowerBit x = 'x')) c = true

/-! ### Layer 2, stage lemmas -/

theorem DigTail.mem {P : Char → Prop} {r : List Char} (h : DigTail P r) : ∀ c ∈ r, c = '_' ∨ P c := by
  induction h with
  | nil => intro c hc; simp at hc
  | dig hd _ ih =>
    intro c hc
    rcases List.mem_cons.mp hc with rfl | hc
    · exact Or.inr hd
    · exact ih c hc
  | sep hd _ ih =>
    intro c hc
    rcases List.mem_cons.mp hc with rfl | hc
    · exact Or.inl rfl
    · rcases List.mem_cons.mp hc with rfl | hc
      · exact Or.inr hd
      · exact ih c hc

theorem Digs.mem {P : Char → Prop} {l : List Char} (h : Digs P l) : ∀ c ∈ l, c = '_' ∨ P c := by
  obtain ⟨d, r, rfl, hd, hr⟩ := h
  intro c hc
  rcases List.mem_cons.mp hc with rfl | hc
  · exact Or.inr hd
  · exact hr.mem c hc

theorem DigTail.mono {P Q : Char → Prop} {r : List Char} (h : DigTail P r) (hpq : ∀ c, P c → Q c) : DigTail Q r := by
  induction h with
  | nil => exact DigTail.nil
  | dig hd _ ih => exact DigTail.dig (hpq _ hd) ih
  | sep hd _ ih => exact DigTail.sep (hpq _ hd) ih

theorem Digs.mono {P Q : Char → Prop} {l : List Char} (h : Digs P l) (hpq : ∀ c, P c → Q c) : Digs Q l := by
  obtain ⟨d, r, rfl, hd, hr⟩ := h
  exact ⟨d, r, rfl, hpq d hd, hr.mono hpq⟩

theorem decDigit_ne_underscore {c : Char} (h : DecDigit c) : c ≠ '_' := (isDecimal_facts c h).2.1

theorem DigTail.low {m : Nat} {r : List Char} (h : DigTail DecDigit r) (hq : ∀ c ∈ r, c ≠ '_' → c.toNat < m) :
    DigTail (LowDigit m) r := by
  induction h with
  | nil => exact DigTail.nil
  | dig hd _ ih =>
    exact DigTail.dig ⟨hd, hq _ (by simp) (decDigit_ne_underscore hd)⟩ (ih (fun c hc => hq c (by simp [hc])))
  | sep hd _ ih =>
    exact DigTail.sep ⟨hd, hq _ (by simp) (decDigit_ne_underscore hd)⟩ (ih (fun c hc => hq c (by simp [hc])))

/-- a digit group below the base = a decimal digit group without a digit from the base on -/
theorem digs_low_iff (m : Nat) (l : List Char) :
    Digs (LowDigit m) l ↔ Digs DecDigit l ∧ badDigit m l = false := by
  constructor
  · intro h
    refine ⟨h.mono (fun c hc => hc.1), ?_⟩
    unfold badDigit
    rw [List.any_eq_false]
    intro c hc
    rcases h.mem c hc with h1 | h1
    · simp [h1]
    · have := h1.2
      simp; intro _; omega
  · rintro ⟨⟨d, r, rfl, hd, hr⟩, hb⟩
    unfold badDigit at hb
    rw [List.any_eq_false] at hb
    have hq : ∀ c ∈ d :: r, c ≠ '_' → c.toNat < m := by
      intro c hc hcu
      have := hb c hc
      simp [hcu] at this
      exact this
    exact ⟨d, r, rfl, ⟨hd, hq d (by simp) (decDigit_ne_underscore hd)⟩,
      hr.low (fun c hc => hq c (by simp [hc]))⟩

theorem dgFalse_eq : (fun c => dg false c = true) = DecDigit := by
  funext c; simp [dg, DecDigit]

theorem dgTrue_eq : (fun c => dg true c = true) = HexDigit := by
  funext c
  simp only [dg, HexDigit, Bool.true_and, isHex, Bool.or_eq_true, eq_iff_iff]
  constructor
  · rintro (h | h)
    · exact Or.inl h
    · exact h
  · intro h; exact Or.inr h

theorem runCh_false_iff (c : Char) : runCh false c = true ↔ c = '_' ∨ DecDigit c := by
  simp [runCh, DecDigit]

theorem runChR_false_of (y : Option Char) (o : Oracles) (h1 : isDecimalR y = false) (h2 : isIdentStart o y = false) :
    runChR false y = false := by
  cases y with
  | none => rfl
  | some c =>
    simp only [isDecimalR] at h1
    have : c ≠ '_' := by intro h; subst h; simp [isIdentStart] at h2
    simp [runChR, runCh, this, h1]

theorem runChR_false_dec {y : Option Char} (h : runChR false y = false) : isDecimalR y = false := by
  cases y with
  | none => rfl
  | some c => simp only [runChR, runCh, Bool.false_eq_true, if_false, Bool.or_eq_false_iff] at h; exact h.2

/-- how a number text may go on: not at all, with `.`, or with `e` / `E` -/
def Cont (rest : List Char) : Prop :=
  rest = [] ∨ (∃ r, rest = '.' :: r) ∨ (∃ x r, rest = x :: r ∧ (x = 'e' ∨ x = 'E'))

theorem Cont.stops {rest : List Char} (h : Cont rest) : StopsRun false rest := by
  intro x r hx
  rcases h with h | ⟨r', h⟩ | ⟨x', r', h, hx'⟩
  · subst h; cases hx
  · rw [h] at hx; injection hx with h1 _; subst h1; exact ⟨by decide, by decide⟩
  · rw [h] at hx; injection hx with h1 _; subst h1
    rcases hx' with h | h <;> subst h <;> exact ⟨by decide, by decide⟩

/-- the separator check of the text `text` followed by any continuation amounts to `G` and the
    check of the continuation -/
def SepSum (text : List Char) (G : Prop) : Prop :=
  ∀ rest, Cont rest → (invalidSep (text ++ rest) = false ↔ G ∧ invalidSepLoop false rest '.' = false)

theorem SepSum.closed {text : List Char} {G : Prop} (h : SepSum text G) : invalidSep text = false ↔ G := by
  have := h [] (Or.inl rfl)
  simpa [invalidSepLoop] using this

section
variable (o : Oracles)

theorem refFinish_some (tok : Tok) (hasInv : Bool) (text : List Char) (R : List Src) (tok' : Tok) (t : List Char)
    (R' : List Src) :
    refFinish o tok hasInv text R = some (tok', t, R') ↔
      tok' = tok ∧ t = text ∧ R' = R ∧ ¬ (tok = .int ∧ hasInv = true) ∧ invalidSep text = false ∧
        isIdentStart o (peekR R) = false := by
  unfold refFinish
  by_cases h1 : (tok = .int ∧ hasInv = true)
  · simp [h1]
  · have h1' : (decide (tok = .int) && hasInv) = false := by
      cases hasInv <;> simp_all
    simp only [h1', Bool.false_eq_true, if_false, h1, not_false_eq_true, true_and]
    by_cases h2 : invalidSep text = true
    · simp [h2]
    · have h2' : invalidSep text = false := by simpa using h2
      simp only [h2', Bool.false_eq_true, if_false, true_and]
      by_cases h3 : isIdentStart o (peekR R) = true
      · simp [h3]
      · have h3' : isIdentStart o (peekR R) = false := by simpa using h3
        simp only [h3', Bool.false_eq_true, if_false, and_true, Option.some.injEq, Prod.mk.injEq]
        constructor
        · rintro ⟨a, b, c⟩; exact ⟨a.symm, b.symm, c.symm⟩
        · rintro ⟨a, b, c⟩; exact ⟨a.symm, b.symm, c.symm⟩

theorem digs_hasDigit {l : List Char} (h : Digs DecDigit l) : hasDigit l = true := by
  obtain ⟨d, r, rfl, hd, _⟩ := h
  simp [hasDigit, decDigit_ne_underscore hd]

theorem digs_runCh {l : List Char} (h : Digs DecDigit l) : ∀ c ∈ l, runCh false c = true := by
  intro c hc
  exact (runCh_false_iff c).mpr (h.mem c hc)

theorem peekR_chs_cons (c : Char) (l : List Char) (R : List Src) (hc : c.toNat ≠ 0) :
    peekR (chs (c :: l) ++ R) = some c := by
  simp [chs, peekR, srcChar, hc]

/-- the sign and what follows it -/
theorem sign_split (X : List Src) : X = chs (expSign X) ++ afterSign X ∧
    (expSign X = [] ∨ expSign X = ['+'] ∨ expSign X = ['-']) := by
  by_cases hp : peekR X = some '+'
  · obtain ⟨hX, _⟩ := peekR_some hp
    have h1 : expSign X = ['+'] := by unfold expSign; rw [if_pos hp]
    have h2 : afterSign X = X.tail := by unfold afterSign; rw [if_pos (Or.inl hp)]
    rw [h1, h2]
    exact ⟨by simpa [chs] using hX, Or.inr (Or.inl rfl)⟩
  · by_cases hm : peekR X = some '-'
    · obtain ⟨hX, _⟩ := peekR_some hm
      have h1 : expSign X = ['-'] := by unfold expSign; rw [if_neg hp, if_pos hm]
      have h2 : afterSign X = X.tail := by unfold afterSign; rw [if_pos (Or.inr hm)]
      rw [h1, h2]
      exact ⟨by simpa [chs] using hX, Or.inr (Or.inr rfl)⟩
    · have h1 : expSign X = [] := by unfold expSign; rw [if_neg hp, if_neg hm]
      have h2 : afterSign X = X := by
        unfold afterSign; rw [if_neg (by rintro (h | h); exact hp h; exact hm h)]
      rw [h1, h2]
      exact ⟨by simp [chs], Or.inl rfl⟩

theorem sign_of (sg ds : List Char) (R : List Src) (hsg : sg = [] ∨ sg = ['+'] ∨ sg = ['-']) (hds : Digs DecDigit ds) :
    expSign (chs (sg ++ ds) ++ R) = sg ∧ afterSign (chs (sg ++ ds) ++ R) = chs ds ++ R := by
  obtain ⟨d, r, rfl, hd, _⟩ := hds
  have hd0 := (isDecimal_facts d hd).1
  rcases hsg with h | h | h
  · subst h
    have hpk : peekR (chs ([] ++ d :: r) ++ R) = some d := by simpa using peekR_chs_cons d r R hd0
    have h1 : ¬ peekR (chs ([] ++ d :: r) ++ R) = some '+' := by
      rw [hpk]; intro h; injection h with h; subst h; revert hd; unfold DecDigit; decide
    have h2 : ¬ peekR (chs ([] ++ d :: r) ++ R) = some '-' := by
      rw [hpk]; intro h; injection h with h; subst h; revert hd; unfold DecDigit; decide
    constructor
    · unfold expSign; rw [if_neg h1, if_neg h2]
    · unfold afterSign; rw [if_neg (by rintro (h | h); exact h1 h; exact h2 h)]; rfl
  · subst h
    have hpk : peekR (chs (['+'] ++ d :: r) ++ R) = some '+' := by simp [chs, peekR, srcChar]
    constructor
    · unfold expSign; rw [if_pos hpk]
    · unfold afterSign; rw [if_pos (Or.inl hpk)]; simp [chs]
  · subst h
    have hpk : peekR (chs (['-'] ++ d :: r) ++ R) = some '-' := by simp [chs, peekR, srcChar]
    have hnp : ¬ peekR (chs (['-'] ++ d :: r) ++ R) = some '+' := by rw [hpk]; decide
    constructor
    · unfold expSign; rw [if_neg hnp, if_pos hpk]
    · unfold afterSign; rw [if_pos (Or.inr hpk)]; simp [chs]

/-- the separator check of an exponent text -/
theorem sep_exp (x : Char) (sg rn : List Char) (hx : x = 'e' ∨ x = 'E') (hsg : sg = [] ∨ sg = ['+'] ∨ sg = ['-'])
    (hrn : ∀ c ∈ rn, runCh false c = true) :
    invalidSepLoop false (x :: sg ++ rn) '.' = false ↔ (rn = [] ∨ Digs DecDigit rn) := by
  have hx1 : x ≠ '_' ∧ dg false x = false := by rcases hx with h | h <;> subst h <;> exact ⟨by decide, by decide⟩
  have hrn' : ∀ c ∈ rn, c = '_' ∨ dg false c = true := by
    intro c hc
    have := (runCh_false_iff c).mp (hrn c hc)
    simpa [dg, DecDigit] using this
  have hgrp := sepLoop_group false rn [] hrn' (fun _ _ h => by cases h)
  rw [dgFalse_eq] at hgrp
  simp only [List.append_nil, invalidSepLoop, show ('.' : Char) = '_' ↔ False from by decide, decide_false,
    and_true] at hgrp
  rw [List.cons_append, sepLoop_other false x _ '.' hx1.1 hx1.2 (by decide)]
  rcases hsg with h | h | h
  · subst h; simpa using hgrp
  · subst h
    rw [List.cons_append, sepLoop_other false '+' _ '.' (by decide) (by decide) (by decide)]
    simpa using hgrp
  · subst h
    rw [List.cons_append, sepLoop_other false '-' _ '.' (by decide) (by decide) (by decide)]
    simpa using hgrp

/-- the source determines the exponent: the pieces the lexer cuts are those of the grammar -/
theorem exp_canon {e : List Char} (hE : ExpPart e) {X R : List Src} (hX : X = chs e ++ R)
    (h1 : isDecimalR (peekR R) = false) (h2 : isIdentStart o (peekR R) = false) :
    ∃ x sg ds, e = x :: sg ++ ds ∧ (x = 'e' ∨ x = 'E') ∧ (sg = [] ∨ sg = ['+'] ∨ sg = ['-']) ∧ Digs DecDigit ds ∧
      peekR X = some x ∧ expSign X.tail = sg ∧ takeRun false (afterSign X.tail) = (ds, R) := by
  obtain ⟨x, sg, ds, he, hx, hsg, hds⟩ := hE
  refine ⟨x, sg, ds, he, hx, hsg, hds, ?_, ?_, ?_⟩
  · have hx0 : x.toNat ≠ 0 := by rcases hx with h | h <;> subst h <;> decide
    rw [hX, he]; exact peekR_chs_cons x _ R hx0
  · have : X.tail = chs (sg ++ ds) ++ R := by rw [hX, he]; simp [chs]
    rw [this]; exact (sign_of sg ds R hsg hds).1
  · have : X.tail = chs (sg ++ ds) ++ R := by rw [hX, he]; simp [chs]
    rw [this, (sign_of sg ds R hsg hds).2]
    exact takeRun_unique false ds R (digs_runCh hds) (runChR_false_of _ o h1 h2)

/-- **the exponent stage**: what `refExp` accepts after a decimal mantissa `text1` -/
theorem refExp_some (tok1 : Tok) (hasInv : Bool) (text1 : List Char) (G : Prop) (hsum : SepSum text1 G)
    (X : List Src) (tok : Tok) (t : List Char) (R : List Src) :
    refExp o true tok1 hasInv text1 X = some (tok, t, R) ↔
      (∃ e, ExpPart e ∧ X = chs e ++ R ∧ t = text1 ++ e ∧ tok = .numeric ∧ G ∧
          isDecimalR (peekR R) = false ∧ isIdentStart o (peekR R) = false) ∨
      (R = X ∧ t = text1 ∧ tok = tok1 ∧ ¬ (tok1 = .int ∧ hasInv = true) ∧ G ∧
          (peekR X).map lowerBit ≠ some 'e' ∧ isIdentStart o ((peekR X).map lowerBit) = false ∧
          isIdentStart o (peekR X) = false) := by
  constructor
  · intro h
    unfold refExp at h
    by_cases he : (peekR X).map lowerBit = some 'e'
    · left
      simp only [he, if_true, Bool.not_true, Bool.false_eq_true, if_false] at h
      obtain ⟨x, hx⟩ : ∃ x, peekR X = some x := by
        cases h' : peekR X with
        | none => rw [h'] at he; simp at he
        | some y => exact ⟨y, rfl⟩
      have hxe : x = 'e' ∨ x = 'E' := by
        rw [hx] at he; simp only [Option.map_some, Option.some.injEq] at he; exact (lowerBit_e x).mp he
      obtain ⟨hX, hx0⟩ := peekR_some hx
      obtain ⟨hsplit, hsg⟩ := sign_split X.tail
      obtain ⟨hrun, hrunOK, hstop⟩ := takeRun_spec false (afterSign X.tail)
      simp only [hx, Option.getD_some] at h
      by_cases hd : hasDigit (takeRun false (afterSign X.tail)).1 = false
      · simp [hd] at h
      · have hd' : hasDigit (takeRun false (afterSign X.tail)).1 = true := by simpa using hd
        simp only [hd', Bool.true_eq_false, if_false] at h
        rw [refFinish_some] at h
        obtain ⟨htok, ht, hR, _, hsep, hid⟩ := h
        have hcont : Cont (x :: expSign X.tail ++ (takeRun false (afterSign X.tail)).1) :=
          Or.inr (Or.inr ⟨x, _, rfl, hxe⟩)
        have hs := (hsum _ hcont).mp (by simpa using hsep)
        have hdigs := (sep_exp x _ _ hxe hsg hrunOK).mp hs.2
        have hdigs' : Digs DecDigit (takeRun false (afterSign X.tail)).1 := by
          rcases hdigs with h0 | h0
          · rw [h0] at hd; simp [hasDigit] at hd
          · exact h0
        refine ⟨x :: expSign X.tail ++ (takeRun false (afterSign X.tail)).1, ⟨x, _, _, rfl, hxe, hsg, hdigs'⟩, ?_, ?_,
          htok, hs.1, ?_, ?_⟩
        · have e1 : X = .ch x :: (chs (expSign X.tail) ++ (chs (takeRun false (afterSign X.tail)).1 ++
              (takeRun false (afterSign X.tail)).2)) := by
            refine hX.trans ?_
            rw [← hrun, ← hsplit]
          rw [hR]
          refine e1.trans ?_
          simp [chs]
        · rw [ht]; simp
        · rw [hR]; exact runChR_false_dec hstop
        · rw [hR]; exact hid
    · right
      simp only [he, if_false] at h
      by_cases hj : isIdentStart o ((peekR X).map lowerBit) = true
      · simp [hj] at h
      · have hj' : isIdentStart o ((peekR X).map lowerBit) = false := by simpa using hj
        simp only [hj', Bool.false_eq_true, if_false] at h
        rw [refFinish_some] at h
        obtain ⟨htok, ht, hR, hinv, hsep, hid⟩ := h
        exact ⟨hR, ht, htok, hinv, hsum.closed.mp hsep, he, hj', hid⟩
  · rintro (⟨e, hE, hX, ht, htok, hG, h1, h2⟩ | ⟨hR, ht, htok, hinv, hG, he, hj, hid⟩)
    · obtain ⟨x, sg, ds, he, hx, hsg, hds, hpk, hsign, hrun⟩ := exp_canon o hE hX h1 h2
      have hlow : Option.map lowerBit (some x) = some 'e' := by
        simp only [Option.map_some, Option.some.injEq]; exact (lowerBit_e x).mpr hx
      unfold refExp
      simp only [hpk, hlow, if_true, Bool.not_true, Bool.false_eq_true, if_false, hrun, hsign, Option.getD_some,
        digs_hasDigit hds, Bool.true_eq_false]
      rw [refFinish_some]
      refine ⟨htok, ?_, rfl, by simp, ?_, h2⟩
      · rw [ht, he]; simp
      · have hcont : Cont (x :: sg ++ ds) := Or.inr (Or.inr ⟨x, _, rfl, hx⟩)
        have := (hsum _ hcont).mpr ⟨hG, (sep_exp x sg ds hx hsg (digs_runCh hds)).mpr (Or.inr hds)⟩
        simpa using this
    · unfold refExp
      simp only [he, if_false, hj, Bool.false_eq_true]
      rw [refFinish_some]
      exact ⟨htok, ht, hR, hinv, hsum.closed.mpr hG, hid⟩

end

section
variable (o : Oracles)

theorem runCh_dg (c : Char) (h : runCh false c = true) : c = '_' ∨ dg false c = true := by
  have := (runCh_false_iff c).mp h
  simpa [dg, DecDigit] using this

/-- the separator check over `.` and the fraction digits -/
theorem sepSum_frac {text0 : List Char} {G0 : Prop} (h0 : SepSum text0 G0) (rn : List Char)
    (hrn : ∀ c ∈ rn, runCh false c = true) :
    SepSum (text0 ++ '.' :: rn) (G0 ∧ (rn = [] ∨ Digs DecDigit rn)) := by
  intro rest hc
  have e1 : text0 ++ '.' :: rn ++ rest = text0 ++ ('.' :: (rn ++ rest)) := by simp
  rw [e1, h0 _ (Or.inr (Or.inl ⟨_, rfl⟩)),
    sepLoop_other false '.' _ '.' (by decide) (by decide) (by decide),
    sepLoop_group false rn rest (fun c hc' => runCh_dg c (hrn c hc')) hc.stops, dgFalse_eq]
  constructor
  · rintro ⟨a, b, c⟩; exact ⟨⟨a, b⟩, c⟩
  · rintro ⟨⟨a, b⟩, c⟩; exact ⟨a, b, c⟩

/-- what may follow a fraction or an integer when no exponent follows -/
def NoExpAfter (y : Option Char) : Prop :=
  y.map lowerBit ≠ some 'e' ∧ isIdentStart o (y.map lowerBit) = false

theorem lowerE_not_run {y : Option Char} {x : Char} (hy : y = some x) (hx : x = 'e' ∨ x = 'E') :
    runChR false y = false := by
  subst hy; rcases hx with h | h <;> subst h <;> decide

/-- **the fraction stage** (entered after the `.`) -/
theorem refFrac_some (tok0 : Tok) (hasInv : Bool) (text0 : List Char) (G0 : Prop) (h0 : SepSum text0 G0)
    (X : List Src) (tok : Tok) (t : List Char) (R : List Src) :
    refTail o tok0 true true hasInv (text0 ++ ['.']) X = some (tok, t, R) ↔
      ∃ ds e, (ds = [] ∨ Digs DecDigit ds) ∧ (e = [] ∨ ExpPart e) ∧ X = chs (ds ++ e) ++ R ∧
        t = text0 ++ '.' :: ds ++ e ∧ tok = .numeric ∧ G0 ∧
        isDecimalR (peekR R) = false ∧ isIdentStart o (peekR R) = false ∧ (e = [] → NoExpAfter o (peekR R)) := by
  unfold refTail
  simp only [if_true]
  obtain ⟨hrun, hrunOK, hstop⟩ := takeRun_spec false X
  have hsum := sepSum_frac h0 (takeRun false X).1 hrunOK
  have htext : text0 ++ ['.'] ++ (takeRun false X).1 = text0 ++ '.' :: (takeRun false X).1 := by simp
  rw [htext, refExp_some o .numeric false _ _ hsum]
  constructor
  · rintro (⟨e, hE, hX, ht, htok, hG, h1, h2⟩ | ⟨hR, ht, htok, _, hG, he, hj, hid⟩)
    · refine ⟨(takeRun false X).1, e, hG.2, Or.inr hE, ?_, ?_, htok, hG.1, h1, h2, ?_⟩
      · refine hrun.trans ?_
        rw [hX]; simp [chs]
      · rw [ht] <;> simp
      · intro h; obtain ⟨x, sg, ds, h', _⟩ := hE; rw [h'] at h; cases h
    · refine ⟨(takeRun false X).1, [], hG.2, Or.inl rfl, ?_, ?_, htok, hG.1, ?_, ?_, ?_⟩
      · rw [hR]; simpa using hrun
      · rw [ht] <;> simp
      · rw [hR]; exact runChR_false_dec hstop
      · rw [hR]; exact hid
      · intro _; rw [hR]; exact ⟨he, hj⟩
  · rintro ⟨ds, e, hds, he, hX, ht, htok, hG, h1, h2, h3⟩
    have hdsrun : ∀ c ∈ ds, runCh false c = true := by
      rcases hds with h | h
      · subst h; intro c hc; simp at hc
      · exact digs_runCh h
    rcases he with he | he
    · subst he
      have hu := takeRun_unique false ds R hdsrun (runChR_false_of _ o h1 h2)
      have hX' : X = chs ds ++ R := by simpa using hX
      rw [← hX'] at hu
      right
      rw [hu]
      exact ⟨rfl, (by rw [ht] <;> simp), htok, by simp, ⟨hG, hds⟩, (h3 rfl).1, (h3 rfl).2, h2⟩
    · obtain ⟨x, sg, es, he', hx, _⟩ := id he
      have hx0 : x.toNat ≠ 0 := by rcases hx with h | h <;> subst h <;> decide
      have hX' : X = chs ds ++ (chs e ++ R) := by rw [hX]; simp [chs]
      have hpk : peekR (chs e ++ R) = some x := by rw [he']; exact peekR_chs_cons x _ R hx0
      have hu := takeRun_unique false ds (chs e ++ R) hdsrun (lowerE_not_run hpk hx)
      rw [← hX'] at hu
      left
      rw [hu]
      exact ⟨e, he, rfl, (by rw [ht] <;> simp), htok, ⟨hG, hds⟩, h1, h2⟩

/-- a decimal number after its integer part `i`: `.` and fraction, or directly the exponent stage -/
def refPlain (i : List Char) (Y : List Src) : Option (Tok × List Char × List Src) :=
  if peekR Y = some '.' then refTail o .int true true false (i ++ ['.']) Y.tail
  else refTail o .int false true false i Y

/-- **the stage after the integer part** -/
theorem refPlain_some (i : List Char) (Gi : Prop) (hi : SepSum i Gi) (Y : List Src)
    (hY : runChR false (peekR Y) = false) (tok : Tok) (t : List Char) (R : List Src) :
    refPlain o i Y = some (tok, t, R) ↔
      ∃ f e, (f = [] ∨ FracPart f) ∧ (e = [] ∨ ExpPart e) ∧ Y = chs (f ++ e) ++ R ∧ t = i ++ f ++ e ∧
        tok = (if f = [] ∧ e = [] then Tok.int else Tok.numeric) ∧ Gi ∧
        isDecimalR (peekR R) = false ∧ isIdentStart o (peekR R) = false ∧ (e = [] → NoExpAfter o (peekR R)) ∧
        (f = [] → e = [] → peekR R ≠ some '.') := by
  unfold refPlain
  by_cases hdot : peekR Y = some '.'
  · obtain ⟨hYd, _⟩ := peekR_some hdot
    simp only [hdot, if_true]
    rw [refFrac_some o .int false i Gi hi]
    constructor
    · rintro ⟨ds, e, hds, he, hX, ht, htok, hG, h1, h2, h3⟩
      refine ⟨'.' :: ds, e, Or.inr ⟨ds, rfl, hds⟩, he, ?_, (by rw [ht] <;> simp), by simp [htok], hG, h1, h2, h3, ?_⟩
      · rw [hYd, hX]; simp [chs]
      · intro h; cases h
    · rintro ⟨f, e, hf, he, hX, ht, htok, hG, h1, h2, h3, h4⟩
      -- the source starts with `.`, so the fraction is present
      rcases hf with hf | ⟨ds, hf, hds⟩
      · exfalso
        subst hf
        rcases he with he | ⟨x, sg, es, he, hx, _⟩
        · subst he
          have : Y = R := by simpa [chs] using hX
          rw [this] at hdot
          exact h4 rfl rfl hdot
        · have hx0 : x.toNat ≠ 0 := by rcases hx with h | h <;> subst h <;> decide
          rw [hX, he] at hdot
          have hpk : peekR (chs ([] ++ (x :: sg ++ es)) ++ R) = some x := peekR_chs_cons x (sg ++ es) R hx0
          rw [hpk] at hdot
          injection hdot with hdot
          rcases hx with h | h <;> subst h <;> revert hdot <;> decide
      · refine ⟨ds, e, hds, he, ?_, (by rw [ht, hf] <;> simp), ?_, hG, h1, h2, h3⟩
        · rw [hX, hf]; simp [chs]
        · rw [htok, hf]; simp
  · simp only [hdot, if_false]
    unfold refTail
    simp only [Bool.false_eq_true, if_false]
    rw [refExp_some o .int false i Gi hi]
    constructor
    · rintro (⟨e, hE, hX, ht, htok, hG, h1, h2⟩ | ⟨hR, ht, htok, _, hG, he, hj, hid⟩)
      · refine ⟨[], e, Or.inl rfl, Or.inr hE, by simpa using hX, (by rw [ht] <;> simp), ?_, hG, h1, h2, ?_, ?_⟩
        · have : e ≠ [] := by obtain ⟨x, sg, ds, h', _⟩ := hE; rw [h']; simp
          simp [htok, this]
        · intro h; obtain ⟨x, sg, ds, h', _⟩ := hE; rw [h'] at h; cases h
        · intro _ h; obtain ⟨x, sg, ds, h', _⟩ := hE; rw [h'] at h; cases h
      · refine ⟨[], [], Or.inl rfl, Or.inl rfl, by rw [hR]; simp [chs], (by rw [ht] <;> simp), by simp [htok], hG, ?_, ?_,
          ?_, ?_⟩
        · rw [hR]; exact runChR_false_dec hY
        · rw [hR]; exact hid
        · intro _; rw [hR]; exact ⟨he, hj⟩
        · intro _ _; rw [hR]; exact hdot
    · rintro ⟨f, e, hf, he, hX, ht, htok, hG, h1, h2, h3, h4⟩
      rcases hf with hf | ⟨ds, hf, _⟩
      · subst hf
        rcases he with he | he
        · subst he
          right
          have hYR : Y = R := by simpa [chs] using hX
          refine ⟨hYR.symm, (by rw [ht] <;> simp), by simp [htok], by simp, hG, ?_, ?_, ?_⟩
          · rw [hYR]; exact (h3 rfl).1
          · rw [hYR]; exact (h3 rfl).2
          · rw [hYR]; exact h2
        · left
          have : e ≠ [] := by obtain ⟨x, sg, ds, h', _⟩ := id he; rw [h']; simp
          exact ⟨e, he, by simpa using hX, (by rw [ht] <;> simp), by simp [htok, this], hG, h1, h2⟩
      · exfalso
        apply hdot
        rw [hX, hf]
        exact peekR_chs_cons '.' _ R (by decide)

end

/-! ### Layer 2: pieces of a decimal number and the grammar -/

/-- the kind of the decimal number with integer part `i`, fraction `f`, exponent `e` -/
def kindOf (i f e : List Char) : NumKind :=
  if e ≠ [] then .exp else if f ≠ [] then .frac else if i = ['0'] then .zero else .dec

theorem expPart_ne_nil {e : List Char} (h : ExpPart e) : e ≠ [] := by
  obtain ⟨x, sg, ds, h', _⟩ := h; rw [h']; simp

theorem fracPart_ne_nil {f : List Char} (h : FracPart f) : f ≠ [] := by
  obtain ⟨ds, h', _⟩ := h; rw [h']; simp

theorem intPart_not_zero {i : List Char} (h : Digs DecDigit i ∧ i.head? ≠ some '0') : i ≠ ['0'] := by
  intro h0; rw [h0] at h; exact h.2 rfl

/-- from the pieces to the grammar -/
theorem plain_build (i f e : List Char)
    (hi : IntPart i ∨ (i = [] ∧ ∃ ds, f = '.' :: ds ∧ Digs DecDigit ds)) (hf : f = [] ∨ FracPart f)
    (he : e = [] ∨ ExpPart e) : NumForm (kindOf i f e) (i ++ f ++ e) := by
  have hfrac : f ≠ [] → NumForm .frac (i ++ f) := by
    intro hne
    rcases hi with hi | ⟨hi, ds, hf', hds⟩
    · rcases hf with hf | hf
      · exact absurd hf hne
      · exact NumForm.frac hi hf
    · subst hi; subst hf'; exact NumForm.dotFrac hds
  rcases he with he | he
  · subst he
    by_cases hfn : f = []
    · subst hfn
      rcases hi with hi | ⟨_, ds, hf', _⟩
      · rcases hi with hi | hi
        · subst hi; simp only [kindOf]; exact NumForm.zero
        · have := intPart_not_zero hi
          simp only [kindOf, ne_eq, not_true_eq_false, if_false, this, List.append_nil]
          exact NumForm.dec hi.1 hi.2
      · cases hf'
    · have := hfrac hfn
      simpa [kindOf, hfn] using this
  · have hen := expPart_ne_nil he
    by_cases hfn : f = []
    · subst hfn
      rcases hi with hi | ⟨_, ds, hf', _⟩
      · have := NumForm.expInt hi he
        simpa [kindOf, hen] using this
      · cases hf'
    · have := NumForm.expFrac (hfrac hfn) he
      simpa [kindOf, hen] using this

/-- from the grammar to the pieces -/
theorem plain_normal {k : NumKind} {t : List Char} (h : NumForm k t) (hk : k ≠ .hex ∧ k ≠ .lowRadix) :
    ∃ i f e, t = i ++ f ++ e ∧ (IntPart i ∨ (i = [] ∧ ∃ ds, f = '.' :: ds ∧ Digs DecDigit ds)) ∧
      (f = [] ∨ FracPart f) ∧ (e = [] ∨ ExpPart e) ∧ k = kindOf i f e := by
  have hfrac : ∀ {m : List Char}, NumForm .frac m → ∃ i f, m = i ++ f ∧
      (IntPart i ∨ (i = [] ∧ ∃ ds, f = '.' :: ds ∧ Digs DecDigit ds)) ∧ FracPart f := by
    intro m hm
    cases hm with
    | frac hi hf => exact ⟨_, _, rfl, Or.inl hi, hf⟩
    | dotFrac hds => exact ⟨[], _, rfl, Or.inr ⟨rfl, _, rfl, hds⟩, ⟨_, rfl, Or.inr hds⟩⟩
  cases h with
  | zero => exact ⟨['0'], [], [], rfl, Or.inl (Or.inl rfl), Or.inl rfl, Or.inl rfl, by simp [kindOf]⟩
  | dec hd hh =>
    refine ⟨_, [], [], by simp, Or.inl (Or.inr ⟨hd, hh⟩), Or.inl rfl, Or.inl rfl, ?_⟩
    simp [kindOf, intPart_not_zero ⟨hd, hh⟩]
  | hex _ _ => exact absurd rfl hk.1
  | oct _ _ => exact absurd rfl hk.2
  | bin _ _ => exact absurd rfl hk.2
  | frac hi hf =>
    exact ⟨_, _, [], by simp, Or.inl hi, Or.inr hf, Or.inl rfl, by simp [kindOf, fracPart_ne_nil hf]⟩
  | dotFrac hds =>
    exact ⟨[], _, [], by simp, Or.inr ⟨rfl, _, rfl, hds⟩, Or.inr ⟨_, rfl, Or.inr hds⟩, Or.inl rfl, by simp [kindOf]⟩
  | expInt hi he =>
    exact ⟨_, [], _, by simp, Or.inl hi, Or.inl rfl, Or.inr he, by simp [kindOf, expPart_ne_nil he]⟩
  | expFrac hm he =>
    obtain ⟨i, f, rfl, hi, hf⟩ := hfrac hm
    exact ⟨i, f, _, rfl, hi, Or.inr hf, Or.inr he, by simp [kindOf, expPart_ne_nil he]⟩

section
variable (o : Oracles)

/-- the follower rule in terms of the pieces -/
theorem follower_kindOf (i f e : List Char) (y : Option Char) :
    Follower o (kindOf i f e) y ↔
      isDecimalR y = false ∧ isIdentStart o y = false ∧ (e = [] → NoExpAfter o y) ∧
      (f = [] → e = [] → y ≠ some '.') ∧
      (i = ['0'] → f = [] → e = [] →
        y.map lowerBit ≠ some 'x' ∧ y.map lowerBit ≠ some 'o' ∧ y.map lowerBit ≠ some 'b') := by
  unfold kindOf NoExpAfter
  by_cases he : e = []
  · by_cases hf : f = []
    · by_cases hi : i = ['0']
      · simp only [he, hf, hi, ne_eq, not_true_eq_false, if_false, if_true, Follower, forall_const]
        constructor
        · rintro ⟨a, b, c, d, e', f', g, h⟩; exact ⟨a, b, ⟨c, d⟩, e', f', g, h⟩
        · rintro ⟨a, b, ⟨c, d⟩, e', f', g, h⟩; exact ⟨a, b, c, d, e', f', g, h⟩
      · simp only [he, hf, hi, ne_eq, not_true_eq_false, if_false, Follower, forall_const, false_implies,
          and_true]
        constructor
        · rintro ⟨a, b, c, d, e'⟩; exact ⟨a, b, ⟨c, d⟩, e'⟩
        · rintro ⟨a, b, ⟨c, d⟩, e'⟩; exact ⟨a, b, c, d, e'⟩
    · simp only [he, hf, ne_eq, not_true_eq_false, if_false, not_false_eq_true, if_true, Follower, forall_const,
        false_implies, and_true, implies_true]
  · simp [he, Follower]

/-- `0` alone in front of `.`, `e`, `E` or nothing: no underscore to check -/
theorem sepSum_zero : SepSum ['0'] True := by
  intro rest hc
  have hgen : invalidSep (['0'] ++ rest) = invalidSepLoop false rest '.' := by
    rcases hc with h | ⟨r, h⟩ | ⟨x, r, h, hx⟩
    · subst h; simp [invalidSep, invalidSepLoop, isDecimal]
    · subst h
      simp only [List.cons_append, List.nil_append, invalidSep, show lowerBit '.' = '.' from by decide]
      simp [invalidSepLoop, isDecimal]
    · subst h
      have hl : lowerBit x = 'e' := (lowerBit_e x).mpr hx
      have hx1 : x ≠ '_' ∧ isDecimal x = false := by rcases hx with h | h <;> subst h <;> exact ⟨by decide, by decide⟩
      simp only [List.cons_append, List.nil_append, invalidSep, hl]
      simp [invalidSepLoop, isDecimal, hx1.1]
  rw [hgen]; simp

/-- an integer part that starts with a non-zero digit -/
theorem sepSum_dec (c : Char) (hc : isDecimal c = true) (h0 : c ≠ '0') (rn : List Char)
    (hrn : ∀ x ∈ rn, runCh false x = true) : SepSum (c :: rn) (Digs DecDigit (c :: rn)) := by
  intro rest hcont
  have hplain : invalidSep (c :: rn ++ rest) = invalidSepLoop false (c :: rn ++ rest) '.' := by
    unfold invalidSep
    split
    · rename_i c1 r heq
      simp only [List.cons_append] at heq
      injection heq with h _
      exact absurd h h0
    · rfl
  rw [hplain, sepLoop_group false (c :: rn) rest (by
      intro x hx
      rcases List.mem_cons.mp hx with rfl | hx
      · right; simp [dg, hc]
      · exact runCh_dg x (hrn x hx)) hcont.stops, dgFalse_eq]
  simp

/-- nothing before the `.` -/
theorem sepSum_nil : SepSum [] True := by
  intro rest hc
  have hplain : invalidSep rest = invalidSepLoop false rest '.' := by
    rcases hc with h | ⟨r, h⟩ | ⟨x, r, h, hx⟩
    · subst h; rfl
    · subst h; rfl
    · subst h
      unfold invalidSep
      split
      · rename_i c1 r' heq
        injection heq with h _
        rcases hx with h' | h' <;> subst h' <;> cases h
      · rfl
  simp [hplain]

end

section
variable (o : Oracles)

/-- **what `scanNumber` accepts**, in terms of the grammar: the source `X` after the first character
    `c` begins with the rest `w` of a number text `t = c :: w` of some kind `k`, and the rune after it
    satisfies the follower rule of `k` — or `t` is a loose radix text and `.` follows directly -/
def NumAccept (c : Char) (X : List Src) (tok : Tok) (t : List Char) (R : List Src) : Prop :=
  ∃ w, X = chs w ++ R ∧ t = c :: w ∧
    ((∃ k, NumForm k t ∧ tok = tokOf k ∧ Follower o k (peekR R)) ∨
     (tok = .int ∧ LooseRadix t ∧ peekR R = some '.'))

theorem tokOf_kindOf (i f e : List Char) :
    tokOf (kindOf i f e) = (if f = [] ∧ e = [] then Tok.int else Tok.numeric) := by
  unfold kindOf
  by_cases he : e = [] <;> by_cases hf : f = [] <;> by_cases hi : i = ['0'] <;> simp [he, hf, hi, tokOf]

theorem radix_head {k : NumKind} {t : List Char} (h : NumForm k t) (hk : k = .hex ∨ k = .lowRadix) :
    ∃ x r, t = '0' :: x :: r ∧ (lowerBit x = 'x' ∨ lowerBit x = 'o' ∨ lowerBit x = 'b') := by
  cases h with
  | hex hx _ => exact ⟨_, _, rfl, Or.inl ((lowerBit_x _).mpr hx)⟩
  | oct hx _ => exact ⟨_, _, rfl, Or.inr (Or.inl ((lowerBit_o _).mpr hx))⟩
  | bin hx _ => exact ⟨_, _, rfl, Or.inr (Or.inr ((lowerBit_b _).mpr hx))⟩
  | zero => rcases hk with h | h <;> cases h
  | dec _ _ => rcases hk with h | h <;> cases h
  | frac _ _ => rcases hk with h | h <;> cases h
  | dotFrac _ => rcases hk with h | h <;> cases h
  | expInt _ _ => rcases hk with h | h <;> cases h
  | expFrac _ _ => rcases hk with h | h <;> cases h

/-- the rune after the integer part of a decimal number does not continue the digit run -/
theorem stop_pieces (f e : List Char) (R : List Src) (hf : f = [] ∨ FracPart f) (he : e = [] ∨ ExpPart e)
    (h1 : isDecimalR (peekR R) = false) (h2 : isIdentStart o (peekR R) = false) :
    runChR false (peekR (chs (f ++ e) ++ R)) = false := by
  rcases hf with hf | ⟨ds, hf, _⟩
  · subst hf
    rcases he with he | ⟨x, sg, ds, he, hx, _⟩
    · subst he; simpa [chs] using runChR_false_of _ o h1 h2
    · subst he
      have hx0 : x.toNat ≠ 0 := by rcases hx with h | h <;> subst h <;> decide
      have hpk : peekR (chs ([] ++ (x :: sg ++ ds)) ++ R) = some x := peekR_chs_cons x (sg ++ ds) R hx0
      exact lowerE_not_run hpk hx
  · subst hf
    have hpk : peekR (chs ('.' :: ds ++ e) ++ R) = some '.' := peekR_chs_cons '.' (ds ++ e) R (by decide)
    rw [hpk]; decide

theorem refDecimal_eq (c : Char) (X : List Src) :
    refDecimal o c X = refPlain o (c :: (takeRun false X).1) (takeRun false X).2 := by
  unfold refDecimal refPlain
  simp

/-- **Layer 2 for a number that starts with a non-zero digit** -/
theorem refDecimal_some (c : Char) (hc : isDecimal c = true) (h0 : c ≠ '0') (X : List Src) (tok : Tok)
    (t : List Char) (R : List Src) :
    refDecimal o c X = some (tok, t, R) ↔ NumAccept o c X tok t R := by
  obtain ⟨hrun, hrunOK, hstop⟩ := takeRun_spec false X
  constructor
  · intro h
    rw [refDecimal_eq, refPlain_some o _ _ (sepSum_dec c hc h0 _ hrunOK) _ hstop] at h
    obtain ⟨f, e, hf, he, hY, ht, htok, hG, h1, h2, h3, h4⟩ := h
    have hi : IntPart (c :: (takeRun false X).1) := Or.inr ⟨hG, by simpa using fun h => h0 h⟩
    refine ⟨(takeRun false X).1 ++ f ++ e, ?_, by rw [ht]; simp, Or.inl ⟨kindOf (c :: (takeRun false X).1) f e, ?_, ?_, ?_⟩⟩
    · refine hrun.trans ?_
      rw [hY]; simp [chs]
    · rw [ht]; exact plain_build _ f e (Or.inl hi) hf he
    · rw [htok, tokOf_kindOf]
    · rw [follower_kindOf]
      refine ⟨h1, h2, h3, h4, ?_⟩
      intro h; injection h with h _; exact absurd h h0
  · rintro ⟨w, hX, ht, hacc⟩
    rcases hacc with ⟨k, hform, htok, hfol⟩ | ⟨_, ⟨x, d, rn, hl, _⟩, _⟩
    · have hk : k ≠ .hex ∧ k ≠ .lowRadix := by
        constructor <;> intro hk
        · obtain ⟨x, r, hr, _⟩ := radix_head hform (Or.inl hk)
          rw [ht] at hr; injection hr with h _; exact h0 h
        · obtain ⟨x, r, hr, _⟩ := radix_head hform (Or.inr hk)
          rw [ht] at hr; injection hr with h _; exact h0 h
      obtain ⟨i, f, e, hsplit, hi, hf, he, hkind⟩ := plain_normal hform hk
      rw [hkind, follower_kindOf] at hfol
      obtain ⟨h1, h2, h3, h4, _⟩ := hfol
      -- the integer part starts with `c`
      have hi' : ∃ r', i = c :: r' ∧ Digs DecDigit i := by
        rcases hi with (hi | hi) | ⟨hi, ds, hf', _⟩
        · subst hi; rw [ht] at hsplit; simp at hsplit; exact absurd hsplit.1 h0
        · obtain ⟨d, r', hi', _⟩ := id hi.1
          refine ⟨r', ?_, hi.1⟩
          rw [hi', ht] at hsplit
          simp at hsplit
          rw [hi', hsplit.1]
        · subst hi; subst hf'
          rw [ht] at hsplit; simp at hsplit
          exfalso; rw [hsplit.1] at hc; revert hc; decide
      obtain ⟨r', hir, hdigs⟩ := hi'
      have hw : w = r' ++ f ++ e := by
        rw [ht, hir] at hsplit; simp at hsplit; simpa using hsplit
      have hr'run : ∀ x ∈ r', runCh false x = true := fun x hx =>
        digs_runCh hdigs x (by rw [hir]; simp [hx])
      have hX' : X = chs r' ++ (chs (f ++ e) ++ R) := by rw [hX, hw]; simp [chs]
      have hu := takeRun_unique false r' (chs (f ++ e) ++ R) hr'run (stop_pieces o f e R hf he h1 h2)
      rw [← hX'] at hu
      rw [refDecimal_eq, hu]
      have hstop' : runChR false (peekR (chs (f ++ e) ++ R)) = false := stop_pieces o f e R hf he h1 h2
      rw [refPlain_some o _ _ (sepSum_dec c hc h0 _ hr'run) _ hstop']
      refine ⟨f, e, hf, he, rfl, ?_, ?_, ?_, h1, h2, h3, h4⟩
      · rw [ht, hw]; simp
      · rw [htok, hkind, tokOf_kindOf]
      · rw [← hir]; exact hdigs
    · exfalso
      rw [ht] at hl; injection hl with h _; exact h0 h

end

section
variable (o : Oracles)

theorem isHexR_not_e {y : Option Char} (h : isHexR y = false) : y.map lowerBit ≠ some 'e' := by
  cases y with
  | none => simp
  | some c =>
    simp only [Option.map_some, ne_eq, Option.some.injEq]
    intro hl
    rcases (lowerBit_e c).mp hl with h' | h' <;> subst h' <;> revert h <;> decide

theorem runChR_true_iff (y : Option Char) : runChR true y = false ↔ isHexR y = false ∧ y ≠ some '_' := by
  cases y with
  | none => simp [runChR, isHexR]
  | some c =>
    simp only [runChR, runCh, if_true, Bool.or_eq_false_iff, decide_eq_false_iff_not, isHexR, ne_eq,
      Option.some.injEq]
    constructor
    · rintro ⟨a, b⟩; exact ⟨b, a⟩
    · rintro ⟨a, b⟩; exact ⟨b, a⟩

theorem runChR_false_iff (y : Option Char) : runChR false y = false ↔ isDecimalR y = false ∧ y ≠ some '_' := by
  cases y with
  | none => simp [runChR, isDecimalR]
  | some c =>
    simp only [runChR, runCh, Bool.false_eq_true, if_false, Bool.or_eq_false_iff, decide_eq_false_iff_not,
      isDecimalR, ne_eq, Option.some.injEq]
    constructor
    · rintro ⟨a, b⟩; exact ⟨b, a⟩
    · rintro ⟨a, b⟩; exact ⟨b, a⟩

theorem not_underscore_of_ident {y : Option Char} (h : isIdentStart o y = false) : y ≠ some '_' := by
  intro hy; subst hy; simp [isIdentStart] at h

/-- the separator check of a radix literal -/
theorem invalidSep_radix (x : Char) (hx : lowerBit x = 'x' ∨ lowerBit x = 'o' ∨ lowerBit x = 'b') (rn : List Char) :
    invalidSep ('0' :: x :: rn) = invalidSepLoop (decide (lowerBit x = 'x')) rn '0' := by
  unfold invalidSep
  have : (decide (lowerBit x = 'x') || decide (lowerBit x = 'o') || decide (lowerBit x = 'b')) = true := by
    rcases hx with h | h | h <;> simp [h]
  simp only [this, if_true]

/-- the parameters of the three radix forms -/
def RadixPar (x : Char) (hex : Bool) (maxCh : Nat) : Prop :=
  (lowerBit x = 'x' ∧ hex = true ∧ maxCh = 64) ∨ (lowerBit x = 'o' ∧ hex = false ∧ maxCh = 56) ∨
  (lowerBit x = 'b' ∧ hex = false ∧ maxCh = 50)

theorem RadixPar.hex_eq {x : Char} {hex : Bool} {maxCh : Nat} (h : RadixPar x hex maxCh) :
    hex = decide (lowerBit x = 'x') := by
  rcases h with ⟨h1, h2, _⟩ | ⟨h1, h2, _⟩ | ⟨h1, h2, _⟩
  · simp [h1, h2]
  · rw [h1, h2]; decide
  · rw [h1, h2]; decide

theorem RadixPar.letter {x : Char} {hex : Bool} {maxCh : Nat} (h : RadixPar x hex maxCh) :
    lowerBit x = 'x' ∨ lowerBit x = 'o' ∨ lowerBit x = 'b' := by
  rcases h with ⟨h1, _⟩ | ⟨h1, _⟩ | ⟨h1, _⟩
  · exact Or.inl h1
  · exact Or.inr (Or.inl h1)
  · exact Or.inr (Or.inr h1)

/-- a text `0`, radix letter, … is of no decimal kind -/
theorem radix_not_plain {k : NumKind} {x : Char} {rn : List Char} (h : NumForm k ('0' :: x :: rn))
    (hx : lowerBit x = 'x' ∨ lowerBit x = 'o' ∨ lowerBit x = 'b') : k = .hex ∨ k = .lowRadix := by
  by_cases hk : k = .hex ∨ k = .lowRadix
  · exact hk
  · exfalso
    have hk' : k ≠ .hex ∧ k ≠ .lowRadix := ⟨fun h => hk (Or.inl h), fun h => hk (Or.inr h)⟩
    obtain ⟨i, f, e, hsplit, hi, hf, he, _⟩ := plain_normal h hk'
    have hxdot : x ≠ '.' := by intro h; subst h; revert hx; decide
    have hxe : ¬ (x = 'e' ∨ x = 'E') := by
      intro h'; have := (lowerBit_e x).mpr h'
      rw [this] at hx; revert hx; decide
    rcases hi with (hi | hi) | ⟨hi, ds, hf', _⟩
    · subst hi
      rcases hf with hf | ⟨ds, hf, _⟩
      · subst hf
        rcases he with he | ⟨x', sg, ds, he, hx', _⟩
        · subst he; simp at hsplit
        · subst he; simp at hsplit; exact hxe (hsplit.1 ▸ hx')
      · subst hf; simp at hsplit; exact hxdot hsplit.1
    · obtain ⟨d, r', hi', _⟩ := id hi.1
      rw [hi'] at hsplit hi
      simp at hsplit
      exact hi.2 (by rw [← hsplit.1]; rfl)
    · subst hi; subst hf'; simp at hsplit

/-- **Layer 2 for the radix literals** (`X` is the source after the prefix letter `x`) -/
theorem refRadix_some (x : Char) (hex : Bool) (maxCh : Nat) (hpar : RadixPar x hex maxCh) (X : List Src)
    (tok : Tok) (t : List Char) (R : List Src) :
    refRadix o hex maxCh ['0', x] X = some (tok, t, R) ↔
      ∃ rn, X = chs rn ++ R ∧ t = '0' :: x :: rn ∧
        ((∃ k, NumForm k t ∧ tok = tokOf k ∧ Follower o k (peekR R)) ∨
         (tok = .int ∧ LooseRadix t ∧ peekR R = some '.')) := by
  have hx := hpar.letter
  have hhex := hpar.hex_eq
  obtain ⟨hrun, hrunOK, hstop⟩ := takeRun_spec hex X
  constructor
  · intro h
    unfold refRadix at h
    by_cases hu : peekR X = some '_'
    · simp [hu] at h
    · simp only [hu, if_false] at h
      by_cases hd : hasDigit (takeRun hex X).1 = false
      · simp [hd] at h
      · have hd' : hasDigit (takeRun hex X).1 = true := by simpa using hd
        simp only [hd', Bool.true_eq_false, if_false] at h
        -- the run starts with a digit
        obtain ⟨d, rn', hrn⟩ : ∃ d rn', (takeRun hex X).1 = d :: rn' := by
          cases hr : (takeRun hex X).1 with
          | nil => rw [hr] at hd'; simp [hasDigit] at hd'
          | cons d rn' => exact ⟨d, rn', rfl⟩
        have hd0 : d.toNat ≠ 0 := runCh_ne_zero (hrunOK d (by rw [hrn]; simp))
        have hdu : d ≠ '_' := by
          intro hdu
          apply hu
          rw [hrun, hrn, hdu]
          exact peekR_chs_cons '_' _ _ (by decide)
        by_cases hdot : peekR (takeRun hex X).2 = some '.'
        · simp only [hdot, if_true, Option.some.injEq, Prod.mk.injEq] at h
          obtain ⟨htok, ht, hR⟩ := h
          refine ⟨(takeRun hex X).1, by rw [← hR]; exact hrun, by rw [← ht]; simp, Or.inr ⟨htok.symm, ?_, by rw [← hR]; exact hdot⟩⟩
          refine ⟨x, d, rn', by rw [← ht, hrn]; simp, hx, hdu, ?_⟩
          intro c hc
          rw [← hhex]
          exact hrunOK c (by rw [hrn]; exact hc)
        · simp only [hdot, if_false] at h
          unfold refTail refExp at h
          simp only [Bool.false_eq_true, if_false, Bool.not_false, if_true] at h
          by_cases he : (peekR (takeRun hex X).2).map lowerBit = some 'e'
          · simp [he] at h
          · simp only [he, if_false] at h
            by_cases hj : isIdentStart o ((peekR (takeRun hex X).2).map lowerBit) = true
            · simp [hj] at h
            · have hj' : isIdentStart o ((peekR (takeRun hex X).2).map lowerBit) = false := by simpa using hj
              simp only [hj', Bool.false_eq_true, if_false] at h
              rw [refFinish_some] at h
              obtain ⟨htok, ht, hR, hinv, hsep, hid⟩ := h
              have ht' : t = '0' :: x :: (takeRun hex X).1 := by rw [ht]; simp
              rw [show ['0', x] ++ (takeRun hex X).1 = '0' :: x :: (takeRun hex X).1 from rfl,
                invalidSep_radix x hx, ← hhex] at hsep
              have hrn' : ∀ c ∈ (takeRun hex X).1, c = '_' ∨ dg hex c = true := by
                intro c hc
                have := hrunOK c hc
                rw [runCh_eq] at this
                simpa using this
              have hsep' := (sepLoop_group_prefix hex (takeRun hex X).1 [] hrn' (fun _ _ h => by cases h)
                (by rw [hrn]; simp) (by rw [hrn]; simpa using hdu)).mp (by simpa using hsep)
              refine ⟨(takeRun hex X).1, by rw [hR]; exact hrun, ht', Or.inl ?_⟩
              rw [hR]
              rcases hpar with ⟨h1, h2, _⟩ | ⟨h1, h2, h3⟩ | ⟨h1, h2, h3⟩
              · subst h2
                rw [dgTrue_eq] at hsep'
                refine ⟨.hex, by rw [ht']; exact NumForm.hex ((lowerBit_x x).mp h1) hsep'.1, htok, ?_⟩
                exact ⟨((runChR_true_iff _).mp hstop).1, hid, hj', hdot⟩
              · subst h2; subst h3
                rw [dgFalse_eq] at hsep'
                have hb : badDigit 56 (takeRun false X).1 = false := by
                  cases hb : badDigit 56 (takeRun false X).1 with
                  | false => rfl
                  | true => exact absurd ⟨rfl, by simp [hb]⟩ hinv
                refine ⟨.lowRadix, by rw [ht']; exact NumForm.oct ((lowerBit_o x).mp h1) ((digs_low_iff 56 _).mpr ⟨hsep'.1, hb⟩),
                  htok, ?_⟩
                exact ⟨((runChR_false_iff _).mp hstop).1, hid, he, hj', hdot⟩
              · subst h2; subst h3
                rw [dgFalse_eq] at hsep'
                have hb : badDigit 50 (takeRun false X).1 = false := by
                  cases hb : badDigit 50 (takeRun false X).1 with
                  | false => rfl
                  | true => exact absurd ⟨rfl, by simp [hb]⟩ hinv
                refine ⟨.lowRadix, by rw [ht']; exact NumForm.bin ((lowerBit_b x).mp h1) ((digs_low_iff 50 _).mpr ⟨hsep'.1, hb⟩),
                  htok, ?_⟩
                exact ⟨((runChR_false_iff _).mp hstop).1, hid, he, hj', hdot⟩
  · rintro ⟨rn, hX, ht, hacc⟩
    -- in every case the run is `rn`
    have key : ∀ (d : Char) (rn' : List Char), rn = d :: rn' → d ≠ '_' → (∀ c ∈ rn, runCh hex c = true) →
        runChR hex (peekR R) = false →
        refRadix o hex maxCh ['0', x] X =
          (if peekR R = some '.' then some (.int, '0' :: x :: rn, R)
           else refTail o .int false false (!hex && badDigit maxCh rn) ('0' :: x :: rn) R) := by
      intro d rn' hrn hdu hall hst
      have hu := takeRun_unique hex rn R hall hst
      rw [← hX] at hu
      have hd0 : d.toNat ≠ 0 := runCh_ne_zero (hall d (by rw [hrn]; simp))
      have hpk : peekR X = some d := by rw [hX, hrn]; exact peekR_chs_cons d _ _ hd0
      have hne : peekR X ≠ some '_' := by rw [hpk]; intro h; injection h with h; exact hdu h
      have hhd : hasDigit rn = true := by rw [hrn]; simp [hasDigit, hdu]
      unfold refRadix
      simp only [hne, if_false, hu, hhd, Bool.true_eq_false]
      rfl
    rcases hacc with ⟨k, hform, htok, hfol⟩ | ⟨htok, ⟨x', d, rn', hl, _, hdu, hall⟩, hdot⟩
    · rw [ht] at hform
      have hk := radix_not_plain hform hx
      have htokint : tokOf k = .int := by rcases hk with h | h <;> subst h <;> rfl
      -- invert the form
      have hparts : ∃ d rn', rn = d :: rn' ∧ d ≠ '_' ∧ (∀ c ∈ rn, runCh hex c = true) ∧
          Digs (fun c => dg hex c = true) rn ∧ (!hex && badDigit maxCh rn) = false ∧
          runChR hex (peekR R) = false ∧ (peekR R).map lowerBit ≠ some 'e' ∧
          isIdentStart o ((peekR R).map lowerBit) = false ∧ isIdentStart o (peekR R) = false ∧
          peekR R ≠ some '.' := by
        rcases hk with hk | hk
        · subst hk
          cases hform with
          | hex hx' hds =>
            have hh : hex = true := by
              rcases hpar with ⟨_, h2, _⟩ | ⟨h1, _⟩ | ⟨h1, _⟩
              · exact h2
              · rw [(lowerBit_x x).mpr hx'] at h1; exact absurd h1 (by decide)
              · rw [(lowerBit_x x).mpr hx'] at h1; exact absurd h1 (by decide)
            subst hh
            obtain ⟨d, rn', hrn, hd, _⟩ := id hds
            obtain ⟨f1, f2, f3, f4⟩ := hfol
            have hdu : d ≠ '_' := by intro h; subst h; revert hd; unfold HexDigit; decide
            refine ⟨d, rn', hrn, hdu, ?_, by rw [dgTrue_eq]; exact hds, by simp, ?_, isHexR_not_e f1, f3, f2, f4⟩
            · intro c hc
              rcases hds.mem c hc with h | h
              · subst h; decide
              · simp only [runCh, if_true, Bool.or_eq_true, decide_eq_true_eq]; exact Or.inr h
            · exact (runChR_true_iff _).mpr ⟨f1, not_underscore_of_ident o f2⟩
        · subst hk
          cases hform with
          | oct hx' hds =>
            have hh : hex = false ∧ maxCh = 56 := by
              rcases hpar with ⟨h1, _⟩ | ⟨_, h2, h3⟩ | ⟨h1, _⟩
              · rw [(lowerBit_o x).mpr hx'] at h1; exact absurd h1 (by decide)
              · exact ⟨h2, h3⟩
              · rw [(lowerBit_o x).mpr hx'] at h1; exact absurd h1 (by decide)
            obtain ⟨hh1, hh2⟩ := hh
            subst hh1; subst hh2
            obtain ⟨hdd, hbad⟩ := (digs_low_iff 56 _).mp hds
            obtain ⟨d, rn', hrn, hd, _⟩ := id hdd
            obtain ⟨f1, f2, f3, f4, f5⟩ := hfol
            refine ⟨d, rn', hrn, decDigit_ne_underscore hd, digs_runCh hdd, by rw [dgFalse_eq]; exact hdd,
              by simp [hbad], ?_, f3, f4, f2, f5⟩
            exact (runChR_false_iff _).mpr ⟨f1, not_underscore_of_ident o f2⟩
          | bin hx' hds =>
            have hh : hex = false ∧ maxCh = 50 := by
              rcases hpar with ⟨h1, _⟩ | ⟨h1, _⟩ | ⟨_, h2, h3⟩
              · rw [(lowerBit_b x).mpr hx'] at h1; exact absurd h1 (by decide)
              · rw [(lowerBit_b x).mpr hx'] at h1; exact absurd h1 (by decide)
              · exact ⟨h2, h3⟩
            obtain ⟨hh1, hh2⟩ := hh
            subst hh1; subst hh2
            obtain ⟨hdd, hbad⟩ := (digs_low_iff 50 _).mp hds
            obtain ⟨d, rn', hrn, hd, _⟩ := id hdd
            obtain ⟨f1, f2, f3, f4, f5⟩ := hfol
            refine ⟨d, rn', hrn, decDigit_ne_underscore hd, digs_runCh hdd, by rw [dgFalse_eq]; exact hdd,
              by simp [hbad], ?_, f3, f4, f2, f5⟩
            exact (runChR_false_iff _).mpr ⟨f1, not_underscore_of_ident o f2⟩
      obtain ⟨d, rn', hrn, hdu, hall, hdigs, hinv, hst, he, hj, hid, hdot⟩ := hparts
      rw [key d rn' hrn hdu hall hst]
      simp only [hdot, if_false]
      unfold refTail refExp
      simp only [Bool.false_eq_true, if_false, he, hj]
      rw [refFinish_some]
      refine ⟨by rw [htok]; exact htokint, ht, rfl, by simp [hinv], ?_, hid⟩
      rw [invalidSep_radix x hx, ← hhex]
      have hrn' : ∀ c ∈ rn, c = '_' ∨ dg hex c = true := by
        intro c hc
        have := hall c hc
        rw [runCh_eq] at this
        simpa using this
      have := (sepLoop_group_prefix hex rn [] hrn' (fun _ _ h => by cases h)
        (by rw [hrn]; simp) (by rw [hrn]; simpa using hdu)).mpr ⟨hdigs, by simp [invalidSepLoop]⟩
      simpa using this
    · rw [ht] at hl
      injection hl with _ hl
      injection hl with hx' hrn
      subst hx'
      rw [← hhex] at hall
      have hst : runChR hex (peekR R) = false := by rw [hdot]; cases hex <;> decide
      rw [key d rn' hrn hdu (by rw [hrn]; exact hall) hst]
      simp [hdot, htok, ht]

end

section
variable (o : Oracles)

theorem refZero_radix (X : List Src) (x : Char) (hpk : peekR X = some x) (hex : Bool) (maxCh : Nat)
    (hpar : RadixPar x hex maxCh) : refZero o X = refRadix o hex maxCh ['0', x] X.tail := by
  unfold refZero
  simp only [hpk, Option.map_some, Option.some.injEq, Option.getD_some]
  rcases hpar with ⟨h1, h2, h3⟩ | ⟨h1, h2, h3⟩ | ⟨h1, h2, h3⟩
  · simp [h1, h2, h3]
  · have : ('o' : Char) ≠ 'x' := by decide
    simp [h1, h2, h3, this]
  · have : ('b' : Char) ≠ 'x' := by decide
    have : ('b' : Char) ≠ 'o' := by decide
    simp [h1, h2, h3, *]

theorem refZero_plain (X : List Src)
    (hx : (peekR X).map lowerBit ≠ some 'x') (ho : (peekR X).map lowerBit ≠ some 'o')
    (hb : (peekR X).map lowerBit ≠ some 'b') (hrun : runChR false (peekR X) = false) :
    refZero o X = refPlain o ['0'] X := by
  have h := (runChR_false_iff _).mp hrun
  unfold refZero refPlain
  simp [hx, ho, hb, h.1, h.2]

/-- **Layer 2 for a number that starts with `0`** -/
theorem refZero_some (X : List Src) (tok : Tok) (t : List Char) (R : List Src) :
    refZero o X = some (tok, t, R) ↔ NumAccept o '0' X tok t R := by
  -- is the next rune a radix letter?
  by_cases hrad : ∃ x, peekR X = some x ∧ (lowerBit x = 'x' ∨ lowerBit x = 'o' ∨ lowerBit x = 'b')
  · obtain ⟨x, hpk, hx⟩ := hrad
    obtain ⟨hX, hx0⟩ := peekR_some hpk
    obtain ⟨hex, maxCh, hpar⟩ : ∃ hex maxCh, RadixPar x hex maxCh := by
      rcases hx with h | h | h
      · exact ⟨true, 64, Or.inl ⟨h, rfl, rfl⟩⟩
      · exact ⟨false, 56, Or.inr (Or.inl ⟨h, rfl, rfl⟩)⟩
      · exact ⟨false, 50, Or.inr (Or.inr ⟨h, rfl, rfl⟩)⟩
    rw [refZero_radix o X x hpk hex maxCh hpar, refRadix_some o x hex maxCh hpar]
    constructor
    · rintro ⟨rn, hXt, ht, hacc⟩
      exact ⟨x :: rn, by rw [hX, hXt]; simp [chs], ht, hacc⟩
    · rintro ⟨w, hXw, ht, hacc⟩
      -- `w` starts with `x`
      have hw : ∃ rn, w = x :: rn := by
        cases w with
        | nil =>
          exfalso
          rcases hacc with ⟨k, hform, _, hfol⟩ | ⟨_, ⟨x', d, rn, hl, _⟩, _⟩
          · have hk : k ≠ .hex ∧ k ≠ .lowRadix := by
              constructor <;> intro hk
              · obtain ⟨x', r, hr, _⟩ := radix_head hform (Or.inl hk)
                rw [ht] at hr; cases hr
              · obtain ⟨x', r, hr, _⟩ := radix_head hform (Or.inr hk)
                rw [ht] at hr; cases hr
            obtain ⟨i, f, e, hsplit, hi, hf, he, hkind⟩ := plain_normal hform hk
            have hi0 : i = ['0'] ∧ f = [] ∧ e = [] := by
              rcases hi with (hi | hi) | ⟨hi, ds, hf', _⟩
              · subst hi; rw [ht] at hsplit; simp at hsplit; exact ⟨rfl, hsplit.1, hsplit.2⟩
              · exfalso
                obtain ⟨d, r', hi', _⟩ := id hi.1
                rw [hi', ht] at hsplit
                simp at hsplit
                apply hi.2; rw [hi', ← hsplit.1]; rfl
              · exfalso; subst hi; subst hf'; rw [ht] at hsplit; simp at hsplit
            obtain ⟨hi1, hf1, he1⟩ := hi0
            subst hi1; subst hf1; subst he1
            rw [hkind, follower_kindOf] at hfol
            have hR : X = R := by simpa [chs] using hXw
            rw [← hR, hpk] at hfol
            obtain ⟨f6, f7, f8⟩ := hfol.2.2.2.2 rfl rfl rfl
            simp only [Option.map_some, ne_eq, Option.some.injEq] at f6 f7 f8
            rcases hx with h | h | h
            · exact f6 h
            · exact f7 h
            · exact f8 h
          · rw [ht] at hl; cases hl
        | cons c rn =>
          refine ⟨rn, ?_⟩
          rw [hXw] at hpk
          have : peekR (chs (c :: rn) ++ R) = srcChar (.ch c) := rfl
          rw [this] at hpk
          simp only [srcChar] at hpk
          split at hpk
          · cases hpk
          · injection hpk with h; rw [h]
      obtain ⟨rn, hw⟩ := hw
      refine ⟨rn, ?_, by rw [ht, hw], hacc⟩
      rw [hXw, hw]; simp [chs]
  · have hx : (peekR X).map lowerBit ≠ some 'x' := by
      intro h; apply hrad
      cases hp : peekR X with
      | none => rw [hp] at h; simp at h
      | some y => rw [hp] at h; simp at h; exact ⟨y, rfl, Or.inl h⟩
    have ho : (peekR X).map lowerBit ≠ some 'o' := by
      intro h; apply hrad
      cases hp : peekR X with
      | none => rw [hp] at h; simp at h
      | some y => rw [hp] at h; simp at h; exact ⟨y, rfl, Or.inr (Or.inl h)⟩
    have hb : (peekR X).map lowerBit ≠ some 'b' := by
      intro h; apply hrad
      cases hp : peekR X with
      | none => rw [hp] at h; simp at h
      | some y => rw [hp] at h; simp at h; exact ⟨y, rfl, Or.inr (Or.inr h)⟩
    by_cases hrun : runChR false (peekR X) = false
    · rw [refZero_plain o X hx ho hb hrun, refPlain_some o ['0'] True (sepSum_zero) X hrun]
      constructor
      · rintro ⟨f, e, hf, he, hY, ht, htok, _, h1, h2, h3, h4⟩
        refine ⟨f ++ e, hY, by rw [ht]; simp, Or.inl ⟨kindOf ['0'] f e, ?_, ?_, ?_⟩⟩
        · rw [ht]; exact plain_build ['0'] f e (Or.inl (Or.inl rfl)) hf he
        · rw [htok, tokOf_kindOf]
        · rw [follower_kindOf]
          refine ⟨h1, h2, h3, h4, ?_⟩
          intro _ hf' he'
          subst hf'; subst he'
          have hR : X = R := by simpa [chs] using hY
          rw [← hR]; exact ⟨hx, ho, hb⟩
      · rintro ⟨w, hXw, ht, hacc⟩
        rcases hacc with ⟨k, hform, htok, hfol⟩ | ⟨_, ⟨x', d, rn, hl, hx', _⟩, _⟩
        · have hk : k ≠ .hex ∧ k ≠ .lowRadix := by
            constructor <;> intro hk
            · obtain ⟨x', r, hr, hx'⟩ := radix_head hform (Or.inl hk)
              apply hrad
              rw [ht] at hr; injection hr with _ hr
              rw [hXw, hr]
              have hx0 : x'.toNat ≠ 0 := by
                intro h0
                have : x' = Char.ofNat 0 := by rw [← Char.ofNat_toNat x', h0]
                subst this; revert hx'; decide
              exact ⟨x', peekR_chs_cons x' _ _ hx0, hx'⟩
            · obtain ⟨x', r, hr, hx'⟩ := radix_head hform (Or.inr hk)
              apply hrad
              rw [ht] at hr; injection hr with _ hr
              rw [hXw, hr]
              have hx0 : x'.toNat ≠ 0 := by
                intro h0
                have : x' = Char.ofNat 0 := by rw [← Char.ofNat_toNat x', h0]
                subst this; revert hx'; decide
              exact ⟨x', peekR_chs_cons x' _ _ hx0, hx'⟩
          obtain ⟨i, f, e, hsplit, hi, hf, he, hkind⟩ := plain_normal hform hk
          have hi0 : i = ['0'] := by
            rcases hi with (hi | hi) | ⟨hi, ds, hf', _⟩
            · exact hi
            · exfalso
              obtain ⟨d, r', hi', _⟩ := id hi.1
              rw [hi', ht] at hsplit
              simp at hsplit
              apply hi.2; rw [hi', ← hsplit.1]; rfl
            · exfalso; subst hi; subst hf'; rw [ht] at hsplit; simp at hsplit
          subst hi0
          rw [hkind, follower_kindOf] at hfol
          obtain ⟨h1, h2, h3, h4, _⟩ := hfol
          have hw : w = f ++ e := by rw [ht] at hsplit; simpa using hsplit
          refine ⟨f, e, hf, he, by rw [hXw, hw], by rw [ht, hw]; simp, by rw [htok, hkind, tokOf_kindOf], trivial,
            h1, h2, h3, h4⟩
        · exfalso
          apply hrad
          rw [ht] at hl; injection hl with _ hl
          rw [hXw, hl]
          have hx0 : x'.toNat ≠ 0 := by
            intro h0
            have : x' = Char.ofNat 0 := by rw [← Char.ofNat_toNat x', h0]
            subst this; revert hx'; decide
          exact ⟨x', peekR_chs_cons x' _ _ hx0, hx'⟩
    · -- `0` followed by `_` or a digit: rejected; and no grammar text fits
      have hnone : refZero o X = none := by
        have hr : runChR false (peekR X) = true := by simpa using hrun
        cases hp : peekR X with
        | none => rw [hp] at hr; simp [runChR] at hr
        | some y =>
          rw [hp] at hr hx ho hb
          simp only [Option.map_some, ne_eq, Option.some.injEq] at hx ho hb
          unfold refZero
          simp only [hp, Option.map_some, Option.some.injEq, hx, ho, hb, if_false]
          by_cases hu : y = '_'
          · simp [hu]
          · have : isDecimal y = true := by simpa [runChR, runCh, hu] using hr
            simp [hu, isDecimalR, this]
      rw [hnone]
      constructor
      · intro h; cases h
      · rintro ⟨w, hXw, ht, hacc⟩
        exfalso
        apply hrun
        rcases hacc with ⟨k, hform, _, hfol⟩ | ⟨_, ⟨x', d, rn, hl, hx', _⟩, _⟩
        · by_cases hk : k = .hex ∨ k = .lowRadix
          · obtain ⟨x', r, hr, hx'⟩ := radix_head hform hk
            rw [ht] at hr; injection hr with _ hr
            rw [hXw, hr]
            have hx0 : x'.toNat ≠ 0 := by
              intro h0
              have : x' = Char.ofNat 0 := by rw [← Char.ofNat_toNat x', h0]
              subst this; revert hx'; decide
            rw [peekR_chs_cons x' _ _ hx0]
            rcases hx' with h | h | h
            · rcases (lowerBit_x x').mp h with h' | h' <;> subst h' <;> decide
            · rcases (lowerBit_o x').mp h with h' | h' <;> subst h' <;> decide
            · rcases (lowerBit_b x').mp h with h' | h' <;> subst h' <;> decide
          · have hk' : k ≠ .hex ∧ k ≠ .lowRadix := ⟨fun h => hk (Or.inl h), fun h => hk (Or.inr h)⟩
            obtain ⟨i, f, e, hsplit, hi, hf, he, hkind⟩ := plain_normal hform hk'
            have hi0 : i = ['0'] := by
              rcases hi with (hi | hi) | ⟨hi, ds, hf', _⟩
              · exact hi
              · exfalso
                obtain ⟨d, r', hi', _⟩ := id hi.1
                rw [hi', ht] at hsplit
                simp at hsplit
                apply hi.2; rw [hi', ← hsplit.1]; rfl
              · exfalso; subst hi; subst hf'; rw [ht] at hsplit; simp at hsplit
            subst hi0
            rw [hkind, follower_kindOf] at hfol
            obtain ⟨h1, h2, _, _, _⟩ := hfol
            have hw : w = f ++ e := by rw [ht] at hsplit; simpa using hsplit
            rw [hXw, hw]
            exact stop_pieces o f e R hf he h1 h2
        · rw [ht] at hl; injection hl with _ hl
          rw [hXw, hl]
          have hx0 : x'.toNat ≠ 0 := by
            intro h0
            have : x' = Char.ofNat 0 := by rw [← Char.ofNat_toNat x', h0]
            subst this; revert hx'; decide
          rw [peekR_chs_cons x' _ _ hx0]
          rcases hx' with h | h | h
          · rcases (lowerBit_x x').mp h with h' | h' <;> subst h' <;> decide
          · rcases (lowerBit_o x').mp h with h' | h' <;> subst h' <;> decide
          · rcases (lowerBit_b x').mp h with h' | h' <;> subst h' <;> decide

end

section
variable (o : Oracles)

/-- what `scanNumber` accepts when entered from `.` + digit `d`: the text is `.`, `d` and the rest `w` -/
def DotAccept (d : Char) (X : List Src) (tok : Tok) (t : List Char) (R : List Src) : Prop :=
  ∃ w, X = chs w ++ R ∧ t = '.' :: d :: w ∧ ∃ k, NumForm k t ∧ tok = tokOf k ∧ Follower o k (peekR R)

/-- **Layer 2 for a number that starts with `.` and a digit** -/
theorem dotRef_some (d : Char) (hd : isDecimal d = true) (X : List Src) (tok : Tok) (t : List Char) (R : List Src) :
    dotRef o d X = some (tok, t, R) ↔ DotAccept o d X tok t R := by
  have hd0 := (isDecimal_facts d hd).1
  unfold dotRef
  rw [show (['.'] : List Char) = [] ++ ['.'] from rfl, refFrac_some o .numeric false [] True sepSum_nil]
  constructor
  · rintro ⟨ds, e, hds, he, hX, ht, htok, _, h1, h2, h3⟩
    -- the digit group starts with `d`
    have hds' : ∃ r, ds = d :: r ∧ Digs DecDigit ds := by
      rcases hds with hds | hds
      · exfalso
        subst hds
        rcases he with he | ⟨x, sg, es, he, hx, _⟩
        · subst he
          have hR : R = .ch d :: X := by simpa [chs] using hX.symm
          rw [hR, peekR_cons_ch d X hd0] at h1
          simp [isDecimalR, hd] at h1
        · subst he
          simp [chs] at hX
          rcases hx with h | h <;> subst h <;> rw [hX.1] at hd <;> revert hd <;> decide
      · obtain ⟨d', r, hr, _⟩ := id hds
        refine ⟨r, ?_, hds⟩
        rw [hr] at hX
        simp [chs] at hX
        rw [hr, hX.1]
    obtain ⟨r, hr, hdigs⟩ := hds'
    refine ⟨r ++ e, ?_, by rw [ht, hr]; simp, kindOf [] ('.' :: ds) e, ?_, ?_, ?_⟩
    · rw [hr] at hX; simp [chs] at hX; rw [hX]; simp [chs]
    · have := plain_build [] ('.' :: ds) e (Or.inr ⟨rfl, ds, rfl, hdigs⟩) (Or.inr ⟨ds, rfl, Or.inr hdigs⟩) he
      rw [ht]; simpa using this
    · rw [htok, tokOf_kindOf]; simp
    · rw [follower_kindOf]
      refine ⟨h1, h2, h3, ?_, ?_⟩
      · intro h; cases h
      · intro h; cases h
  · rintro ⟨w, hX, ht, k, hform, htok, hfol⟩
    have hk : k ≠ .hex ∧ k ≠ .lowRadix := by
      constructor <;> intro hk
      · obtain ⟨x', r, hr, _⟩ := radix_head hform (Or.inl hk)
        rw [ht] at hr; cases hr
      · obtain ⟨x', r, hr, _⟩ := radix_head hform (Or.inr hk)
        rw [ht] at hr; cases hr
    obtain ⟨i, f, e, hsplit, hi, hf, he, hkind⟩ := plain_normal hform hk
    have hi0 : i = [] ∧ ∃ ds, f = '.' :: ds ∧ Digs DecDigit ds := by
      rcases hi with (hi | hi) | ⟨hi, ds, hf', hds⟩
      · exfalso; subst hi; rw [ht] at hsplit; simp at hsplit
      · exfalso
        obtain ⟨d', r', hi', hd', _⟩ := id hi.1
        rw [hi', ht] at hsplit
        simp at hsplit
        rw [← hsplit.1] at hd'; revert hd'; unfold DecDigit; decide
      · exact ⟨hi, ds, hf', hds⟩
    obtain ⟨hi1, ds, hf1, hds⟩ := hi0
    subst hi1; subst hf1
    rw [hkind, follower_kindOf] at hfol
    obtain ⟨h1, h2, h3, _, _⟩ := hfol
    have hw : ds ++ e = d :: w := by rw [ht] at hsplit; simpa using hsplit.symm
    refine ⟨ds, e, Or.inr hds, he, ?_, ?_, ?_, trivial, h1, h2, h3⟩
    · rw [hw, hX]; simp [chs]
    · rw [ht, ← hw]; simp
    · rw [htok, hkind, tokOf_kindOf]; simp

theorem numRef_some (c : Char) (hc : isDecimal c = true) (X : List Src) (tok : Tok) (t : List Char) (R : List Src) :
    numRef o c X = some (tok, t, R) ↔ NumAccept o c X tok t R := by
  unfold numRef
  by_cases h0 : c = '0'
  · subst h0; simp only [if_true]; exact refZero_some o X tok t R
  · simp only [h0, if_false]; exact refDecimal_some o c hc h0 X tok t R

theorem tokOf_ne_stop (k : NumKind) : tokOf k ≠ .stop := by cases k <;> simp [tokOf]

theorem numAccept_tok {c : Char} {X : List Src} {tok : Tok} {t : List Char} {R : List Src}
    (h : NumAccept o c X tok t R) : tok = .int ∨ tok = .numeric := by
  obtain ⟨w, _, _, ⟨k, _, htok, _⟩ | ⟨htok, _⟩⟩ := h
  · rw [htok]; cases k <;> simp [tokOf]
  · exact Or.inl htok

/-! ## The theorems about `scanNumber` -/

/-- **Numbers, the exact characterisation.**  Started on the decimal digit `c`, `scanNumber` returns a
    token other than the error token — `tok` with text `t`, look-ahead rune `y`, state `s'` — if and only
    if the unread source begins with the rest of a number text (`NumAccept`: grammar + follower rule,
    or the early return of a radix integer before `.`), and then `y` / `s'` are the rune after that text
    and the state after reading it. -/
theorem scanNumber_accepts_iff (c : Char) (hc : isDecimal c = true) (s : LState) (tok : Tok) (t : List Char)
    (y : Option Char) (s' : LState) (hne : tok ≠ .stop) :
    scanNumber o c false [] s = ⟨tok, t, y, s'⟩ ↔
      ∃ R, NumAccept o c s.rest tok t R ∧ y = peekR R ∧ s' = afterR s R := by
  have hag := scanNumber_ref o c hc s
  constructor
  · intro h
    cases hr : numRef o c s.rest with
    | none =>
      rw [hr] at hag
      have : (scanNumber o c false [] s).tok = .stop := hag.1
      rw [h] at this
      exact absurd this hne
    | some v =>
      obtain ⟨tok', t', R'⟩ := v
      rw [hr] at hag
      have hag' : scanNumber o c false [] s = ⟨tok', t', peekR R', afterR s R'⟩ := hag
      rw [h] at hag'
      injection hag' with h1 h2 h3 h4
      subst h1; subst h2
      exact ⟨R', (numRef_some o c hc _ _ _ _).mp hr, h3, h4⟩
  · rintro ⟨R, hacc, hy, hs'⟩
    have hr := (numRef_some o c hc _ _ _ _).mpr hacc
    rw [hr] at hag
    have hag' : scanNumber o c false [] s = ⟨tok, t, peekR R, afterR s R⟩ := hag
    rw [hag', hy, hs']

/-- **… otherwise it returns the error token**: `stopTok`, no text, an error on record — exactly when
    no prefix of the source is acceptable -/
theorem scanNumber_rejects_iff (c : Char) (hc : isDecimal c = true) (s : LState) :
    (scanNumber o c false [] s).tok = .stop ↔ ¬ ∃ tok t R, NumAccept o c s.rest tok t R := by
  have hag := scanNumber_ref o c hc s
  cases hr : numRef o c s.rest with
  | none =>
    rw [hr] at hag
    constructor
    · rintro _ ⟨tok, t, R, hacc⟩
      have := (numRef_some o c hc _ _ _ _).mpr hacc
      rw [hr] at this; cases this
    · intro _; exact hag.1
  | some v =>
    obtain ⟨tok', t', R'⟩ := v
    rw [hr] at hag
    have hag' : scanNumber o c false [] s = ⟨tok', t', peekR R', afterR s R'⟩ := hag
    have hacc := (numRef_some o c hc _ _ _ _).mp hr
    constructor
    · intro h
      rw [hag'] at h
      rcases numAccept_tok o hacc with h' | h' <;> rw [h'] at h <;> cases h
    · intro h; exact absurd ⟨tok', t', R', hacc⟩ h

theorem scanNumber_rejected (c : Char) (hc : isDecimal c = true) (s : LState)
    (h : ¬ ∃ tok t R, NumAccept o c s.rest tok t R) : Rejects (scanNumber o c false [] s) := by
  have hag := scanNumber_ref o c hc s
  cases hr : numRef o c s.rest with
  | none => rw [hr] at hag; exact hag
  | some v =>
    obtain ⟨tok', t', R'⟩ := v
    exact absurd ⟨tok', t', R', (numRef_some o c hc _ _ _ _).mp hr⟩ h

/-- the same for a number entered from `.` followed by the digit `d` (`s` is the state after `d`) -/
theorem scanNumber_dot_accepts_iff (d : Char) (hd : isDecimal d = true) (s : LState) (tok : Tok) (t : List Char)
    (y : Option Char) (s' : LState) (hne : tok ≠ .stop) :
    scanNumber o d true ['.'] s = ⟨tok, t, y, s'⟩ ↔
      ∃ R, DotAccept o d s.rest tok t R ∧ y = peekR R ∧ s' = afterR s R := by
  have hag := scanNumber_dot_ref o d hd s
  constructor
  · intro h
    cases hr : dotRef o d s.rest with
    | none =>
      rw [hr] at hag
      have : (scanNumber o d true ['.'] s).tok = .stop := hag.1
      rw [h] at this
      exact absurd this hne
    | some v =>
      obtain ⟨tok', t', R'⟩ := v
      rw [hr] at hag
      have hag' : scanNumber o d true ['.'] s = ⟨tok', t', peekR R', afterR s R'⟩ := hag
      rw [h] at hag'
      injection hag' with h1 h2 h3 h4
      subst h1; subst h2
      exact ⟨R', (dotRef_some o d hd _ _ _ _).mp hr, h3, h4⟩
  · rintro ⟨R, hacc, hy, hs'⟩
    have hr := (dotRef_some o d hd _ _ _ _).mpr hacc
    rw [hr] at hag
    have hag' : scanNumber o d true ['.'] s = ⟨tok, t, peekR R, afterR s R⟩ := hag
    rw [hag', hy, hs']

theorem scanNumber_dot_rejected (d : Char) (hd : isDecimal d = true) (s : LState)
    (h : ¬ ∃ tok t R, DotAccept o d s.rest tok t R) : Rejects (scanNumber o d true ['.'] s) := by
  have hag := scanNumber_dot_ref o d hd s
  cases hr : dotRef o d s.rest with
  | none => rw [hr] at hag; exact hag
  | some v =>
    obtain ⟨tok', t', R'⟩ := v
    exact absurd ⟨tok', t', R', (dotRef_some o d hd _ _ _ _).mp hr⟩ h

end

/-! ## Consequences: rejection for every continuation, and the level of `Lex` -/

section
variable (o : Oracles)

theorem numRef_none_iff (c : Char) (hc : isDecimal c = true) (X : List Src) :
    numRef o c X = none ↔ ¬ ∃ tok t R, NumAccept o c X tok t R := by
  constructor
  · rintro h ⟨tok, t, R, hacc⟩
    rw [(numRef_some o c hc X tok t R).mpr hacc] at h; cases h
  · intro h
    cases hr : numRef o c X with
    | none => rfl
    | some v =>
      obtain ⟨tok, t, R⟩ := v
      exact absurd ⟨tok, t, R, (numRef_some o c hc X tok t R).mp hr⟩ h

theorem scanNumber_rejected_of_ref (c : Char) (hc : isDecimal c = true) (s : LState)
    (h : numRef o c s.rest = none) : Rejects (scanNumber o c false [] s) := by
  have := scanNumber_ref o c hc s
  rw [h] at this; exact this

theorem scanNumber_dot_rejected_of_ref (d : Char) (hd : isDecimal d = true) (s : LState)
    (h : dotRef o d s.rest = none) : Rejects (scanNumber o d true ['.'] s) := by
  have := scanNumber_dot_ref o d hd s
  rw [h] at this; exact this

/-- `0` directly followed by a digit or `_` (`00`, `08`, `0_1`): rejected whatever comes after -/
theorem reject_zero_then_digit (X : List Src) (h : runChR false (peekR X) = true) : numRef o '0' X = none := by
  cases hp : peekR X with
  | none => rw [hp] at h; simp [runChR] at h
  | some y =>
    rw [hp] at h
    have hy : y = '_' ∨ isDecimal y = true := by simpa [runChR, runCh] using h
    have hlow : lowerBit y ≠ 'x' ∧ lowerBit y ≠ 'o' ∧ lowerBit y ≠ 'b' := by
      rcases hy with hy | hy
      · subst hy; decide
      · rw [lowerBit_decimal y hy]
        refine ⟨?_, ?_, ?_⟩ <;> (intro h'; subst h'; revert hy; decide)
    unfold numRef refZero
    simp only [if_true, hp, Option.map_some, Option.some.injEq, hlow.1, hlow.2.1, hlow.2.2, if_false]
    rcases hy with hy | hy
    · simp [hy]
    · have : y ≠ '_' := (isDecimal_facts y hy).2.1
      simp [this, isDecimalR, hy]

theorem radixPar_exists (x : Char) (hx : lowerBit x = 'x' ∨ lowerBit x = 'o' ∨ lowerBit x = 'b') :
    ∃ hex maxCh, RadixPar x hex maxCh := by
  rcases hx with h | h | h
  · exact ⟨true, 64, Or.inl ⟨h, rfl, rfl⟩⟩
  · exact ⟨false, 56, Or.inr (Or.inl ⟨h, rfl, rfl⟩)⟩
  · exact ⟨false, 50, Or.inr (Or.inr ⟨h, rfl, rfl⟩)⟩

/-- a radix prefix directly followed by `_` (`0x_1`): rejected whatever comes after -/
theorem reject_radix_underscore (X : List Src) (x : Char) (hpk : peekR X = some x)
    (hx : lowerBit x = 'x' ∨ lowerBit x = 'o' ∨ lowerBit x = 'b') (hu : peekR X.tail = some '_') :
    numRef o '0' X = none := by
  obtain ⟨hex, maxCh, hpar⟩ := radixPar_exists x hx
  unfold numRef
  simp only [if_true]
  rw [refZero_radix o X x hpk hex maxCh hpar]
  unfold refRadix
  simp [hu]

/-- a radix prefix without a digit after it (`0x`, `0b`, `0xg`, `0o.`): rejected whatever comes after -/
theorem reject_radix_no_digit (X : List Src) (x : Char) (hpk : peekR X = some x)
    (hx : lowerBit x = 'x' ∨ lowerBit x = 'o' ∨ lowerBit x = 'b')
    (hnd : runChR (decide (lowerBit x = 'x')) (peekR X.tail) = false) : numRef o '0' X = none := by
  obtain ⟨hex, maxCh, hpar⟩ := radixPar_exists x hx
  rw [← hpar.hex_eq] at hnd
  unfold numRef
  simp only [if_true]
  rw [refZero_radix o X x hpk hex maxCh hpar]
  unfold refRadix
  rw [takeRun_none hex X.tail hnd]
  simp [hasDigit]

/-- the digits and underscores after a non-zero first digit `c` must form a digit group with it
    (`1__0`, `1_`, `1_.5`, `1_e5` …): otherwise rejected, whatever comes after -/
theorem reject_bad_int_group (c : Char) (hc : isDecimal c = true) (h0 : c ≠ '0') (X : List Src)
    (hbad : ¬ Digs DecDigit (c :: (takeRun false X).1)) : numRef o c X = none := by
  obtain ⟨_, hrunOK, hstop⟩ := takeRun_spec false X
  cases hr : numRef o c X with
  | none => rfl
  | some v =>
    exfalso
    obtain ⟨tok, t, R⟩ := v
    unfold numRef at hr
    simp only [h0, if_false] at hr
    rw [refDecimal_eq, refPlain_some o _ _ (sepSum_dec c hc h0 _ hrunOK) _ hstop] at hr
    obtain ⟨f, e, _, _, _, _, _, hG, _⟩ := hr
    exact hbad hG

/-- "trailing junk": directly after the digits of a decimal integer that does not start with `0`, a
    rune other than `.`, `e`, `E` that is an identifier start, as it is or after `| 0x20` (`1a`, `12_3x`) -/
theorem reject_junk_after_int (c : Char) (h0 : c ≠ '0') (X : List Src)
    (hdot : peekR (takeRun false X).2 ≠ some '.')
    (hnotexp : (peekR (takeRun false X).2).map lowerBit ≠ some 'e')
    (hjunk : isIdentStart o (peekR (takeRun false X).2) = true ∨
      isIdentStart o ((peekR (takeRun false X).2).map lowerBit) = true) : numRef o c X = none := by
  unfold numRef refDecimal refTail refExp refFinish
  simp only [h0, if_false, hdot, Bool.false_eq_true, hnotexp]
  rcases hjunk with h | h
  · by_cases h' : isIdentStart o ((peekR (takeRun false X).2).map lowerBit) = true
    · simp [h']
    · simp [h', h]
  · simp [h]

/-! ### the level of `Lex` -/

/-- at a token start a decimal digit is handed to `scanNumber` -/
theorem lexFrom_digit (c : Char) (hc : isDecimal c = true) (hxs : o.xidStart c = false) (f : Nat) (s : LState) :
    lexFrom o (f + 1) (some c) s = scanNumber o c false [] s := by
  have hf := isDecimal_facts c hc
  rw [lexFrom, skipWs_nonws _ c s hf.2.2.2.1]
  simp [isIdentStart, hf.2.1, hf.2.2.2.2.1, hxs, hc]

/-- … and so is `.` followed by a decimal digit -/
theorem lexFrom_dot_digit (d : Char) (hd : isDecimal d = true) (hdot : o.xidStart '.' = false) (f : Nat) (s : LState)
    (hpk : peekR s.rest = some d) :
    lexFrom o (f + 1) (some '.') s = scanNumber o d true ['.'] (afterR s s.rest) := by
  rw [lexFrom, skipWs_nonws _ '.' s (by decide)]
  have hnx : next s = (peekR s.rest, afterR s s.rest) := next_withRest s s.rest
  have hd' : (decide ('0' ≤ d) && decide (d ≤ '9')) = true := hd
  simp only [isIdentStart, hdot, hnx, hpk, isDecimal, hd', if_true, Bool.or_false, Bool.false_eq_true, if_false,
    show (('.' : Char) = '_') = False from by decide, show (('.' : Char) = '\\') = False from by decide,
    decide_false, show (decide ('0' ≤ ('.' : Char)) && decide (('.' : Char) ≤ '9')) = false from by decide,
    show (('.' : Char) = '"') = False from by decide, show (('.' : Char) = '$') = False from by decide,
    show (('.' : Char) = '/') = False from by decide]

/-- `.` not followed by a decimal digit is the token `.` -/
theorem lexFrom_dot_other (hdot : o.xidStart '.' = false) (f : Nat) (s : LState)
    (hpk : isDecimalR (peekR s.rest) = false) :
    lexFrom o (f + 1) (some '.') s = ⟨.dot, ['.'], peekR s.rest, afterR s s.rest⟩ := by
  rw [lexFrom, skipWs_nonws _ '.' s (by decide)]
  have hnx : next s = (peekR s.rest, afterR s s.rest) := next_withRest s s.rest
  cases hp : peekR s.rest with
  | none => simp [isIdentStart, hdot, isDecimal, hnx, hp]
  | some y =>
    rw [hp] at hpk
    simp only [isDecimalR] at hpk
    have hpk' : (decide ('0' ≤ y) && decide (y ≤ '9')) = false := hpk
    simp only [isIdentStart, hdot, hnx, hp, isDecimal, hpk', Bool.or_false, Bool.false_eq_true, if_false,
      show (('.' : Char) = '_') = False from by decide, show (('.' : Char) = '\\') = False from by decide,
      decide_false, show (decide ('0' ≤ ('.' : Char)) && decide (('.' : Char) ≤ '9')) = false from by decide,
      show (('.' : Char) = '"') = False from by decide, show (('.' : Char) = '$') = False from by decide,
      show (('.' : Char) = '/') = False from by decide, if_true]

end

end Num
end LexReject
end Sqljson

/-! # Malformed numbers and literals after any separator, at the first or at any token position -/
namespace Sqljson
namespace LexReject
open Parse Lex ParseLemmas RoundTrip Layout

section
variable (o : Oracles) (hx : o.xidStart '/' = false)
include hx

/-- the body of `Lex` on a decimal digit with the source `X` after it, in any state, rejects when the
    reference reading does -/
theorem lexFrom_bad_number (c : Char) (hc : isDecimal c = true) (hxs : o.xidStart c = false) (X : List Src)
    (hbad : Num.numRef o c X = none) (f : Nat) (s : LState) :
    (lexFrom o (f + 1) (peekR (.ch c :: X)) (afterR s (.ch c :: X))).st.err = true := by
  have hc0 := (isDecimal_facts c hc).1
  rw [Num.peekR_cons_ch c X hc0, afterR_cons_ch s c X hc0, Num.lexFrom_digit o c hc hxs]
  exact (Num.scanNumber_rejected_of_ref o c hc (withRest s X) hbad).2.2.2

theorem lexFrom_bad_dot_number (d : Char) (hd : isDecimal d = true) (hdot : o.xidStart '.' = false) (X : List Src)
    (hbad : Num.dotRef o d X = none) (f : Nat) (s : LState) :
    (lexFrom o (f + 1) (peekR (.ch '.' :: .ch d :: X)) (afterR s (.ch '.' :: .ch d :: X))).st.err = true := by
  have hd0 := (isDecimal_facts d hd).1
  rw [Num.peekR_cons_ch '.' _ (by decide), afterR_cons_ch s '.' _ (by decide),
    Num.lexFrom_dot_digit o d hd hdot f _ (by simpa using Num.peekR_cons_ch d X hd0)]
  simp only [withRest_rest]
  rw [afterR_cons_ch _ d X hd0]
  exact (Num.scanNumber_dot_rejected_of_ref o d hd (withRest (withRest s (.ch d :: X)) X) hbad).2.2.2

/-- **a malformed number as the first token, after any separator, rejects the input** -/
theorem parse_err_bad_number (bytes : List UInt8) {sep : List Char} (hs : Sep sep) (c : Char)
    (hc : isDecimal c = true) (hxs : o.xidStart c = false) (X : List Src)
    (hd : decodeAll bytes = chs sep ++ .ch c :: X) (hbad : Num.numRef o c X = none) : parse o bytes = .err :=
  Misc.parse_err_after_sep o hx bytes hs _ hd (fun f _ => lexFrom_bad_number o hx c hc hxs X hbad f _)

theorem parse_err_bad_dot_number (bytes : List UInt8) {sep : List Char} (hs : Sep sep) (d : Char)
    (hdd : isDecimal d = true) (hdot : o.xidStart '.' = false) (X : List Src)
    (hd : decodeAll bytes = chs sep ++ .ch '.' :: .ch d :: X) (hbad : Num.dotRef o d X = none) :
    parse o bytes = .err :=
  Misc.parse_err_after_sep o hx bytes hs _ hd (fun f _ => lexFrom_bad_dot_number o hx d hdd hdot X hbad f _)

/-- … and so does one at any later token start the lexer reaches (`k` calls of `Lex` have been made
    and the lexer stands before a separator followed by the malformed number) -/
theorem parse_err_bad_number_at (bytes : List UInt8) (k : Nat) {sep : List Char} (hs : Sep sep) (c : Char)
    (hc : isDecimal c = true) (hxs : o.xidStart c = false) (X : List Src)
    (hst : Misc.Standing (Misc.lexIter o k (LState.init bytes)) (chs sep ++ .ch c :: X))
    (hbad : Num.numRef o c X = none) : parse o bytes = .err :=
  Misc.parse_err_after_sep_at o hx bytes k hs _ hst (fun f _ => lexFrom_bad_number o hx c hc hxs X hbad f _)

/-- a string literal that is not closed by a well-formed body, after any separator -/
theorem parse_err_bad_string_sep (hq : o.xidStart '"' = false) (bytes : List UInt8) {sep : List Char} (hs : Sep sep)
    (X : List Src) (hd : decodeAll bytes = chs sep ++ .ch '"' :: X) (hbad : ¬ Str.Closed X) : parse o bytes = .err := by
  refine Misc.parse_err_after_sep o hx bytes hs _ hd (fun f _ => ?_)
  rw [Num.peekR_cons_ch '"' X (by decide), afterR_cons_ch _ '"' X (by decide), Str.lexFrom_quote o hq]
  exact (Str.scanString_bad .string _ hbad).2.2

theorem parse_err_bad_variable_sep (hdl : o.xidStart '$' = false) (bytes : List UInt8) {sep : List Char}
    (hs : Sep sep) (X : List Src) (hd : decodeAll bytes = chs sep ++ .ch '$' :: .ch '"' :: X)
    (hbad : ¬ Str.Closed X) : parse o bytes = .err := by
  refine Misc.parse_err_after_sep o hx bytes hs _ hd (fun f _ => ?_)
  rw [Num.peekR_cons_ch '$' _ (by decide), afterR_cons_ch _ '$' _ (by decide), Str.lexFrom_dollar_quote o hdl]
  exact (Str.scanString_bad .variable _ hbad).2.2

theorem parse_err_bad_string_at (hq : o.xidStart '"' = false) (bytes : List UInt8) (k : Nat) {sep : List Char}
    (hs : Sep sep) (X : List Src)
    (hst : Misc.Standing (Misc.lexIter o k (LState.init bytes)) (chs sep ++ .ch '"' :: X))
    (hbad : ¬ Str.Closed X) : parse o bytes = .err := by
  refine Misc.parse_err_after_sep_at o hx bytes k hs _ hst (fun f _ => ?_)
  rw [Num.peekR_cons_ch '"' X (by decide), afterR_cons_ch _ '"' X (by decide), Str.lexFrom_quote o hq]
  exact (Str.scanString_bad .string _ hbad).2.2

end

end LexReject
end Sqljson

/-! # After the early return: an integer token that `strconv.ParseInt` refuses -/
namespace Sqljson
namespace LexReject
open Parse Lex ParseLemmas RoundTrip Layout

/-- `m`, started in a state satisfying `pre`, ends (if it ends) with an error on record -/
def ErrAfter {α : Type} (pre : PS → Prop) (m : P α) : Prop :=
  ∀ s v s1, pre s → m s = .ok v s1 → s1.lx.err = true

theorem errAfter_bind_left {α β : Type} {pre : PS → Prop} {m : P α} {f : α → P β}
    (hm : ErrAfter pre m) (hf : ∀ a, EM (f a)) : ErrAfter pre (m >>= f) := by
  intro s v s1 hp h
  rw [bind_apply] at h
  cases hms : m s with
  | ok a s' =>
    rw [hms] at h
    exact (hf a).mono s' v s1 h (hm s a s' hp hms)
  | syn => rw [hms] at h; simp at h
  | panic => rw [hms] at h; simp at h
  | fuel => rw [hms] at h; simp at h

section
variable (o : Oracles)

theorem errAfter_newInteger (t : List Char) (ht : parseInt0 t = none) : ErrAfter (fun _ => True) (newInteger t) := by
  intro s v s1 _ h
  unfold newInteger at h
  rw [ht] at h
  simp only [bind_apply, recordError, pure_apply] at h
  injection h with _ h2
  rw [← h2]; rfl

/-- the parser on an integer token whose text `strconv.ParseInt(·, 0, 64)` refuses, where an operand may
    start: `newInteger` records "integer literal … is out of range" -/
theorem errAfter_parseAtom_int (n : Nat) (t : List Char) (ht : parseInt0 t = none) :
    ErrAfter (fun s => s.la = some (.int, t)) (parseAtom o (n + 3) .top) := by
  have hscalar : ErrAfter (fun _ => True) (parseScalar o (n + 1) (.int, t)) := by
    rw [parseScalar]
    intro s v s1 _ h
    rw [bind_apply] at h
    simp only [consume] at h
    have hrest : ErrAfter (fun _ => True) (newInteger t >>= fun h => accessorLoop o n h []) :=
      errAfter_bind_left (errAfter_newInteger t ht) (fun a => (allEM o n).accLoop a [])
    exact hrest _ v s1 trivial h
  intro s v s1 hla h
  rw [parseAtom, bind_apply] at h
  have hpk : peek o s = .ok (.int, t) s := by unfold peek; rw [hla]
  rw [hpk] at h
  simp only [show (Tok.int = Tok.not) = False from by simp, show (Tok.int = Tok.exists) = False from by simp,
    show (Tok.int = Tok.lparen) = False from by simp, show (Tok.int = Tok.stop) = False from by simp,
    if_false] at h
  have hun : parseUnaryT o (n + 2) (.int, t) = parseScalar o (n + 1) (.int, t) := by
    rw [parseUnaryT]
    simp
  rw [hun] at h
  exact (errAfter_bind_left hscalar (fun a => (allEM o (n + 2)).exprT .top a)) s v s1 trivial h

/-- **if the first token is an integer literal that `strconv.ParseInt(text, 0, 64)` refuses, the input
    is rejected** (this is what happens after the early return of `scanNumber`: `0b2.`, `0x1_.`) -/
theorem parse_err_of_refused_int_first (bytes : List UInt8) (t : List Char) (lx' : LState)
    (hlex : Lex.lex o (LState.init bytes) = (.int, t, lx')) (ht : parseInt0 t = none) : parse o bytes = .err := by
  have hnp := ParseLemmas.parse_never_panics o bytes
  cases hr : Parse.run o bytes with
  | ok r s =>
    refine parse_err_of_error_recorded o bytes r s hr ?_
    unfold Parse.run parseTop at hr
    rw [parseBody_split, bind_apply, bind_apply] at hr
    have hpk : peek o { lx := LState.init bytes, la := none } =
        (if lx'.oof then .fuel else .ok (.int, t) { lx := lx', la := some (.int, t) }) := by
      unfold peek
      simp only [hlex]
      simp
    rw [hpk] at hr
    by_cases hoof : lx'.oof = true
    · simp [hoof] at hr
    · simp only [hoof, Bool.false_eq_true, if_false] at hr
      have hfuel : fuelFor bytes = (16 * bytes.length + 61) + 3 := by unfold fuelFor; omega
      have hbody : ErrAfter (fun s => s.la = some (.int, t)) (bodyAfterPeek o (fuelFor bytes) (.int, t)) := by
        unfold bodyAfterPeek
        simp only [show (Tok.int = Tok.strict) = False from by simp, show (Tok.int = Tok.lax) = False from by simp,
          if_false]
        intro s v s1 hla h
        rw [bind_apply, pure_apply] at h
        rw [hfuel] at h
        refine (errAfter_bind_left (errAfter_parseAtom_int o _ t ht) (fun a => ?_)) s v s1 hla h
        cases a with
        | expr v _ => exact em_pure _
        | pred v0 =>
          simp only
          exact em_bind ((allEM o _).pred v0) (fun _ => em_pure _)
      exact (errAfter_bind_left hbody (fun p => em_finish o p.1 p.2.1 p.2.2)) _ r s rfl hr
  | syn => unfold parse; rw [hr]
  | panic => unfold parse at hnp; rw [hr] at hnp; simp at hnp
  | fuel => unfold parse; rw [hr]

end

end LexReject
end Sqljson

namespace Sqljson
namespace LexReject
open Parse Lex ParseLemmas RoundTrip Layout

/-- a text `0…` whose reference reading is an integer token that `strconv.ParseInt` refuses (the early
    return of `scanNumber` before `.` lets such texts through the lexer): rejected by the parser -/
theorem parse_err_loose_radix_first (o : Oracles) (hx0 : o.xidStart '0' = false) (l t : List Char) (R : List Src)
    (href : Num.numRef o '0' (chs l) = some (.int, t, R)) (ht : parseInt0 t = none) :
    parse o (utf8 ('0' :: l)) = .err := by
  have hdec : decodeAll (utf8 ('0' :: l)) = .ch '0' :: chs l := by rw [decodeAll_utf8]; rfl
  have hag := Num.scanNumber_ref o '0' (by decide) (withRest (LState.init (utf8 ('0' :: l))) (chs l))
  rw [withRest_rest, href] at hag
  have hag' : scanNumber o '0' false [] (withRest (LState.init (utf8 ('0' :: l))) (chs l))
      = ⟨.int, t, peekR R, afterR (withRest (LState.init (utf8 ('0' :: l))) (chs l)) R⟩ := hag
  obtain ⟨lx', hlex⟩ : ∃ lx', Lex.lex o (LState.init (utf8 ('0' :: l))) = (.int, t, lx') := by
    rw [lex_init, hdec, Num.peekR_cons_ch '0' _ (by decide), afterR_cons_ch _ '0' _ (by decide)]
    simp only [Num.lexFrom_digit o '0' (by decide) hx0, hag']
    exact ⟨_, rfl⟩
  exact parse_err_of_refused_int_first o _ t lx' hlex ht

end LexReject
end Sqljson
