import Sqljson.Lemmas.ApiGood
/-!
# Silent / verbose simulation

Two runs of the executor that differ only in the `verbose` flag (`WithSilent`) proceed in lock step:
the run started with `verbose = false` returns exactly what the run started with `verbose = true`
returns, except that the flag stays `false` and a suppressible error (`ErrVerbose`) is dropped:

    xItem c fuel (silenceSt s) n v f u = silence (xItem c fuel s n v f u)        (s.verbose = true)

Structure as in `Good.lean`: one lemma per Go function ("if the recursive calls simulate, so do I"),
loops by `foldl_sim` with the accumulator invariant of `Good.lean`, then `sim_all` by induction on fuel.
The invariant `Good` supplies the facts about the verbose run that the simulation needs: the flag is
restored (`Good.ctx`), an error comes with status `failed` (`Good.errFailed`), predicates never return
a suppressible error (`GoodP.noVerbose`).
-/

namespace Sqljson
namespace Exec

/-- what a run with `verbose = false` returns, given what the run with `verbose = true` returns -/
def silenceErr : Option Err → Option Err
  | some .verbose => none
  | e => e

def silenceSt (s : St) : St := { s with verbose := false }

def silence (r : Res) : Res := { r with st := silenceSt r.st, err := silenceErr r.err }

/-- predicates: outcome and error are the same in both runs, only the restored flag differs -/
def silenceP (p : PRes) : PRes := { p with st := silenceSt p.st }

/-! ## projections -/

@[simp] theorem silenceSt_current (s : St) : (silenceSt s).current = s.current := rfl
@[simp] theorem silenceSt_baseAddr (s : St) : (silenceSt s).baseAddr = s.baseAddr := rfl
@[simp] theorem silenceSt_baseId (s : St) : (silenceSt s).baseId = s.baseId := rfl
@[simp] theorem silenceSt_lastGenId (s : St) : (silenceSt s).lastGenId = s.lastGenId := rfl
@[simp] theorem silenceSt_innermost (s : St) : (silenceSt s).innermost = s.innermost := rfl
@[simp] theorem silenceSt_ignoreSE (s : St) : (silenceSt s).ignoreSE = s.ignoreSE := rfl
@[simp] theorem silenceSt_verbose (s : St) : (silenceSt s).verbose = false := rfl
@[simp] theorem silenceSt_budget (s : St) : (silenceSt s).budget = s.budget := rfl
@[simp] theorem silenceSt_sawCancel (s : St) : (silenceSt s).sawCancel = s.sawCancel := rfl
@[simp] theorem silenceSt_panicked (s : St) : (silenceSt s).panicked = s.panicked := rfl
@[simp] theorem silenceSt_oof (s : St) : (silenceSt s).oof = s.oof := rfl

@[simp] theorem silence_st (r : Res) : (silence r).st = silenceSt r.st := rfl
@[simp] theorem silence_found (r : Res) : (silence r).found = r.found := rfl
@[simp] theorem silence_status (r : Res) : (silence r).status = r.status := rfl
@[simp] theorem silence_err (r : Res) : (silence r).err = silenceErr r.err := rfl
@[simp] theorem silence_mk (s : St) (f : Found) (st : Status) (e : Option Err) :
    silence ⟨s, f, st, e⟩ = ⟨silenceSt s, f, st, silenceErr e⟩ := rfl

@[simp] theorem silenceP_st (p : PRes) : (silenceP p).st = silenceSt p.st := rfl
@[simp] theorem silenceP_out (p : PRes) : (silenceP p).out = p.out := rfl
@[simp] theorem silenceP_err (p : PRes) : (silenceP p).err = p.err := rfl
@[simp] theorem silenceP_mk (s : St) (p : Pred) (e : Option Err) :
    silenceP ⟨s, p, e⟩ = ⟨silenceSt s, p, e⟩ := rfl

@[simp] theorem silenceErr_none : silenceErr none = none := rfl
@[simp] theorem silenceErr_verbose : silenceErr (some .verbose) = none := rfl
@[simp] theorem silenceErr_hard (k : Hard) : silenceErr (some (.hard k)) = some (.hard k) := rfl
@[simp] theorem silenceErr_cancelled : silenceErr (some .cancelled) = some .cancelled := rfl
@[simp] theorem silenceErr_invalid : silenceErr (some .invalid) = some .invalid := rfl

theorem silenceErr_of_ne {e : Option Err} (h : e ≠ some .verbose) : silenceErr e = e := by
  unfold silenceErr; split <;> simp_all

theorem silenceErr_some_ne {e : Err} (h : e ≠ .verbose) : silenceErr (some e) = some e :=
  silenceErr_of_ne (by simpa using h)

theorem silenceErr_ne_verbose (e : Option Err) : silenceErr e ≠ some .verbose := by
  unfold silenceErr; split <;> simp_all

theorem silenceErr_eq_none {e : Option Err} : silenceErr e = none ↔ (e = none ∨ e = some .verbose) := by
  unfold silenceErr; split <;> simp_all

/-- the updates of the other context fields commute with `silenceSt` -/
@[simp] theorem silenceSt_setBase (s : St) (a : Nat) (i : Int) :
    ({ silenceSt s with baseAddr := a, baseId := i } : St) = silenceSt { s with baseAddr := a, baseId := i } := rfl
@[simp] theorem silenceSt_setIgn (s : St) (b : Bool) :
    ({ silenceSt s with ignoreSE := b } : St) = silenceSt { s with ignoreSE := b } := rfl
@[simp] theorem silenceSt_setCurrent (s : St) (v : Item) :
    ({ silenceSt s with current := v } : St) = silenceSt { s with current := v } := rfl
@[simp] theorem silenceSt_setInn (s : St) (i : Int) :
    ({ silenceSt s with innermost := i } : St) = silenceSt { s with innermost := i } := rfl
@[simp] theorem silenceSt_setPanicked (s : St) (b : Bool) :
    ({ silenceSt s with panicked := b } : St) = silenceSt { s with panicked := b } := rfl
@[simp] theorem silenceSt_setOof (s : St) (b : Bool) :
    ({ silenceSt s with oof := b } : St) = silenceSt { s with oof := b } := rfl
@[simp] theorem silenceSt_setSawCancel (s : St) (b : Bool) :
    ({ silenceSt s with sawCancel := b } : St) = silenceSt { s with sawCancel := b } := rfl
@[simp] theorem silenceSt_setBudget (s : St) (b : Option Nat) :
    ({ silenceSt s with budget := b } : St) = silenceSt { s with budget := b } := rfl
@[simp] theorem silenceSt_setVerboseFalse (s : St) :
    ({ silenceSt s with verbose := false } : St) = { s with verbose := false } := rfl
@[simp] theorem silenceSt_idem (s : St) : silenceSt (silenceSt s) = silenceSt s := rfl

theorem silenceSt_of_silent {s : St} (h : s.verbose = false) : silenceSt s = s := by
  cases s; simp_all [silenceSt]

/-! ## the simulation hypotheses on the recursive calls -/

def SimI (item : ItemK) : Prop :=
  ∀ s n v f u, s.verbose = true → item (silenceSt s) n v f u = silence (item s n v f u)
def SimB (bool : BoolK) : Prop :=
  ∀ s n v b, s.verbose = true → bool (silenceSt s) n v b = silenceP (bool s n v b)
def SimA (any : AnyK) : Prop :=
  ∀ s n vs f l a b i u, s.verbose = true →
    any (silenceSt s) n vs f l a b i u = silence (any s n vs f l a b i u)

/-- the flag after a `Good` call -/
theorem Good.verbose {s : St} {f : Found} {r : Res} (h : Good s f r) : r.st.verbose = s.verbose :=
  h.ctx.2.2.2.2.2
theorem GoodP.verbose {s : St} {p : PRes} (h : GoodP s p) : p.st.verbose = s.verbose :=
  h.ctx.2.2.2.2.2

/-- both runs branch on the same condition -/
theorem sim_ite {c : Prop} [Decidable c] {a b a' b' : Res} (h1 : c → a = silence a') (h2 : ¬ c → b = silence b') :
    (if c then a else b) = silence (if c then a' else b') := by
  split <;> simp_all

theorem simP_ite {c : Prop} [Decidable c] {a b a' b' : PRes} (h1 : c → a = silenceP a') (h2 : ¬ c → b = silenceP b') :
    (if c then a else b) = silenceP (if c then a' else b') := by
  split <;> simp_all

/-! ## leaves -/

theorem returnVerboseError_sim (s : St) (f : Found) (hv : s.verbose = true) :
    returnVerboseError (silenceSt s) f = silence (returnVerboseError s f) := by
  simp [returnVerboseError, hv]

theorem returnError_sim (s : St) (f : Found) (e : Err) (hv : s.verbose = true) :
    returnError (silenceSt s) f e = silence (returnError s f e) := by
  cases e <;> simp [returnError, hv, Err.isVerbose]

theorem structural_sim (s : St) (f : Found) (hv : s.verbose = true) :
    structural (silenceSt s) f = silence (structural s f) := by
  unfold structural
  simp only [silenceSt_ignoreSE]
  exact sim_ite (fun _ => returnVerboseError_sim s f hv) (fun _ => by simp)

theorem executeItem_sim (c : Ctx) {item : ItemK} (hS : SimI item) (s : St) (n : Node) (v : Item) (f : Found)
    (hv : s.verbose = true) :
    executeItem c item (silenceSt s) n v f = silence (executeItem c item s n v f) := hS _ _ _ _ _ hv

theorem executeNextItem_sim (c : Ctx) {item : ItemK} (hS : SimI item) (s : St) (nx : Option Node) (v : Item)
    (f : Found) (hv : s.verbose = true) :
    executeNextItem c item (silenceSt s) nx v f = silence (executeNextItem c item s nx v f) := by
  unfold executeNextItem
  cases nx with
  | some n => exact executeItem_sim c hS _ _ _ _ hv
  | none => simp

theorem withBaseObject_sim (s : St) (a : Nat) (i : Int) (k : St → Res)
    (hk : ∀ s' : St, s'.verbose = s.verbose → k (silenceSt s') = silence (k s')) :
    withBaseObject (silenceSt s) a i k = silence (withBaseObject s a i k) := by
  unfold withBaseObject
  simp only [silenceSt_setBase, silenceSt_baseAddr, silenceSt_baseId]
  rw [hk { s with baseAddr := a, baseId := i } rfl]
  rfl

theorem execLiteral_sim (c : Ctx) {item : ItemK} (hS : SimI item) (s : St) (nx : Option Node) (v : Item)
    (f : Found) (hv : s.verbose = true) :
    execLiteral c item (silenceSt s) nx v f = silence (execLiteral c item s nx v f) := by
  unfold execLiteral
  exact sim_ite (fun _ => by simp) (fun _ => executeNextItem_sim c hS _ _ _ _ hv)

theorem execVariable_sim (c : Ctx) {item : ItemK} (hS : SimI item) (s : St) (name : List Char)
    (nx : Option Node) (f : Found) (hv : s.verbose = true) :
    execVariable c item (silenceSt s) name nx f = silence (execVariable c item s name nx f) := by
  unfold execVariable
  split
  · exact withBaseObject_sim _ _ _ _ (fun s' hs' => executeNextItem_sim c hS _ _ _ _ (hs'.trans hv))
  · simp

theorem unwrapTargetArray_sim {any : AnyK} (hS : SimA any) (s : St) (n : Node) (xs : List Item) (f : Found)
    (hv : s.verbose = true) :
    unwrapTargetArray any (silenceSt s) n xs f = silence (unwrapTargetArray any s n xs f) :=
  hS _ _ _ _ _ _ _ _ _ hv

theorem execKeyNode_sim (c : Ctx) {item : ItemK} {any : AnyK} (hS : SimI item) (hSA : SimA any) (s : St)
    (n : Node) (key : List Char) (nx : Option Node) (v : Item) (f : Found) (unwrap : Bool)
    (hv : s.verbose = true) :
    execKeyNode c item any (silenceSt s) n key nx v f unwrap
      = silence (execKeyNode c item any s n key nx v f unwrap) := by
  unfold execKeyNode
  split
  · split
    · exact executeNextItem_sim c hS _ _ _ _ hv
    · simp only [silenceSt_ignoreSE, silenceSt_verbose, hv]
      exact sim_ite (fun _ => by simp) (fun _ => by simp)
  · exact sim_ite (fun _ => hSA _ _ _ _ _ _ _ _ _ hv) (fun _ => structural_sim s f hv)
  · exact structural_sim s f hv

theorem execAnyKey_sim (c : Ctx) {any : AnyK} (hSA : SimA any) (s : St)
    (n : Node) (nx : Option Node) (v : Item) (f : Found) (unwrap : Bool) (hv : s.verbose = true) :
    execAnyKey c any (silenceSt s) n nx v f unwrap = silence (execAnyKey c any s n nx v f unwrap) := by
  unfold execAnyKey
  split
  · exact hSA _ _ _ _ _ _ _ _ _ hv
  · exact sim_ite (fun _ => unwrapTargetArray_sim hSA _ _ _ _ hv) (fun _ => structural_sim s f hv)
  · exact structural_sim s f hv

theorem execAnyArray_sim (c : Ctx) {item : ItemK} {any : AnyK} (hS : SimI item) (hSA : SimA any) (s : St)
    (nx : Option Node) (v : Item) (f : Found) (hv : s.verbose = true) :
    execAnyArray c item any (silenceSt s) nx v f = silence (execAnyArray c item any s nx v f) := by
  unfold execAnyArray
  split
  · exact hSA _ _ _ _ _ _ _ _ _ hv
  · exact sim_ite (fun _ => executeNextItem_sim c hS _ _ _ _ hv) (fun _ => structural_sim s f hv)

theorem execLastConst_sim (c : Ctx) {item : ItemK} (hS : SimI item) (s : St)
    (nx : Option Node) (f : Found) (hv : s.verbose = true) :
    execLastConst c item (silenceSt s) nx f = silence (execLastConst c item s nx f) := by
  unfold execLastConst
  simp only [silenceSt_innermost]
  refine sim_ite (fun _ => by simp) (fun _ => ?_)
  exact sim_ite (fun _ => by simp) (fun _ => executeNextItem_sim c hS _ _ _ _ hv)

theorem execConstNode_sim (c : Ctx) {item : ItemK} {any : AnyK} (hS : SimI item) (hSA : SimA any) (s : St)
    (n : Node) (k : Const) (nx : Option Node) (v : Item) (f : Found) (unwrap : Bool) (hv : s.verbose = true) :
    execConstNode c item any (silenceSt s) n k nx v f unwrap
      = silence (execConstNode c item any s n k nx v f unwrap) := by
  unfold execConstNode
  cases k <;> simp only
  · exact withBaseObject_sim _ _ _ _ (fun s' hs' => executeNextItem_sim c hS _ _ _ _ (hs'.trans hv))
  · exact executeNextItem_sim c hS _ _ _ _ hv
  · exact execLastConst_sim c hS _ _ _ hv
  · exact execAnyArray_sim c hS hSA _ _ _ _ hv
  · exact execAnyKey_sim c hSA _ _ _ _ _ _ hv
  · exact execLiteral_sim c hS _ _ _ _ hv
  · exact execLiteral_sim c hS _ _ _ _ hv
  · exact execLiteral_sim c hS _ _ _ _ hv

/-! ## operand evaluation -/

theorem optUnwrapResult_sim (c : Ctx) {item : ItemK} (hS : SimI item) (s : St) (n : Node) (v : Item)
    (unwrap : Bool) (l : List Item) (hv : s.verbose = true) :
    optUnwrapResult c item (silenceSt s) n v unwrap l = silence (optUnwrapResult c item s n v unwrap l) := by
  unfold optUnwrapResult
  refine sim_ite (fun _ => ?_) (fun _ => executeItem_sim c hS _ _ _ _ hv)
  simp only [executeItem_sim c hS _ _ _ _ hv, silence_status, silence_st, silence_found, silence_err]
  exact sim_ite (fun _ => by simp) (fun _ => by simp)

/-- predicate operands are evaluated with `verbose = false` in both runs: the same sub-run -/
theorem optUnwrapResultSilent_sim (c : Ctx) {item : ItemK} (hI : GoodI item) (s : St) (n : Node) (v : Item)
    (unwrap : Bool) (f : Found) :
    optUnwrapResultSilent c item (silenceSt s) n v unwrap f
      = silence (optUnwrapResultSilent c item s n v unwrap f) := by
  have hne := (optUnwrapResultSilent_good c hI s n v unwrap f).2
  revert hne
  unfold optUnwrapResultSilent
  simp only [silenceSt_setVerboseFalse, silenceSt_verbose]
  intro hne
  simp only [silence, silenceErr_of_ne hne]
  rfl

end Exec
end Sqljson
