import Sqljson.Lemmas.ApiGood
/-!
# Silent / verbose simulation

Two runs of the executor that differ only in the `verbose` flag (`WithSilent`) proceed in lock step:
the run started with `verbose = false` returns exactly what the run started with `verbose = true`
returns, except that the flag stays `false` and a suppressible error (`ErrVerbose`) is dropped:

    xItem c fuel (silenceSt s) n v f u = silence (xItem c fuel s n v f u)        (s.verbose = true)

Structure as in `Good.lean`: one lemma per Go function ("if the recursive calls simulate, so do I"),
loops by `foldl_sim` with the accumulator invariant of `Good.lean`, then `sim_all` by induction on fuel.
The invariant `Good` supplies the facts about the verbose run that the simulation needs: the flag is
restored (`Good.ctx`), an error comes with status `failed` (`Good.errFailed`), predicates never return
a suppressible error (`GoodP.noVerbose`).
-/

namespace Sqljson
namespace Exec

/-- what a run with `verbose = false` returns, given what the run with `verbose = true` returns -/
def silenceErr : Option Err → Option Err
  | some .verbose => none
  | e => e

def silenceSt (s : St) : St := { s with verbose := false }

def silence (r : Res) : Res := { r with st := silenceSt r.st, err := silenceErr r.err }

/-- predicates: outcome and error are the same in both runs, only the restored flag differs -/
def silenceP (p : PRes) : PRes := { p with st := silenceSt p.st }

/-! ## projections -/

@[simp] theorem silenceSt_current (s : St) : (silenceSt s).current = s.current := rfl
@[simp] theorem silenceSt_baseAddr (s : St) : (silenceSt s).baseAddr = s.baseAddr := rfl
@[simp] theorem silenceSt_baseId (s : St) : (silenceSt s).baseId = s.baseId := rfl
@[simp] theorem silenceSt_lastGenId (s : St) : (silenceSt s).lastGenId = s.lastGenId := rfl
@[simp] theorem silenceSt_innermost (s : St) : (silenceSt s).innermost = s.innermost := rfl
@[simp] theorem silenceSt_ignoreSE (s : St) : (silenceSt s).ignoreSE = s.ignoreSE := rfl
@[simp] theorem silenceSt_verbose (s : St) : (silenceSt s).verbose = false := rfl
@[simp] theorem silenceSt_budget (s : St) : (silenceSt s).budget = s.budget := rfl
@[simp] theorem silenceSt_sawCancel (s : St) : (silenceSt s).sawCancel = s.sawCancel := rfl
@[simp] theorem silenceSt_panicked (s : St) : (silenceSt s).panicked = s.panicked := rfl
@[simp] theorem silenceSt_oof (s : St) : (silenceSt s).oof = s.oof := rfl

@[simp] theorem silence_st (r : Res) : (silence r).st = silenceSt r.st := rfl
@[simp] theorem silence_found (r : Res) : (silence r).found = r.found := rfl
@[simp] theorem silence_status (r : Res) : (silence r).status = r.status := rfl
@[simp] theorem silence_err (r : Res) : (silence r).err = silenceErr r.err := rfl
@[simp] theorem silence_mk (s : St) (f : Found) (st : Status) (e : Option Err) :
    silence ⟨s, f, st, e⟩ = ⟨silenceSt s, f, st, silenceErr e⟩ := rfl

@[simp] theorem silenceP_st (p : PRes) : (silenceP p).st = silenceSt p.st := rfl
@[simp] theorem silenceP_out (p : PRes) : (silenceP p).out = p.out := rfl
@[simp] theorem silenceP_err (p : PRes) : (silenceP p).err = p.err := rfl
@[simp] theorem silenceP_mk (s : St) (p : Pred) (e : Option Err) :
    silenceP ⟨s, p, e⟩ = ⟨silenceSt s, p, e⟩ := rfl

@[simp] theorem silenceErr_none : silenceErr none = none := rfl
@[simp] theorem silenceErr_verbose : silenceErr (some .verbose) = none := rfl
@[simp] theorem silenceErr_hard (k : Hard) : silenceErr (some (.hard k)) = some (.hard k) := rfl
@[simp] theorem silenceErr_cancelled : silenceErr (some .cancelled) = some .cancelled := rfl
@[simp] theorem silenceErr_invalid : silenceErr (some .invalid) = some .invalid := rfl

theorem silenceErr_of_ne {e : Option Err} (h : e ≠ some .verbose) : silenceErr e = e := by
  unfold silenceErr; split <;> simp_all

theorem silenceErr_some_ne {e : Err} (h : e ≠ .verbose) : silenceErr (some e) = some e :=
  silenceErr_of_ne (by simpa using h)

theorem silenceErr_ne_verbose (e : Option Err) : silenceErr e ≠ some .verbose := by
  unfold silenceErr; split <;> simp_all

theorem silenceErr_eq_none {e : Option Err} : silenceErr e = none ↔ (e = none ∨ e = some .verbose) := by
  unfold silenceErr; split <;> simp_all

/-- the updates of the other context fields commute with `silenceSt` -/
@[simp] theorem silenceSt_setBase (s : St) (a : Nat) (i : Int) :
    ({ silenceSt s with baseAddr := a, baseId := i } : St) = silenceSt { s with baseAddr := a, baseId := i } := rfl
@[simp] theorem silenceSt_setIgn (s : St) (b : Bool) :
    ({ silenceSt s with ignoreSE := b } : St) = silenceSt { s with ignoreSE := b } := rfl
@[simp] theorem silenceSt_setCurrent (s : St) (v : Item) :
    ({ silenceSt s with current := v } : St) = silenceSt { s with current := v } := rfl
@[simp] theorem silenceSt_setInn (s : St) (i : Int) :
    ({ silenceSt s with innermost := i } : St) = silenceSt { s with innermost := i } := rfl
@[simp] theorem silenceSt_setPanicked (s : St) (b : Bool) :
    ({ silenceSt s with panicked := b } : St) = silenceSt { s with panicked := b } := rfl
@[simp] theorem silenceSt_setOof (s : St) (b : Bool) :
    ({ silenceSt s with oof := b } : St) = silenceSt { s with oof := b } := rfl
@[simp] theorem silenceSt_setSawCancel (s : St) (b : Bool) :
    ({ silenceSt s with sawCancel := b } : St) = silenceSt { s with sawCancel := b } := rfl
@[simp] theorem silenceSt_setBudget (s : St) (b : Option Nat) :
    ({ silenceSt s with budget := b } : St) = silenceSt { s with budget := b } := rfl
@[simp] theorem silenceSt_setVerboseFalse (s : St) :
    ({ silenceSt s with verbose := false } : St) = { s with verbose := false } := rfl
@[simp] theorem silenceSt_idem (s : St) : silenceSt (silenceSt s) = silenceSt s := rfl

theorem silenceSt_of_silent {s : St} (h : s.verbose = false) : silenceSt s = s := by
  cases s; simp_all [silenceSt]

/-! ## the simulation hypotheses on the recursive calls -/

def SimI (item : ItemK) : Prop :=
  ∀ s n v f u, s.verbose = true → item (silenceSt s) n v f u = silence (item s n v f u)
def SimB (bool : BoolK) : Prop :=
  ∀ s n v b, s.verbose = true → bool (silenceSt s) n v b = silenceP (bool s n v b)
def SimA (any : AnyK) : Prop :=
  ∀ s n vs f l a b i u, s.verbose = true →
    any (silenceSt s) n vs f l a b i u = silence (any s n vs f l a b i u)

/-- the flag after a `Good` call -/
theorem Good.verbose {s : St} {f : Found} {r : Res} (h : Good s f r) : r.st.verbose = s.verbose :=
  h.ctx.2.2.2.2.2
theorem GoodP.verbose {s : St} {p : PRes} (h : GoodP s p) : p.st.verbose = s.verbose :=
  h.ctx.2.2.2.2.2

/-- closes the goals where both runs return a literal result -/
macro "sim_triv" : tactic => `(tactic| first | rfl | (simp; done) | (simp <;> rfl))

/-- both runs branch on the same condition -/
theorem sim_ite {c : Prop} [Decidable c] {a b a' b' : Res} (h1 : c → a = silence a') (h2 : ¬ c → b = silence b') :
    (if c then a else b) = silence (if c then a' else b') := by
  split <;> simp_all

theorem simP_ite {c : Prop} [Decidable c] {a b a' b' : PRes} (h1 : c → a = silenceP a') (h2 : ¬ c → b = silenceP b') :
    (if c then a else b) = silenceP (if c then a' else b') := by
  split <;> simp_all

/-- the generic form -/
theorem ite_sim {β : Type} (g : β → β) {c : Prop} [Decidable c] {a b a' b' : β}
    (h1 : c → a = g a') (h2 : ¬ c → b = g b') : (if c then a else b) = g (if c then a' else b') := by
  split <;> simp_all

/-- two loops in lock step: the accumulators stay related by `g` as long as the invariant `P` of the
    reference loop holds -/
theorem foldl_sim {α β : Type} (P : β → Prop) (g : β → β) (step : β → α → β) (xs : List α) (b : β)
    (h0 : P b) (hP : ∀ b x, P b → P (step b x)) (hstep : ∀ b x, P b → step (g b) x = g (step b x)) :
    xs.foldl step (g b) = g (xs.foldl step b) := by
  induction xs generalizing b with
  | nil => rfl
  | cons x xs ih =>
    simp only [List.foldl_cons]
    rw [hstep b x h0]
    exact ih _ (hP _ _ h0)

/-! ## leaves -/

theorem returnVerboseError_sim (s : St) (f : Found) (hv : s.verbose = true) :
    returnVerboseError (silenceSt s) f = silence (returnVerboseError s f) := by
  simp [returnVerboseError, hv]

theorem returnError_sim (s : St) (f : Found) (e : Err) (hv : s.verbose = true) :
    returnError (silenceSt s) f e = silence (returnError s f e) := by
  cases e <;> simp [returnError, hv, Err.isVerbose]

theorem structural_sim (s : St) (f : Found) (hv : s.verbose = true) :
    structural (silenceSt s) f = silence (structural s f) := by
  unfold structural
  simp only [silenceSt_ignoreSE]
  exact sim_ite (fun _ => returnVerboseError_sim s f hv) (fun _ => by simp)

theorem executeItem_sim (c : Ctx) {item : ItemK} (hS : SimI item) (s : St) (n : Node) (v : Item) (f : Found)
    (hv : s.verbose = true) :
    executeItem c item (silenceSt s) n v f = silence (executeItem c item s n v f) := hS _ _ _ _ _ hv

theorem executeNextItem_sim (c : Ctx) {item : ItemK} (hS : SimI item) (s : St) (nx : Option Node) (v : Item)
    (f : Found) (hv : s.verbose = true) :
    executeNextItem c item (silenceSt s) nx v f = silence (executeNextItem c item s nx v f) := by
  unfold executeNextItem
  cases nx with
  | some n => exact executeItem_sim c hS _ _ _ _ hv
  | none => simp

theorem withBaseObject_sim (s : St) (a : Nat) (i : Int) (k : St → Res)
    (hk : ∀ s' : St, s'.verbose = s.verbose → k (silenceSt s') = silence (k s')) :
    withBaseObject (silenceSt s) a i k = silence (withBaseObject s a i k) := by
  unfold withBaseObject
  simp only [silenceSt_setBase, silenceSt_baseAddr, silenceSt_baseId]
  rw [hk { s with baseAddr := a, baseId := i } rfl]
  rfl

theorem execLiteral_sim (c : Ctx) {item : ItemK} (hS : SimI item) (s : St) (nx : Option Node) (v : Item)
    (f : Found) (hv : s.verbose = true) :
    execLiteral c item (silenceSt s) nx v f = silence (execLiteral c item s nx v f) := by
  unfold execLiteral
  exact sim_ite (fun _ => by simp) (fun _ => executeNextItem_sim c hS _ _ _ _ hv)

theorem execVariable_sim (c : Ctx) {item : ItemK} (hS : SimI item) (s : St) (name : List Char)
    (nx : Option Node) (f : Found) (hv : s.verbose = true) :
    execVariable c item (silenceSt s) name nx f = silence (execVariable c item s name nx f) := by
  unfold execVariable
  split
  · exact withBaseObject_sim _ _ _ _ (fun s' hs' => executeNextItem_sim c hS _ _ _ _ (hs'.trans hv))
  · simp

theorem unwrapTargetArray_sim {any : AnyK} (hS : SimA any) (s : St) (n : Node) (xs : List Item) (f : Found)
    (hv : s.verbose = true) :
    unwrapTargetArray any (silenceSt s) n xs f = silence (unwrapTargetArray any s n xs f) :=
  hS _ _ _ _ _ _ _ _ _ hv

theorem execKeyNode_sim (c : Ctx) {item : ItemK} {any : AnyK} (hS : SimI item) (hSA : SimA any) (s : St)
    (n : Node) (key : List Char) (nx : Option Node) (v : Item) (f : Found) (unwrap : Bool)
    (hv : s.verbose = true) :
    execKeyNode c item any (silenceSt s) n key nx v f unwrap
      = silence (execKeyNode c item any s n key nx v f unwrap) := by
  unfold execKeyNode
  split
  · split
    · exact executeNextItem_sim c hS _ _ _ _ hv
    · simp only [silenceSt_ignoreSE, silenceSt_verbose, hv]
      exact sim_ite (fun _ => by simp) (fun _ => by simp)
  · exact sim_ite (fun _ => hSA _ _ _ _ _ _ _ _ _ hv) (fun _ => structural_sim s f hv)
  · exact structural_sim s f hv

theorem execAnyKey_sim (c : Ctx) {any : AnyK} (hSA : SimA any) (s : St)
    (n : Node) (nx : Option Node) (v : Item) (f : Found) (unwrap : Bool) (hv : s.verbose = true) :
    execAnyKey c any (silenceSt s) n nx v f unwrap = silence (execAnyKey c any s n nx v f unwrap) := by
  unfold execAnyKey
  split
  · exact hSA _ _ _ _ _ _ _ _ _ hv
  · exact sim_ite (fun _ => unwrapTargetArray_sim hSA _ _ _ _ hv) (fun _ => structural_sim s f hv)
  · exact structural_sim s f hv

theorem execAnyArray_sim (c : Ctx) {item : ItemK} {any : AnyK} (hS : SimI item) (hSA : SimA any) (s : St)
    (nx : Option Node) (v : Item) (f : Found) (hv : s.verbose = true) :
    execAnyArray c item any (silenceSt s) nx v f = silence (execAnyArray c item any s nx v f) := by
  unfold execAnyArray
  split
  · exact hSA _ _ _ _ _ _ _ _ _ hv
  · exact sim_ite (fun _ => executeNextItem_sim c hS _ _ _ _ hv) (fun _ => structural_sim s f hv)

theorem execLastConst_sim (c : Ctx) {item : ItemK} (hS : SimI item) (s : St)
    (nx : Option Node) (f : Found) (hv : s.verbose = true) :
    execLastConst c item (silenceSt s) nx f = silence (execLastConst c item s nx f) := by
  unfold execLastConst
  simp only [silenceSt_innermost]
  refine sim_ite (fun _ => by simp) (fun _ => ?_)
  exact sim_ite (fun _ => by simp) (fun _ => executeNextItem_sim c hS _ _ _ _ hv)

theorem execConstNode_sim (c : Ctx) {item : ItemK} {any : AnyK} (hS : SimI item) (hSA : SimA any) (s : St)
    (n : Node) (k : Const) (nx : Option Node) (v : Item) (f : Found) (unwrap : Bool) (hv : s.verbose = true) :
    execConstNode c item any (silenceSt s) n k nx v f unwrap
      = silence (execConstNode c item any s n k nx v f unwrap) := by
  unfold execConstNode
  cases k <;> simp only
  · exact withBaseObject_sim _ _ _ _ (fun s' hs' => executeNextItem_sim c hS _ _ _ _ (hs'.trans hv))
  · exact executeNextItem_sim c hS _ _ _ _ hv
  · exact execLastConst_sim c hS _ _ _ hv
  · exact execAnyArray_sim c hS hSA _ _ _ _ hv
  · exact execAnyKey_sim c hSA _ _ _ _ _ _ hv
  · exact execLiteral_sim c hS _ _ _ _ hv
  · exact execLiteral_sim c hS _ _ _ _ hv
  · exact execLiteral_sim c hS _ _ _ _ hv

/-! ## operand evaluation -/

theorem optUnwrapResult_sim (c : Ctx) {item : ItemK} (hS : SimI item) (s : St) (n : Node) (v : Item)
    (unwrap : Bool) (l : List Item) (hv : s.verbose = true) :
    optUnwrapResult c item (silenceSt s) n v unwrap l = silence (optUnwrapResult c item s n v unwrap l) := by
  unfold optUnwrapResult
  refine sim_ite (fun _ => ?_) (fun _ => executeItem_sim c hS _ _ _ _ hv)
  simp only [executeItem_sim c hS _ _ _ _ hv, silence_status, silence_st, silence_found, silence_err]
  exact sim_ite (fun _ => by simp) (fun _ => by simp)

/-- predicate operands are evaluated with `verbose = false` in both runs: the same sub-run -/
theorem optUnwrapResultSilent_sim (c : Ctx) {item : ItemK} (hI : GoodI item) (s : St) (n : Node) (v : Item)
    (unwrap : Bool) (f : Found) :
    optUnwrapResultSilent c item (silenceSt s) n v unwrap f
      = silence (optUnwrapResultSilent c item s n v unwrap f) := by
  have hne := (optUnwrapResultSilent_good c hI s n v unwrap f).2
  revert hne
  unfold optUnwrapResultSilent
  simp only [silenceSt_setVerboseFalse, silenceSt_verbose]
  intro hne
  simp only [silence, silenceErr_of_ne hne]
  rfl

/-! ## predicates -/

theorem predicateTail_sim (c : Ctx) (s : St) (cb : Item → Item → CbOut) (ls rs : List Item) :
    predicateTail c (silenceSt s) cb ls rs = silenceP (predicateTail c s cb ls rs) := by
  unfold predicateTail
  generalize pairLoop (!c.lax) cb ls rs = acc
  obtain ⟨hasErr, found, done⟩ := acc
  cases done with
  | some d => obtain ⟨p, e, pk⟩ := d; sim_triv
  | none => cases found <;> cases hasErr <;> simp

theorem executePredicate_sim (c : Ctx) {item : ItemK} (hI : GoodI item) (s : St) (left : Node)
    (right : Option Node) (v : Item) (unwrapRight : Bool) (cb : Item → Item → CbOut) :
    executePredicate c item (silenceSt s) left right v unwrapRight cb
      = silenceP (executePredicate c item s left right v unwrapRight cb) := by
  unfold executePredicate
  have hl := optUnwrapResultSilent_sim c hI s left v true (some [])
  have hlv := (optUnwrapResultSilent_good c hI s left v true (some [])).2
  simp only [hl, silence_status, silence_st, silence_found, silence_err, silenceErr_of_ne hlv]
  refine simP_ite (fun _ => by simp) (fun _ => ?_)
  cases right with
  | none => exact predicateTail_sim c _ cb _ _
  | some rn =>
    have hr := optUnwrapResultSilent_sim c hI (optUnwrapResultSilent c item s left v true (some [])).st rn v
      unwrapRight (some [])
    have hrv := (optUnwrapResultSilent_good c hI (optUnwrapResultSilent c item s left v true (some [])).st rn v
      unwrapRight (some [])).2
    simp only [hr, silence_status, silence_st, silence_found, silence_err, silenceErr_of_ne hrv]
    exact simP_ite (fun _ => by simp) (fun _ => predicateTail_sim c _ cb _ _)

theorem executeBinaryBoolItem_sim (c : Ctx) {item : ItemK} {bool : BoolK} (hI : GoodI item) (hB : GoodB bool)
    (hSB : SimB bool) (s : St) (op : BinOp) (l r : Option Node) (v : Item) (hv : s.verbose = true) :
    executeBinaryBoolItem c item bool (silenceSt s) op l r v
      = silenceP (executeBinaryBoolItem c item bool s op l r v) := by
  unfold executeBinaryBoolItem
  cases l with
  | none => sim_triv
  | some l =>
    simp only
    split
    · cases r with
      | none => sim_triv
      | some r =>
        have ha := hSB s l v false hv
        have hav : (bool s l v false).st.verbose = true := (hB s l v false).verbose.trans hv
        have hb := hSB _ r v false hav
        simp only [ha, silenceP_out, silenceP_err, silenceP_st, hb]
        exact simP_ite (fun _ => rfl) (fun _ => simP_ite (fun _ => by simp) (fun _ => rfl))
    · cases r with
      | none => sim_triv
      | some r =>
        have ha := hSB s l v false hv
        have hav : (bool s l v false).st.verbose = true := (hB s l v false).verbose.trans hv
        have hb := hSB _ r v false hav
        simp only [ha, silenceP_out, silenceP_err, silenceP_st, hb]
        exact simP_ite (fun _ => rfl) (fun _ => simP_ite (fun _ => by simp) (fun _ => rfl))
    · exact executePredicate_sim c hI _ _ _ _ _ _
    · exact simP_ite (fun _ => executePredicate_sim c hI _ _ _ _ _ _) (fun _ => by simp)

theorem executeUnaryBoolItem_sim (c : Ctx) {item : ItemK} {bool : BoolK} (hI : GoodI item)
    (hSB : SimB bool) (s : St) (op : UnOp) (x : Option Node) (v : Item) (hv : s.verbose = true) :
    executeUnaryBoolItem c item bool (silenceSt s) op x v
      = silenceP (executeUnaryBoolItem c item bool s op x v) := by
  unfold executeUnaryBoolItem
  split
  · -- not
    rename_i xn
    simp only [hSB s xn v false hv, silenceP_out, silenceP_st]
    cases (bool s xn v false).out <;> simp
  · -- is unknown
    rename_i xn
    simp only [hSB s xn v false hv, silenceP_out, silenceP_st, silenceP_err]
    exact simP_ite (fun _ => by simp) (fun _ => by simp)
  · -- exists
    rename_i xn
    refine simP_ite (fun _ => ?_) (fun _ => ?_)
    · have hr := optUnwrapResultSilent_sim c hI s xn v false (some [])
      have hrv := (optUnwrapResultSilent_good c hI s xn v false (some [])).2
      simp only [hr, silence_status, silence_st, silence_found, silence_err, silenceErr_of_ne hrv]
      exact simP_ite (fun _ => by simp) (fun _ => simP_ite (fun _ => by simp) (fun _ => by simp))
    · have hr := optUnwrapResultSilent_sim c hI s xn v false none
      have hrv := (optUnwrapResultSilent_good c hI s xn v false none).2
      simp only [hr, silence_status, silence_st, silence_err, silenceErr_of_ne hrv]
      exact simP_ite (fun _ => by simp) (fun _ => simP_ite (fun _ => by simp) (fun _ => by simp))
  · sim_triv
  · sim_triv
  · sim_triv
  · sim_triv

theorem executeBoolItem_sim (c : Ctx) {item : ItemK} {bool : BoolK} (hI : GoodI item) (hB : GoodB bool)
    (hSB : SimB bool) (s : St) (n : Node) (v : Item) (chn : Bool) (hv : s.verbose = true) :
    executeBoolItem c item bool (silenceSt s) n v chn = silenceP (executeBoolItem c item bool s n v chn) := by
  unfold executeBoolItem
  refine simP_ite (fun _ => by simp) (fun _ => ?_)
  split
  · exact executeBinaryBoolItem_sim c hI hB hSB _ _ _ _ _ hv
  · exact executeUnaryBoolItem_sim c hI hSB _ _ _ _ hv
  · exact executePredicate_sim c hI _ _ _ _ _ _
  · sim_triv

theorem appendBoolResult_sim (c : Ctx) {item : ItemK} (hS : SimI item) (nx : Option Node) (f : Found)
    (p : PRes) (hpv : p.st.verbose = true) (hne : p.err ≠ some .verbose) :
    appendBoolResult c item nx f (silenceP p) = silence (appendBoolResult c item nx f p) := by
  unfold appendBoolResult
  simp only [silenceP_err, silenceP_st, silenceP_out]
  cases h : p.err with
  | some e =>
    have : e ≠ .verbose := by intro he; subst he; exact hne h
    simp [silenceErr_some_ne this]
  | none =>
    simp only
    exact sim_ite (fun _ => by simp) (fun _ => executeNextItem_sim c hS _ _ _ _ hpv)

theorem executeNestedBoolItem_sim {bool : BoolK} (hSB : SimB bool) (s : St) (n : Node) (v : Item)
    (hv : s.verbose = true) :
    executeNestedBoolItem bool (silenceSt s) n v = silenceP (executeNestedBoolItem bool s n v) := by
  unfold executeNestedBoolItem
  simp only [silenceSt_setCurrent, silenceSt_current]
  rw [hSB { s with current := v } n v false hv]
  rfl

/-! ## arithmetic -/

def silenceU (a : UAcc) : UAcc := { a with st := silenceSt a.st, ret := a.ret.map silence }

theorem unaryStep_sim (c : Ctx) {item : ItemK} (hS : SimI item) (cb : Num.UCallback) (nx : Option Node)
    (s : St) (f : Found) (a : UAcc) (v : Item) (h : UInv s f a) (hv : s.verbose = true) :
    unaryStep c item cb nx (silenceU a) v = silenceU (unaryStep c item cb nx a v) := by
  obtain ⟨st, found, res, ret⟩ := a
  cases ret with
  | some r => rfl
  | none =>
    have hst : st.verbose = true := ((h.2 rfl).1.verbose).trans hv
    have go : ∀ val : Item,
        (let r := executeNextItem c item (silenceSt st) nx val found
         if r.status = .failed then ({ st := r.st, found := r.found, res := res, ret := some r } : UAcc)
         else if r.status = .ok then
           (if found.isNone then { st := r.st, found := r.found, res := res, ret := some ⟨r.st, r.found, .ok, none⟩ }
            else { st := r.st, found := r.found, res := .ok, ret := none })
         else { st := r.st, found := r.found, res := res, ret := none }) =
        silenceU
        (let r := executeNextItem c item st nx val found
         if r.status = .failed then ({ st := r.st, found := r.found, res := res, ret := some r } : UAcc)
         else if r.status = .ok then
           (if found.isNone then { st := r.st, found := r.found, res := res, ret := some ⟨r.st, r.found, .ok, none⟩ }
            else { st := r.st, found := r.found, res := .ok, ret := none })
         else { st := r.st, found := r.found, res := res, ret := none }) := by
      intro val
      simp only [executeNextItem_sim c hS st nx val found hst, silence_status, silence_st, silence_found]
      refine ite_sim silenceU (fun _ => rfl) (fun _ => ?_)
      refine ite_sim silenceU (fun _ => ?_) (fun _ => rfl)
      exact ite_sim silenceU (fun _ => rfl) (fun _ => rfl)
    have bad : returnVerboseError (silenceSt st) found = silence (returnVerboseError st found) :=
      returnVerboseError_sim st found hst
    have badU : (UAcc.mk (silenceSt st) found res (some (returnVerboseError (silenceSt st) found)))
        = silenceU { st := st, found := found, res := res, ret := some (returnVerboseError st found) } := by
      rw [bad]; rfl
    unfold unaryStep
    cases v with
    | int i => exact ite_sim silenceU (fun _ => rfl) (fun _ => go _)
    | flt x => exact ite_sim silenceU (fun _ => rfl) (fun _ => go _)
    | jnum t =>
      refine ite_sim silenceU (fun _ => rfl) (fun _ => ?_)
      cases hcast : Num.castJSONNumber t cb with
      | some val => exact go val
      | none => exact badU
    | _ => exact ite_sim silenceU (fun _ => go _) (fun _ => badU)

theorem execUnaryMathExpr_sim (c : Ctx) {item : ItemK} (hI : GoodI item) (hS : SimI item) (s : St)
    (operand nx : Option Node) (v : Item) (cb : Num.UCallback) (f : Found) (hv : s.verbose = true) :
    execUnaryMathExpr c item (silenceSt s) operand nx v cb f
      = silence (execUnaryMathExpr c item s operand nx v cb f) := by
  unfold execUnaryMathExpr
  cases operand with
  | none => rfl
  | some x =>
    have hr := optUnwrapResult_good c hI s x v true []
    simp only [optUnwrapResult_sim c hS s x v true [] hv, silence_status, silence_st, silence_found, silence_err]
    refine sim_ite (fun _ => by simp) (fun hnf => ?_)
    have hm := Good.mid hr hnf
    have hfold := foldl_sim (UInv s f) silenceU (unaryStep c item cb nx)
      ((optUnwrapResult c item s x v true []).found.getD [])
      ⟨(optUnwrapResult c item s x v true []).st, f, .notFound, none⟩
      ⟨fun r hr => by simp at hr, fun _ => ⟨hm, Shape.refl f⟩⟩
      (fun a v h => unaryStep_inv c hI cb nx s f a v h)
      (fun a v h => unaryStep_sim c hS cb nx s f a v h hv)
    have e0 : silenceU ⟨(optUnwrapResult c item s x v true []).st, f, .notFound, none⟩
        = ⟨silenceSt (optUnwrapResult c item s x v true []).st, f, .notFound, none⟩ := rfl
    rw [e0] at hfold
    rw [hfold]
    generalize List.foldl (unaryStep c item cb nx) _ _ = a
    obtain ⟨st, found, res, ret⟩ := a
    cases ret <;> rfl

theorem execBinaryMathExpr_sim (c : Ctx) {item : ItemK} (hI : GoodI item) (hS : SimI item) (s : St)
    (op : BinOp) (l r nx : Option Node) (v : Item) (f : Found) (hv : s.verbose = true) :
    execBinaryMathExpr c item (silenceSt s) op l r nx v f
      = silence (execBinaryMathExpr c item s op l r nx v f) := by
  unfold execBinaryMathExpr
  split
  · rename_i ln rn
    have hl := optUnwrapResult_good c hI s ln v true []
    have hv1 : (optUnwrapResult c item s ln v true []).st.verbose = true := hl.verbose.trans hv
    have hr := optUnwrapResult_good c hI (optUnwrapResult c item s ln v true []).st rn v true []
    have hv2 := hr.verbose.trans hv1
    simp only [optUnwrapResult_sim c hS s ln v true [] hv, silence_status, silence_st, silence_found, silence_err]
    refine sim_ite (fun _ => by simp) (fun _ => ?_)
    generalize (optUnwrapResult c item s ln v true []).found.getD [] = ls
    split
    · simp only [optUnwrapResult_sim c hS _ rn v true [] hv1, silence_status, silence_st, silence_found, silence_err]
      refine sim_ite (fun _ => by simp) (fun _ => ?_)
      generalize (optUnwrapResult c item (optUnwrapResult c item s ln v true []).st rn v true []).found.getD [] = rs
      split
      · generalize Num.mathOp _ _ op = m
        split
        · exact returnVerboseError_sim _ _ hv2
        · refine sim_ite (fun _ => returnVerboseError_sim _ _ hv2) (fun _ => ?_)
          exact sim_ite (fun _ => by simp) (fun _ => executeNextItem_sim c hS _ _ _ _ hv2)
      · exact returnVerboseError_sim _ _ hv2
    · exact returnVerboseError_sim _ _ hv1
  · rfl

/-! ## item methods -/

theorem execMethodSize_sim (c : Ctx) {item : ItemK} (hS : SimI item) (s : St) (nx : Option Node)
    (v : Item) (f : Found) (hv : s.verbose = true) :
    execMethodSize c item (silenceSt s) nx v f = silence (execMethodSize c item s nx v f) := by
  unfold execMethodSize
  split
  · exact executeNextItem_sim c hS _ _ _ _ hv
  · exact sim_ite (fun _ => structural_sim s f hv) (fun _ => executeNextItem_sim c hS _ _ _ _ hv)

theorem execConvMethod_sim (c : Ctx) {item : ItemK} {any : AnyK} (hS : SimI item) (hSA : SimA any) (s : St)
    (n : Node) (nx : Option Node) (v : Item) (f : Found) (unwrap : Bool) (conv : Item → Conv)
    (hv : s.verbose = true) :
    execConvMethod c item any (silenceSt s) n nx v f unwrap conv
      = silence (execConvMethod c item any s n nx v f unwrap conv) := by
  unfold execConvMethod
  split
  · exact sim_ite (fun _ => unwrapTargetArray_sim hSA _ _ _ _ hv) (fun _ => returnVerboseError_sim _ _ hv)
  · generalize conv v = cv
    split
    · exact executeNextItem_sim c hS _ _ _ _ hv
    · exact returnVerboseError_sim _ _ hv
    · rfl
    · exact returnError_sim _ _ _ hv

theorem executeDateTimeMethod_sim (c : Ctx) {item : ItemK} (hS : SimI item) (s : St) (op : UnOp)
    (arg nx : Option Node) (v : Item) (f : Found) (hv : s.verbose = true) :
    executeDateTimeMethod c item (silenceSt s) op arg nx v f
      = silence (executeDateTimeMethod c item s op arg nx v f) := by
  unfold executeDateTimeMethod
  split
  · dsimp only
    generalize (if (op = UnOp.datetime && arg.isSome) = true then _ else _ : Except Err DateTime) = parsed
    cases parsed with
    | error e => exact returnError_sim _ _ _ hv
    | ok d =>
      simp only
      have fin : ∀ d' : DateTime,
          (if (nx.isNone && f.isNone) = true then (⟨silenceSt s, f, .ok, none⟩ : Res)
           else executeNextItem c item (silenceSt s) nx (.dt d') f)
          = silence (if (nx.isNone && f.isNone) = true then (⟨s, f, .ok, none⟩ : Res)
           else executeNextItem c item s nx (.dt d') f) :=
        fun d' => sim_ite (fun _ => rfl) (fun _ => executeNextItem_sim c hS _ _ _ _ hv)
      cases hk : kindOfOp op with
      | none => exact fin d
      | some k =>
        simp only
        cases hct : Time.castTo c.env c.useTZ k d with
        | ok d' => exact fin d'
        | error e =>
          cases e
          all_goals exact returnError_sim _ _ _ hv
  · exact returnVerboseError_sim _ _ hv

def silenceKV (a : KVAcc) : KVAcc := { a with st := silenceSt a.st, ret := a.ret.map silence }

theorem kvStep_sim (c : Ctx) {item : ItemK} (hS : SimI item) (nx : Option Node) (id : Int)
    (s : St) (f : Found) (a : KVAcc) (kv : List Char × Item) (h : KVInv s f a) (hv : s.verbose = true) :
    kvStep c item nx id (silenceKV a) kv = silenceKV (kvStep c item nx id a kv) := by
  obtain ⟨st, found, res, ret, stop⟩ := a
  cases ret with
  | some r => rfl
  | none =>
    cases stop with
    | true => rfl
    | false =>
      have hst : st.verbose = true := (Mid.verbose (h.2 rfl).1).trans hv
      have hst' : (kvEnter c st (kvObj id kv)).verbose = true := hst
      have hr := executeNextItem_sim c hS (kvEnter c st (kvObj id kv)) nx (kvObj id kv) found hst'
      have go :
          (let r := executeNextItem c item (silenceSt (kvEnter c st (kvObj id kv))) nx (kvObj id kv) found
           if r.status = .failed then KVAcc.mk r.st r.found r.status (some r) false
           else if (r.status = .ok && found.isNone) = true then KVAcc.mk r.st r.found r.status none true
           else KVAcc.mk r.st r.found r.status none false)
          = silenceKV
          (let r := executeNextItem c item (kvEnter c st (kvObj id kv)) nx (kvObj id kv) found
           if r.status = .failed then KVAcc.mk r.st r.found r.status (some r) false
           else if (r.status = .ok && found.isNone) = true then KVAcc.mk r.st r.found r.status none true
           else KVAcc.mk r.st r.found r.status none false) := by
        simp only [hr, silence_status, silence_st, silence_found]
        exact ite_sim silenceKV (fun _ => rfl) (fun _ => ite_sim silenceKV (fun _ => rfl) (fun _ => rfl))
      unfold kvStep
      exact ite_sim silenceKV (fun _ => rfl) (fun _ => go)

theorem executeKeyValueMethod_sim (c : Ctx) {item : ItemK} {any : AnyK} (hI : GoodI item) (hS : SimI item)
    (hSA : SimA any) (s : St) (n : Node) (nx : Option Node) (v : Item) (f : Found) (unwrap : Bool)
    (hv : s.verbose = true) :
    executeKeyValueMethod c item any (silenceSt s) n nx v f unwrap
      = silence (executeKeyValueMethod c item any s n nx v f unwrap) := by
  unfold executeKeyValueMethod
  split
  · exact sim_ite (fun _ => unwrapTargetArray_sim hSA _ _ _ _ hv) (fun _ => returnVerboseError_sim _ _ hv)
  · rename_i kvs
    refine sim_ite (fun _ => rfl) (fun _ => ?_)
    refine sim_ite (fun _ => rfl) (fun _ => ?_)
    dsimp only
    generalize hid : (_ : Int) + s.baseId * 10000000000 = id
    generalize hid' : (_ : Int) + (silenceSt s).baseId * 10000000000 = id'
    have hidEq : id = id' := hid.symm.trans hid'
    subst hidEq
    have hfold := foldl_sim (KVInv s f) silenceKV (kvStep c item nx id) kvs ⟨s, f, .ok, none, false⟩
      (by
        refine ⟨fun r hr => by simp at hr, fun _ => ⟨?_, Shape.refl f⟩⟩
        refine ⟨?_, fun h => by simpa [restoreBase] using h⟩
        simp [St.ctxEq, restoreBase])
      (fun a kv h => kvStep_inv c hI nx id s f a kv h)
      (fun a kv h => kvStep_sim c hS nx id s f a kv h hv)
    have e0 : silenceKV ⟨s, f, .ok, none, false⟩ = ⟨silenceSt s, f, .ok, none, false⟩ := rfl
    rw [e0] at hfold
    rw [hfold]
    generalize List.foldl (kvStep c item nx id) _ _ = a
    obtain ⟨st, found, res, ret, stop⟩ := a
    cases ret <;> rfl
  · exact returnVerboseError_sim _ _ hv

theorem execMethodNode_sim (c : Ctx) {item : ItemK} {any : AnyK} (hI : GoodI item) (hS : SimI item)
    (hSA : SimA any) (s : St) (n : Node) (m : Method) (nx : Option Node) (v : Item) (f : Found)
    (unwrap : Bool) (hv : s.verbose = true) :
    execMethodNode c item any (silenceSt s) n m nx v f unwrap
      = silence (execMethodNode c item any s n m nx v f unwrap) := by
  unfold execMethodNode
  cases m <;> simp only
  all_goals first
    | exact execConvMethod_sim c hS hSA _ _ _ _ _ _ _ hv
    | exact executeNextItem_sim c hS _ _ _ _ hv
    | exact execMethodSize_sim c hS _ _ _ _ hv
    | exact executeKeyValueMethod_sim c hI hS hSA _ _ _ _ _ _ hv

/-! ## `.**` and the generic element loop -/

def silenceA (a : AAcc) : AAcc :=
  { a with st := silenceSt a.st, err := silenceErr a.err, ret := a.ret.map silence }

theorem AInv.verbose {s : St} {f : Found} {a : AAcc} (h : AInv s f a) (hnone : a.ret = none) :
    a.st.verbose = s.verbose := by
  have := Mid.verbose (h.2 hnone).1; simpa [restoreIgn] using this

theorem anyVisit_sim {item : ItemK} (hS : SimI item) (node : Option Node) (level first last : Nat)
    (ignore unwrapNext : Bool) (s : St) (f : Found) (a : AAcc) (v : Item) (h : AInv s f a)
    (hnone : a.ret = none) (hv : s.verbose = true) :
    anyVisit item node level first last ignore unwrapNext (silenceA a) v
      = silenceA (anyVisit item node level first last ignore unwrapNext a v) := by
  have hst : a.st.verbose = true := (h.verbose hnone).trans hv
  obtain ⟨st, found, res, err, ret⟩ := a
  simp only at hnone hst
  subst hnone
  unfold anyVisit
  refine ite_sim silenceA (fun _ => ?_) (fun _ => rfl)
  cases node with
  | some n =>
    have go : ∀ s1 : St, s1.verbose = true →
        (let r := item (silenceSt s1) n v found unwrapNext
         if r.status = .failed || (r.status = .ok && found.isNone) then
           AAcc.mk r.st r.found r.status r.err (some r)
         else AAcc.mk r.st r.found r.status r.err none)
        = silenceA
        (let r := item s1 n v found unwrapNext
         if r.status = .failed || (r.status = .ok && found.isNone) then
           AAcc.mk r.st r.found r.status r.err (some r)
         else AAcc.mk r.st r.found r.status r.err none) := by
      intro s1 hs1
      simp only [hS s1 n v found unwrapNext hs1, silence_status, silence_st, silence_found, silence_err]
      exact ite_sim silenceA (fun _ => rfl) (fun _ => rfl)
    cases ignore with
    | false => exact go st hst
    | true => exact go { st with ignoreSE := true } hst
  | none => cases found <;> rfl

theorem anyDescend_sim {any : AnyK} (hSA : SimA any) (node : Option Node) (level first last : Nat)
    (ignore unwrapNext : Bool) (s : St) (f : Found) (a : AAcc) (v : Item) (h : AInv s f a)
    (hnone : a.ret = none) (hv : s.verbose = true) :
    anyDescend any node level first last ignore unwrapNext (silenceA a) v
      = silenceA (anyDescend any node level first last ignore unwrapNext a v) := by
  have hst : a.st.verbose = true := (h.verbose hnone).trans hv
  obtain ⟨st, found, res, err, ret⟩ := a
  simp only at hnone hst
  subst hnone
  unfold anyDescend
  refine ite_sim silenceA (fun _ => ?_) (fun _ => rfl)
  have go :
      (let r := any (silenceSt st) node ((collection v).getD []) found (level + 1) first last ignore unwrapNext
       if r.status = .failed || (r.status = .ok && found.isNone) then
         AAcc.mk r.st r.found r.status r.err (some r)
       else AAcc.mk r.st r.found r.status r.err none)
      = silenceA
      (let r := any st node ((collection v).getD []) found (level + 1) first last ignore unwrapNext
       if r.status = .failed || (r.status = .ok && found.isNone) then
         AAcc.mk r.st r.found r.status r.err (some r)
       else AAcc.mk r.st r.found r.status r.err none) := by
    simp only [hSA st node _ found _ _ _ _ _ hst, silence_status, silence_st, silence_found, silence_err]
    exact ite_sim silenceA (fun _ => rfl) (fun _ => rfl)
  exact go

theorem anyStep_sim {item : ItemK} {any : AnyK} (hI : GoodI item) (hS : SimI item) (hSA : SimA any)
    (node : Option Node) (level first last : Nat) (ignore unwrapNext : Bool) (s : St) (f : Found)
    (a : AAcc) (v : Item) (h : AInv s f a) (hv : s.verbose = true) :
    anyStep item any node level first last ignore unwrapNext (silenceA a) v
      = silenceA (anyStep item any node level first last ignore unwrapNext a v) := by
  cases hret : a.ret with
  | some r =>
    obtain ⟨st, found, res, err, ret⟩ := a
    simp only at hret
    subst hret
    rfl
  | none =>
    have h1 := anyVisit_sim hS node level first last ignore unwrapNext s f a v h hret hv
    have hinv1 := anyVisit_inv hI node level first last ignore unwrapNext s f a v h hret
    obtain ⟨st, found, res, err, ret⟩ := a
    simp only at hret
    subst hret
    unfold anyStep
    simp only [h1]
    generalize anyVisit item node level first last ignore unwrapNext _ v = a1 at hinv1
    cases hret1 : a1.ret with
    | some r1 =>
      obtain ⟨st1, found1, res1, err1, ret1⟩ := a1
      simp only at hret1
      subst hret1
      rfl
    | none =>
      have h2 := anyDescend_sim hSA node level first last ignore unwrapNext s f a1 v hinv1 hret1 hv
      obtain ⟨st1, found1, res1, err1, ret1⟩ := a1
      simp only at hret1
      subst hret1
      exact h2

theorem executeAnyItem_sim {item : ItemK} {any : AnyK} (hI : GoodI item) (hA : GoodA any) (hS : SimI item)
    (hSA : SimA any) (s : St) (node : Option Node) (vs : List Item) (f : Found) (level first last : Nat)
    (ignore unwrapNext : Bool) (hv : s.verbose = true) :
    executeAnyItem item any (silenceSt s) node vs f level first last ignore unwrapNext
      = silence (executeAnyItem item any s node vs f level first last ignore unwrapNext) := by
  unfold executeAnyItem
  refine sim_ite (fun _ => rfl) (fun _ => ?_)
  have h0 : AInv s f ⟨s, f, .notFound, none, none⟩ := by
    refine ⟨fun r hr => by simp at hr, fun _ => ⟨⟨?_, fun h => by simpa [restoreIgn] using h⟩, Shape.refl f, rfl⟩⟩
    simp [St.ctxEq, restoreIgn]
  have hstep : ∀ a v, AInv s f a → AInv s f (anyStep item any node level first last ignore unwrapNext a v) :=
    fun a v h => anyStep_inv hI hA node level first last ignore unwrapNext s f a v h
  have hinv : AInv s f (vs.foldl (anyStep item any node level first last ignore unwrapNext)
      ⟨s, f, .notFound, none, none⟩) := foldl_inv (AInv s f) _ _ _ h0 hstep
  have hfold := foldl_sim (AInv s f) silenceA (anyStep item any node level first last ignore unwrapNext) vs
    ⟨s, f, .notFound, none, none⟩ h0 hstep
    (fun a v h => anyStep_sim hI hS hSA node level first last ignore unwrapNext s f a v h hv)
  have e0 : silenceA ⟨s, f, .notFound, none, none⟩ = ⟨silenceSt s, f, .notFound, none, none⟩ := rfl
  rw [e0] at hfold
  dsimp only
  rw [hfold]
  generalize List.foldl (anyStep item any node level first last ignore unwrapNext) _ _ = a at hinv
  obtain ⟨st, found, res, err, ret⟩ := a
  cases ret with
  | some r => rfl
  | none =>
    have he : err = none := (hinv.2 rfl).2.2
    subst he
    rfl

theorem anyInto_sim (c : Ctx) {any : AnyK} (hSA : SimA any) (s : St) (first last : Nat)
    (nx : Option Node) (v : Item) (f : Found) (hv : s.verbose = true) :
    anyInto c any (silenceSt s) first last nx v f = silence (anyInto c any s first last nx v f) := by
  unfold anyInto
  split
  · exact hSA _ _ _ _ _ _ _ _ _ hv
  · exact hSA _ _ _ _ _ _ _ _ _ hv
  · rfl

theorem execAnyNode_sim (c : Ctx) {item : ItemK} {any : AnyK} (hI : GoodI item) (hS : SimI item)
    (hSA : SimA any) (s : St) (first last : Nat) (nx : Option Node) (v : Item) (f : Found)
    (hv : s.verbose = true) :
    execAnyNode c item any (silenceSt s) first last nx v f
      = silence (execAnyNode c item any s first last nx v f) := by
  unfold execAnyNode
  refine sim_ite (fun _ => ?_) (fun _ => anyInto_sim c hSA _ _ _ _ _ _ hv)
  have hv0 : ({ s with ignoreSE := true } : St).verbose = true := hv
  have hr := executeNextItem_sim c hS { s with ignoreSE := true } nx v f hv0
  have hv1 : (executeNextItem c item { s with ignoreSE := true } nx v f).st.verbose = true :=
    (executeNextItem_good c hI { s with ignoreSE := true } nx v f).verbose.trans hv0
  simp only [silenceSt_setIgn, hr, silence_status, silence_st, silence_found, silenceSt_ignoreSE]
  refine sim_ite (fun _ => rfl) (fun _ => ?_)
  rw [anyInto_sim c hSA _ first last nx v _ hv1]
  rfl

/-! ## subscripts -/

def silenceIdx {α : Type} (p : St × Except Err α) : St × Except Err α := (silenceSt p.1, p.2)

theorem silenceIdx_mk {α : Type} (s : St) (e : Except Err α) : silenceIdx (s, e) = (silenceSt s, e) := rfl

theorem getArrayIndex_st (c : Ctx) (item : ItemK) (s : St) (n : Node) (v : Item) :
    (getArrayIndex c item s n v).1 = (executeItem c item s n v (some [])).st := by
  unfold getArrayIndex
  dsimp only
  repeat' split
  all_goals rfl

/-- a suppressed failure of the subscript expression is reported as the subscript error in the silent
    run, exactly where the verbose run reports the suppressible error itself -/
theorem getArrayIndex_sim (c : Ctx) {item : ItemK} (hS : SimI item) (s : St) (n : Node) (v : Item)
    (hv : s.verbose = true) :
    getArrayIndex c item (silenceSt s) n v = silenceIdx (getArrayIndex c item s n v) := by
  unfold getArrayIndex
  simp only [executeItem_sim c hS s n v (some []) hv, silence_status, silence_st, silence_found, silence_err]
  refine ite_sim silenceIdx (fun _ => ?_) (fun _ => ?_)
  · cases (executeItem c item s n v (some [])).err with
    | none => rfl
    | some e => cases e <;> rfl
  · generalize (executeItem c item s n v (some [])).found.getD [] = l
    cases l with
    | nil => rfl
    | cons x t =>
      cases t with
      | cons _ _ => rfl
      | nil =>
        simp only
        generalize Num.getJSONInt32 x = g
        cases g with
        | ok i => rfl
        | error e => cases e <;> rfl

theorem getArrayIndex_verbose (c : Ctx) {item : ItemK} (hI : GoodI item) (s : St) (n : Node) (v : Item) :
    (getArrayIndex c item s n v).1.verbose = s.verbose := by
  rw [getArrayIndex_st]; exact (executeItem_good c hI s n v (some [])).verbose

theorem execSubscript_sim (c : Ctx) {item : ItemK} (hI : GoodI item) (hS : SimI item) (s : St) (sub : Node)
    (v : Item) (size : Int) (hv : s.verbose = true) :
    execSubscript c item (silenceSt s) sub v size = silenceIdx (execSubscript c item s sub v size) := by
  unfold execSubscript
  split
  · rename_i l r _
    have hp1 : (getArrayIndex c item s l v).1.verbose = true := (getArrayIndex_verbose c hI s l v).trans hv
    rw [getArrayIndex_sim c hS s l v hv]
    generalize getArrayIndex c item s l v = p at hp1
    obtain ⟨s1, e1⟩ := p
    cases e1 with
    | error e => rfl
    | ok from_ =>
      simp only at hp1
      cases r with
      | none => exact ite_sim silenceIdx (fun _ => rfl) (fun _ => rfl)
      | some rn =>
        simp only [silenceIdx_mk]
        rw [getArrayIndex_sim c hS s1 rn v hp1]
        generalize getArrayIndex c item s1 rn v = q
        obtain ⟨s2, e2⟩ := q
        cases e2 with
        | error e => rfl
        | ok to_ => exact ite_sim silenceIdx (fun _ => rfl) (fun _ => rfl)
  · rfl
  · rfl

theorem execSubscript_verbose (c : Ctx) {item : ItemK} (hI : GoodI item) (s : St) (sub : Node)
    (v : Item) (size : Int) : (execSubscript c item s sub v size).1.verbose = s.verbose := by
  unfold execSubscript
  split
  · rename_i l r _
    have hp1 := getArrayIndex_verbose c hI s l v
    generalize getArrayIndex c item s l v = p at hp1
    obtain ⟨s1, e1⟩ := p
    cases e1 with
    | error e => exact hp1
    | ok from_ =>
      simp only at hp1
      cases r with
      | none =>
        simp only
        split <;> exact hp1
      | some rn =>
        simp only
        have hp2 := (getArrayIndex_verbose c hI s1 rn v).trans hp1
        generalize getArrayIndex c item s1 rn v = q at hp2
        obtain ⟨s2, e2⟩ := q
        cases e2 with
        | error e => exact hp2
        | ok to_ =>
          simp only
          split <;> exact hp2
  · rfl
  · rfl

def silenceIA (a : IAcc) : IAcc :=
  { a with st := silenceSt a.st, err := silenceErr a.err, ret := a.ret.map silence }

theorem indexElemStep_sim (c : Ctx) {item : ItemK} (hS : SimI item) (nx : Option Node) (s : St) (f : Found)
    (a : IAcc) (v : Item) (h : IInv s f a) (hv : s.verbose = true) :
    indexElemStep c item nx (silenceIA a) v = silenceIA (indexElemStep c item nx a v) := by
  obtain ⟨st, found, res, err, ret⟩ := a
  cases ret with
  | some r => rfl
  | none =>
    have hst : st.verbose = true := ((h.2 rfl).1.verbose).trans hv
    have go :
        (let r := executeNextItem c item (silenceSt st) nx v found
         if r.status = .failed || (r.status = .ok && found.isNone) then
           IAcc.mk r.st r.found r.status r.err (some r)
         else IAcc.mk r.st r.found r.status r.err none)
        = silenceIA
        (let r := executeNextItem c item st nx v found
         if r.status = .failed || (r.status = .ok && found.isNone) then
           IAcc.mk r.st r.found r.status r.err (some r)
         else IAcc.mk r.st r.found r.status r.err none) := by
      simp only [executeNextItem_sim c hS st nx v found hst, silence_status, silence_st, silence_found, silence_err]
      exact ite_sim silenceIA (fun _ => rfl) (fun _ => rfl)
    unfold indexElemStep
    refine ite_sim silenceIA (fun _ => rfl) (fun _ => ?_)
    split
    · rfl
    · exact ite_sim silenceIA (fun _ => rfl) (fun _ => go)

theorem indexSubStep_sim (c : Ctx) {item : ItemK} (hI : GoodI item) (hS : SimI item) (nx : Option Node)
    (xs : List Item) (v : Item) (s : St) (f : Found) (a : IAcc) (sub : Node) (h : IInv s f a)
    (hv : s.verbose = true) :
    indexSubStep c item nx xs v (silenceIA a) sub = silenceIA (indexSubStep c item nx xs v a sub) := by
  obtain ⟨st, found, res, err, ret⟩ := a
  cases ret with
  | some r => rfl
  | none =>
    obtain ⟨hm, hs⟩ := h.2 rfl
    have hst : st.verbose = true := (hm.verbose).trans hv
    have hsub := execSubscript_good c hI s st hm sub v xs.length
    have hsv : (execSubscript c item st sub v xs.length).1.verbose = true :=
      (execSubscript_verbose c hI st sub v xs.length).trans hst
    have hss := execSubscript_sim c hI hS st sub v xs.length hst
    unfold indexSubStep
    refine ite_sim silenceIA (fun _ => rfl) (fun _ => ?_)
    rw [show execSubscript c item (silenceIA ⟨st, found, res, err, none⟩).st sub v xs.length
          = silenceIdx (execSubscript c item st sub v xs.length) from hss,
        show execSubscript c item (IAcc.mk st found res err none).st sub v xs.length
          = execSubscript c item st sub v xs.length from rfl]
    generalize execSubscript c item st sub v xs.length = p at hsub hsv
    obtain ⟨s1, e1⟩ := p
    cases e1 with
    | error e =>
      show IAcc.mk (silenceSt s1) found res (silenceErr err) (some (returnError (silenceSt s1) found e))
        = silenceIA (IAcc.mk s1 found res err (some (returnError s1 found e)))
      rw [returnError_sim s1 found e hsv]
      rfl
    | ok ft =>
      obtain ⟨from_, to_⟩ := ft
      have hsub' : IMid s s1 := hsub
      exact foldl_sim (IInv s f) silenceIA (indexElemStep c item nx) (sliceRange xs from_ to_)
        ⟨s1, found, res, err, none⟩ ⟨fun r hr => by simp at hr, fun _ => ⟨hsub', hs⟩⟩
        (fun a' v' h' => indexElemStep_inv c hI nx s f a' v' h')
        (fun a' v' h' => indexElemStep_sim c hS nx s f a' v' h' hv)

theorem execArrayIndex_sim (c : Ctx) {item : ItemK} (hI : GoodI item) (hS : SimI item) (s : St)
    (subs : List Node) (nx : Option Node) (v : Item) (f : Found) (hv : s.verbose = true) :
    execArrayIndex c item (silenceSt s) subs nx v f = silence (execArrayIndex c item s subs nx v f) := by
  unfold execArrayIndex
  generalize arrayOf c v = o
  cases o with
  | none => exact structural_sim s f hv
  | some xs =>
    have h0 : IInv s f ⟨{ s with innermost := xs.length }, f, .notFound, none, none⟩ := by
      refine ⟨fun r hr => by simp at hr, fun _ => ⟨⟨?_, fun h => by simpa [restoreInn] using h⟩, Shape.refl f⟩⟩
      simp [St.ctxEq, restoreInn]
    have hfold := foldl_sim (IInv s f) silenceIA (indexSubStep c item nx xs v) subs
      ⟨{ s with innermost := xs.length }, f, .notFound, none, none⟩ h0
      (fun a sub h => indexSubStep_inv c hI nx xs v s f a sub h)
      (fun a sub h => indexSubStep_sim c hI hS nx xs v s f a sub h hv)
    have e0 : silenceIA ⟨{ s with innermost := xs.length }, f, .notFound, none, none⟩
        = ⟨{ silenceSt s with innermost := xs.length }, f, .notFound, none, none⟩ := rfl
    rw [e0] at hfold
    dsimp only
    rw [hfold]
    generalize List.foldl (indexSubStep c item nx xs v) _ _ = a
    obtain ⟨st, found, res, err, ret⟩ := a
    cases ret <;> rfl

/-! ## dispatch and the induction over fuel -/

theorem boolResult_sim (c : Ctx) {item : ItemK} {bool : BoolK} (hS : SimI item) (hB : GoodB bool)
    (hSB : SimB bool) (s : St) (n : Node) (nx : Option Node) (v : Item) (f : Found) (hv : s.verbose = true) :
    appendBoolResult c item nx f (bool (silenceSt s) n v true)
      = silence (appendBoolResult c item nx f (bool s n v true)) := by
  rw [hSB s n v true hv]
  exact appendBoolResult_sim c hS nx f _ ((hB s n v true).verbose.trans hv) (hB s n v true).noVerbose

theorem execBinaryNode_sim (c : Ctx) {item : ItemK} {bool : BoolK} {any : AnyK} (hI : GoodI item)
    (hB : GoodB bool) (hS : SimI item) (hSB : SimB bool) (hSA : SimA any) (s : St) (n : Node) (op : BinOp)
    (l r nx : Option Node) (v : Item) (f : Found) (unwrap : Bool) (hv : s.verbose = true) :
    execBinaryNode c item bool any (silenceSt s) n op l r nx v f unwrap
      = silence (execBinaryNode c item bool any s n op l r nx v f unwrap) := by
  unfold execBinaryNode
  refine sim_ite (fun _ => boolResult_sim c hS hB hSB _ _ _ _ _ hv) (fun _ => ?_)
  refine sim_ite (fun _ => execBinaryMathExpr_sim c hI hS _ _ _ _ _ _ _ hv) (fun _ => ?_)
  split
  · exact execConvMethod_sim c hS hSA _ _ _ _ _ _ _ hv
  · rfl

theorem execUnaryNode_sim (c : Ctx) {item : ItemK} {bool : BoolK} {any : AnyK} (hI : GoodI item)
    (hB : GoodB bool) (hS : SimI item) (hSB : SimB bool) (hSA : SimA any) (s : St) (n : Node) (op : UnOp)
    (x nx : Option Node) (v : Item) (f : Found) (unwrap : Bool) (hv : s.verbose = true) :
    execUnaryNode c item bool any (silenceSt s) n op x nx v f unwrap
      = silence (execUnaryNode c item bool any s n op x nx v f unwrap) := by
  unfold execUnaryNode
  split
  · exact boolResult_sim c hS hB hSB _ _ _ _ _ hv
  · exact boolResult_sim c hS hB hSB _ _ _ _ _ hv
  · exact boolResult_sim c hS hB hSB _ _ _ _ _ hv
  · split
    · exact unwrapTargetArray_sim hSA _ _ _ _ hv
    · cases x with
      | none => rfl
      | some cond =>
        have hp := executeNestedBoolItem_good hB s cond v
        have hpv : (executeNestedBoolItem bool s cond v).st.verbose = true := hp.verbose.trans hv
        simp only [executeNestedBoolItem_sim hSB s cond v hv, silenceP_err, silenceP_st, silenceP_out]
        refine sim_ite (fun _ => ?_) (fun _ => ?_)
        · simp [silenceErr_of_ne hp.noVerbose]
        · exact sim_ite (fun _ => rfl) (fun _ => executeNextItem_sim c hS _ _ _ _ hpv)
  · exact execUnaryMathExpr_sim c hI hS _ _ _ _ _ _ hv
  · exact execUnaryMathExpr_sim c hI hS _ _ _ _ _ _ hv
  · split
    · exact hSA _ _ _ _ _ _ _ _ _ hv
    · exact executeDateTimeMethod_sim c hS _ _ _ _ _ _ hv

theorem dispatch_sim (c : Ctx) {item : ItemK} {bool : BoolK} {any : AnyK} (hI : GoodI item)
    (hB : GoodB bool) (hS : SimI item) (hSB : SimB bool) (hSA : SimA any) (s : St) (n : Node) (v : Item)
    (f : Found) (unwrap : Bool) (hv : s.verbose = true) :
    dispatch c item bool any (silenceSt s) n v f unwrap = silence (dispatch c item bool any s n v f unwrap) := by
  unfold dispatch
  split
  · exact execConstNode_sim c hS hSA _ _ _ _ _ _ _ hv
  · exact execLiteral_sim c hS _ _ _ _ hv
  · exact execLiteral_sim c hS _ _ _ _ hv
  · exact execLiteral_sim c hS _ _ _ _ hv
  · exact execVariable_sim c hS _ _ _ _ hv
  · exact execKeyNode_sim c hS hSA _ _ _ _ _ _ _ hv
  · exact execBinaryNode_sim c hI hB hS hSB hSA _ _ _ _ _ _ _ _ _ hv
  · exact execUnaryNode_sim c hI hB hS hSB hSA _ _ _ _ _ _ _ _ hv
  · exact boolResult_sim c hS hB hSB _ _ _ _ _ hv
  · exact execMethodNode_sim c hI hS hSA _ _ _ _ _ _ _ hv
  · exact execAnyNode_sim c hI hS hSA _ _ _ _ _ _ hv
  · exact execArrayIndex_sim c hI hS _ _ _ _ _ hv

theorem poll_sim (s : St) : poll (silenceSt s) = (poll s).map silenceSt := by
  unfold poll
  simp only [silenceSt_budget]
  split <;> rfl

theorem poll_verbose {s s' : St} (h : poll s = some s') : s'.verbose = s.verbose := by
  unfold poll at h
  split at h
  · simp at h; subst h; rfl
  · simp at h
  · simp at h; subst h; rfl

/-- **the silent run simulates the verbose run, for the three dispatchers and every fuel** -/
theorem sim_all (c : Ctx) : ∀ fuel : Nat,
    SimI (xItem c fuel) ∧ SimB (xBool c fuel) ∧ SimA (xAny c fuel) := by
  intro fuel
  induction fuel with
  | zero =>
    refine ⟨fun s n v f u _ => ?_, fun s n v b _ => ?_, fun s n vs f l a b i u _ => ?_⟩
    · simp only [xItem]; rfl
    · simp only [xBool]; rfl
    · simp only [xAny]; rfl
  | succ fuel ih =>
    obtain ⟨hS, hSB, hSA⟩ := ih
    obtain ⟨hI, hB, hA⟩ := good_all c fuel
    refine ⟨fun s n v f u hv => ?_, fun s n v b hv => ?_, fun s n vs f l a b i u hv => ?_⟩
    · simp only [xItem]
      rw [poll_sim]
      cases hp : poll s with
      | none => rfl
      | some s' =>
        exact dispatch_sim c hI hB hS hSB hSA s' n v f u ((poll_verbose hp).trans hv)
    · simp only [xBool]; exact executeBoolItem_sim c hI hB hSB _ _ _ _ hv
    · simp only [xAny]; exact executeAnyItem_sim hI hA hS hSA _ _ _ _ _ _ _ _ _ hv

/-- `executeItemOptUnwrapTarget` under `WithSilent` -/
theorem xItem_sim (c : Ctx) (fuel : Nat) (s : St) (n : Node) (v : Item) (f : Found) (u : Bool)
    (hv : s.verbose = true) : xItem c fuel (silenceSt s) n v f u = silence (xItem c fuel s n v f u) :=
  (sim_all c fuel).1 s n v f u hv

/-- `executeBoolItem` under `WithSilent`: same outcome, same error -/
theorem xBool_sim (c : Ctx) (fuel : Nat) (s : St) (n : Node) (v : Item) (b : Bool)
    (hv : s.verbose = true) : xBool c fuel (silenceSt s) n v b = silenceP (xBool c fuel s n v b) :=
  (sim_all c fuel).2.1 s n v b hv

/-- `executeAnyItem` under `WithSilent` -/
theorem xAny_sim (c : Ctx) (fuel : Nat) (s : St) (node : Option Node) (vs : List Item) (f : Found)
    (level first last : Nat) (ign un : Bool) (hv : s.verbose = true) :
    xAny c fuel (silenceSt s) node vs f level first last ign un
      = silence (xAny c fuel s node vs f level first last ign un) :=
  (sim_all c fuel).2.2 s node vs f level first last ign un hv

end Exec
end Sqljson
