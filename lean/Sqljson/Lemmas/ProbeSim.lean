import Sqljson.Lemmas.ApiGood
/-!
# Probe / collect simulation

`exec.exists` runs the executor with a nil result list (`found = none`, *probe*: every loop returns at
the first `statusOK`, and several nodes answer `statusOK` without evaluating their `next` when it is
nil); `exec.execute` runs it with a list (`found = some l`, *collect*).  This file relates the two
runs of every executor function, started from the same state:

    PC d8 l (f … s … none …) (f … s … (some l) …)

* the probe never allocates a list (`PC.pfound`);
* `PC.same`: if the probe ends `notFound` or `failed`, the collecting run is **equal** to it up to the
  list, which is still `l` — same state (hence same polls of the context, same sticky flags, same
  `lastGeneratedObjectID`), same status, same error;
* `PC.hit`: if the probe ends `ok`, the collecting run has appended at least one item to `l`
  (`Appended`; it carries on afterwards and may end `failed`, but the list only grows), and every sticky
  flag (`oof`, `panicked`) the probe set is set in the collecting run (`Le`).
  With `d8 = true` there is the alternative `D8Fail`: the collecting run failed with the suppressible
  error without appending — the recorded finding D8: a unary `+`/`-` node that is the last node of the
  chain, in probe mode, answers `ok` for every operand item without looking at it
  (`execUnaryMathExpr`), where the collecting run fails for a non-number (or for a `json.Number` that
  is neither an int64 nor a float64).  With `d8 = false` the relation is proved for the syntactic class
  `spineOK` (the chain of `next` pointers from the node does not *end* in a unary `+`/`-`; operands,
  subscripts and filter conditions are unrestricted), without the alternative.

No other shortcut breaks the relation: literals, `last`, predicate results, binary arithmetic,
datetime methods, `.keyvalue()` on a non-empty object, `.**`/`[*]`/`.*` elements and subscripts
answer `ok` in probe mode exactly where the collecting run appends the item.

No side condition on the budget, the fuel or `.keyvalue()` is needed: as long as nothing is found the
two runs are in lock step from *equal* states (the probe polls and spends fuel exactly as the
collecting run does), and after the hit the probe's state is not used again.  Predicates, operands and
subscripts are evaluated with their own lists (`exists(…)` in lax mode probes, everything else
collects): they are literally the same calls in both runs, so `xBool` needs no relation at all.

Structure as in `Good.lean`/`SilentSim.lean`: one lemma `f_pc` per Go function ("if the recursive
calls are related, so are the two instances of this function"; hypotheses bundled in `HypI`, `HypA`),
loops by `foldl_rel` with a three-phase accumulator relation (`URel`, `KVRel`, `ARel`, `IRel`: lock step
/ both returned the same failure / probe returned `ok` and the collecting run continues alone, where
only `Good.shape` and the stickiness of the flags are used), then `sim_all` by induction on fuel.

* part 0 (`MonoOof`, `MonoPan`): no function clears `St.oof` / `St.panicked`;
* part 1: the relation, `sim_all`, `xItem_pc`, `xItem_pc_strong`, `xAny_pc`;
* part 2 (`FE`, `fe_all`): with `verbose` set, a `failed` status carries an error.
-/

namespace Sqljson
namespace Exec
namespace Probe

/-! ## part 0: the sticky flags `oof` and `panicked`

No executor function ever clears `St.oof` or `St.panicked`.  (The proof of the stickiness of
`sawCancel` in `CancelSim.lean`, instantiated once per flag.) -/

namespace MonoOof

abbrev MonoI (item : ItemK) : Prop :=
  ∀ s n v f u, s.oof = true → (item s n v f u).st.oof = true
abbrev MonoB (bool : BoolK) : Prop :=
  ∀ s n v b, s.oof = true → (bool s n v b).st.oof = true
abbrev MonoA (any : AnyK) : Prop :=
  ∀ s n vs f l a b i u, s.oof = true → (any s n vs f l a b i u).st.oof = true

theorem returnVerboseError_st (s : St) (f : Found) : (returnVerboseError s f).st = s := by
  unfold returnVerboseError; split <;> rfl

theorem returnError_st (s : St) (f : Found) (e : Err) : (returnError s f e).st = s := by
  unfold returnError; split <;> rfl

theorem structural_st (s : St) (f : Found) : (structural s f).st = s := by
  unfold structural; split
  · exact returnVerboseError_st s f
  · rfl

theorem executeItem_mono (c : Ctx) {item : ItemK} (hI : MonoI item) (s : St) (n : Node) (v : Item) (f : Found)
    (h : s.oof = true) : (executeItem c item s n v f).st.oof = true := hI _ _ _ _ _ h

theorem executeNextItem_mono (c : Ctx) {item : ItemK} (hI : MonoI item) (s : St) (nx : Option Node)
    (v : Item) (f : Found) (h : s.oof = true) :
    (executeNextItem c item s nx v f).st.oof = true := by
  unfold executeNextItem executeItem
  repeat' split
  all_goals simp_all

theorem withBaseObject_mono (s : St) (a : Nat) (i : Int) (k : St → Res)
    (hk : ∀ s', s'.oof = true → (k s').st.oof = true) (h : s.oof = true) :
    (withBaseObject s a i k).st.oof = true := by
  unfold withBaseObject
  exact hk _ h

theorem execLiteral_mono (c : Ctx) {item : ItemK} (hI : MonoI item) (s : St) (nx : Option Node)
    (v : Item) (f : Found) (h : s.oof = true) :
    (execLiteral c item s nx v f).st.oof = true := by
  unfold execLiteral
  repeat' split
  all_goals simp_all [executeNextItem_mono c hI]

macro "flag_monoO" "[" ts:Lean.Parser.Tactic.simpLemma,* "]" : tactic =>
  `(tactic| ((try dsimp only) <;> (repeat' (split <;> try dsimp only)) <;>
    simp_all [returnVerboseError_st, returnError_st, structural_st, $ts,*]))

theorem execVariable_mono (c : Ctx) {item : ItemK} (hI : MonoI item) (s : St) (name : List Char)
    (nx : Option Node) (f : Found) (h : s.oof = true) :
    (execVariable c item s name nx f).st.oof = true := by
  unfold execVariable
  split
  · exact withBaseObject_mono _ _ _ _ (fun s' h' => executeNextItem_mono c hI _ _ _ _ h') h
  · first | exact h | rfl

theorem unwrapTargetArray_mono {any : AnyK} (hA : MonoA any) (s : St) (n : Node) (xs : List Item) (f : Found)
    (h : s.oof = true) : (unwrapTargetArray any s n xs f).st.oof = true := hA _ _ _ _ _ _ _ _ _ h

theorem execKeyNode_mono (c : Ctx) {item : ItemK} {any : AnyK} (hI : MonoI item) (hA : MonoA any) (s : St)
    (n : Node) (key : List Char) (nx : Option Node) (v : Item) (f : Found) (unwrap : Bool)
    (h : s.oof = true) : (execKeyNode c item any s n key nx v f unwrap).st.oof = true := by
  unfold execKeyNode
  flag_monoO [executeNextItem_mono c hI]

theorem execAnyKey_mono (c : Ctx) {any : AnyK} (hA : MonoA any) (s : St)
    (n : Node) (nx : Option Node) (v : Item) (f : Found) (unwrap : Bool)
    (h : s.oof = true) : (execAnyKey c any s n nx v f unwrap).st.oof = true := by
  unfold execAnyKey
  flag_monoO [unwrapTargetArray_mono hA]

theorem execAnyArray_mono (c : Ctx) {item : ItemK} {any : AnyK} (hI : MonoI item) (hA : MonoA any) (s : St)
    (nx : Option Node) (v : Item) (f : Found)
    (h : s.oof = true) : (execAnyArray c item any s nx v f).st.oof = true := by
  unfold execAnyArray
  flag_monoO [executeNextItem_mono c hI]

theorem execLastConst_mono (c : Ctx) {item : ItemK} (hI : MonoI item) (s : St)
    (nx : Option Node) (f : Found)
    (h : s.oof = true) : (execLastConst c item s nx f).st.oof = true := by
  unfold execLastConst
  flag_monoO [executeNextItem_mono c hI]

theorem execConstNode_mono (c : Ctx) {item : ItemK} {any : AnyK} (hI : MonoI item) (hA : MonoA any) (s : St)
    (n : Node) (k : Const) (nx : Option Node) (v : Item) (f : Found) (unwrap : Bool)
    (h : s.oof = true) : (execConstNode c item any s n k nx v f unwrap).st.oof = true := by
  unfold execConstNode
  cases k <;> simp only
  · exact withBaseObject_mono _ _ _ _ (fun s' h' => executeNextItem_mono c hI _ _ _ _ h') h
  · exact executeNextItem_mono c hI _ _ _ _ h
  · exact execLastConst_mono c hI _ _ _ h
  · exact execAnyArray_mono c hI hA _ _ _ _ h
  · exact execAnyKey_mono c hA _ _ _ _ _ _ h
  · exact execLiteral_mono c hI _ _ _ _ h
  · exact execLiteral_mono c hI _ _ _ _ h
  · exact execLiteral_mono c hI _ _ _ _ h

theorem optUnwrapResult_mono (c : Ctx) {item : ItemK} (hI : MonoI item) (s : St) (n : Node) (v : Item)
    (unwrap : Bool) (l : List Item) (h : s.oof = true) :
    (optUnwrapResult c item s n v unwrap l).st.oof = true := by
  unfold optUnwrapResult executeItem
  flag_monoO []

theorem optUnwrapResultSilent_mono (c : Ctx) {item : ItemK} (hI : MonoI item) (s : St) (n : Node) (v : Item)
    (unwrap : Bool) (f : Found) (h : s.oof = true) :
    (optUnwrapResultSilent c item s n v unwrap f).st.oof = true := by
  unfold optUnwrapResultSilent executeItem
  flag_monoO [optUnwrapResult_mono c hI]

theorem predicateTail_sc (c : Ctx) (s : St) (cb : Item → Item → CbOut) (ls rs : List Item) :
    (predicateTail c s cb ls rs).st.oof = s.oof := by
  unfold predicateTail
  flag_monoO []

theorem executePredicate_mono (c : Ctx) {item : ItemK} (hI : MonoI item) (s : St) (left : Node)
    (right : Option Node) (v : Item) (unwrapRight : Bool) (cb : Item → Item → CbOut)
    (h : s.oof = true) :
    (executePredicate c item s left right v unwrapRight cb).st.oof = true := by
  unfold executePredicate
  flag_monoO [predicateTail_sc, optUnwrapResultSilent_mono c hI]

theorem executeBinaryBoolItem_mono (c : Ctx) {item : ItemK} {bool : BoolK} (hI : MonoI item) (hB : MonoB bool)
    (s : St) (op : BinOp) (l r : Option Node) (v : Item) (h : s.oof = true) :
    (executeBinaryBoolItem c item bool s op l r v).st.oof = true := by
  unfold executeBinaryBoolItem
  flag_monoO [executePredicate_mono c hI]

theorem executeUnaryBoolItem_mono (c : Ctx) {item : ItemK} {bool : BoolK} (hI : MonoI item) (hB : MonoB bool)
    (s : St) (op : UnOp) (x : Option Node) (v : Item) (h : s.oof = true) :
    (executeUnaryBoolItem c item bool s op x v).st.oof = true := by
  unfold executeUnaryBoolItem
  flag_monoO [optUnwrapResultSilent_mono c hI]

theorem executeBoolItem_mono (c : Ctx) {item : ItemK} {bool : BoolK} (hI : MonoI item) (hB : MonoB bool)
    (s : St) (n : Node) (v : Item) (chn : Bool) (h : s.oof = true) :
    (executeBoolItem c item bool s n v chn).st.oof = true := by
  unfold executeBoolItem
  flag_monoO [executeBinaryBoolItem_mono c hI hB, executeUnaryBoolItem_mono c hI hB, executePredicate_mono c hI]

theorem appendBoolResult_mono (c : Ctx) {item : ItemK} (hI : MonoI item) (nx : Option Node)
    (f : Found) (p : PRes) (h : p.st.oof = true) :
    (appendBoolResult c item nx f p).st.oof = true := by
  unfold appendBoolResult
  flag_monoO [executeNextItem_mono c hI]

theorem executeNestedBoolItem_mono {bool : BoolK} (hB : MonoB bool) (s : St) (n : Node) (v : Item)
    (h : s.oof = true) : (executeNestedBoolItem bool s n v).st.oof = true := by
  unfold executeNestedBoolItem
  exact hB _ _ _ _ h

/-! ### loop accumulators: the flag of the state that is going to be returned -/

def _root_.Sqljson.Exec.UAcc.flagO (a : UAcc) : Bool := match a.ret with | some r => r.st.oof | none => a.st.oof
def _root_.Sqljson.Exec.KVAcc.flagO (a : KVAcc) : Bool := match a.ret with | some r => r.st.oof | none => a.st.oof
def _root_.Sqljson.Exec.AAcc.flagO (a : AAcc) : Bool := match a.ret with | some r => r.st.oof | none => a.st.oof
def _root_.Sqljson.Exec.IAcc.flagO (a : IAcc) : Bool := match a.ret with | some r => r.st.oof | none => a.st.oof

theorem unaryStep_mono (c : Ctx) {item : ItemK} (hI : MonoI item) (cb : Num.UCallback) (nx : Option Node)
    (a : UAcc) (v : Item) (h : a.flagO = true) : (unaryStep c item cb nx a v).flagO = true := by
  unfold unaryStep
  split
  · first | exact h | rfl
  · rename_i hnone
    have hs : a.st.oof = true := by simpa [UAcc.flagO, hnone] using h
    have hn := executeNextItem_mono c hI a.st nx
    flag_monoO [UAcc.flagO]

theorem execUnaryMathExpr_mono (c : Ctx) {item : ItemK} (hI : MonoI item) (s : St) (operand nx : Option Node)
    (v : Item) (cb : Num.UCallback) (f : Found) (h : s.oof = true) :
    (execUnaryMathExpr c item s operand nx v cb f).st.oof = true := by
  unfold execUnaryMathExpr
  split
  · first | exact h | rfl
  · rename_i x
    have hr := optUnwrapResult_mono c hI s x v true [] h
    try dsimp only
    split
    · exact hr
    · have hinv : (((optUnwrapResult c item s x v true []).found.getD []).foldl
          (unaryStep c item cb nx) ⟨(optUnwrapResult c item s x v true []).st, f, .notFound, none⟩).flagO = true := by
        refine foldl_inv (fun a : UAcc => a.flagO = true) _ _ _ ?_ (fun a v h => unaryStep_mono c hI cb nx a v h)
        simpa [UAcc.flagO] using hr
      unfold UAcc.flagO at hinv
      split <;> simp_all

theorem execBinaryMathExpr_mono (c : Ctx) {item : ItemK} (hI : MonoI item) (s : St) (op : BinOp)
    (l r nx : Option Node) (v : Item) (f : Found) (h : s.oof = true) :
    (execBinaryMathExpr c item s op l r nx v f).st.oof = true := by
  unfold execBinaryMathExpr
  split
  · rename_i ln rn
    have h1 := optUnwrapResult_mono c hI s ln v true [] h
    have h2 := optUnwrapResult_mono c hI (optUnwrapResult c item s ln v true []).st rn v true [] h1
    have h3 := executeNextItem_mono c hI (optUnwrapResult c item (optUnwrapResult c item s ln v true []).st rn v true []).st nx
    flag_monoO []
  · first | exact h | rfl

theorem execMethodSize_mono (c : Ctx) {item : ItemK} (hI : MonoI item) (s : St) (nx : Option Node)
    (v : Item) (f : Found) (h : s.oof = true) : (execMethodSize c item s nx v f).st.oof = true := by
  unfold execMethodSize
  flag_monoO [executeNextItem_mono c hI]

theorem execConvMethod_mono (c : Ctx) {item : ItemK} {any : AnyK} (hI : MonoI item) (hA : MonoA any) (s : St)
    (n : Node) (nx : Option Node) (v : Item) (f : Found) (unwrap : Bool) (conv : Item → Conv)
    (h : s.oof = true) : (execConvMethod c item any s n nx v f unwrap conv).st.oof = true := by
  unfold execConvMethod
  flag_monoO [executeNextItem_mono c hI, unwrapTargetArray_mono hA]

theorem executeDateTimeMethod_mono (c : Ctx) {item : ItemK} (hI : MonoI item) (s : St) (op : UnOp)
    (arg nx : Option Node) (v : Item) (f : Found) (h : s.oof = true) :
    (executeDateTimeMethod c item s op arg nx v f).st.oof = true := by
  unfold executeDateTimeMethod
  flag_monoO [executeNextItem_mono c hI]

theorem kvStep_mono (c : Ctx) {item : ItemK} (hI : MonoI item) (nx : Option Node) (id : Int)
    (a : KVAcc) (kv : List Char × Item) (h : a.flagO = true) : (kvStep c item nx id a kv).flagO = true := by
  unfold kvStep
  split
  · first | exact h | rfl
  · rename_i hcond
    have hnone : a.ret = none := by cases hr : a.ret <;> simp_all
    have hs : a.st.oof = true := by simpa [KVAcc.flagO, hnone] using h
    have hn := executeNextItem_mono c hI (kvEnter c a.st (kvObj id kv)) nx (kvObj id kv) a.found
      (by simpa [kvEnter] using hs)
    flag_monoO [KVAcc.flagO]

theorem executeKeyValueMethod_mono (c : Ctx) {item : ItemK} {any : AnyK} (hI : MonoI item) (hA : MonoA any)
    (s : St) (n : Node) (nx : Option Node) (v : Item) (f : Found) (unwrap : Bool) (h : s.oof = true) :
    (executeKeyValueMethod c item any s n nx v f unwrap).st.oof = true := by
  unfold executeKeyValueMethod
  split
  · flag_monoO [unwrapTargetArray_mono hA]
  · rename_i kvs
    split
    · first | exact h | rfl
    · split
      · first | exact h | rfl
      · try dsimp only
        generalize hid : (_ : Int) + s.baseId * 10000000000 = id
        have hinv : (kvs.foldl (kvStep c item nx id) ⟨s, f, .ok, none, false⟩).flagO = true := by
          refine foldl_inv (fun a : KVAcc => a.flagO = true) _ _ _ ?_ (fun a kv h => kvStep_mono c hI nx id a kv h)
          simpa [KVAcc.flagO] using h
        unfold KVAcc.flagO at hinv
        split <;> simp_all
  · flag_monoO []

theorem execMethodNode_mono (c : Ctx) {item : ItemK} {any : AnyK} (hI : MonoI item) (hA : MonoA any)
    (s : St) (n : Node) (m : Method) (nx : Option Node) (v : Item) (f : Found) (unwrap : Bool)
    (h : s.oof = true) : (execMethodNode c item any s n m nx v f unwrap).st.oof = true := by
  unfold execMethodNode
  cases m <;> simp only
  all_goals first
    | exact execConvMethod_mono c hI hA _ _ _ _ _ _ _ h
    | exact executeNextItem_mono c hI _ _ _ _ h
    | exact execMethodSize_mono c hI _ _ _ _ h
    | exact executeKeyValueMethod_mono c hI hA _ _ _ _ _ _ h

theorem anyVisit_mono {item : ItemK} (hI : MonoI item) (node : Option Node) (level first last : Nat)
    (ignore unwrapNext : Bool) (a : AAcc) (v : Item) (hnone : a.ret = none) (h : a.flagO = true) :
    (anyVisit item node level first last ignore unwrapNext a v).flagO = true := by
  have hs : a.st.oof = true := by simpa [AAcc.flagO, hnone] using h
  unfold anyVisit
  split
  · split
    · rename_i n
      have hr := hI (if ignore then { a.st with ignoreSE := true } else a.st) n v a.found unwrapNext
        (by split <;> simpa using hs)
      flag_monoO [AAcc.flagO]
    · flag_monoO [AAcc.flagO]
  · first | exact h | rfl

theorem anyDescend_mono {any : AnyK} (hA : MonoA any) (node : Option Node) (level first last : Nat)
    (ignore unwrapNext : Bool) (a : AAcc) (v : Item) (hnone : a.ret = none) (h : a.flagO = true) :
    (anyDescend any node level first last ignore unwrapNext a v).flagO = true := by
  have hs : a.st.oof = true := by simpa [AAcc.flagO, hnone] using h
  unfold anyDescend
  have hr := hA a.st node ((collection v).getD []) a.found (level + 1) first last ignore unwrapNext hs
  flag_monoO [AAcc.flagO]

theorem anyStep_mono {item : ItemK} {any : AnyK} (hI : MonoI item) (hA : MonoA any) (node : Option Node)
    (level first last : Nat) (ignore unwrapNext : Bool) (a : AAcc) (v : Item) (h : a.flagO = true) :
    (anyStep item any node level first last ignore unwrapNext a v).flagO = true := by
  unfold anyStep
  split
  · first | exact h | rfl
  · rename_i hnone
    have h1 := anyVisit_mono hI node level first last ignore unwrapNext a v hnone h
    try dsimp only
    split
    · exact h1
    · rename_i hnone1
      exact anyDescend_mono hA node level first last ignore unwrapNext _ v hnone1 h1

theorem executeAnyItem_mono {item : ItemK} {any : AnyK} (hI : MonoI item) (hA : MonoA any) (s : St)
    (node : Option Node) (vs : List Item) (f : Found) (level first last : Nat) (ignore unwrapNext : Bool)
    (h : s.oof = true) :
    (executeAnyItem item any s node vs f level first last ignore unwrapNext).st.oof = true := by
  unfold executeAnyItem
  split
  · first | exact h | rfl
  · try dsimp only
    have hinv : (vs.foldl (anyStep item any node level first last ignore unwrapNext)
        ⟨s, f, .notFound, none, none⟩).flagO = true := by
      refine foldl_inv (fun a : AAcc => a.flagO = true) _ _ _ ?_
        (fun a v h => anyStep_mono hI hA node level first last ignore unwrapNext a v h)
      simpa [AAcc.flagO] using h
    unfold AAcc.flagO at hinv
    split <;> simp_all

theorem anyInto_mono (c : Ctx) {any : AnyK} (hA : MonoA any) (s : St) (first last : Nat)
    (nx : Option Node) (v : Item) (f : Found) (h : s.oof = true) :
    (anyInto c any s first last nx v f).st.oof = true := by
  unfold anyInto
  flag_monoO []

theorem execAnyNode_mono (c : Ctx) {item : ItemK} {any : AnyK} (hI : MonoI item) (hA : MonoA any) (s : St)
    (first last : Nat) (nx : Option Node) (v : Item) (f : Found) (h : s.oof = true) :
    (execAnyNode c item any s first last nx v f).st.oof = true := by
  unfold execAnyNode
  have h1 := executeNextItem_mono c hI { s with ignoreSE := true } nx v f h
  have h2 := anyInto_mono c hA (executeNextItem c item { s with ignoreSE := true } nx v f).st first last nx v
    (executeNextItem c item { s with ignoreSE := true } nx v f).found h1
  flag_monoO [anyInto_mono c hA]

/-! ### subscripts -/

theorem getArrayIndex_mono (c : Ctx) {item : ItemK} (hI : MonoI item) (s : St) (n : Node) (v : Item)
    (h : s.oof = true) : (getArrayIndex c item s n v).1.oof = true := by
  unfold getArrayIndex
  have hr := executeItem_mono c hI s n v (some []) h
  flag_monoO []

theorem execSubscript_mono (c : Ctx) {item : ItemK} (hI : MonoI item) (s : St) (sub : Node) (v : Item)
    (size : Int) (h : s.oof = true) : (execSubscript c item s sub v size).1.oof = true := by
  unfold execSubscript
  split
  · rename_i l r _
    have h1 := getArrayIndex_mono c hI s l v h
    split
    · rename_i s2 e heq
      rw [heq] at h1; exact h1
    · rename_i s2 from_ heq
      rw [heq] at h1
      cases r with
      | none => simp only; split <;> exact h1
      | some rn =>
        have h2 := getArrayIndex_mono c hI s2 rn v h1
        simp only
        split
        · exact h2
        · split <;> exact h2
  · first | exact h | rfl
  · first | exact h | rfl

theorem indexElemStep_mono (c : Ctx) {item : ItemK} (hI : MonoI item) (nx : Option Node)
    (a : IAcc) (v : Item) (h : a.flagO = true) : (indexElemStep c item nx a v).flagO = true := by
  unfold indexElemStep
  split
  · first | exact h | rfl
  · rename_i hsome
    have hnone : a.ret = none := by cases hr : a.ret <;> simp_all
    have hs : a.st.oof = true := by simpa [IAcc.flagO, hnone] using h
    have hr := executeNextItem_mono c hI a.st nx v a.found hs
    flag_monoO [IAcc.flagO]

theorem indexSubStep_mono (c : Ctx) {item : ItemK} (hI : MonoI item) (nx : Option Node) (xs : List Item)
    (v : Item) (a : IAcc) (sub : Node) (h : a.flagO = true) :
    (indexSubStep c item nx xs v a sub).flagO = true := by
  unfold indexSubStep
  split
  · first | exact h | rfl
  · rename_i hsome
    have hnone : a.ret = none := by cases hr : a.ret <;> simp_all
    have hs : a.st.oof = true := by simpa [IAcc.flagO, hnone] using h
    have hsub := execSubscript_mono c hI a.st sub v xs.length hs
    split
    · rename_i s1 e heq
      rw [heq] at hsub
      simpa [IAcc.flagO, returnError_st] using hsub
    · rename_i s1 from_ to_ heq
      rw [heq] at hsub
      refine foldl_inv (fun a : IAcc => a.flagO = true) _ _ _ ?_ (fun a' v' h' => indexElemStep_mono c hI nx a' v' h')
      simpa [IAcc.flagO, hnone] using hsub

theorem execArrayIndex_mono (c : Ctx) {item : ItemK} (hI : MonoI item) (s : St) (subs : List Node)
    (nx : Option Node) (v : Item) (f : Found) (h : s.oof = true) :
    (execArrayIndex c item s subs nx v f).st.oof = true := by
  unfold execArrayIndex
  try dsimp only
  split
  · simpa [structural_st] using h
  · rename_i xs _
    have hinv : (subs.foldl (indexSubStep c item nx xs v)
        ⟨{ s with innermost := xs.length }, f, .notFound, none, none⟩).flagO = true := by
      refine foldl_inv (fun a : IAcc => a.flagO = true) _ _ _ ?_ (fun a sub h => indexSubStep_mono c hI nx xs v a sub h)
      simpa [IAcc.flagO] using h
    unfold IAcc.flagO at hinv
    split <;> simp_all

/-! ### dispatch and the induction over fuel -/

theorem execBinaryNode_mono (c : Ctx) {item : ItemK} {bool : BoolK} {any : AnyK} (hI : MonoI item)
    (hB : MonoB bool) (hA : MonoA any) (s : St) (n : Node) (op : BinOp) (l r nx : Option Node) (v : Item)
    (f : Found) (unwrap : Bool) (h : s.oof = true) :
    (execBinaryNode c item bool any s n op l r nx v f unwrap).st.oof = true := by
  unfold execBinaryNode
  split
  · exact appendBoolResult_mono c hI nx f _ (hB _ _ _ _ h)
  · split
    · exact execBinaryMathExpr_mono c hI _ _ _ _ _ _ _ h
    · split
      · exact execConvMethod_mono c hI hA _ _ _ _ _ _ _ h
      · first | exact h | rfl

theorem execUnaryNode_mono (c : Ctx) {item : ItemK} {bool : BoolK} {any : AnyK} (hI : MonoI item)
    (hB : MonoB bool) (hA : MonoA any) (s : St) (n : Node) (op : UnOp) (x nx : Option Node) (v : Item)
    (f : Found) (unwrap : Bool) (h : s.oof = true) :
    (execUnaryNode c item bool any s n op x nx v f unwrap).st.oof = true := by
  unfold execUnaryNode
  split
  · exact appendBoolResult_mono c hI nx f _ (hB _ _ _ _ h)
  · exact appendBoolResult_mono c hI nx f _ (hB _ _ _ _ h)
  · exact appendBoolResult_mono c hI nx f _ (hB _ _ _ _ h)
  · split
    · exact unwrapTargetArray_mono hA _ _ _ _ h
    · split
      · first | exact h | rfl
      · rename_i cond
        have hp := executeNestedBoolItem_mono hB s cond v h
        have hn := executeNextItem_mono c hI (executeNestedBoolItem bool s cond v).st nx v f hp
        flag_monoO []
  · exact execUnaryMathExpr_mono c hI _ _ _ _ _ _ h
  · exact execUnaryMathExpr_mono c hI _ _ _ _ _ _ h
  · split
    · exact hA _ _ _ _ _ _ _ _ _ h
    · exact executeDateTimeMethod_mono c hI _ _ _ _ _ _ h

theorem dispatch_mono (c : Ctx) {item : ItemK} {bool : BoolK} {any : AnyK} (hI : MonoI item)
    (hB : MonoB bool) (hA : MonoA any) (s : St) (n : Node) (v : Item) (f : Found) (unwrap : Bool)
    (h : s.oof = true) : (dispatch c item bool any s n v f unwrap).st.oof = true := by
  unfold dispatch
  split
  · exact execConstNode_mono c hI hA _ _ _ _ _ _ _ h
  · exact execLiteral_mono c hI _ _ _ _ h
  · exact execLiteral_mono c hI _ _ _ _ h
  · exact execLiteral_mono c hI _ _ _ _ h
  · exact execVariable_mono c hI _ _ _ _ h
  · exact execKeyNode_mono c hI hA _ _ _ _ _ _ _ h
  · exact execBinaryNode_mono c hI hB hA _ _ _ _ _ _ _ _ _ h
  · exact execUnaryNode_mono c hI hB hA _ _ _ _ _ _ _ _ h
  · exact appendBoolResult_mono c hI _ f _ (hB _ _ _ _ h)
  · exact execMethodNode_mono c hI hA _ _ _ _ _ _ _ h
  · exact execAnyNode_mono c hI hA _ _ _ _ _ _ h
  · exact execArrayIndex_mono c hI _ _ _ _ _ h

theorem poll_flag {s s' : St} (h : poll s = some s') : s'.oof = s.oof := by
  unfold poll at h
  split at h <;> simp at h <;> subst h <;> rfl

/-- **the flag `oof` is sticky**: no executor function ever clears it -/
theorem mono_all (c : Ctx) : ∀ fuel : Nat,
    MonoI (xItem c fuel) ∧ MonoB (xBool c fuel) ∧ MonoA (xAny c fuel) := by
  intro fuel
  induction fuel with
  | zero =>
    refine ⟨fun s n v f u h => ?_, fun s n v b h => ?_, fun s n vs f l a b i u h => ?_⟩
    · first | (simp [xItem]; done) | simpa [xItem] using h
    · first | (simp [xBool]; done) | simpa [xBool] using h
    · first | (simp [xAny]; done) | simpa [xAny] using h
  | succ fuel ih =>
    obtain ⟨hI, hB, hA⟩ := ih
    refine ⟨fun s n v f u h => ?_, fun s n v b h => ?_, fun s n vs f l a b i u h => ?_⟩
    · simp only [xItem]
      split
      · first | rfl | exact h
      · rename_i s' hpoll
        exact dispatch_mono c hI hB hA _ _ _ _ _ (by rw [poll_flag hpoll]; exact h)
    · simp only [xBool]; exact executeBoolItem_mono c hI hB _ _ _ _ h
    · simp only [xAny]; exact executeAnyItem_mono hI hA _ _ _ _ _ _ _ _ _ h

end MonoOof
namespace MonoPan

abbrev MonoI (item : ItemK) : Prop :=
  ∀ s n v f u, s.panicked = true → (item s n v f u).st.panicked = true
abbrev MonoB (bool : BoolK) : Prop :=
  ∀ s n v b, s.panicked = true → (bool s n v b).st.panicked = true
abbrev MonoA (any : AnyK) : Prop :=
  ∀ s n vs f l a b i u, s.panicked = true → (any s n vs f l a b i u).st.panicked = true

theorem returnVerboseError_st (s : St) (f : Found) : (returnVerboseError s f).st = s := by
  unfold returnVerboseError; split <;> rfl

theorem returnError_st (s : St) (f : Found) (e : Err) : (returnError s f e).st = s := by
  unfold returnError; split <;> rfl

theorem structural_st (s : St) (f : Found) : (structural s f).st = s := by
  unfold structural; split
  · exact returnVerboseError_st s f
  · rfl

theorem executeItem_mono (c : Ctx) {item : ItemK} (hI : MonoI item) (s : St) (n : Node) (v : Item) (f : Found)
    (h : s.panicked = true) : (executeItem c item s n v f).st.panicked = true := hI _ _ _ _ _ h

theorem executeNextItem_mono (c : Ctx) {item : ItemK} (hI : MonoI item) (s : St) (nx : Option Node)
    (v : Item) (f : Found) (h : s.panicked = true) :
    (executeNextItem c item s nx v f).st.panicked = true := by
  unfold executeNextItem executeItem
  repeat' split
  all_goals simp_all

theorem withBaseObject_mono (s : St) (a : Nat) (i : Int) (k : St → Res)
    (hk : ∀ s', s'.panicked = true → (k s').st.panicked = true) (h : s.panicked = true) :
    (withBaseObject s a i k).st.panicked = true := by
  unfold withBaseObject
  exact hk _ h

theorem execLiteral_mono (c : Ctx) {item : ItemK} (hI : MonoI item) (s : St) (nx : Option Node)
    (v : Item) (f : Found) (h : s.panicked = true) :
    (execLiteral c item s nx v f).st.panicked = true := by
  unfold execLiteral
  repeat' split
  all_goals simp_all [executeNextItem_mono c hI]

macro "flag_monoP" "[" ts:Lean.Parser.Tactic.simpLemma,* "]" : tactic =>
  `(tactic| ((try dsimp only) <;> (repeat' (split <;> try dsimp only)) <;>
    simp_all [returnVerboseError_st, returnError_st, structural_st, $ts,*]))

theorem execVariable_mono (c : Ctx) {item : ItemK} (hI : MonoI item) (s : St) (name : List Char)
    (nx : Option Node) (f : Found) (h : s.panicked = true) :
    (execVariable c item s name nx f).st.panicked = true := by
  unfold execVariable
  split
  · exact withBaseObject_mono _ _ _ _ (fun s' h' => executeNextItem_mono c hI _ _ _ _ h') h
  · first | exact h | rfl

theorem unwrapTargetArray_mono {any : AnyK} (hA : MonoA any) (s : St) (n : Node) (xs : List Item) (f : Found)
    (h : s.panicked = true) : (unwrapTargetArray any s n xs f).st.panicked = true := hA _ _ _ _ _ _ _ _ _ h

theorem execKeyNode_mono (c : Ctx) {item : ItemK} {any : AnyK} (hI : MonoI item) (hA : MonoA any) (s : St)
    (n : Node) (key : List Char) (nx : Option Node) (v : Item) (f : Found) (unwrap : Bool)
    (h : s.panicked = true) : (execKeyNode c item any s n key nx v f unwrap).st.panicked = true := by
  unfold execKeyNode
  flag_monoP [executeNextItem_mono c hI]

theorem execAnyKey_mono (c : Ctx) {any : AnyK} (hA : MonoA any) (s : St)
    (n : Node) (nx : Option Node) (v : Item) (f : Found) (unwrap : Bool)
    (h : s.panicked = true) : (execAnyKey c any s n nx v f unwrap).st.panicked = true := by
  unfold execAnyKey
  flag_monoP [unwrapTargetArray_mono hA]

theorem execAnyArray_mono (c : Ctx) {item : ItemK} {any : AnyK} (hI : MonoI item) (hA : MonoA any) (s : St)
    (nx : Option Node) (v : Item) (f : Found)
    (h : s.panicked = true) : (execAnyArray c item any s nx v f).st.panicked = true := by
  unfold execAnyArray
  flag_monoP [executeNextItem_mono c hI]

theorem execLastConst_mono (c : Ctx) {item : ItemK} (hI : MonoI item) (s : St)
    (nx : Option Node) (f : Found)
    (h : s.panicked = true) : (execLastConst c item s nx f).st.panicked = true := by
  unfold execLastConst
  flag_monoP [executeNextItem_mono c hI]

theorem execConstNode_mono (c : Ctx) {item : ItemK} {any : AnyK} (hI : MonoI item) (hA : MonoA any) (s : St)
    (n : Node) (k : Const) (nx : Option Node) (v : Item) (f : Found) (unwrap : Bool)
    (h : s.panicked = true) : (execConstNode c item any s n k nx v f unwrap).st.panicked = true := by
  unfold execConstNode
  cases k <;> simp only
  · exact withBaseObject_mono _ _ _ _ (fun s' h' => executeNextItem_mono c hI _ _ _ _ h') h
  · exact executeNextItem_mono c hI _ _ _ _ h
  · exact execLastConst_mono c hI _ _ _ h
  · exact execAnyArray_mono c hI hA _ _ _ _ h
  · exact execAnyKey_mono c hA _ _ _ _ _ _ h
  · exact execLiteral_mono c hI _ _ _ _ h
  · exact execLiteral_mono c hI _ _ _ _ h
  · exact execLiteral_mono c hI _ _ _ _ h

theorem optUnwrapResult_mono (c : Ctx) {item : ItemK} (hI : MonoI item) (s : St) (n : Node) (v : Item)
    (unwrap : Bool) (l : List Item) (h : s.panicked = true) :
    (optUnwrapResult c item s n v unwrap l).st.panicked = true := by
  unfold optUnwrapResult executeItem
  flag_monoP []

theorem optUnwrapResultSilent_mono (c : Ctx) {item : ItemK} (hI : MonoI item) (s : St) (n : Node) (v : Item)
    (unwrap : Bool) (f : Found) (h : s.panicked = true) :
    (optUnwrapResultSilent c item s n v unwrap f).st.panicked = true := by
  unfold optUnwrapResultSilent executeItem
  flag_monoP [optUnwrapResult_mono c hI]

theorem predicateTail_sc (c : Ctx) (s : St) (cb : Item → Item → CbOut) (ls rs : List Item)
    (h : s.panicked = true) : (predicateTail c s cb ls rs).st.panicked = true := by
  unfold predicateTail
  flag_monoP []

theorem executePredicate_mono (c : Ctx) {item : ItemK} (hI : MonoI item) (s : St) (left : Node)
    (right : Option Node) (v : Item) (unwrapRight : Bool) (cb : Item → Item → CbOut)
    (h : s.panicked = true) :
    (executePredicate c item s left right v unwrapRight cb).st.panicked = true := by
  unfold executePredicate
  have h1 := optUnwrapResultSilent_mono c hI s left v true (some []) h
  try dsimp only
  split
  · exact h1
  · split
    · rename_i rn
      have h2 := optUnwrapResultSilent_mono c hI _ rn v unwrapRight (some []) h1
      split
      · exact h2
      · exact predicateTail_sc c _ cb _ _ h2
    · exact predicateTail_sc c _ cb _ _ h1

theorem executeBinaryBoolItem_mono (c : Ctx) {item : ItemK} {bool : BoolK} (hI : MonoI item) (hB : MonoB bool)
    (s : St) (op : BinOp) (l r : Option Node) (v : Item) (h : s.panicked = true) :
    (executeBinaryBoolItem c item bool s op l r v).st.panicked = true := by
  unfold executeBinaryBoolItem
  flag_monoP [executePredicate_mono c hI]

theorem executeUnaryBoolItem_mono (c : Ctx) {item : ItemK} {bool : BoolK} (hI : MonoI item) (hB : MonoB bool)
    (s : St) (op : UnOp) (x : Option Node) (v : Item) (h : s.panicked = true) :
    (executeUnaryBoolItem c item bool s op x v).st.panicked = true := by
  unfold executeUnaryBoolItem
  flag_monoP [optUnwrapResultSilent_mono c hI]

theorem executeBoolItem_mono (c : Ctx) {item : ItemK} {bool : BoolK} (hI : MonoI item) (hB : MonoB bool)
    (s : St) (n : Node) (v : Item) (chn : Bool) (h : s.panicked = true) :
    (executeBoolItem c item bool s n v chn).st.panicked = true := by
  unfold executeBoolItem
  flag_monoP [executeBinaryBoolItem_mono c hI hB, executeUnaryBoolItem_mono c hI hB, executePredicate_mono c hI]

theorem appendBoolResult_mono (c : Ctx) {item : ItemK} (hI : MonoI item) (nx : Option Node)
    (f : Found) (p : PRes) (h : p.st.panicked = true) :
    (appendBoolResult c item nx f p).st.panicked = true := by
  unfold appendBoolResult
  flag_monoP [executeNextItem_mono c hI]

theorem executeNestedBoolItem_mono {bool : BoolK} (hB : MonoB bool) (s : St) (n : Node) (v : Item)
    (h : s.panicked = true) : (executeNestedBoolItem bool s n v).st.panicked = true := by
  unfold executeNestedBoolItem
  exact hB _ _ _ _ h

/-! ### loop accumulators: the flag of the state that is going to be returned -/

def _root_.Sqljson.Exec.UAcc.flagP (a : UAcc) : Bool := match a.ret with | some r => r.st.panicked | none => a.st.panicked
def _root_.Sqljson.Exec.KVAcc.flagP (a : KVAcc) : Bool := match a.ret with | some r => r.st.panicked | none => a.st.panicked
def _root_.Sqljson.Exec.AAcc.flagP (a : AAcc) : Bool := match a.ret with | some r => r.st.panicked | none => a.st.panicked
def _root_.Sqljson.Exec.IAcc.flagP (a : IAcc) : Bool := match a.ret with | some r => r.st.panicked | none => a.st.panicked

theorem unaryStep_mono (c : Ctx) {item : ItemK} (hI : MonoI item) (cb : Num.UCallback) (nx : Option Node)
    (a : UAcc) (v : Item) (h : a.flagP = true) : (unaryStep c item cb nx a v).flagP = true := by
  unfold unaryStep
  split
  · first | exact h | rfl
  · rename_i hnone
    have hs : a.st.panicked = true := by simpa [UAcc.flagP, hnone] using h
    have hn := executeNextItem_mono c hI a.st nx
    flag_monoP [UAcc.flagP]

theorem execUnaryMathExpr_mono (c : Ctx) {item : ItemK} (hI : MonoI item) (s : St) (operand nx : Option Node)
    (v : Item) (cb : Num.UCallback) (f : Found) (h : s.panicked = true) :
    (execUnaryMathExpr c item s operand nx v cb f).st.panicked = true := by
  unfold execUnaryMathExpr
  split
  · first | exact h | rfl
  · rename_i x
    have hr := optUnwrapResult_mono c hI s x v true [] h
    try dsimp only
    split
    · exact hr
    · have hinv : (((optUnwrapResult c item s x v true []).found.getD []).foldl
          (unaryStep c item cb nx) ⟨(optUnwrapResult c item s x v true []).st, f, .notFound, none⟩).flagP = true := by
        refine foldl_inv (fun a : UAcc => a.flagP = true) _ _ _ ?_ (fun a v h => unaryStep_mono c hI cb nx a v h)
        simpa [UAcc.flagP] using hr
      unfold UAcc.flagP at hinv
      split <;> simp_all

theorem execBinaryMathExpr_mono (c : Ctx) {item : ItemK} (hI : MonoI item) (s : St) (op : BinOp)
    (l r nx : Option Node) (v : Item) (f : Found) (h : s.panicked = true) :
    (execBinaryMathExpr c item s op l r nx v f).st.panicked = true := by
  unfold execBinaryMathExpr
  split
  · rename_i ln rn
    have h1 := optUnwrapResult_mono c hI s ln v true [] h
    have h2 := optUnwrapResult_mono c hI (optUnwrapResult c item s ln v true []).st rn v true [] h1
    have h3 := executeNextItem_mono c hI (optUnwrapResult c item (optUnwrapResult c item s ln v true []).st rn v true []).st nx
    flag_monoP []
  · first | exact h | rfl

theorem execMethodSize_mono (c : Ctx) {item : ItemK} (hI : MonoI item) (s : St) (nx : Option Node)
    (v : Item) (f : Found) (h : s.panicked = true) : (execMethodSize c item s nx v f).st.panicked = true := by
  unfold execMethodSize
  flag_monoP [executeNextItem_mono c hI]

theorem execConvMethod_mono (c : Ctx) {item : ItemK} {any : AnyK} (hI : MonoI item) (hA : MonoA any) (s : St)
    (n : Node) (nx : Option Node) (v : Item) (f : Found) (unwrap : Bool) (conv : Item → Conv)
    (h : s.panicked = true) : (execConvMethod c item any s n nx v f unwrap conv).st.panicked = true := by
  unfold execConvMethod
  flag_monoP [executeNextItem_mono c hI, unwrapTargetArray_mono hA]

theorem executeDateTimeMethod_mono (c : Ctx) {item : ItemK} (hI : MonoI item) (s : St) (op : UnOp)
    (arg nx : Option Node) (v : Item) (f : Found) (h : s.panicked = true) :
    (executeDateTimeMethod c item s op arg nx v f).st.panicked = true := by
  unfold executeDateTimeMethod
  flag_monoP [executeNextItem_mono c hI]

theorem kvStep_mono (c : Ctx) {item : ItemK} (hI : MonoI item) (nx : Option Node) (id : Int)
    (a : KVAcc) (kv : List Char × Item) (h : a.flagP = true) : (kvStep c item nx id a kv).flagP = true := by
  unfold kvStep
  split
  · first | exact h | rfl
  · rename_i hcond
    have hnone : a.ret = none := by cases hr : a.ret <;> simp_all
    have hs : a.st.panicked = true := by simpa [KVAcc.flagP, hnone] using h
    have hn := executeNextItem_mono c hI (kvEnter c a.st (kvObj id kv)) nx (kvObj id kv) a.found
      (by simpa [kvEnter] using hs)
    flag_monoP [KVAcc.flagP]

theorem executeKeyValueMethod_mono (c : Ctx) {item : ItemK} {any : AnyK} (hI : MonoI item) (hA : MonoA any)
    (s : St) (n : Node) (nx : Option Node) (v : Item) (f : Found) (unwrap : Bool) (h : s.panicked = true) :
    (executeKeyValueMethod c item any s n nx v f unwrap).st.panicked = true := by
  unfold executeKeyValueMethod
  split
  · flag_monoP [unwrapTargetArray_mono hA]
  · rename_i kvs
    split
    · first | exact h | rfl
    · split
      · first | exact h | rfl
      · try dsimp only
        generalize hid : (_ : Int) + s.baseId * 10000000000 = id
        have hinv : (kvs.foldl (kvStep c item nx id) ⟨s, f, .ok, none, false⟩).flagP = true := by
          refine foldl_inv (fun a : KVAcc => a.flagP = true) _ _ _ ?_ (fun a kv h => kvStep_mono c hI nx id a kv h)
          simpa [KVAcc.flagP] using h
        unfold KVAcc.flagP at hinv
        split <;> simp_all
  · flag_monoP []

theorem execMethodNode_mono (c : Ctx) {item : ItemK} {any : AnyK} (hI : MonoI item) (hA : MonoA any)
    (s : St) (n : Node) (m : Method) (nx : Option Node) (v : Item) (f : Found) (unwrap : Bool)
    (h : s.panicked = true) : (execMethodNode c item any s n m nx v f unwrap).st.panicked = true := by
  unfold execMethodNode
  cases m <;> simp only
  all_goals first
    | exact execConvMethod_mono c hI hA _ _ _ _ _ _ _ h
    | exact executeNextItem_mono c hI _ _ _ _ h
    | exact execMethodSize_mono c hI _ _ _ _ h
    | exact executeKeyValueMethod_mono c hI hA _ _ _ _ _ _ h

theorem anyVisit_mono {item : ItemK} (hI : MonoI item) (node : Option Node) (level first last : Nat)
    (ignore unwrapNext : Bool) (a : AAcc) (v : Item) (hnone : a.ret = none) (h : a.flagP = true) :
    (anyVisit item node level first last ignore unwrapNext a v).flagP = true := by
  have hs : a.st.panicked = true := by simpa [AAcc.flagP, hnone] using h
  unfold anyVisit
  split
  · split
    · rename_i n
      have hr := hI (if ignore then { a.st with ignoreSE := true } else a.st) n v a.found unwrapNext
        (by split <;> simpa using hs)
      flag_monoP [AAcc.flagP]
    · flag_monoP [AAcc.flagP]
  · first | exact h | rfl

theorem anyDescend_mono {any : AnyK} (hA : MonoA any) (node : Option Node) (level first last : Nat)
    (ignore unwrapNext : Bool) (a : AAcc) (v : Item) (hnone : a.ret = none) (h : a.flagP = true) :
    (anyDescend any node level first last ignore unwrapNext a v).flagP = true := by
  have hs : a.st.panicked = true := by simpa [AAcc.flagP, hnone] using h
  unfold anyDescend
  have hr := hA a.st node ((collection v).getD []) a.found (level + 1) first last ignore unwrapNext hs
  flag_monoP [AAcc.flagP]

theorem anyStep_mono {item : ItemK} {any : AnyK} (hI : MonoI item) (hA : MonoA any) (node : Option Node)
    (level first last : Nat) (ignore unwrapNext : Bool) (a : AAcc) (v : Item) (h : a.flagP = true) :
    (anyStep item any node level first last ignore unwrapNext a v).flagP = true := by
  unfold anyStep
  split
  · first | exact h | rfl
  · rename_i hnone
    have h1 := anyVisit_mono hI node level first last ignore unwrapNext a v hnone h
    try dsimp only
    split
    · exact h1
    · rename_i hnone1
      exact anyDescend_mono hA node level first last ignore unwrapNext _ v hnone1 h1

theorem executeAnyItem_mono {item : ItemK} {any : AnyK} (hI : MonoI item) (hA : MonoA any) (s : St)
    (node : Option Node) (vs : List Item) (f : Found) (level first last : Nat) (ignore unwrapNext : Bool)
    (h : s.panicked = true) :
    (executeAnyItem item any s node vs f level first last ignore unwrapNext).st.panicked = true := by
  unfold executeAnyItem
  split
  · first | exact h | rfl
  · try dsimp only
    have hinv : (vs.foldl (anyStep item any node level first last ignore unwrapNext)
        ⟨s, f, .notFound, none, none⟩).flagP = true := by
      refine foldl_inv (fun a : AAcc => a.flagP = true) _ _ _ ?_
        (fun a v h => anyStep_mono hI hA node level first last ignore unwrapNext a v h)
      simpa [AAcc.flagP] using h
    unfold AAcc.flagP at hinv
    split <;> simp_all

theorem anyInto_mono (c : Ctx) {any : AnyK} (hA : MonoA any) (s : St) (first last : Nat)
    (nx : Option Node) (v : Item) (f : Found) (h : s.panicked = true) :
    (anyInto c any s first last nx v f).st.panicked = true := by
  unfold anyInto
  flag_monoP []

theorem execAnyNode_mono (c : Ctx) {item : ItemK} {any : AnyK} (hI : MonoI item) (hA : MonoA any) (s : St)
    (first last : Nat) (nx : Option Node) (v : Item) (f : Found) (h : s.panicked = true) :
    (execAnyNode c item any s first last nx v f).st.panicked = true := by
  unfold execAnyNode
  have h1 := executeNextItem_mono c hI { s with ignoreSE := true } nx v f h
  have h2 := anyInto_mono c hA (executeNextItem c item { s with ignoreSE := true } nx v f).st first last nx v
    (executeNextItem c item { s with ignoreSE := true } nx v f).found h1
  flag_monoP [anyInto_mono c hA]

/-! ### subscripts -/

theorem getArrayIndex_mono (c : Ctx) {item : ItemK} (hI : MonoI item) (s : St) (n : Node) (v : Item)
    (h : s.panicked = true) : (getArrayIndex c item s n v).1.panicked = true := by
  unfold getArrayIndex
  have hr := executeItem_mono c hI s n v (some []) h
  flag_monoP []

theorem execSubscript_mono (c : Ctx) {item : ItemK} (hI : MonoI item) (s : St) (sub : Node) (v : Item)
    (size : Int) (h : s.panicked = true) : (execSubscript c item s sub v size).1.panicked = true := by
  unfold execSubscript
  split
  · rename_i l r _
    have h1 := getArrayIndex_mono c hI s l v h
    split
    · rename_i s2 e heq
      rw [heq] at h1; exact h1
    · rename_i s2 from_ heq
      rw [heq] at h1
      cases r with
      | none => simp only; split <;> exact h1
      | some rn =>
        have h2 := getArrayIndex_mono c hI s2 rn v h1
        simp only
        split
        · exact h2
        · split <;> exact h2
  · first | exact h | rfl
  · first | exact h | rfl

theorem indexElemStep_mono (c : Ctx) {item : ItemK} (hI : MonoI item) (nx : Option Node)
    (a : IAcc) (v : Item) (h : a.flagP = true) : (indexElemStep c item nx a v).flagP = true := by
  unfold indexElemStep
  split
  · first | exact h | rfl
  · rename_i hsome
    have hnone : a.ret = none := by cases hr : a.ret <;> simp_all
    have hs : a.st.panicked = true := by simpa [IAcc.flagP, hnone] using h
    have hr := executeNextItem_mono c hI a.st nx v a.found hs
    flag_monoP [IAcc.flagP]

theorem indexSubStep_mono (c : Ctx) {item : ItemK} (hI : MonoI item) (nx : Option Node) (xs : List Item)
    (v : Item) (a : IAcc) (sub : Node) (h : a.flagP = true) :
    (indexSubStep c item nx xs v a sub).flagP = true := by
  unfold indexSubStep
  split
  · first | exact h | rfl
  · rename_i hsome
    have hnone : a.ret = none := by cases hr : a.ret <;> simp_all
    have hs : a.st.panicked = true := by simpa [IAcc.flagP, hnone] using h
    have hsub := execSubscript_mono c hI a.st sub v xs.length hs
    split
    · rename_i s1 e heq
      rw [heq] at hsub
      simpa [IAcc.flagP, returnError_st] using hsub
    · rename_i s1 from_ to_ heq
      rw [heq] at hsub
      refine foldl_inv (fun a : IAcc => a.flagP = true) _ _ _ ?_ (fun a' v' h' => indexElemStep_mono c hI nx a' v' h')
      simpa [IAcc.flagP, hnone] using hsub

theorem execArrayIndex_mono (c : Ctx) {item : ItemK} (hI : MonoI item) (s : St) (subs : List Node)
    (nx : Option Node) (v : Item) (f : Found) (h : s.panicked = true) :
    (execArrayIndex c item s subs nx v f).st.panicked = true := by
  unfold execArrayIndex
  try dsimp only
  split
  · simpa [structural_st] using h
  · rename_i xs _
    have hinv : (subs.foldl (indexSubStep c item nx xs v)
        ⟨{ s with innermost := xs.length }, f, .notFound, none, none⟩).flagP = true := by
      refine foldl_inv (fun a : IAcc => a.flagP = true) _ _ _ ?_ (fun a sub h => indexSubStep_mono c hI nx xs v a sub h)
      simpa [IAcc.flagP] using h
    unfold IAcc.flagP at hinv
    split <;> simp_all

/-! ### dispatch and the induction over fuel -/

theorem execBinaryNode_mono (c : Ctx) {item : ItemK} {bool : BoolK} {any : AnyK} (hI : MonoI item)
    (hB : MonoB bool) (hA : MonoA any) (s : St) (n : Node) (op : BinOp) (l r nx : Option Node) (v : Item)
    (f : Found) (unwrap : Bool) (h : s.panicked = true) :
    (execBinaryNode c item bool any s n op l r nx v f unwrap).st.panicked = true := by
  unfold execBinaryNode
  split
  · exact appendBoolResult_mono c hI nx f _ (hB _ _ _ _ h)
  · split
    · exact execBinaryMathExpr_mono c hI _ _ _ _ _ _ _ h
    · split
      · exact execConvMethod_mono c hI hA _ _ _ _ _ _ _ h
      · first | exact h | rfl

theorem execUnaryNode_mono (c : Ctx) {item : ItemK} {bool : BoolK} {any : AnyK} (hI : MonoI item)
    (hB : MonoB bool) (hA : MonoA any) (s : St) (n : Node) (op : UnOp) (x nx : Option Node) (v : Item)
    (f : Found) (unwrap : Bool) (h : s.panicked = true) :
    (execUnaryNode c item bool any s n op x nx v f unwrap).st.panicked = true := by
  unfold execUnaryNode
  split
  · exact appendBoolResult_mono c hI nx f _ (hB _ _ _ _ h)
  · exact appendBoolResult_mono c hI nx f _ (hB _ _ _ _ h)
  · exact appendBoolResult_mono c hI nx f _ (hB _ _ _ _ h)
  · split
    · exact unwrapTargetArray_mono hA _ _ _ _ h
    · split
      · first | exact h | rfl
      · rename_i cond
        have hp := executeNestedBoolItem_mono hB s cond v h
        have hn := executeNextItem_mono c hI (executeNestedBoolItem bool s cond v).st nx v f hp
        flag_monoP []
  · exact execUnaryMathExpr_mono c hI _ _ _ _ _ _ h
  · exact execUnaryMathExpr_mono c hI _ _ _ _ _ _ h
  · split
    · exact hA _ _ _ _ _ _ _ _ _ h
    · exact executeDateTimeMethod_mono c hI _ _ _ _ _ _ h

theorem dispatch_mono (c : Ctx) {item : ItemK} {bool : BoolK} {any : AnyK} (hI : MonoI item)
    (hB : MonoB bool) (hA : MonoA any) (s : St) (n : Node) (v : Item) (f : Found) (unwrap : Bool)
    (h : s.panicked = true) : (dispatch c item bool any s n v f unwrap).st.panicked = true := by
  unfold dispatch
  split
  · exact execConstNode_mono c hI hA _ _ _ _ _ _ _ h
  · exact execLiteral_mono c hI _ _ _ _ h
  · exact execLiteral_mono c hI _ _ _ _ h
  · exact execLiteral_mono c hI _ _ _ _ h
  · exact execVariable_mono c hI _ _ _ _ h
  · exact execKeyNode_mono c hI hA _ _ _ _ _ _ _ h
  · exact execBinaryNode_mono c hI hB hA _ _ _ _ _ _ _ _ _ h
  · exact execUnaryNode_mono c hI hB hA _ _ _ _ _ _ _ _ h
  · exact appendBoolResult_mono c hI _ f _ (hB _ _ _ _ h)
  · exact execMethodNode_mono c hI hA _ _ _ _ _ _ _ h
  · exact execAnyNode_mono c hI hA _ _ _ _ _ _ h
  · exact execArrayIndex_mono c hI _ _ _ _ _ h

theorem poll_flag {s s' : St} (h : poll s = some s') : s'.panicked = s.panicked := by
  unfold poll at h
  split at h <;> simp at h <;> subst h <;> rfl

/-- **the flag `panicked` is sticky**: no executor function ever clears it -/
theorem mono_all (c : Ctx) : ∀ fuel : Nat,
    MonoI (xItem c fuel) ∧ MonoB (xBool c fuel) ∧ MonoA (xAny c fuel) := by
  intro fuel
  induction fuel with
  | zero =>
    refine ⟨fun s n v f u h => ?_, fun s n v b h => ?_, fun s n vs f l a b i u h => ?_⟩
    · first | (simp [xItem]; done) | simpa [xItem] using h
    · first | (simp [xBool]; done) | simpa [xBool] using h
    · first | (simp [xAny]; done) | simpa [xAny] using h
  | succ fuel ih =>
    obtain ⟨hI, hB, hA⟩ := ih
    refine ⟨fun s n v f u h => ?_, fun s n v b h => ?_, fun s n vs f l a b i u h => ?_⟩
    · simp only [xItem]
      split
      · first | rfl | exact h
      · rename_i s' hpoll
        exact dispatch_mono c hI hB hA _ _ _ _ _ (by rw [poll_flag hpoll]; exact h)
    · simp only [xBool]; exact executeBoolItem_mono c hI hB _ _ _ _ h
    · simp only [xAny]; exact executeAnyItem_mono hI hA _ _ _ _ _ _ _ _ _ h

end MonoPan

/-! ## part 1: the relation between the probing and the collecting run -/

/-- both sticky flags of `s` are also set in `t` -/
def Le (s t : St) : Prop := (s.oof = true → t.oof = true) ∧ (s.panicked = true → t.panicked = true)

theorem Le.refl (s : St) : Le s s := ⟨id, id⟩
theorem Le.trans {s t u : St} (h1 : Le s t) (h2 : Le t u) : Le s u :=
  ⟨fun h => h2.1 (h1.1 h), fun h => h2.2 (h1.2 h)⟩
theorem Le.of_eq {s t : St} (h1 : t.oof = s.oof) (h2 : t.panicked = s.panicked) : Le s t :=
  ⟨fun h => by rw [h1]; exact h, fun h => by rw [h2]; exact h⟩

/-- the recursive calls never clear a sticky flag -/
def LeI (item : ItemK) : Prop := ∀ s n v f u, Le s (item s n v f u).st
def LeA (any : AnyK) : Prop := ∀ s n vs f l a b i u, Le s (any s n vs f l a b i u).st

theorem LeI.oof {item : ItemK} (h : LeI item) : MonoOof.MonoI item := fun s n v f u => (h s n v f u).1
theorem LeI.pan {item : ItemK} (h : LeI item) : MonoPan.MonoI item := fun s n v f u => (h s n v f u).2
theorem LeA.oof {any : AnyK} (h : LeA any) : MonoOof.MonoA any := fun s n vs f l a b i u => (h s n vs f l a b i u).1
theorem LeA.pan {any : AnyK} (h : LeA any) : MonoPan.MonoA any := fun s n vs f l a b i u => (h s n vs f l a b i u).2

/-- the collecting run, started with the list `l`, has appended at least one item -/
def Appended (l : List Item) (f : Found) : Prop := ∃ x xs, f = some (l ++ x :: xs)

theorem Appended.shape {l : List Item} {f g : Found} (h : Appended l f) (hs : Shape f g) : Appended l g := by
  obtain ⟨x, xs, rfl⟩ := h
  obtain ⟨l', hl'⟩ := hs.2 _ rfl
  exact ⟨x, xs ++ l', by simp [hl']⟩

theorem Appended.one (l : List Item) (v : Item) : Appended l (Found.append (some l) v) :=
  ⟨v, [], by simp [Found.append]⟩

theorem Appended.ne {l : List Item} {f : Found} (h : Appended l f) : f ≠ some l := by
  obtain ⟨x, xs, rfl⟩ := h
  intro h'
  have := congrArg (fun o : Found => (o.getD []).length) h'
  simp at this

/-- the D8 situation (unary `+`/`-` as the last step of the path, probing): the collecting run
    fails with the suppressible error on the very item on which the probe answered "found" -/
def D8Fail (r : Res) : Prop := r.status = .failed ∧ (r.st.verbose = true → r.err = some .verbose)

/-- what the collecting run returns when the probe answered "found" -/
def HitRes (d8 : Bool) (l : List Item) (rc : Res) : Prop := Appended l rc.found ∨ (d8 = true ∧ D8Fail rc)

theorem HitRes.appended {d8 : Bool} {l : List Item} {rc : Res} (h : HitRes d8 l rc) (hnf : rc.status ≠ .failed) :
    Appended l rc.found := by
  rcases h with h | ⟨_, h, _⟩
  · exact h
  · exact absurd h hnf

/-- **probe/collect relation**: `rp` is the result of a call with `found = nil` (probe), `rc` the result
    of the same call, from the same state, with `found = l` (collect).
    * the probe never allocates a list;
    * if the probe did not answer "found" (`notFound` or `failed`), the collecting run returned the same
      state, status and error and appended nothing;
    * if the probe answered "found", the collecting run appended at least one item (it may still fail
      later; with `d8 = true` it may instead have failed in the D8 situation), and every sticky flag
      the probe set is set in the collecting run too. -/
structure PC (d8 : Bool) (l : List Item) (rp rc : Res) : Prop where
  pfound : rp.found = none
  same : rp.status ≠ .ok → rc = ⟨rp.st, some l, rp.status, rp.err⟩
  hit : rp.status = .ok → HitRes d8 l rc ∧ Le rp.st rc.st

/-- both runs return the same literal result, not "found" -/
theorem PC.lit {d8 : Bool} {l : List Item} (s : St) (st : Status) (e : Option Err) (h : st ≠ .ok) :
    PC d8 l ⟨s, none, st, e⟩ ⟨s, some l, st, e⟩ :=
  ⟨rfl, fun _ => rfl, fun h' => absurd h' h⟩

/-- the probe answers "found" -/
theorem PC.ofHit {d8 : Bool} {l : List Item} {rp rc : Res} (h1 : rp.found = none) (h2 : rp.status = .ok)
    (h3 : HitRes d8 l rc) (h4 : Le rp.st rc.st) : PC d8 l rp rc :=
  ⟨h1, fun h => absurd h2 h, fun _ => ⟨h3, h4⟩⟩

@[elab_as_elim]
theorem PC.cases {d8 : Bool} {l : List Item} {motive : Res → Res → Prop} {rp rc : Res} (h : PC d8 l rp rc)
    (hsame : ∀ (s : St) (st : Status) (e : Option Err), st ≠ .ok → motive ⟨s, none, st, e⟩ ⟨s, some l, st, e⟩)
    (hhit : ∀ (s : St) (e : Option Err) (rc : Res), HitRes d8 l rc → Le s rc.st → motive ⟨s, none, .ok, e⟩ rc) :
    motive rp rc := by
  obtain ⟨s, f, st, e⟩ := rp
  have hf : f = none := h.pfound
  subst hf
  by_cases hst : st = .ok
  · subst hst
    exact hhit s e rc (h.hit rfl).1 (h.hit rfl).2
  · have := h.same hst
    subst this
    exact hsame s st e hst

/-- a restore of context fields on both results -/
theorem PC.mapSt {d8 : Bool} {l : List Item} {rp rc : Res} (g : St → St)
    (h1 : ∀ s, (g s).oof = s.oof) (h2 : ∀ s, (g s).panicked = s.panicked) (h3 : ∀ s, (g s).verbose = s.verbose)
    (h : PC d8 l rp rc) : PC d8 l { rp with st := g rp.st } { rc with st := g rc.st } := by
  refine ⟨h.pfound, fun hst => ?_, fun hst => ?_⟩
  · have := h.same hst
    subst this
    rfl
  · obtain ⟨hh, hle⟩ := h.hit hst
    refine ⟨?_, ⟨fun h' => ?_, fun h' => ?_⟩⟩
    · rcases hh with hh | ⟨hd, hf, he⟩
      · exact Or.inl hh
      · exact Or.inr ⟨hd, hf, fun hv => he (by simpa [h3] using hv)⟩
    · simp only [h1] at h' ⊢; exact hle.1 h'
    · simp only [h2] at h' ⊢; exact hle.2 h'

theorem HitRes.mapSt {d8 : Bool} {l : List Item} {rc : Res} (g : St → St) (h3 : ∀ s, (g s).verbose = s.verbose)
    (h : HitRes d8 l rc) : HitRes d8 l { rc with st := g rc.st } := by
  rcases h with hh | ⟨hd, hf, he⟩
  · exact Or.inl hh
  · exact Or.inr ⟨hd, hf, fun hv => he (by simpa [h3] using hv)⟩

/-! ### the syntactic class: where the D8 situation cannot arise -/

def isUMath : UnOp → Bool
  | .plus | .minus => true
  | _ => false

mutual
  /-- no unary `+`/`-` node is the last node of the chain (the accessor spine) of the path -/
  def spineOK : Node → Bool
    | .const _ nx | .method _ nx | .str _ nx | .var _ nx | .key _ nx | .numeric _ nx | .integer _ nx =>
      spineOKO nx
    | .any _ _ nx => spineOKO nx
    | .binary _ _ _ nx => spineOKO nx
    | .unary op _ nx => (!isUMath op || nx.isSome) && spineOKO nx
    | .regex _ _ _ nx => spineOKO nx
    | .arrayIndex _ nx => spineOKO nx
  def spineOKO : Option Node → Bool
    | none => true
    | some n => spineOK n
end

/-- the class of a node: everything with `d8 = true`, otherwise `spineOK` -/
def Cls (d8 : Bool) (n : Node) : Prop := d8 = true ∨ spineOK n = true
def ClsO (d8 : Bool) (nx : Option Node) : Prop := d8 = true ∨ spineOKO nx = true

theorem ClsO.some {d8 : Bool} {n : Node} (h : ClsO d8 (some n)) : Cls d8 n := by
  simpa [ClsO, Cls, spineOKO] using h
theorem Cls.toO {d8 : Bool} {n : Node} (h : Cls d8 n) : ClsO d8 (some n) := by
  simpa [ClsO, Cls, spineOKO] using h
theorem ClsO.none (d8 : Bool) : ClsO d8 none := Or.inr (by simp [spineOKO])

theorem Cls.next {d8 : Bool} {n : Node} (h : Cls d8 n) : ClsO d8 n.next := by
  rcases h with h | h
  · exact Or.inl h
  · refine Or.inr ?_
    cases n <;> simp_all [spineOK, Node.next]

theorem Cls.umath {d8 : Bool} {op : UnOp} {x nx : Option Node} (h : Cls d8 (.unary op x nx))
    (hop : isUMath op = true) : d8 = true ∨ nx.isSome = true := by
  rcases h with h | h
  · exact Or.inl h
  · refine Or.inr ?_
    simp [spineOK, hop] at h
    exact h.1

/-! ### hypotheses on the recursive calls -/

def SimI (d8 : Bool) (item : ItemK) : Prop :=
  ∀ s n v l u, Cls d8 n → PC d8 l (item s n v none u) (item s n v (some l) u)
def SimA (d8 : Bool) (any : AnyK) : Prop :=
  ∀ s node vs l lv a b i u, ClsO d8 node →
    PC d8 l (any s node vs none lv a b i u) (any s node vs (some l) lv a b i u)

structure HypI (d8 : Bool) (item : ItemK) : Prop where
  good : GoodI item
  le : LeI item
  sim : SimI d8 item

structure HypA (d8 : Bool) (any : AnyK) : Prop where
  good : GoodA any
  le : LeA any
  sim : SimA d8 any

variable {d8 : Bool}

/-! ### leaves -/

theorem returnVerboseError_pc (s : St) (l : List Item) :
    PC d8 l (returnVerboseError s none) (returnVerboseError s (some l)) := by
  unfold returnVerboseError
  split <;> exact PC.lit _ _ _ (by simp)

theorem returnError_pc (s : St) (l : List Item) (e : Err) :
    PC d8 l (returnError s none e) (returnError s (some l) e) := by
  unfold returnError
  split <;> exact PC.lit _ _ _ (by simp)

theorem structural_pc (s : St) (l : List Item) : PC d8 l (structural s none) (structural s (some l)) := by
  unfold structural
  split
  · exact returnVerboseError_pc s l
  · exact PC.lit _ _ _ (by simp)

theorem executeItem_pc (c : Ctx) {item : ItemK} (hI : HypI d8 item) (s : St) (n : Node) (v : Item)
    (l : List Item) (hn : Cls d8 n) :
    PC d8 l (executeItem c item s n v none) (executeItem c item s n v (some l)) := hI.sim _ _ _ _ _ hn

theorem executeNextItem_pc (c : Ctx) {item : ItemK} (hI : HypI d8 item) (s : St) (nx : Option Node) (v : Item)
    (l : List Item) (hnx : ClsO d8 nx) :
    PC d8 l (executeNextItem c item s nx v none) (executeNextItem c item s nx v (some l)) := by
  unfold executeNextItem
  cases nx with
  | some n => exact executeItem_pc c hI _ _ _ _ hnx.some
  | none => exact PC.ofHit rfl rfl (Or.inl (Appended.one l v)) (Le.refl _)

/-- the shortcut `if next == nil && found == nil { return ok }` in front of `executeNextItem` -/
theorem shortcut_pc (c : Ctx) {item : ItemK} (hI : HypI d8 item) (s : St) (nx : Option Node) (v : Item)
    (l : List Item) (hnx : ClsO d8 nx) :
    PC d8 l (if nx.isNone && (none : Found).isNone then ⟨s, none, .ok, none⟩ else executeNextItem c item s nx v none)
      (if nx.isNone && (some l : Found).isNone then ⟨s, some l, .ok, none⟩ else executeNextItem c item s nx v (some l)) := by
  cases nx with
  | some n => simpa using executeNextItem_pc c hI s (some n) v l hnx
  | none =>
    simp only [Option.isNone_none, Bool.and_self, if_true, Option.isNone_some, Bool.and_false]
    exact PC.ofHit rfl rfl (Or.inl (by simpa [executeNextItem] using Appended.one l v)) (Le.refl _)

theorem withBaseObject_pc (s : St) (l : List Item) (a : Nat) (i : Int) (k k' : St → Res)
    (hk : ∀ s', PC d8 l (k s') (k' s')) : PC d8 l (withBaseObject s a i k) (withBaseObject s a i k') := by
  unfold withBaseObject
  exact PC.mapSt (fun st => { st with baseAddr := s.baseAddr, baseId := s.baseId })
    (fun _ => rfl) (fun _ => rfl) (fun _ => rfl) (hk _)

theorem execLiteral_pc (c : Ctx) {item : ItemK} (hI : HypI d8 item) (s : St) (nx : Option Node) (v : Item)
    (l : List Item) (hnx : ClsO d8 nx) :
    PC d8 l (execLiteral c item s nx v none) (execLiteral c item s nx v (some l)) := by
  unfold execLiteral
  exact shortcut_pc c hI s nx v l hnx

theorem execVariable_pc (c : Ctx) {item : ItemK} (hI : HypI d8 item) (s : St) (name : List Char)
    (nx : Option Node) (l : List Item) (hnx : ClsO d8 nx) :
    PC d8 l (execVariable c item s name nx none) (execVariable c item s name nx (some l)) := by
  unfold execVariable
  split
  · exact withBaseObject_pc _ _ _ _ _ _ (fun s' => executeNextItem_pc c hI _ _ _ _ hnx)
  · exact PC.lit _ _ _ (by simp)

theorem unwrapTargetArray_pc {any : AnyK} (hA : HypA d8 any) (s : St) (n : Node) (xs : List Item)
    (l : List Item) (hn : Cls d8 n) :
    PC d8 l (unwrapTargetArray any s n xs none) (unwrapTargetArray any s n xs (some l)) :=
  hA.sim _ _ _ _ _ _ _ _ _ hn.toO

theorem execKeyNode_pc (c : Ctx) {item : ItemK} {any : AnyK} (hI : HypI d8 item) (hA : HypA d8 any) (s : St)
    (n : Node) (key : List Char) (nx : Option Node) (v : Item) (l : List Item) (unwrap : Bool)
    (hn : Cls d8 n) (hnx : ClsO d8 nx) :
    PC d8 l (execKeyNode c item any s n key nx v none unwrap) (execKeyNode c item any s n key nx v (some l) unwrap) := by
  unfold execKeyNode
  split
  · split
    · exact executeNextItem_pc c hI _ _ _ _ hnx
    · split
      · split <;> exact PC.lit _ _ _ (by simp)
      · exact PC.lit _ _ _ (by simp)
  · split
    · exact hA.sim _ _ _ _ _ _ _ _ _ hn.toO
    · exact structural_pc s l
  · exact structural_pc s l

theorem execAnyKey_pc (c : Ctx) {any : AnyK} (hA : HypA d8 any) (s : St)
    (n : Node) (nx : Option Node) (v : Item) (l : List Item) (unwrap : Bool)
    (hn : Cls d8 n) (hnx : ClsO d8 nx) :
    PC d8 l (execAnyKey c any s n nx v none unwrap) (execAnyKey c any s n nx v (some l) unwrap) := by
  unfold execAnyKey
  split
  · exact hA.sim _ _ _ _ _ _ _ _ _ hnx
  · split
    · exact unwrapTargetArray_pc hA _ _ _ _ hn
    · exact structural_pc s l
  · exact structural_pc s l

theorem execAnyArray_pc (c : Ctx) {item : ItemK} {any : AnyK} (hI : HypI d8 item) (hA : HypA d8 any) (s : St)
    (nx : Option Node) (v : Item) (l : List Item) (hnx : ClsO d8 nx) :
    PC d8 l (execAnyArray c item any s nx v none) (execAnyArray c item any s nx v (some l)) := by
  unfold execAnyArray
  split
  · exact hA.sim _ _ _ _ _ _ _ _ _ hnx
  · split
    · exact executeNextItem_pc c hI _ _ _ _ hnx
    · exact structural_pc s l

theorem execLastConst_pc (c : Ctx) {item : ItemK} (hI : HypI d8 item) (s : St)
    (nx : Option Node) (l : List Item) (hnx : ClsO d8 nx) :
    PC d8 l (execLastConst c item s nx none) (execLastConst c item s nx (some l)) := by
  unfold execLastConst
  split
  · exact PC.lit _ _ _ (by simp)
  · exact shortcut_pc c hI s nx _ l hnx

theorem execConstNode_pc (c : Ctx) {item : ItemK} {any : AnyK} (hI : HypI d8 item) (hA : HypA d8 any) (s : St)
    (n : Node) (k : Const) (nx : Option Node) (v : Item) (l : List Item) (unwrap : Bool)
    (hn : Cls d8 n) (hnx : ClsO d8 nx) :
    PC d8 l (execConstNode c item any s n k nx v none unwrap) (execConstNode c item any s n k nx v (some l) unwrap) := by
  unfold execConstNode
  cases k <;> simp only
  · exact withBaseObject_pc _ _ _ _ _ _ (fun s' => executeNextItem_pc c hI _ _ _ _ hnx)
  · exact executeNextItem_pc c hI _ _ _ _ hnx
  · exact execLastConst_pc c hI _ _ _ hnx
  · exact execAnyArray_pc c hI hA _ _ _ _ hnx
  · exact execAnyKey_pc c hA _ _ _ _ _ _ hn hnx
  · exact execLiteral_pc c hI _ _ _ _ hnx
  · exact execLiteral_pc c hI _ _ _ _ hnx
  · exact execLiteral_pc c hI _ _ _ _ hnx

/-! ### predicate results, filters, arithmetic

Predicates and operands do not see the caller's result list: they are the *same* calls in both runs. -/

theorem appendBoolResult_pc (c : Ctx) {item : ItemK} (hI : HypI d8 item) (nx : Option Node) (l : List Item)
    (p : PRes) (hnx : ClsO d8 nx) :
    PC d8 l (appendBoolResult c item nx none p) (appendBoolResult c item nx (some l) p) := by
  unfold appendBoolResult
  split
  · exact PC.lit _ _ _ (by simp)
  · exact shortcut_pc c hI p.st nx _ l hnx

theorem execBinaryMathExpr_pc (c : Ctx) {item : ItemK} (hI : HypI d8 item) (s : St) (op : BinOp)
    (lft r nx : Option Node) (v : Item) (l : List Item) (hnx : ClsO d8 nx) :
    PC d8 l (execBinaryMathExpr c item s op lft r nx v none) (execBinaryMathExpr c item s op lft r nx v (some l)) := by
  unfold execBinaryMathExpr
  split
  · dsimp only
    split
    · exact PC.lit _ _ _ (by simp)
    · split
      · split
        · exact PC.lit _ _ _ (by simp)
        · split
          · split
            · exact returnVerboseError_pc _ l
            · split
              · exact returnVerboseError_pc _ l
              · exact shortcut_pc c hI _ nx _ l hnx
          · exact returnVerboseError_pc _ l
      · exact returnVerboseError_pc _ l
  · exact PC.lit _ _ _ (by simp)

/-! ### item methods -/

theorem execMethodSize_pc (c : Ctx) {item : ItemK} (hI : HypI d8 item) (s : St) (nx : Option Node)
    (v : Item) (l : List Item) (hnx : ClsO d8 nx) :
    PC d8 l (execMethodSize c item s nx v none) (execMethodSize c item s nx v (some l)) := by
  unfold execMethodSize
  split
  · exact executeNextItem_pc c hI _ _ _ _ hnx
  · split
    · exact structural_pc s l
    · exact executeNextItem_pc c hI _ _ _ _ hnx

theorem execConvMethod_pc (c : Ctx) {item : ItemK} {any : AnyK} (hI : HypI d8 item) (hA : HypA d8 any) (s : St)
    (n : Node) (nx : Option Node) (v : Item) (l : List Item) (unwrap : Bool) (conv : Item → Conv)
    (hn : Cls d8 n) (hnx : ClsO d8 nx) :
    PC d8 l (execConvMethod c item any s n nx v none unwrap conv)
      (execConvMethod c item any s n nx v (some l) unwrap conv) := by
  unfold execConvMethod
  split
  · split
    · exact unwrapTargetArray_pc hA _ _ _ _ hn
    · exact returnVerboseError_pc s l
  · split
    · exact executeNextItem_pc c hI _ _ _ _ hnx
    · exact returnVerboseError_pc s l
    · exact PC.lit _ _ _ (by simp)
    · exact returnError_pc s l _

theorem executeDateTimeMethod_pc (c : Ctx) {item : ItemK} (hI : HypI d8 item) (s : St) (op : UnOp)
    (arg nx : Option Node) (v : Item) (l : List Item) (hnx : ClsO d8 nx) :
    PC d8 l (executeDateTimeMethod c item s op arg nx v none) (executeDateTimeMethod c item s op arg nx v (some l)) := by
  unfold executeDateTimeMethod
  split
  · dsimp only
    split
    · exact returnError_pc s l _
    · split
      · exact returnError_pc s l _
      · exact shortcut_pc c hI s nx _ l hnx
  · exact returnVerboseError_pc s l

/-! ### the element loops

Three phases: *lock step* (nothing found yet: same state, the probe holds `nil`, the collecting run
holds `l` unchanged), *both failed* (same early return), and *hit*: the probe has returned "found";
the collecting run carries on by itself, and all that is needed about the rest of its loop is that
the list only grows (`Good.shape`) and that no sticky flag is cleared (`LeI`). -/

theorem returnVerboseError_found (s : St) (f : Found) : (returnVerboseError s f).found = f := by
  unfold returnVerboseError; split <;> rfl

theorem returnError_found (s : St) (f : Found) (e : Err) : (returnError s f e).found = f := by
  unfold returnError; split <;> rfl

theorem returnVerboseError_d8 (s : St) (f : Found) : D8Fail (returnVerboseError s f) := by
  unfold returnVerboseError D8Fail
  split <;> simp_all

/-- two related loops -/
theorem foldl_rel {α β : Type} (R : β → β → Prop) (step : β → α → β) (xs : List α) (b b' : β)
    (h0 : R b b') (hstep : ∀ b b' x, R b b' → R (step b x) (step b' x)) :
    R (xs.foldl step b) (xs.foldl step b') := by
  induction xs generalizing b b' with
  | nil => exact h0
  | cons x xs ih => exact ih _ _ (hstep _ _ _ h0)

/-! #### `execUnaryMathExpr` -/

def UHit (d8 : Bool) (l : List Item) (a : UAcc) : Prop :=
  (a.ret = none → Appended l a.found) ∧ (∀ r, a.ret = some r → HitRes d8 l r)

def ULe (s : St) (a : UAcc) : Prop := (s.oof = true → a.flagO = true) ∧ (s.panicked = true → a.flagP = true)

/-- the collecting run after the hit -/
theorem unaryStep_hit (c : Ctx) {item : ItemK} (hI : GoodI item) (cb : Num.UCallback) (nx : Option Node)
    (l : List Item) (a : UAcc) (v : Item) (h : UHit d8 l a) : UHit d8 l (unaryStep c item cb nx a v) := by
  unfold unaryStep
  split
  · exact h
  · rename_i hnone
    have hf := h.1 hnone
    have key : ∀ val, Appended l (executeNextItem c item a.st nx val a.found).found :=
      fun val => hf.shape (executeNextItem_good c hI _ _ _ _).shape
    have early : UHit d8 l { a with ret := some ⟨a.st, a.found, .ok, none⟩ } :=
      ⟨fun h' => by simp at h', fun r hr => by simp at hr; subst hr; exact Or.inl hf⟩
    have bad : UHit d8 l { a with ret := some (returnVerboseError a.st a.found) } :=
      ⟨fun h' => by simp at h', fun r hr => by
        simp at hr; subst hr; exact Or.inl (by rw [returnVerboseError_found]; exact hf)⟩
    have go : ∀ val : Item, UHit d8 l
        (let r := executeNextItem c item a.st nx val a.found
         if r.status = .failed then { a with st := r.st, found := r.found, ret := some r }
         else if r.status = .ok then
           (if a.found.isNone then { a with st := r.st, found := r.found, ret := some ⟨r.st, r.found, .ok, none⟩ }
            else { a with st := r.st, found := r.found, res := .ok })
         else { a with st := r.st, found := r.found }) := by
      intro val
      have hk := key val
      dsimp only
      split
      · exact ⟨fun h' => by simp at h', fun r hr => by simp at hr; subst hr; exact Or.inl hk⟩
      · split
        · split
          · exact ⟨fun h' => by simp at h', fun r hr => by simp at hr; subst hr; exact Or.inl hk⟩
          · exact ⟨fun _ => hk, fun r hr => by simp [hnone] at hr⟩
        · exact ⟨fun _ => hk, fun r hr => by simp [hnone] at hr⟩
    try dsimp only
    split
    · split
      · exact early
      · exact go _
    · split
      · exact early
      · exact go _
    · split
      · exact early
      · split
        · exact go _
        · exact bad
    · split
      · exact go _
      · exact bad

theorem unaryStep_le (c : Ctx) {item : ItemK} (hM : LeI item) (cb : Num.UCallback) (nx : Option Node)
    (s : St) (a : UAcc) (v : Item) (h : ULe s a) : ULe s (unaryStep c item cb nx a v) :=
  ⟨fun h' => MonoOof.unaryStep_mono c hM.oof cb nx a v (h.1 h'),
   fun h' => MonoPan.unaryStep_mono c hM.pan cb nx a v (h.2 h')⟩

inductive URel (d8 : Bool) (l : List Item) : UAcc → UAcc → Prop
  | lock (st : St) (res : Status) : res ≠ .ok → URel d8 l ⟨st, none, res, none⟩ ⟨st, some l, res, none⟩
  | ret {ap ac : UAcc} (rp : Res) : ap.ret = some rp → rp.found = none →
      (rp.status ≠ .ok → ac.ret = some ⟨rp.st, some l, rp.status, rp.err⟩) →
      (rp.status = .ok → UHit d8 l ac ∧ ULe rp.st ac) → URel d8 l ap ac

/-- the `go` closure of `unaryStep` -/
def ugo (res : Status) (f : Found) (r : Res) : UAcc :=
  if r.status = .failed then ⟨r.st, r.found, res, some r⟩
  else if r.status = .ok then
    (if f.isNone then ⟨r.st, r.found, res, some ⟨r.st, r.found, .ok, none⟩⟩ else ⟨r.st, r.found, .ok, none⟩)
  else ⟨r.st, r.found, res, none⟩

theorem ugo_lock (l : List Item) (res : Status) (hres : res ≠ .ok) {rp rc : Res} (h : PC d8 l rp rc) :
    URel d8 l (ugo res none rp) (ugo res (some l) rc) := by
  refine PC.cases h ?_ ?_
  · intro s st e hst
    cases st with
    | ok => exact absurd rfl hst
    | notFound => simpa [ugo] using URel.lock s res hres
    | failed =>
      refine URel.ret ⟨s, none, .failed, e⟩ (by simp [ugo]) rfl (fun _ => by simp [ugo]) (fun h' => by simp at h')
  · intro s e rc hh hle
    refine URel.ret ⟨s, none, .ok, none⟩ (by simp [ugo]) rfl (fun h' => by simp at h') (fun _ => ?_)
    unfold ugo
    by_cases hf : rc.status = .failed
    · simp only [hf, if_true]
      exact ⟨⟨fun h' => by simp at h', fun r hr => by simp at hr; subst hr; exact hh⟩,
        ⟨fun h' => by simpa [UAcc.flagO] using hle.1 h', fun h' => by simpa [UAcc.flagP] using hle.2 h'⟩⟩
    · have ha := hh.appended hf
      simp only [hf, if_false, Option.isNone_some]
      split
      · exact ⟨⟨fun _ => ha, fun r hr => by simp at hr⟩,
          ⟨fun h' => by simpa [UAcc.flagO] using hle.1 h', fun h' => by simpa [UAcc.flagP] using hle.2 h'⟩⟩
      · exact ⟨⟨fun _ => ha, fun r hr => by simp at hr⟩,
          ⟨fun h' => by simpa [UAcc.flagO] using hle.1 h', fun h' => by simpa [UAcc.flagP] using hle.2 h'⟩⟩

/-- lock step: one element -/
theorem unaryStep_lock (c : Ctx) {item : ItemK} (hI : HypI d8 item) (cb : Num.UCallback) (nx : Option Node)
    (l : List Item) (st : St) (res : Status) (hres : res ≠ .ok) (v : Item)
    (hnx : ClsO d8 nx) (hd : d8 = true ∨ nx.isSome = true) :
    URel d8 l (unaryStep c item cb nx ⟨st, none, res, none⟩ v) (unaryStep c item cb nx ⟨st, some l, res, none⟩ v) := by
  have go : ∀ val, URel d8 l (ugo res none (executeNextItem c item st nx val none))
      (ugo res (some l) (executeNextItem c item st nx val (some l))) :=
    fun val => ugo_lock l res hres (executeNextItem_pc c hI st nx val l hnx)
  have bad : URel d8 l ⟨st, none, res, some (returnVerboseError st none)⟩
      ⟨st, some l, res, some (returnVerboseError st (some l))⟩ := by
    have := returnVerboseError_pc (d8 := d8) st l
    refine URel.ret _ rfl this.pfound (fun h' => ?_) (fun h' => ?_)
    · simp only; rw [this.same h']
    · exfalso; revert h'; unfold returnVerboseError; split <;> simp
  cases nx with
  | some n =>
    unfold unaryStep
    cases v <;> simp only [Option.isNone_some, Option.isNone_none, Bool.and_false, if_false,
      Bool.false_eq_true]
    case jnum t =>
      cases hc : Num.castJSONNumber t cb with
      | some val => exact go val
      | none => exact bad
    all_goals first | exact go _ | exact bad
  | none =>
    have hd8 : d8 = true := by simpa using hd
    -- the probe answers "found" on every element; the collecting run appends or fails (D8)
    have hitAcc : ∀ ac : UAcc, UHit d8 l ac → ULe st ac →
        URel d8 l ⟨st, none, res, some ⟨st, none, .ok, none⟩⟩ ac :=
      fun ac h1 h2 => URel.ret ⟨st, none, .ok, none⟩ rfl rfl (fun h' => by simp at h') (fun _ => ⟨h1, h2⟩)
    have appended : ∀ val : Item, UHit d8 l ⟨st, some (l ++ [val]), .ok, none⟩ ∧ ULe st ⟨st, some (l ++ [val]), .ok, none⟩ :=
      fun val => ⟨⟨fun _ => ⟨val, [], rfl⟩, fun r hr => by simp at hr⟩,
        ⟨fun h' => by simpa [UAcc.flagO] using h', fun h' => by simpa [UAcc.flagP] using h'⟩⟩
    have d8acc : UHit d8 l ⟨st, some l, res, some (returnVerboseError st (some l))⟩ ∧
        ULe st ⟨st, some l, res, some (returnVerboseError st (some l))⟩ :=
      ⟨⟨fun h' => by simp at h', fun r hr => by
          simp at hr; subst hr; exact Or.inr ⟨hd8, returnVerboseError_d8 _ _⟩⟩,
        ⟨fun h' => by simpa [UAcc.flagO, MonoOof.returnVerboseError_st] using h',
         fun h' => by simpa [UAcc.flagP, MonoPan.returnVerboseError_st] using h'⟩⟩
    unfold unaryStep
    cases v <;> simp only [Option.isNone_some, Option.isNone_none, Bool.false_and, if_false,
      Bool.false_eq_true, Bool.and_self, if_true, executeNextItem, Found.append, Option.map_some, Option.map_none,
      reduceCtorEq]
    case jnum t =>
      cases hc : Num.castJSONNumber t cb with
      | some val => exact hitAcc _ (appended val).1 (appended val).2
      | none => exact hitAcc _ d8acc.1 d8acc.2
    all_goals first
      | exact hitAcc _ (appended _).1 (appended _).2
      | exact hitAcc _ d8acc.1 d8acc.2

theorem unaryStep_ret (c : Ctx) (item : ItemK) (cb : Num.UCallback) (nx : Option Node) (a : UAcc) (v : Item)
    (r : Res) (h : a.ret = some r) : unaryStep c item cb nx a v = a := by
  unfold unaryStep; simp [h]

theorem unaryStep_rel (c : Ctx) {item : ItemK} (hI : HypI d8 item) (cb : Num.UCallback) (nx : Option Node)
    (l : List Item) (hnx : ClsO d8 nx) (hd : d8 = true ∨ nx.isSome = true) (ap ac : UAcc) (v : Item)
    (h : URel d8 l ap ac) : URel d8 l (unaryStep c item cb nx ap v) (unaryStep c item cb nx ac v) := by
  cases h with
  | lock st res hres => exact unaryStep_lock c hI cb nx l st res hres v hnx hd
  | ret rp h1 h2 h3 h4 =>
    rw [unaryStep_ret c item cb nx ap v rp h1]
    refine URel.ret rp h1 h2 (fun hst => ?_) (fun hst => ?_)
    · rw [unaryStep_ret c item cb nx ac v _ (h3 hst)]; exact h3 hst
    · exact ⟨unaryStep_hit c hI.good cb nx l ac v (h4 hst).1, unaryStep_le c hI.le cb nx _ ac v (h4 hst).2⟩

theorem execUnaryMathExpr_pc (c : Ctx) {item : ItemK} (hI : HypI d8 item) (s : St) (operand nx : Option Node)
    (v : Item) (cb : Num.UCallback) (l : List Item) (hnx : ClsO d8 nx) (hd : d8 = true ∨ nx.isSome = true) :
    PC d8 l (execUnaryMathExpr c item s operand nx v cb none) (execUnaryMathExpr c item s operand nx v cb (some l)) := by
  unfold execUnaryMathExpr
  split
  · exact PC.lit _ _ _ (by simp)
  · rename_i x
    dsimp only
    split
    · exact PC.lit _ _ _ (by simp)
    · have hrel := foldl_rel (URel d8 l) (unaryStep c item cb nx)
        ((optUnwrapResult c item s x v true []).found.getD [])
        ⟨(optUnwrapResult c item s x v true []).st, none, .notFound, none⟩
        ⟨(optUnwrapResult c item s x v true []).st, some l, .notFound, none⟩ (URel.lock _ _ (by simp))
        (fun a a' v h => unaryStep_rel c hI cb nx l hnx hd a a' v h)
      generalize List.foldl (unaryStep c item cb nx)
        ⟨(optUnwrapResult c item s x v true []).st, none, .notFound, none⟩ _ = ap at hrel
      generalize List.foldl (unaryStep c item cb nx)
        ⟨(optUnwrapResult c item s x v true []).st, some l, .notFound, none⟩ _ = ac at hrel
      cases hrel with
      | lock st res hres => exact PC.lit _ _ _ hres
      | ret rp h1 h2 h3 h4 =>
        simp only [h1]
        by_cases hst : rp.status = .ok
        · obtain ⟨hh, hle⟩ := h4 hst
          refine PC.ofHit h2 hst ?_ ?_
          · cases hr : ac.ret with
            | some r => exact hh.2 r hr
            | none => exact Or.inl (hh.1 hr)
          · cases hr : ac.ret with
            | some r =>
              exact ⟨fun h' => by simpa [UAcc.flagO, hr] using hle.1 h', fun h' => by simpa [UAcc.flagP, hr] using hle.2 h'⟩
            | none =>
              exact ⟨fun h' => by simpa [UAcc.flagO, hr] using hle.1 h', fun h' => by simpa [UAcc.flagP, hr] using hle.2 h'⟩
        · simp only [h3 hst]
          exact ⟨h2, fun _ => rfl, fun h' => absurd h' hst⟩

/-! #### `executeKeyValueMethod` -/

def KVHit (d8 : Bool) (l : List Item) (a : KVAcc) : Prop :=
  (a.ret = none → Appended l a.found) ∧ (∀ r, a.ret = some r → HitRes d8 l r)

def KVLe (s : St) (a : KVAcc) : Prop := (s.oof = true → a.flagO = true) ∧ (s.panicked = true → a.flagP = true)

theorem kvStep_hit (c : Ctx) {item : ItemK} (hI : GoodI item) (nx : Option Node) (id : Int)
    (l : List Item) (a : KVAcc) (kv : List Char × Item) (h : KVHit d8 l a) : KVHit d8 l (kvStep c item nx id a kv) := by
  unfold kvStep
  split
  · exact h
  · rename_i hcond
    have hnone : a.ret = none := by cases hr : a.ret <;> simp_all
    have hk : Appended l (executeNextItem c item (kvEnter c a.st (kvObj id kv)) nx (kvObj id kv) a.found).found :=
      (h.1 hnone).shape (executeNextItem_good c hI _ _ _ _).shape
    dsimp only
    split
    · exact ⟨fun h' => by simp at h', fun r hr => by simp at hr; subst hr; exact Or.inl hk⟩
    · split
      · exact ⟨fun _ => hk, fun r hr => by simp at hr⟩
      · exact ⟨fun _ => hk, fun r hr => by simp [hnone] at hr⟩

theorem kvStep_le (c : Ctx) {item : ItemK} (hM : LeI item) (nx : Option Node) (id : Int)
    (s : St) (a : KVAcc) (kv : List Char × Item) (h : KVLe s a) : KVLe s (kvStep c item nx id a kv) :=
  ⟨fun h' => MonoOof.kvStep_mono c hM.oof nx id a kv (h.1 h'),
   fun h' => MonoPan.kvStep_mono c hM.pan nx id a kv (h.2 h')⟩

inductive KVRel (d8 : Bool) (l : List Item) : KVAcc → KVAcc → Prop
  | lock (st : St) (res : Status) : res ≠ .ok → KVRel d8 l ⟨st, none, res, none, false⟩ ⟨st, some l, res, none, false⟩
  | fail {ap ac : KVAcc} (rp : Res) : ap.ret = some rp → rp.found = none → rp.status ≠ .ok →
      ac.ret = some ⟨rp.st, some l, rp.status, rp.err⟩ → KVRel d8 l ap ac
  | hit {ap ac : KVAcc} : ap.ret = none → ap.stop = true → ap.res = .ok → ap.found = none →
      KVHit d8 l ac → KVLe ap.st ac → KVRel d8 l ap ac

/-- the body of `kvStep` after the call -/
def kvgo (f : Found) (r : Res) : KVAcc :=
  if r.status = .failed then ⟨r.st, r.found, r.status, some r, false⟩
  else if r.status = .ok && f.isNone then ⟨r.st, r.found, r.status, none, true⟩
  else ⟨r.st, r.found, r.status, none, false⟩

theorem kvgo_lock (l : List Item) {rp rc : Res} (h : PC d8 l rp rc) :
    KVRel d8 l (kvgo none rp) (kvgo (some l) rc) := by
  refine PC.cases h ?_ ?_
  · intro s st e hst
    cases st with
    | ok => exact absurd rfl hst
    | notFound => simpa [kvgo] using KVRel.lock s .notFound (by simp)
    | failed => exact KVRel.fail ⟨s, none, .failed, e⟩ (by simp [kvgo]) rfl (by simp) (by simp [kvgo])
  · intro s e rc hh hle
    have hp : kvgo none ⟨s, none, .ok, e⟩ = ⟨s, none, .ok, none, true⟩ := by simp [kvgo]
    rw [hp]
    unfold kvgo
    by_cases hf : rc.status = .failed
    · simp only [hf, if_true]
      exact KVRel.hit rfl rfl rfl rfl ⟨fun h' => by simp at h', fun r hr => by simp at hr; subst hr; exact hh⟩
        ⟨fun h' => by simpa [KVAcc.flagO] using hle.1 h', fun h' => by simpa [KVAcc.flagP] using hle.2 h'⟩
    · have ha := hh.appended hf
      simp only [hf, if_false, Option.isNone_some, Bool.and_false, Bool.false_eq_true]
      exact KVRel.hit rfl rfl rfl rfl ⟨fun _ => ha, fun r hr => by simp at hr⟩
        ⟨fun h' => by simpa [KVAcc.flagO] using hle.1 h', fun h' => by simpa [KVAcc.flagP] using hle.2 h'⟩

theorem kvStep_lock (c : Ctx) {item : ItemK} (hI : HypI d8 item) (nx : Option Node) (id : Int)
    (l : List Item) (st : St) (res : Status) (kv : List Char × Item) (hnx : ClsO d8 nx) :
    KVRel d8 l (kvStep c item nx id ⟨st, none, res, none, false⟩ kv)
      (kvStep c item nx id ⟨st, some l, res, none, false⟩ kv) := by
  have := kvgo_lock l (executeNextItem_pc c hI (kvEnter c st (kvObj id kv)) nx (kvObj id kv) l hnx)
  unfold kvStep
  simpa [kvgo] using this

theorem kvStep_skip (c : Ctx) (item : ItemK) (nx : Option Node) (id : Int) (a : KVAcc) (kv : List Char × Item)
    (h : a.ret.isSome = true ∨ a.stop = true) : kvStep c item nx id a kv = a := by
  unfold kvStep
  rcases h with h | h <;> simp [h]

theorem kvStep_rel (c : Ctx) {item : ItemK} (hI : HypI d8 item) (nx : Option Node) (id : Int)
    (l : List Item) (hnx : ClsO d8 nx) (ap ac : KVAcc) (kv : List Char × Item)
    (h : KVRel d8 l ap ac) : KVRel d8 l (kvStep c item nx id ap kv) (kvStep c item nx id ac kv) := by
  cases h with
  | lock st res hres => exact kvStep_lock c hI nx id l st res kv hnx
  | fail rp h1 h2 h3 h4 =>
    rw [kvStep_skip c item nx id ap kv (Or.inl (by simp [h1])), kvStep_skip c item nx id ac kv (Or.inl (by simp [h4]))]
    exact KVRel.fail rp h1 h2 h3 h4
  | hit h1 h2 h3 h4 h5 h6 =>
    rw [kvStep_skip c item nx id ap kv (Or.inr h2)]
    exact KVRel.hit h1 h2 h3 h4 (kvStep_hit c hI.good nx id l ac kv h5) (kvStep_le c hI.le nx id _ ac kv h6)

/-- the result of `executeKeyValueMethod` after its loop -/
def kvFinal (s : St) (a : KVAcc) : Res :=
  match a.ret with
  | some r => { r with st := restoreBase s r.st }
  | none => ⟨restoreBase s a.st, a.found, a.res, none⟩

theorem KVRel.final {l : List Item} {ap ac : KVAcc} (s : St) (h : KVRel d8 l ap ac) :
    PC d8 l (kvFinal s ap) (kvFinal s ac) := by
  cases h with
  | lock st res hres => exact PC.lit _ _ _ hres
  | fail rp h1 h2 h3 h4 =>
    simp only [kvFinal, h1, h4]
    exact ⟨h2, fun _ => rfl, fun h' => absurd h' h3⟩
  | hit h1 h2 h3 h4 h5 h6 =>
    have hp : kvFinal s ap = ⟨restoreBase s ap.st, none, .ok, none⟩ := by simp [kvFinal, h1, h3, h4]
    rw [hp]
    refine PC.ofHit rfl rfl ?_ ?_
    · unfold kvFinal
      cases hr : ac.ret with
      | some r => exact (h5.2 r hr).mapSt (restoreBase s) (fun _ => rfl)
      | none => exact Or.inl (h5.1 hr)
    · unfold kvFinal
      cases hr : ac.ret with
      | some r =>
        exact ⟨fun h' => by simpa [KVAcc.flagO, hr, restoreBase] using h6.1 h',
               fun h' => by simpa [KVAcc.flagP, hr, restoreBase] using h6.2 h'⟩
      | none =>
        exact ⟨fun h' => by simpa [KVAcc.flagO, hr, restoreBase] using h6.1 h',
               fun h' => by simpa [KVAcc.flagP, hr, restoreBase] using h6.2 h'⟩

/-- the collecting run of a non-empty member loop whose elements are the last step of the path -/
theorem kv_collect_last (c : Ctx) {item : ItemK} (hI : HypI d8 item) (id : Int) (l : List Item) (s : St)
    (kv : List Char × Item) (rest : List (List Char × Item)) :
    KVHit d8 l ((kv :: rest).foldl (kvStep c item none id) ⟨s, some l, .ok, none, false⟩) ∧
    KVLe s ((kv :: rest).foldl (kvStep c item none id) ⟨s, some l, .ok, none, false⟩) := by
  simp only [List.foldl_cons]
  have h1 : kvStep c item none id ⟨s, some l, .ok, none, false⟩ kv =
      ⟨kvEnter c s (kvObj id kv), some (l ++ [kvObj id kv]), .ok, none, false⟩ := by
    simp [kvStep, executeNextItem, Found.append]
  have h0 : KVLe s ⟨s, some l, .ok, none, false⟩ :=
    ⟨fun h' => by simpa [KVAcc.flagO] using h', fun h' => by simpa [KVAcc.flagP] using h'⟩
  refine ⟨?_, ?_⟩
  · rw [h1]
    refine foldl_inv (KVHit d8 l) _ _ _ ⟨fun _ => ⟨_, [], rfl⟩, fun r hr => by simp at hr⟩
      (fun a kv' h => kvStep_hit c hI.good none id l a kv' h)
  · exact foldl_inv (KVLe s) _ _ _ (kvStep_le c hI.le none id s _ kv h0)
      (fun a kv' h => kvStep_le c hI.le none id s a kv' h)

theorem executeKeyValueMethod_pc (c : Ctx) {item : ItemK} {any : AnyK} (hI : HypI d8 item) (hA : HypA d8 any)
    (s : St) (n : Node) (nx : Option Node) (v : Item) (l : List Item) (unwrap : Bool)
    (hn : Cls d8 n) (hnx : ClsO d8 nx) :
    PC d8 l (executeKeyValueMethod c item any s n nx v none unwrap)
      (executeKeyValueMethod c item any s n nx v (some l) unwrap) := by
  unfold executeKeyValueMethod
  split
  · split
    · exact unwrapTargetArray_pc hA _ _ _ _ hn
    · exact returnVerboseError_pc s l
  · rename_i kvs
    split
    · exact PC.lit _ _ _ (by simp)
    · rename_i hne
      dsimp only
      generalize hid : (_ : Int) + s.baseId * 10000000000 = id
      cases kvs with
      | nil => simp at hne
      | cons kv rest =>
        cases nx with
        | none =>
          simp only [Option.isNone_none, Bool.and_self, if_true, Option.isNone_some, Bool.and_false,
            Bool.false_eq_true, if_false]
          obtain ⟨h1, h2⟩ := kv_collect_last c hI id l s kv rest
          have := KVRel.final (d8 := d8) (l := l) s (ap := ⟨s, none, .ok, none, true⟩)
            (ac := (kv :: rest).foldl (kvStep c item none id) ⟨s, some l, .ok, none, false⟩)
            (KVRel.hit rfl rfl rfl rfl h1 h2)
          exact this
        | some nn =>
          simp only [Option.isNone_some, Bool.false_and, Bool.false_eq_true, if_false]
          have hrel : KVRel d8 l ((kv :: rest).foldl (kvStep c item (some nn) id) ⟨s, none, .ok, none, false⟩)
              ((kv :: rest).foldl (kvStep c item (some nn) id) ⟨s, some l, .ok, none, false⟩) := by
            simp only [List.foldl_cons]
            exact foldl_rel (KVRel d8 l) _ rest _ _ (kvStep_lock c hI (some nn) id l s .ok kv hnx)
              (fun a a' kv' h => kvStep_rel c hI (some nn) id l hnx a a' kv' h)
          exact KVRel.final s hrel
  · exact returnVerboseError_pc s l

/-! #### `executeAnyItem` -/

def AHit (d8 : Bool) (l : List Item) (a : AAcc) : Prop :=
  (a.ret = none → Appended l a.found) ∧ (∀ r, a.ret = some r → HitRes d8 l r)

def ALe (s : St) (a : AAcc) : Prop := (s.oof = true → a.flagO = true) ∧ (s.panicked = true → a.flagP = true)

/-- what both halves of an iteration do with the result of their call -/
def ago (f : Found) (r : Res) : AAcc :=
  if r.status = .failed || (r.status = .ok && f.isNone) then ⟨r.st, r.found, r.status, r.err, some r⟩
  else ⟨r.st, r.found, r.status, r.err, none⟩

theorem ago_hit {l : List Item} {f : Found} {r : Res} (hk : Appended l r.found) : AHit d8 l (ago f r) := by
  unfold ago
  split
  · exact ⟨fun h' => by simp at h', fun r' hr => by simp at hr; subst hr; exact Or.inl hk⟩
  · exact ⟨fun _ => hk, fun r' hr => by simp at hr⟩

theorem anyVisit_hit {item : ItemK} (hI : GoodI item) (node : Option Node) (level first last : Nat)
    (ignore unwrapNext : Bool) (l : List Item) (a : AAcc) (v : Item) (h : AHit d8 l a) (hnone : a.ret = none) :
    AHit d8 l (anyVisit item node level first last ignore unwrapNext a v) := by
  unfold anyVisit
  have hf := h.1 hnone
  split
  · split
    · rename_i n
      exact ago_hit (hf.shape (hI _ n v a.found unwrapNext).shape)
    · split
      · rename_i l' hl'
        refine ⟨fun _ => ?_, fun r hr => by simp [hnone] at hr⟩
        exact hf.shape (by rw [hl']; exact ⟨by simp, fun l'' hl'' => ⟨[v], by simp at hl''; subst hl''; rfl⟩⟩)
      · rename_i hfn
        rw [hfn] at hf
        obtain ⟨x, xs, hx⟩ := hf
        simp at hx
  · exact h

theorem anyDescend_hit {any : AnyK} (hA : GoodA any) (node : Option Node) (level first last : Nat)
    (ignore unwrapNext : Bool) (l : List Item) (a : AAcc) (v : Item) (h : AHit d8 l a) (hnone : a.ret = none) :
    AHit d8 l (anyDescend any node level first last ignore unwrapNext a v) := by
  unfold anyDescend
  have hf := h.1 hnone
  split
  · exact ago_hit (hf.shape (hA a.st node _ a.found _ _ _ _ _).shape)
  · exact h

theorem anyStep_hit {item : ItemK} {any : AnyK} (hI : GoodI item) (hA : GoodA any) (node : Option Node)
    (level first last : Nat) (ignore unwrapNext : Bool) (l : List Item) (a : AAcc) (v : Item) (h : AHit d8 l a) :
    AHit d8 l (anyStep item any node level first last ignore unwrapNext a v) := by
  unfold anyStep
  split
  · exact h
  · rename_i hnone
    have h1 := anyVisit_hit hI node level first last ignore unwrapNext l a v h hnone
    dsimp only
    split
    · exact h1
    · rename_i hnone1
      exact anyDescend_hit hA node level first last ignore unwrapNext l _ v h1 hnone1

theorem anyStep_le {item : ItemK} {any : AnyK} (hM : LeI item) (hMA : LeA any) (node : Option Node)
    (level first last : Nat) (ignore unwrapNext : Bool) (s : St) (a : AAcc) (v : Item) (h : ALe s a) :
    ALe s (anyStep item any node level first last ignore unwrapNext a v) :=
  ⟨fun h' => MonoOof.anyStep_mono hM.oof hMA.oof node level first last ignore unwrapNext a v (h.1 h'),
   fun h' => MonoPan.anyStep_mono hM.pan hMA.pan node level first last ignore unwrapNext a v (h.2 h')⟩

theorem anyDescend_le {any : AnyK} (hMA : LeA any) (node : Option Node)
    (level first last : Nat) (ignore unwrapNext : Bool) (s : St) (a : AAcc) (v : Item) (hnone : a.ret = none)
    (h : ALe s a) : ALe s (anyDescend any node level first last ignore unwrapNext a v) :=
  ⟨fun h' => MonoOof.anyDescend_mono hMA.oof node level first last ignore unwrapNext a v hnone (h.1 h'),
   fun h' => MonoPan.anyDescend_mono hMA.pan node level first last ignore unwrapNext a v hnone (h.2 h')⟩

inductive ARel (d8 : Bool) (l : List Item) : AAcc → AAcc → Prop
  | lock (st : St) (res : Status) (err : Option Err) : res ≠ .ok →
      ARel d8 l ⟨st, none, res, err, none⟩ ⟨st, some l, res, err, none⟩
  | ret {ap ac : AAcc} (rp : Res) : ap.ret = some rp → rp.found = none →
      (rp.status ≠ .ok → ac.ret = some ⟨rp.st, some l, rp.status, rp.err⟩) →
      (rp.status = .ok → AHit d8 l ac ∧ ALe rp.st ac) → ARel d8 l ap ac

theorem ago_lock (l : List Item) {rp rc : Res} (h : PC d8 l rp rc) : ARel d8 l (ago none rp) (ago (some l) rc) := by
  refine PC.cases h ?_ ?_
  · intro s st e hst
    cases st with
    | ok => exact absurd rfl hst
    | notFound => simpa [ago] using ARel.lock s .notFound e (by simp)
    | failed =>
      exact ARel.ret ⟨s, none, .failed, e⟩ (by simp [ago]) rfl (fun _ => by simp [ago]) (fun h' => by simp at h')
  · intro s e rc hh hle
    refine ARel.ret ⟨s, none, .ok, e⟩ (by simp [ago]) rfl (fun h' => by simp at h') (fun _ => ?_)
    unfold ago
    by_cases hf : rc.status = .failed
    · simp only [hf, if_true, Bool.true_or, decide_true]
      exact ⟨⟨fun h' => by simp at h', fun r hr => by simp at hr; subst hr; exact hh⟩,
        ⟨fun h' => by simpa [AAcc.flagO] using hle.1 h', fun h' => by simpa [AAcc.flagP] using hle.2 h'⟩⟩
    · have ha := hh.appended hf
      simp only [hf, Option.isNone_some, Bool.and_false, Bool.or_false, decide_false, Bool.false_eq_true, if_false]
      exact ⟨⟨fun _ => ha, fun r hr => by simp at hr⟩,
        ⟨fun h' => by simpa [AAcc.flagO] using hle.1 h', fun h' => by simpa [AAcc.flagP] using hle.2 h'⟩⟩

theorem anyVisit_lock {item : ItemK} (hI : HypI d8 item) (node : Option Node) (level first last : Nat)
    (ignore unwrapNext : Bool) (l : List Item) (st : St) (res : Status) (err : Option Err) (hres : res ≠ .ok)
    (v : Item) (hnode : ClsO d8 node) :
    ARel d8 l (anyVisit item node level first last ignore unwrapNext ⟨st, none, res, err, none⟩ v)
      (anyVisit item node level first last ignore unwrapNext ⟨st, some l, res, err, none⟩ v) := by
  unfold anyVisit
  split
  · cases node with
    | some n =>
      exact ago_lock l (hI.sim _ n v l unwrapNext hnode.some)
    | none =>
      simp only
      refine ARel.ret ⟨st, none, .ok, none⟩ rfl rfl (fun h' => by simp at h') (fun _ => ?_)
      exact ⟨⟨fun _ => ⟨v, [], rfl⟩, fun r hr => by simp at hr⟩,
        ⟨fun h' => by simpa [AAcc.flagO] using h', fun h' => by simpa [AAcc.flagP] using h'⟩⟩
  · exact ARel.lock st res err hres

theorem anyDescend_lock {any : AnyK} (hA : HypA d8 any) (node : Option Node) (level first last : Nat)
    (ignore unwrapNext : Bool) (l : List Item) (st : St) (res : Status) (err : Option Err) (hres : res ≠ .ok)
    (v : Item) (hnode : ClsO d8 node) :
    ARel d8 l (anyDescend any node level first last ignore unwrapNext ⟨st, none, res, err, none⟩ v)
      (anyDescend any node level first last ignore unwrapNext ⟨st, some l, res, err, none⟩ v) := by
  unfold anyDescend
  split
  · exact ago_lock l (hA.sim st node _ l _ _ _ _ _ hnode)
  · exact ARel.lock st res err hres

theorem anyStep_ret (item : ItemK) (any : AnyK) (node : Option Node) (level first last : Nat)
    (ignore unwrapNext : Bool) (a : AAcc) (v : Item) (r : Res) (h : a.ret = some r) :
    anyStep item any node level first last ignore unwrapNext a v = a := by
  unfold anyStep; simp [h]

/-- the second half of an iteration, given related accumulators after the first half -/
def anyStep2 (any : AnyK) (node : Option Node) (level first last : Nat) (ignore unwrapNext : Bool)
    (a1 : AAcc) (v : Item) : AAcc :=
  match a1.ret with
  | some _ => a1
  | none => anyDescend any node level first last ignore unwrapNext a1 v

theorem anyStep_eq (item : ItemK) (any : AnyK) (node : Option Node) (level first last : Nat)
    (ignore unwrapNext : Bool) (a : AAcc) (v : Item) (h : a.ret = none) :
    anyStep item any node level first last ignore unwrapNext a v =
      anyStep2 any node level first last ignore unwrapNext
        (anyVisit item node level first last ignore unwrapNext a v) v := by
  unfold anyStep anyStep2
  simp only [h]
  rfl

theorem anyStep2_rel {any : AnyK} (hA : HypA d8 any) (node : Option Node) (level first last : Nat)
    (ignore unwrapNext : Bool) (l : List Item) (hnode : ClsO d8 node) (ap ac : AAcc) (v : Item)
    (h : ARel d8 l ap ac) :
    ARel d8 l (anyStep2 any node level first last ignore unwrapNext ap v)
      (anyStep2 any node level first last ignore unwrapNext ac v) := by
  cases h with
  | lock st res err hres =>
    simp only [anyStep2]
    exact anyDescend_lock hA node level first last ignore unwrapNext l st res err hres v hnode
  | ret rp h1 h2 h3 h4 =>
    have hp : anyStep2 any node level first last ignore unwrapNext ap v = ap := by simp [anyStep2, h1]
    rw [hp]
    refine ARel.ret rp h1 h2 (fun hst => ?_) (fun hst => ?_)
    · simp [anyStep2, h3 hst]
    · obtain ⟨hh, hle⟩ := h4 hst
      cases hr : ac.ret with
      | some r =>
        have hc : anyStep2 any node level first last ignore unwrapNext ac v = ac := by simp [anyStep2, hr]
        rw [hc]; exact ⟨hh, hle⟩
      | none =>
        have hc : anyStep2 any node level first last ignore unwrapNext ac v =
            anyDescend any node level first last ignore unwrapNext ac v := by simp [anyStep2, hr]
        rw [hc]
        exact ⟨anyDescend_hit hA.good node level first last ignore unwrapNext l ac v hh hr,
          anyDescend_le hA.le node level first last ignore unwrapNext _ ac v hr hle⟩

theorem anyStep_rel {item : ItemK} {any : AnyK} (hI : HypI d8 item) (hA : HypA d8 any) (node : Option Node)
    (level first last : Nat) (ignore unwrapNext : Bool) (l : List Item) (hnode : ClsO d8 node)
    (ap ac : AAcc) (v : Item) (h : ARel d8 l ap ac) :
    ARel d8 l (anyStep item any node level first last ignore unwrapNext ap v)
      (anyStep item any node level first last ignore unwrapNext ac v) := by
  cases h with
  | lock st res err hres =>
    rw [anyStep_eq _ _ _ _ _ _ _ _ _ _ rfl, anyStep_eq _ _ _ _ _ _ _ _ _ _ rfl]
    exact anyStep2_rel hA node level first last ignore unwrapNext l hnode _ _ v
      (anyVisit_lock hI node level first last ignore unwrapNext l st res err hres v hnode)
  | ret rp h1 h2 h3 h4 =>
    rw [anyStep_ret item any node level first last ignore unwrapNext ap v rp h1]
    refine ARel.ret rp h1 h2 (fun hst => ?_) (fun hst => ?_)
    · rw [anyStep_ret item any node level first last ignore unwrapNext ac v _ (h3 hst)]; exact h3 hst
    · exact ⟨anyStep_hit hI.good hA.good node level first last ignore unwrapNext l ac v (h4 hst).1,
        anyStep_le hI.le hA.le node level first last ignore unwrapNext _ ac v (h4 hst).2⟩

/-- the result of `executeAnyItem` after its loop; `size` is the length of the list at the start -/
def aFinal (s : St) (size : Nat) (a : AAcc) : Res :=
  match a.ret with
  | some r => { r with st := restoreIgn s r.st }
  | none =>
    let res :=
      if a.found.isSome && a.res ≠ .failed && a.err.isNone && (a.found.getD []).length > size then .ok
      else a.res
    ⟨restoreIgn s a.st, a.found, res, a.err⟩

theorem ARel.final {l : List Item} {ap ac : AAcc} (s : St) (h : ARel d8 l ap ac) :
    PC d8 l (aFinal s 0 ap) (aFinal s l.length ac) := by
  cases h with
  | lock st res err hres =>
    simp only [aFinal, Option.isSome_none, Bool.false_and, Bool.false_eq_true, if_false, Option.getD_some,
      Nat.lt_irrefl, decide_false, Bool.and_false]
    exact PC.lit _ _ _ hres
  | ret rp h1 h2 h3 h4 =>
    by_cases hst : rp.status = .ok
    · obtain ⟨hh, hle⟩ := h4 hst
      have hp : aFinal s 0 ap = { rp with st := restoreIgn s rp.st } := by simp [aFinal, h1]
      rw [hp]
      refine PC.ofHit h2 hst ?_ ?_
      · unfold aFinal
        cases hr : ac.ret with
        | some r => exact (hh.2 r hr).mapSt (restoreIgn s) (fun _ => rfl)
        | none => exact Or.inl (hh.1 hr)
      · unfold aFinal
        cases hr : ac.ret with
        | some r =>
          exact ⟨fun h' => by simpa [AAcc.flagO, hr, restoreIgn] using hle.1 h',
                 fun h' => by simpa [AAcc.flagP, hr, restoreIgn] using hle.2 h'⟩
        | none =>
          exact ⟨fun h' => by simpa [AAcc.flagO, hr, restoreIgn] using hle.1 h',
                 fun h' => by simpa [AAcc.flagP, hr, restoreIgn] using hle.2 h'⟩
    · simp only [aFinal, h1, h3 hst]
      exact ⟨h2, fun _ => rfl, fun h' => absurd h' hst⟩

theorem executeAnyItem_pc {item : ItemK} {any : AnyK} (hI : HypI d8 item) (hA : HypA d8 any) (s : St)
    (node : Option Node) (vs : List Item) (l : List Item) (level first last : Nat) (ignore unwrapNext : Bool)
    (hnode : ClsO d8 node) :
    PC d8 l (executeAnyItem item any s node vs none level first last ignore unwrapNext)
      (executeAnyItem item any s node vs (some l) level first last ignore unwrapNext) := by
  unfold executeAnyItem
  split
  · exact PC.lit _ _ _ (by simp)
  · have hrel := foldl_rel (ARel d8 l) (anyStep item any node level first last ignore unwrapNext) vs
      ⟨s, none, .notFound, none, none⟩ ⟨s, some l, .notFound, none, none⟩ (ARel.lock _ _ _ (by simp))
      (fun a a' v h => anyStep_rel hI hA node level first last ignore unwrapNext l hnode a a' v h)
    exact ARel.final s hrel

/-! #### `execAnyNode` -/

theorem anyInto_pc (c : Ctx) {any : AnyK} (hA : HypA d8 any) (s : St) (first last : Nat)
    (nx : Option Node) (v : Item) (l : List Item) (hnx : ClsO d8 nx) :
    PC d8 l (anyInto c any s first last nx v none) (anyInto c any s first last nx v (some l)) := by
  unfold anyInto
  split
  · exact hA.sim _ _ _ _ _ _ _ _ _ hnx
  · exact hA.sim _ _ _ _ _ _ _ _ _ hnx
  · exact PC.lit _ _ _ (by simp)

theorem anyInto_le (c : Ctx) {any : AnyK} (hMA : LeA any) (s : St) (first last : Nat)
    (nx : Option Node) (v : Item) (f : Found) : Le s (anyInto c any s first last nx v f).st :=
  ⟨MonoOof.anyInto_mono c hMA.oof s first last nx v f, MonoPan.anyInto_mono c hMA.pan s first last nx v f⟩

theorem execAnyNode_pc (c : Ctx) {item : ItemK} {any : AnyK} (hI : HypI d8 item) (hA : HypA d8 any) (s : St)
    (first last : Nat) (nx : Option Node) (v : Item) (l : List Item) (hnx : ClsO d8 nx) :
    PC d8 l (execAnyNode c item any s first last nx v none) (execAnyNode c item any s first last nx v (some l)) := by
  unfold execAnyNode
  split
  · have h := executeNextItem_pc c hI { s with ignoreSE := true } nx v l hnx
    dsimp only
    generalize executeNextItem c item { s with ignoreSE := true } nx v none = rp at h
    generalize executeNextItem c item { s with ignoreSE := true } nx v (some l) = rc at h
    refine PC.cases h ?_ ?_
    · intro s1 st e hst
      cases st with
      | ok => exact absurd rfl hst
      | failed => exact PC.lit _ _ _ (by simp)
      | notFound =>
        simp only [reduceCtorEq, Bool.false_or, Bool.false_and, Bool.false_eq_true, if_false, decide_false]
        exact PC.mapSt (restoreIgn s) (fun _ => rfl) (fun _ => rfl) (fun _ => rfl)
          (anyInto_pc c hA s1 first last nx v l hnx)
    · intro s1 e rc hh hle
      simp only [Option.isNone_none, Bool.and_self, Bool.or_true, decide_true, reduceCtorEq, if_true]
      refine PC.ofHit rfl rfl ?_ ?_
      · split
        · exact hh.mapSt (restoreIgn s) (fun _ => rfl)
        · rename_i hcond
          have hf : rc.status ≠ .failed := by intro hf; simp [hf] at hcond
          exact Or.inl ((hh.appended hf).shape (anyInto_good c hA.good _ _ _ _ _ _).shape)
      · split
        · exact hle
        · exact hle.trans (anyInto_le c hA.le _ _ _ _ _ _)
  · exact anyInto_pc c hA s first last nx v l hnx

/-! #### `execArrayIndex` -/

def IHit (d8 : Bool) (l : List Item) (a : IAcc) : Prop :=
  (a.ret = none → Appended l a.found) ∧ (∀ r, a.ret = some r → HitRes d8 l r)

def ILe (s : St) (a : IAcc) : Prop := (s.oof = true → a.flagO = true) ∧ (s.panicked = true → a.flagP = true)

def igo (f : Found) (r : Res) : IAcc :=
  if r.status = .failed || (r.status = .ok && f.isNone) then ⟨r.st, r.found, r.status, r.err, some r⟩
  else ⟨r.st, r.found, r.status, r.err, none⟩

theorem igo_hit {l : List Item} {f : Found} {r : Res} (hk : Appended l r.found) : IHit d8 l (igo f r) := by
  unfold igo
  split
  · exact ⟨fun h' => by simp at h', fun r' hr => by simp at hr; subst hr; exact Or.inl hk⟩
  · exact ⟨fun _ => hk, fun r' hr => by simp at hr⟩

theorem indexElemStep_hit (c : Ctx) {item : ItemK} (hI : GoodI item) (nx : Option Node) (l : List Item)
    (a : IAcc) (v : Item) (h : IHit d8 l a) : IHit d8 l (indexElemStep c item nx a v) := by
  unfold indexElemStep
  split
  · exact h
  · rename_i hsome
    have hnone : a.ret = none := by cases hr : a.ret <;> simp_all
    have hf := h.1 hnone
    split
    · exact h
    · split
      · exact ⟨fun h' => by simp at h', fun r hr => by
          simp at hr; subst hr
          obtain ⟨x, xs, hx⟩ := hf
          simp_all⟩
      · exact igo_hit (hf.shape (executeNextItem_good c hI _ _ _ _).shape)

theorem indexSubStep_hit (c : Ctx) {item : ItemK} (hI : GoodI item) (nx : Option Node) (xs : List Item)
    (v : Item) (l : List Item) (a : IAcc) (sub : Node) (h : IHit d8 l a) :
    IHit d8 l (indexSubStep c item nx xs v a sub) := by
  unfold indexSubStep
  split
  · exact h
  · rename_i hsome
    have hnone : a.ret = none := by cases hr : a.ret <;> simp_all
    have hf := h.1 hnone
    split
    · exact ⟨fun h' => by simp at h', fun r hr => by
        simp at hr; subst hr; exact Or.inl (by rw [returnError_found]; exact hf)⟩
    · refine foldl_inv (IHit d8 l) _ _ _ ?_ (fun a' v' h' => indexElemStep_hit c hI nx l a' v' h')
      exact ⟨fun _ => hf, fun r hr => by simp [hnone] at hr⟩

theorem indexElemStep_le (c : Ctx) {item : ItemK} (hM : LeI item) (nx : Option Node)
    (s : St) (a : IAcc) (v : Item) (h : ILe s a) : ILe s (indexElemStep c item nx a v) :=
  ⟨fun h' => MonoOof.indexElemStep_mono c hM.oof nx a v (h.1 h'),
   fun h' => MonoPan.indexElemStep_mono c hM.pan nx a v (h.2 h')⟩

theorem indexSubStep_le (c : Ctx) {item : ItemK} (hM : LeI item) (nx : Option Node) (xs : List Item) (v : Item)
    (s : St) (a : IAcc) (sub : Node) (h : ILe s a) : ILe s (indexSubStep c item nx xs v a sub) :=
  ⟨fun h' => MonoOof.indexSubStep_mono c hM.oof nx xs v a sub (h.1 h'),
   fun h' => MonoPan.indexSubStep_mono c hM.pan nx xs v a sub (h.2 h')⟩

inductive IRel (d8 : Bool) (l : List Item) : IAcc → IAcc → Prop
  | lock (st : St) (res : Status) (err : Option Err) : res ≠ .ok →
      IRel d8 l ⟨st, none, res, err, none⟩ ⟨st, some l, res, err, none⟩
  | ret {ap ac : IAcc} (rp : Res) : ap.ret = some rp → rp.found = none →
      (rp.status ≠ .ok → ac.ret = some ⟨rp.st, some l, rp.status, rp.err⟩) →
      (rp.status = .ok → IHit d8 l ac ∧ ILe rp.st ac) → IRel d8 l ap ac

theorem igo_lock (l : List Item) {rp rc : Res} (h : PC d8 l rp rc) : IRel d8 l (igo none rp) (igo (some l) rc) := by
  refine PC.cases h ?_ ?_
  · intro s st e hst
    cases st with
    | ok => exact absurd rfl hst
    | notFound => simpa [igo] using IRel.lock s .notFound e (by simp)
    | failed =>
      exact IRel.ret ⟨s, none, .failed, e⟩ (by simp [igo]) rfl (fun _ => by simp [igo]) (fun h' => by simp at h')
  · intro s e rc hh hle
    refine IRel.ret ⟨s, none, .ok, e⟩ (by simp [igo]) rfl (fun h' => by simp at h') (fun _ => ?_)
    unfold igo
    by_cases hf : rc.status = .failed
    · simp only [hf, if_true, Bool.true_or, decide_true]
      exact ⟨⟨fun h' => by simp at h', fun r hr => by simp at hr; subst hr; exact hh⟩,
        ⟨fun h' => by simpa [IAcc.flagO] using hle.1 h', fun h' => by simpa [IAcc.flagP] using hle.2 h'⟩⟩
    · have ha := hh.appended hf
      simp only [hf, Option.isNone_some, Bool.and_false, Bool.or_false, decide_false, Bool.false_eq_true, if_false]
      exact ⟨⟨fun _ => ha, fun r hr => by simp at hr⟩,
        ⟨fun h' => by simpa [IAcc.flagO] using hle.1 h', fun h' => by simpa [IAcc.flagP] using hle.2 h'⟩⟩

theorem indexElemStep_lock (c : Ctx) {item : ItemK} (hI : HypI d8 item) (nx : Option Node) (l : List Item)
    (st : St) (res : Status) (err : Option Err) (hres : res ≠ .ok) (v : Item) (hnx : ClsO d8 nx) :
    IRel d8 l (indexElemStep c item nx ⟨st, none, res, err, none⟩ v)
      (indexElemStep c item nx ⟨st, some l, res, err, none⟩ v) := by
  unfold indexElemStep
  simp only [Option.isSome_none, Bool.false_eq_true, if_false]
  split
  · exact IRel.lock st res err hres
  · cases nx with
    | some n =>
      simp only [Option.isNone_some, Bool.false_and, Bool.false_eq_true, if_false]
      exact igo_lock l (executeNextItem_pc c hI st (some n) v l hnx)
    | none =>
      simp only [Option.isNone_none, Bool.and_self, if_true, Option.isNone_some, Bool.and_false,
        Bool.false_eq_true, if_false, executeNextItem, Found.append, Option.map_some, reduceCtorEq,
        Bool.false_or, decide_false]
      refine IRel.ret ⟨st, none, .ok, none⟩ rfl rfl (fun h' => by simp at h') (fun _ => ?_)
      exact ⟨⟨fun _ => ⟨v, [], rfl⟩, fun r hr => by simp at hr⟩,
        ⟨fun h' => by simpa [IAcc.flagO] using h', fun h' => by simpa [IAcc.flagP] using h'⟩⟩

theorem indexElemStep_skip (c : Ctx) (item : ItemK) (nx : Option Node) (a : IAcc) (v : Item) (r : Res)
    (h : a.ret = some r) : indexElemStep c item nx a v = a := by
  unfold indexElemStep; simp [h]

theorem indexSubStep_skip (c : Ctx) (item : ItemK) (nx : Option Node) (xs : List Item) (v : Item) (a : IAcc)
    (sub : Node) (r : Res) (h : a.ret = some r) : indexSubStep c item nx xs v a sub = a := by
  unfold indexSubStep; simp [h]

theorem indexElemStep_rel (c : Ctx) {item : ItemK} (hI : HypI d8 item) (nx : Option Node) (l : List Item)
    (hnx : ClsO d8 nx) (ap ac : IAcc) (v : Item) (h : IRel d8 l ap ac) :
    IRel d8 l (indexElemStep c item nx ap v) (indexElemStep c item nx ac v) := by
  cases h with
  | lock st res err hres => exact indexElemStep_lock c hI nx l st res err hres v hnx
  | ret rp h1 h2 h3 h4 =>
    rw [indexElemStep_skip c item nx ap v rp h1]
    refine IRel.ret rp h1 h2 (fun hst => ?_) (fun hst => ?_)
    · rw [indexElemStep_skip c item nx ac v _ (h3 hst)]; exact h3 hst
    · exact ⟨indexElemStep_hit c hI.good nx l ac v (h4 hst).1, indexElemStep_le c hI.le nx _ ac v (h4 hst).2⟩

theorem indexSubStep_rel (c : Ctx) {item : ItemK} (hI : HypI d8 item) (nx : Option Node) (xs : List Item)
    (v : Item) (l : List Item) (hnx : ClsO d8 nx) (ap ac : IAcc) (sub : Node) (h : IRel d8 l ap ac) :
    IRel d8 l (indexSubStep c item nx xs v ap sub) (indexSubStep c item nx xs v ac sub) := by
  cases h with
  | lock st res err hres =>
    unfold indexSubStep
    simp only [Option.isSome_none, Bool.false_eq_true, if_false]
    generalize execSubscript c item st sub v xs.length = p
    obtain ⟨s1, e⟩ := p
    cases e with
    | error e =>
      simp only
      have hpc := returnError_pc (d8 := d8) s1 l e
      refine IRel.ret (returnError s1 none e) rfl hpc.pfound (fun hst => ?_) (fun hst => ?_)
      · simp only; rw [hpc.same hst]
      · exfalso; revert hst; unfold returnError; split <;> simp
    | ok ft =>
      obtain ⟨from_, to_⟩ := ft
      simp only
      exact foldl_rel (IRel d8 l) _ _ _ _ (IRel.lock s1 res err hres)
        (fun a a' v' h' => indexElemStep_rel c hI nx l hnx a a' v' h')
  | ret rp h1 h2 h3 h4 =>
    rw [indexSubStep_skip c item nx xs v ap sub rp h1]
    refine IRel.ret rp h1 h2 (fun hst => ?_) (fun hst => ?_)
    · rw [indexSubStep_skip c item nx xs v ac sub _ (h3 hst)]; exact h3 hst
    · exact ⟨indexSubStep_hit c hI.good nx xs v l ac sub (h4 hst).1,
        indexSubStep_le c hI.le nx xs v _ ac sub (h4 hst).2⟩

/-- the result of `execArrayIndex` after its loops -/
def iFinal (s : St) (a : IAcc) : Res :=
  match a.ret with
  | some r => { r with st := restoreInn s r.st }
  | none => ⟨restoreInn s a.st, a.found, a.res, none⟩

theorem IRel.final {l : List Item} {ap ac : IAcc} (s : St) (h : IRel d8 l ap ac) :
    PC d8 l (iFinal s ap) (iFinal s ac) := by
  cases h with
  | lock st res err hres => exact PC.lit _ _ _ hres
  | ret rp h1 h2 h3 h4 =>
    by_cases hst : rp.status = .ok
    · obtain ⟨hh, hle⟩ := h4 hst
      have hp : iFinal s ap = { rp with st := restoreInn s rp.st } := by simp [iFinal, h1]
      rw [hp]
      refine PC.ofHit h2 hst ?_ ?_
      · unfold iFinal
        cases hr : ac.ret with
        | some r => exact (hh.2 r hr).mapSt (restoreInn s) (fun _ => rfl)
        | none => exact Or.inl (hh.1 hr)
      · unfold iFinal
        cases hr : ac.ret with
        | some r =>
          exact ⟨fun h' => by simpa [IAcc.flagO, hr, restoreInn] using hle.1 h',
                 fun h' => by simpa [IAcc.flagP, hr, restoreInn] using hle.2 h'⟩
        | none =>
          exact ⟨fun h' => by simpa [IAcc.flagO, hr, restoreInn] using hle.1 h',
                 fun h' => by simpa [IAcc.flagP, hr, restoreInn] using hle.2 h'⟩
    · simp only [iFinal, h1, h3 hst]
      exact ⟨h2, fun _ => rfl, fun h' => absurd h' hst⟩

theorem execArrayIndex_pc (c : Ctx) {item : ItemK} (hI : HypI d8 item) (s : St) (subs : List Node)
    (nx : Option Node) (v : Item) (l : List Item) (hnx : ClsO d8 nx) :
    PC d8 l (execArrayIndex c item s subs nx v none) (execArrayIndex c item s subs nx v (some l)) := by
  unfold execArrayIndex
  split
  · exact structural_pc s l
  · rename_i xs _
    have hrel := foldl_rel (IRel d8 l) (indexSubStep c item nx xs v) subs
      ⟨{ s with innermost := xs.length }, none, .notFound, none, none⟩
      ⟨{ s with innermost := xs.length }, some l, .notFound, none, none⟩ (IRel.lock _ _ _ (by simp))
      (fun a a' sub h => indexSubStep_rel c hI nx xs v l hnx a a' sub h)
    exact IRel.final s hrel

/-! ### dispatch and the induction over fuel -/

theorem execMethodNode_pc (c : Ctx) {item : ItemK} {any : AnyK} (hI : HypI d8 item) (hA : HypA d8 any)
    (s : St) (n : Node) (m : Method) (nx : Option Node) (v : Item) (l : List Item) (unwrap : Bool)
    (hn : Cls d8 n) (hnx : ClsO d8 nx) :
    PC d8 l (execMethodNode c item any s n m nx v none unwrap) (execMethodNode c item any s n m nx v (some l) unwrap) := by
  unfold execMethodNode
  cases m <;> simp only
  all_goals first
    | exact execConvMethod_pc c hI hA _ _ _ _ _ _ _ hn hnx
    | exact executeNextItem_pc c hI _ _ _ _ hnx
    | exact execMethodSize_pc c hI _ _ _ _ hnx
    | exact executeKeyValueMethod_pc c hI hA _ _ _ _ _ _ hn hnx

theorem execBinaryNode_pc (c : Ctx) {item : ItemK} (bool : BoolK) {any : AnyK} (hI : HypI d8 item)
    (hA : HypA d8 any) (s : St) (n : Node) (op : BinOp) (lft r nx : Option Node) (v : Item) (l : List Item)
    (unwrap : Bool) (hn : Cls d8 n) (hnx : ClsO d8 nx) :
    PC d8 l (execBinaryNode c item bool any s n op lft r nx v none unwrap)
      (execBinaryNode c item bool any s n op lft r nx v (some l) unwrap) := by
  unfold execBinaryNode
  split
  · exact appendBoolResult_pc c hI nx l _ hnx
  · split
    · exact execBinaryMathExpr_pc c hI _ _ _ _ _ _ _ hnx
    · split
      · exact execConvMethod_pc c hI hA _ _ _ _ _ _ _ hn hnx
      · exact PC.lit _ _ _ (by simp)

theorem execUnaryNode_pc (c : Ctx) {item : ItemK} (bool : BoolK) {any : AnyK} (hI : HypI d8 item)
    (hA : HypA d8 any) (s : St) (n : Node) (op : UnOp) (x nx : Option Node) (v : Item) (l : List Item)
    (unwrap : Bool) (hn : Cls d8 n) (hnx : ClsO d8 nx)
    (hd : isUMath op = true → d8 = true ∨ nx.isSome = true) :
    PC d8 l (execUnaryNode c item bool any s n op x nx v none unwrap)
      (execUnaryNode c item bool any s n op x nx v (some l) unwrap) := by
  unfold execUnaryNode
  split
  · exact appendBoolResult_pc c hI nx l _ hnx
  · exact appendBoolResult_pc c hI nx l _ hnx
  · exact appendBoolResult_pc c hI nx l _ hnx
  · split
    · exact unwrapTargetArray_pc hA _ _ _ _ hn
    · split
      · exact PC.lit _ _ _ (by simp)
      · dsimp only
        split
        · exact PC.lit _ _ _ (by simp)
        · split
          · exact PC.lit _ _ _ (by simp)
          · exact executeNextItem_pc c hI _ _ _ _ hnx
  · exact execUnaryMathExpr_pc c hI _ _ _ _ _ _ hnx (hd rfl)
  · exact execUnaryMathExpr_pc c hI _ _ _ _ _ _ hnx (hd rfl)
  · split
    · exact hA.sim _ _ _ _ _ _ _ _ _ hn.toO
    · exact executeDateTimeMethod_pc c hI _ _ _ _ _ _ hnx

theorem dispatch_pc (c : Ctx) {item : ItemK} (bool : BoolK) {any : AnyK} (hI : HypI d8 item)
    (hA : HypA d8 any) (s : St) (n : Node) (v : Item) (l : List Item) (unwrap : Bool) (hn : Cls d8 n) :
    PC d8 l (dispatch c item bool any s n v none unwrap) (dispatch c item bool any s n v (some l) unwrap) := by
  have hnx := hn.next
  unfold dispatch
  split
  · exact execConstNode_pc c hI hA _ _ _ _ _ _ _ hn hnx
  · exact execLiteral_pc c hI _ _ _ _ hnx
  · exact execLiteral_pc c hI _ _ _ _ hnx
  · exact execLiteral_pc c hI _ _ _ _ hnx
  · exact execVariable_pc c hI _ _ _ _ hnx
  · exact execKeyNode_pc c hI hA _ _ _ _ _ _ _ hn hnx
  · exact execBinaryNode_pc c bool hI hA _ _ _ _ _ _ _ _ _ hn hnx
  · exact execUnaryNode_pc c bool hI hA _ _ _ _ _ _ _ _ hn hnx (fun hop => hn.umath hop)
  · exact appendBoolResult_pc c hI _ l _ hnx
  · exact execMethodNode_pc c hI hA _ _ _ _ _ _ _ hn hnx
  · exact execAnyNode_pc c hI hA _ _ _ _ _ _ hnx
  · exact execArrayIndex_pc c hI _ _ _ _ _ hnx

theorem le_all (c : Ctx) (fuel : Nat) : LeI (xItem c fuel) ∧ LeA (xAny c fuel) :=
  ⟨fun s n v f u => ⟨(MonoOof.mono_all c fuel).1 s n v f u, (MonoPan.mono_all c fuel).1 s n v f u⟩,
   fun s n vs f l a b i u =>
    ⟨(MonoOof.mono_all c fuel).2.2 s n vs f l a b i u, (MonoPan.mono_all c fuel).2.2 s n vs f l a b i u⟩⟩

/-- **the probe/collect relation holds for `executeItemOptUnwrapTarget` and `executeAnyItem`, for every
    fuel** (predicates do not take a result list: they are the same call in both runs) -/
theorem sim_all (c : Ctx) (d8 : Bool) : ∀ fuel : Nat, SimI d8 (xItem c fuel) ∧ SimA d8 (xAny c fuel) := by
  intro fuel
  induction fuel with
  | zero =>
    refine ⟨fun s n v l u _ => ?_, fun s node vs l lv a b i u _ => ?_⟩
    · simp only [xItem]; exact PC.lit _ _ _ (by simp)
    · simp only [xAny]; exact PC.lit _ _ _ (by simp)
  | succ fuel ih =>
    have hI : HypI d8 (xItem c fuel) := ⟨(good_all c fuel).1, (le_all c fuel).1, ih.1⟩
    have hA : HypA d8 (xAny c fuel) := ⟨(good_all c fuel).2.2, (le_all c fuel).2, ih.2⟩
    refine ⟨fun s n v l u hn => ?_, fun s node vs l lv a b i u hnode => ?_⟩
    · simp only [xItem]
      split
      · exact PC.lit _ _ _ (by simp)
      · exact dispatch_pc c (xBool c fuel) hI hA _ n v l u hn
    · simp only [xAny]
      exact executeAnyItem_pc hI hA s node vs l lv a b i u hnode

/-- `executeItemOptUnwrapTarget`: probe (`found = nil`) against collect (`found = l`), any path -/
theorem xItem_pc (c : Ctx) (fuel : Nat) (s : St) (n : Node) (v : Item) (l : List Item) (u : Bool) :
    PC true l (xItem c fuel s n v none u) (xItem c fuel s n v (some l) u) :=
  (sim_all c true fuel).1 s n v l u (Or.inl rfl)

/-- the same for a path whose accessor spine does not end in a unary `+`/`-`: the D8 alternative is gone -/
theorem xItem_pc_strong (c : Ctx) (fuel : Nat) (s : St) (n : Node) (v : Item) (l : List Item) (u : Bool)
    (hn : spineOK n = true) :
    PC false l (xItem c fuel s n v none u) (xItem c fuel s n v (some l) u) :=
  (sim_all c false fuel).1 s n v l u (Or.inr hn)

theorem xAny_pc (c : Ctx) (fuel : Nat) (s : St) (node : Option Node) (vs : List Item) (l : List Item)
    (lv a b : Nat) (i u : Bool) :
    PC true l (xAny c fuel s node vs none lv a b i u) (xAny c fuel s node vs (some l) lv a b i u) :=
  (sim_all c true fuel).2 s node vs l lv a b i u (Or.inl rfl)

/-! ### the two implications at executor level -/

/-- (A) the collecting run did not fail: neither did the probe, and the probe answers "found" iff the
    collecting run appended something -/
theorem PC.collect_ok {l : List Item} {rp rc : Res} (h : PC d8 l rp rc) (hnf : rc.status ≠ .failed) :
    rp.status ≠ .failed ∧ (rp.status = .ok ↔ rc.found ≠ some l) := by
  by_cases hst : rp.status = .ok
  · refine ⟨by rw [hst]; simp, fun _ => ((h.hit hst).1.appended hnf).ne, fun _ => hst⟩
  · have hs := h.same hst
    rw [hs] at hnf
    refine ⟨hnf, fun h' => absurd h' hst, fun h' => ?_⟩
    rw [hs] at h'
    exact absurd rfl h'

/-- (B) the probe answers "found": the collecting run failed or appended at least one item -/
theorem PC.probe_ok {l : List Item} {rp rc : Res} (h : PC d8 l rp rc) (hok : rp.status = .ok) :
    rc.status = .failed ∨ ∃ x xs, rc.found = some (l ++ x :: xs) := by
  rcases (h.hit hok).1 with ha | ⟨_, hf, _⟩
  · exact Or.inr ha
  · exact Or.inl hf

/-- (B'), class `spineOK`: the collecting run appended at least one item, even if it failed later -/
theorem PC.probe_ok_strong {l : List Item} {rp rc : Res} (h : PC false l rp rc) (hok : rp.status = .ok) :
    ∃ x xs, rc.found = some (l ++ x :: xs) := by
  rcases (h.hit hok).1 with ha | ⟨hd, _⟩
  · exact ha
  · exact absurd hd (by simp)

/-- the probe failed: the collecting run failed with the same error, in the same state, with nothing
    appended -/
theorem PC.probe_failed {l : List Item} {rp rc : Res} (h : PC d8 l rp rc) (hf : rp.status = .failed) :
    rc = ⟨rp.st, some l, .failed, rp.err⟩ := by
  have := h.same (by rw [hf]; simp)
  rw [this, hf]

/-! ## part 2: a failure of a run that is not silent carries its error

`FE r`: if the `verbose` flag is set in the state the call returned (every function restores it,
`Good.ctx`), a status `failed` comes with an error.  Hence without `WithSilent` a run whose error is
nil did not fail.  (Predicates evaluate their operands silently, but a failure there is the outcome
`unknown`, not a failed status.) -/

def FE (r : Res) : Prop := r.st.verbose = true → r.status = .failed → r.err ≠ none

def FEI (item : ItemK) : Prop := ∀ s n v f u, FE (item s n v f u)
def FEA (any : AnyK) : Prop := ∀ s n vs f l a b i u, FE (any s n vs f l a b i u)

theorem FE.notFailed {s : St} {f : Found} {st : Status} {e : Option Err} (h : st ≠ .failed) : FE ⟨s, f, st, e⟩ :=
  fun _ h' => absurd h' h

theorem FE.withErr (s : St) (f : Found) (st : Status) (e : Err) : FE ⟨s, f, st, some e⟩ :=
  fun _ _ => by simp

theorem FE.mapSt {r : Res} (g : St → St) (hg : ∀ s, (g s).verbose = s.verbose) (h : FE r) :
    FE { r with st := g r.st } :=
  fun hv hf => h (by simpa [hg] using hv) hf

/-- passing a failure of a sub-call on -/
theorem FE.pass {r : Res} (f : Found) (h : FE r) (hf : r.status = .failed) : FE ⟨r.st, f, .failed, r.err⟩ :=
  fun hv _ => h hv hf

theorem returnVerboseError_fe (s : St) (f : Found) : FE (returnVerboseError s f) := by
  unfold returnVerboseError
  split
  · exact FE.withErr _ _ _ _
  · rename_i hv; exact fun hv' => absurd hv' hv

theorem returnError_fe (s : St) (f : Found) (e : Err) : FE (returnError s f e) := by
  unfold returnError
  split
  · exact FE.withErr _ _ _ _
  · rename_i hv
    intro hv'
    simp at hv' hv
    simp [hv'] at hv

theorem structural_fe (s : St) (f : Found) : FE (structural s f) := by
  unfold structural
  split
  · exact returnVerboseError_fe s f
  · exact FE.notFailed (by simp)

theorem executeNextItem_fe (c : Ctx) {item : ItemK} (hI : FEI item) (s : St) (nx : Option Node) (v : Item)
    (f : Found) : FE (executeNextItem c item s nx v f) := by
  unfold executeNextItem executeItem
  split
  · exact hI _ _ _ _ _
  · exact FE.notFailed (by simp)

theorem shortcut_fe (c : Ctx) {item : ItemK} (hI : FEI item) (s : St) (nx : Option Node) (v : Item) (f : Found)
    (b : Bool) : FE (if b then ⟨s, f, .ok, none⟩ else executeNextItem c item s nx v f) := by
  split
  · exact FE.notFailed (by simp)
  · exact executeNextItem_fe c hI _ _ _ _

theorem withBaseObject_fe (s : St) (a : Nat) (i : Int) (k : St → Res) (hk : ∀ s', FE (k s')) :
    FE (withBaseObject s a i k) := by
  unfold withBaseObject
  exact FE.mapSt (fun st => { st with baseAddr := s.baseAddr, baseId := s.baseId }) (fun _ => rfl) (hk _)

theorem execLiteral_fe (c : Ctx) {item : ItemK} (hI : FEI item) (s : St) (nx : Option Node) (v : Item)
    (f : Found) : FE (execLiteral c item s nx v f) := by
  unfold execLiteral
  exact shortcut_fe c hI _ _ _ _ _

theorem execVariable_fe (c : Ctx) {item : ItemK} (hI : FEI item) (s : St) (name : List Char)
    (nx : Option Node) (f : Found) : FE (execVariable c item s name nx f) := by
  unfold execVariable
  split
  · exact withBaseObject_fe _ _ _ _ (fun s' => executeNextItem_fe c hI _ _ _ _)
  · exact FE.withErr _ _ _ _

theorem execKeyNode_fe (c : Ctx) {item : ItemK} {any : AnyK} (hI : FEI item) (hA : FEA any) (s : St)
    (n : Node) (key : List Char) (nx : Option Node) (v : Item) (f : Found) (unwrap : Bool) :
    FE (execKeyNode c item any s n key nx v f unwrap) := by
  unfold execKeyNode
  split
  · split
    · exact executeNextItem_fe c hI _ _ _ _
    · split
      · split
        · rename_i hv
          intro hv'
          simp at hv hv'
          rw [hv] at hv'
          exact absurd hv' (by simp)
        · exact FE.withErr _ _ _ _
      · exact FE.notFailed (by simp)
  · split
    · exact hA _ _ _ _ _ _ _ _ _
    · exact structural_fe s f
  · exact structural_fe s f

theorem execAnyKey_fe (c : Ctx) {any : AnyK} (hA : FEA any) (s : St)
    (n : Node) (nx : Option Node) (v : Item) (f : Found) (unwrap : Bool) :
    FE (execAnyKey c any s n nx v f unwrap) := by
  unfold execAnyKey unwrapTargetArray
  split
  · exact hA _ _ _ _ _ _ _ _ _
  · split
    · exact hA _ _ _ _ _ _ _ _ _
    · exact structural_fe s f
  · exact structural_fe s f

theorem execAnyArray_fe (c : Ctx) {item : ItemK} {any : AnyK} (hI : FEI item) (hA : FEA any) (s : St)
    (nx : Option Node) (v : Item) (f : Found) : FE (execAnyArray c item any s nx v f) := by
  unfold execAnyArray
  split
  · exact hA _ _ _ _ _ _ _ _ _
  · split
    · exact executeNextItem_fe c hI _ _ _ _
    · exact structural_fe s f

theorem execLastConst_fe (c : Ctx) {item : ItemK} (hI : FEI item) (s : St)
    (nx : Option Node) (f : Found) : FE (execLastConst c item s nx f) := by
  unfold execLastConst
  split
  · exact FE.withErr _ _ _ _
  · exact shortcut_fe c hI _ _ _ _ _

theorem execConstNode_fe (c : Ctx) {item : ItemK} {any : AnyK} (hI : FEI item) (hA : FEA any) (s : St)
    (n : Node) (k : Const) (nx : Option Node) (v : Item) (f : Found) (unwrap : Bool) :
    FE (execConstNode c item any s n k nx v f unwrap) := by
  unfold execConstNode
  cases k <;> simp only
  · exact withBaseObject_fe _ _ _ _ (fun s' => executeNextItem_fe c hI _ _ _ _)
  · exact executeNextItem_fe c hI _ _ _ _
  · exact execLastConst_fe c hI _ _ _
  · exact execAnyArray_fe c hI hA _ _ _ _
  · exact execAnyKey_fe c hA _ _ _ _ _ _
  · exact execLiteral_fe c hI _ _ _ _
  · exact execLiteral_fe c hI _ _ _ _
  · exact execLiteral_fe c hI _ _ _ _

theorem optUnwrapResult_fe (c : Ctx) {item : ItemK} (hI : FEI item) (s : St) (n : Node) (v : Item)
    (unwrap : Bool) (l : List Item) : FE (optUnwrapResult c item s n v unwrap l) := by
  unfold optUnwrapResult executeItem
  split
  · dsimp only
    split
    · rename_i hf; exact FE.pass _ (hI _ _ _ _ _) hf
    · exact FE.notFailed (by simp)
  · exact hI _ _ _ _ _

theorem appendBoolResult_fe (c : Ctx) {item : ItemK} (hI : FEI item) (nx : Option Node) (f : Found) (p : PRes) :
    FE (appendBoolResult c item nx f p) := by
  unfold appendBoolResult
  split
  · exact FE.withErr _ _ _ _
  · exact shortcut_fe c hI _ _ _ _ _

/-- loop invariant: an early return is `FE`; otherwise the running status is not `failed` -/
def UFE (a : UAcc) : Prop := (∀ r, a.ret = some r → FE r) ∧ (a.ret = none → a.res ≠ .failed)

theorem unaryStep_fe (c : Ctx) {item : ItemK} (hI : FEI item) (cb : Num.UCallback) (nx : Option Node)
    (a : UAcc) (v : Item) (h : UFE a) : UFE (unaryStep c item cb nx a v) := by
  unfold unaryStep
  split
  · exact h
  · rename_i hnone
    have hres := h.2 hnone
    have early : UFE { a with ret := some ⟨a.st, a.found, .ok, none⟩ } :=
      ⟨fun r hr => by simp at hr; subst hr; exact FE.notFailed (by simp), fun h' => by simp at h'⟩
    have bad : UFE { a with ret := some (returnVerboseError a.st a.found) } :=
      ⟨fun r hr => by simp at hr; subst hr; exact returnVerboseError_fe _ _, fun h' => by simp at h'⟩
    have go : ∀ val : Item, UFE
        (let r := executeNextItem c item a.st nx val a.found
         if r.status = .failed then { a with st := r.st, found := r.found, ret := some r }
         else if r.status = .ok then
           (if a.found.isNone then { a with st := r.st, found := r.found, ret := some ⟨r.st, r.found, .ok, none⟩ }
            else { a with st := r.st, found := r.found, res := .ok })
         else { a with st := r.st, found := r.found }) := by
      intro val
      have hk := executeNextItem_fe c hI a.st nx val a.found
      dsimp only
      split
      · exact ⟨fun r hr => by simp at hr; subst hr; exact hk, fun h' => by simp at h'⟩
      · split
        · split
          · exact ⟨fun r hr => by simp at hr; subst hr; exact FE.notFailed (by simp), fun h' => by simp at h'⟩
          · exact ⟨fun r hr => by simp [hnone] at hr, fun _ => by simp⟩
        · exact ⟨fun r hr => by simp [hnone] at hr, fun _ => hres⟩
    try dsimp only
    split
    · split
      · exact early
      · exact go _
    · split
      · exact early
      · exact go _
    · split
      · exact early
      · split
        · exact go _
        · exact bad
    · split
      · exact go _
      · exact bad

theorem execUnaryMathExpr_fe (c : Ctx) {item : ItemK} (hI : FEI item) (s : St) (operand nx : Option Node)
    (v : Item) (cb : Num.UCallback) (f : Found) : FE (execUnaryMathExpr c item s operand nx v cb f) := by
  unfold execUnaryMathExpr
  split
  · exact FE.withErr _ _ _ _
  · rename_i x
    dsimp only
    split
    · rename_i hf; exact FE.pass _ (optUnwrapResult_fe c hI _ _ _ _ _) hf
    · have hinv : UFE (((optUnwrapResult c item s x v true []).found.getD []).foldl
          (unaryStep c item cb nx) ⟨(optUnwrapResult c item s x v true []).st, f, .notFound, none⟩) :=
        foldl_inv UFE _ _ _ ⟨fun r hr => by simp at hr, fun _ => by simp⟩
          (fun a v h => unaryStep_fe c hI cb nx a v h)
      split
      · rename_i res hres; exact hinv.1 res hres
      · rename_i hres; exact FE.notFailed (hinv.2 hres)

theorem execBinaryMathExpr_fe (c : Ctx) {item : ItemK} (hI : FEI item) (s : St) (op : BinOp)
    (l r nx : Option Node) (v : Item) (f : Found) : FE (execBinaryMathExpr c item s op l r nx v f) := by
  unfold execBinaryMathExpr
  split
  · dsimp only
    split
    · rename_i hf; exact FE.pass _ (optUnwrapResult_fe c hI _ _ _ _ _) hf
    · split
      · split
        · rename_i hf; exact FE.pass _ (optUnwrapResult_fe c hI _ _ _ _ _) hf
        · split
          · split
            · exact returnVerboseError_fe _ _
            · split
              · exact returnVerboseError_fe _ _
              · exact shortcut_fe c hI _ _ _ _ _
          · exact returnVerboseError_fe _ _
      · exact returnVerboseError_fe _ _
  · exact FE.withErr _ _ _ _

theorem execMethodSize_fe (c : Ctx) {item : ItemK} (hI : FEI item) (s : St) (nx : Option Node)
    (v : Item) (f : Found) : FE (execMethodSize c item s nx v f) := by
  unfold execMethodSize
  split
  · exact executeNextItem_fe c hI _ _ _ _
  · split
    · exact structural_fe _ _
    · exact executeNextItem_fe c hI _ _ _ _

theorem execConvMethod_fe (c : Ctx) {item : ItemK} {any : AnyK} (hI : FEI item) (hA : FEA any) (s : St)
    (n : Node) (nx : Option Node) (v : Item) (f : Found) (unwrap : Bool) (conv : Item → Conv) :
    FE (execConvMethod c item any s n nx v f unwrap conv) := by
  unfold execConvMethod unwrapTargetArray
  split
  · split
    · exact hA _ _ _ _ _ _ _ _ _
    · exact returnVerboseError_fe _ _
  · split
    · exact executeNextItem_fe c hI _ _ _ _
    · exact returnVerboseError_fe _ _
    · exact FE.withErr _ _ _ _
    · exact returnError_fe _ _ _

theorem executeDateTimeMethod_fe (c : Ctx) {item : ItemK} (hI : FEI item) (s : St) (op : UnOp)
    (arg nx : Option Node) (v : Item) (f : Found) : FE (executeDateTimeMethod c item s op arg nx v f) := by
  unfold executeDateTimeMethod
  split
  · dsimp only
    split
    · exact returnError_fe _ _ _
    · split
      · exact returnError_fe _ _ _
      · exact shortcut_fe c hI _ _ _ _ _
  · exact returnVerboseError_fe _ _

def KVFE (a : KVAcc) : Prop := (∀ r, a.ret = some r → FE r) ∧ (a.ret = none → a.res ≠ .failed)

theorem kvStep_fe (c : Ctx) {item : ItemK} (hI : FEI item) (nx : Option Node) (id : Int)
    (a : KVAcc) (kv : List Char × Item) (h : KVFE a) : KVFE (kvStep c item nx id a kv) := by
  unfold kvStep
  split
  · exact h
  · rename_i hcond
    have hnone : a.ret = none := by cases hr : a.ret <;> simp_all
    have hk := executeNextItem_fe c hI (kvEnter c a.st (kvObj id kv)) nx (kvObj id kv) a.found
    dsimp only
    split
    · exact ⟨fun r hr => by simp at hr; subst hr; exact hk, fun h' => by simp at h'⟩
    · rename_i hnf
      split
      · exact ⟨fun r hr => by simp at hr, fun _ => hnf⟩
      · exact ⟨fun r hr => by simp [hnone] at hr, fun _ => hnf⟩

theorem executeKeyValueMethod_fe (c : Ctx) {item : ItemK} {any : AnyK} (hI : FEI item) (hA : FEA any)
    (s : St) (n : Node) (nx : Option Node) (v : Item) (f : Found) (unwrap : Bool) :
    FE (executeKeyValueMethod c item any s n nx v f unwrap) := by
  unfold executeKeyValueMethod unwrapTargetArray
  split
  · split
    · exact hA _ _ _ _ _ _ _ _ _
    · exact returnVerboseError_fe _ _
  · rename_i kvs
    split
    · exact FE.notFailed (by simp)
    · split
      · exact FE.notFailed (by simp)
      · dsimp only
        generalize hid : (_ : Int) + s.baseId * 10000000000 = id
        have hinv : KVFE (kvs.foldl (kvStep c item nx id) ⟨s, f, .ok, none, false⟩) :=
          foldl_inv KVFE _ _ _ ⟨fun r hr => by simp at hr, fun _ => by simp⟩
            (fun a kv h => kvStep_fe c hI nx id a kv h)
        split
        · rename_i r hr
          exact (hinv.1 r hr).mapSt (restoreBase s) (fun _ => rfl)
        · rename_i hr
          exact FE.notFailed (hinv.2 hr)
  · exact returnVerboseError_fe _ _

theorem execMethodNode_fe (c : Ctx) {item : ItemK} {any : AnyK} (hI : FEI item) (hA : FEA any)
    (s : St) (n : Node) (m : Method) (nx : Option Node) (v : Item) (f : Found) (unwrap : Bool) :
    FE (execMethodNode c item any s n m nx v f unwrap) := by
  unfold execMethodNode
  cases m <;> simp only
  all_goals first
    | exact execConvMethod_fe c hI hA _ _ _ _ _ _ _
    | exact executeNextItem_fe c hI _ _ _ _
    | exact execMethodSize_fe c hI _ _ _ _
    | exact executeKeyValueMethod_fe c hI hA _ _ _ _ _ _

def AFE (a : AAcc) : Prop := (∀ r, a.ret = some r → FE r) ∧ (a.ret = none → a.res ≠ .failed)

theorem ago_fe {f : Found} {r : Res} (h : FE r) : AFE (ago f r) := by
  unfold ago
  split
  · exact ⟨fun r' hr => by simp at hr; subst hr; exact h, fun h' => by simp at h'⟩
  · rename_i hcond
    refine ⟨fun r' hr => by simp at hr, fun _ hf => ?_⟩
    simp at hf
    simp [hf] at hcond

theorem anyVisit_fe {item : ItemK} (hI : FEI item) (node : Option Node) (level first last : Nat)
    (ignore unwrapNext : Bool) (a : AAcc) (v : Item) (h : AFE a) (hnone : a.ret = none) :
    AFE (anyVisit item node level first last ignore unwrapNext a v) := by
  unfold anyVisit
  split
  · split
    · exact ago_fe (hI _ _ _ _ _)
    · split
      · exact ⟨fun r hr => by simp [hnone] at hr, fun _ => by simp⟩
      · exact ⟨fun r hr => by simp at hr; subst hr; exact FE.notFailed (by simp), fun h' => by simp at h'⟩
  · exact h

theorem anyDescend_fe {any : AnyK} (hA : FEA any) (node : Option Node) (level first last : Nat)
    (ignore unwrapNext : Bool) (a : AAcc) (v : Item) (h : AFE a) :
    AFE (anyDescend any node level first last ignore unwrapNext a v) := by
  unfold anyDescend
  split
  · exact ago_fe (hA _ _ _ _ _ _ _ _ _)
  · exact h

theorem anyStep_fe {item : ItemK} {any : AnyK} (hI : FEI item) (hA : FEA any) (node : Option Node)
    (level first last : Nat) (ignore unwrapNext : Bool) (a : AAcc) (v : Item) (h : AFE a) :
    AFE (anyStep item any node level first last ignore unwrapNext a v) := by
  unfold anyStep
  split
  · exact h
  · rename_i hnone
    have h1 := anyVisit_fe hI node level first last ignore unwrapNext a v h hnone
    dsimp only
    split
    · exact h1
    · exact anyDescend_fe hA node level first last ignore unwrapNext _ v h1

theorem executeAnyItem_fe {item : ItemK} {any : AnyK} (hI : FEI item) (hA : FEA any) (s : St)
    (node : Option Node) (vs : List Item) (f : Found) (level first last : Nat) (ignore unwrapNext : Bool) :
    FE (executeAnyItem item any s node vs f level first last ignore unwrapNext) := by
  unfold executeAnyItem
  split
  · exact FE.notFailed (by simp)
  · dsimp only
    have hinv : AFE (vs.foldl (anyStep item any node level first last ignore unwrapNext)
        ⟨s, f, .notFound, none, none⟩) :=
      foldl_inv AFE _ _ _ ⟨fun r hr => by simp at hr, fun _ => by simp⟩
        (fun a v h => anyStep_fe hI hA node level first last ignore unwrapNext a v h)
    split
    · rename_i r hr
      exact (hinv.1 r hr).mapSt (restoreIgn s) (fun _ => rfl)
    · rename_i hr
      refine FE.notFailed ?_
      split
      · simp
      · exact hinv.2 hr

theorem anyInto_fe (c : Ctx) {any : AnyK} (hA : FEA any) (s : St) (first last : Nat)
    (nx : Option Node) (v : Item) (f : Found) : FE (anyInto c any s first last nx v f) := by
  unfold anyInto
  split
  · exact hA _ _ _ _ _ _ _ _ _
  · exact hA _ _ _ _ _ _ _ _ _
  · exact FE.notFailed (by simp)

theorem execAnyNode_fe (c : Ctx) {item : ItemK} {any : AnyK} (hI : FEI item) (hA : FEA any) (s : St)
    (first last : Nat) (nx : Option Node) (v : Item) (f : Found) :
    FE (execAnyNode c item any s first last nx v f) := by
  unfold execAnyNode
  split
  · dsimp only
    split
    · exact (executeNextItem_fe c hI _ _ _ _).mapSt (restoreIgn s) (fun _ => rfl)
    · exact (anyInto_fe c hA _ _ _ _ _ _).mapSt (restoreIgn s) (fun _ => rfl)
  · exact anyInto_fe c hA _ _ _ _ _ _

def IFE (a : IAcc) : Prop := (∀ r, a.ret = some r → FE r) ∧ (a.ret = none → a.res ≠ .failed)

theorem igo_fe {f : Found} {r : Res} (h : FE r) : IFE (igo f r) := by
  unfold igo
  split
  · exact ⟨fun r' hr => by simp at hr; subst hr; exact h, fun h' => by simp at h'⟩
  · rename_i hcond
    refine ⟨fun r' hr => by simp at hr, fun _ hf => ?_⟩
    simp at hf
    simp [hf] at hcond

theorem indexElemStep_fe (c : Ctx) {item : ItemK} (hI : FEI item) (nx : Option Node)
    (a : IAcc) (v : Item) (h : IFE a) : IFE (indexElemStep c item nx a v) := by
  unfold indexElemStep
  split
  · exact h
  · rename_i hsome
    have hnone : a.ret = none := by cases hr : a.ret <;> simp_all
    split
    · exact h
    · split
      · exact ⟨fun r hr => by simp at hr; subst hr; exact FE.notFailed (by simp), fun h' => by simp at h'⟩
      · exact igo_fe (executeNextItem_fe c hI _ _ _ _)

theorem indexSubStep_fe (c : Ctx) {item : ItemK} (hI : FEI item) (nx : Option Node) (xs : List Item)
    (v : Item) (a : IAcc) (sub : Node) (h : IFE a) : IFE (indexSubStep c item nx xs v a sub) := by
  unfold indexSubStep
  split
  · exact h
  · rename_i hsome
    have hnone : a.ret = none := by cases hr : a.ret <;> simp_all
    split
    · exact ⟨fun r hr => by simp at hr; subst hr; exact returnError_fe _ _ _, fun h' => by simp at h'⟩
    · refine foldl_inv IFE _ _ _ ?_ (fun a' v' h' => indexElemStep_fe c hI nx a' v' h')
      exact ⟨fun r hr => by simp [hnone] at hr, fun _ => h.2 hnone⟩

theorem execArrayIndex_fe (c : Ctx) {item : ItemK} (hI : FEI item) (s : St) (subs : List Node)
    (nx : Option Node) (v : Item) (f : Found) : FE (execArrayIndex c item s subs nx v f) := by
  unfold execArrayIndex
  split
  · exact structural_fe _ _
  · rename_i xs _
    dsimp only
    have hinv : IFE (subs.foldl (indexSubStep c item nx xs v)
        ⟨{ s with innermost := xs.length }, f, .notFound, none, none⟩) :=
      foldl_inv IFE _ _ _ ⟨fun r hr => by simp at hr, fun _ => by simp⟩
        (fun a sub h => indexSubStep_fe c hI nx xs v a sub h)
    split
    · rename_i r hr
      exact (hinv.1 r hr).mapSt (restoreInn s) (fun _ => rfl)
    · rename_i hr
      exact FE.notFailed (hinv.2 hr)

theorem execBinaryNode_fe (c : Ctx) {item : ItemK} (bool : BoolK) {any : AnyK} (hI : FEI item)
    (hA : FEA any) (s : St) (n : Node) (op : BinOp) (l r nx : Option Node) (v : Item)
    (f : Found) (unwrap : Bool) : FE (execBinaryNode c item bool any s n op l r nx v f unwrap) := by
  unfold execBinaryNode
  split
  · exact appendBoolResult_fe c hI nx f _
  · split
    · exact execBinaryMathExpr_fe c hI _ _ _ _ _ _ _
    · split
      · exact execConvMethod_fe c hI hA _ _ _ _ _ _ _
      · exact FE.withErr _ _ _ _

theorem execUnaryNode_fe (c : Ctx) {item : ItemK} (bool : BoolK) {any : AnyK} (hI : FEI item)
    (hA : FEA any) (s : St) (n : Node) (op : UnOp) (x nx : Option Node) (v : Item)
    (f : Found) (unwrap : Bool) : FE (execUnaryNode c item bool any s n op x nx v f unwrap) := by
  unfold execUnaryNode unwrapTargetArray
  split
  · exact appendBoolResult_fe c hI nx f _
  · exact appendBoolResult_fe c hI nx f _
  · exact appendBoolResult_fe c hI nx f _
  · split
    · exact hA _ _ _ _ _ _ _ _ _
    · split
      · exact FE.withErr _ _ _ _
      · dsimp only
        split
        · rename_i he
          intro _ _
          cases hp : (executeNestedBoolItem bool s _ v).err <;> simp_all
        · split
          · exact FE.notFailed (by simp)
          · exact executeNextItem_fe c hI _ _ _ _
  · exact execUnaryMathExpr_fe c hI _ _ _ _ _ _
  · exact execUnaryMathExpr_fe c hI _ _ _ _ _ _
  · split
    · exact hA _ _ _ _ _ _ _ _ _
    · exact executeDateTimeMethod_fe c hI _ _ _ _ _ _

theorem dispatch_fe (c : Ctx) {item : ItemK} (bool : BoolK) {any : AnyK} (hI : FEI item)
    (hA : FEA any) (s : St) (n : Node) (v : Item) (f : Found) (unwrap : Bool) :
    FE (dispatch c item bool any s n v f unwrap) := by
  unfold dispatch
  split
  · exact execConstNode_fe c hI hA _ _ _ _ _ _ _
  · exact execLiteral_fe c hI _ _ _ _
  · exact execLiteral_fe c hI _ _ _ _
  · exact execLiteral_fe c hI _ _ _ _
  · exact execVariable_fe c hI _ _ _ _
  · exact execKeyNode_fe c hI hA _ _ _ _ _ _ _
  · exact execBinaryNode_fe c bool hI hA _ _ _ _ _ _ _ _ _
  · exact execUnaryNode_fe c bool hI hA _ _ _ _ _ _ _ _
  · exact appendBoolResult_fe c hI _ f _
  · exact execMethodNode_fe c hI hA _ _ _ _ _ _ _
  · exact execAnyNode_fe c hI hA _ _ _ _ _ _
  · exact execArrayIndex_fe c hI _ _ _ _ _

/-- **a failed status of a non-silent call carries an error, for every fuel** -/
theorem fe_all (c : Ctx) : ∀ fuel : Nat, FEI (xItem c fuel) ∧ FEA (xAny c fuel) := by
  intro fuel
  induction fuel with
  | zero =>
    refine ⟨fun s n v f u => ?_, fun s n vs f l a b i u => ?_⟩
    · simp only [xItem]; exact FE.withErr _ _ _ _
    · simp only [xAny]; exact FE.withErr _ _ _ _
  | succ fuel ih =>
    obtain ⟨hI, hA⟩ := ih
    refine ⟨fun s n v f u => ?_, fun s n vs f l a b i u => ?_⟩
    · simp only [xItem]
      split
      · exact FE.withErr _ _ _ _
      · exact dispatch_fe c (xBool c fuel) hI hA _ _ _ _ _
    · simp only [xAny]; exact executeAnyItem_fe hI hA _ _ _ _ _ _ _ _ _

/-- `executeItemOptUnwrapTarget` started with `verbose` set: failed ⇒ an error is returned -/
theorem xItem_failed_err (c : Ctx) (fuel : Nat) (s : St) (n : Node) (v : Item) (f : Found) (u : Bool)
    (hv : s.verbose = true) (hf : (xItem c fuel s n v f u).status = .failed) :
    (xItem c fuel s n v f u).err ≠ none :=
  (fe_all c fuel).1 s n v f u ((xItem_good c fuel s n v f u).ctx.2.2.2.2.2.trans hv) hf

end Probe
end Exec
end Sqljson
