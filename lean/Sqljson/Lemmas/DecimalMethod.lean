import Sqljson.Lemmas.Rounding
import Sqljson.Props.C13c
/-!
# `.decimal(precision, scale)` — lemmas behind `Props/C16d.lean`

`Exec.executeDecimalMethod` computes, for the finite double `v` it is given and `r := math.Pow10(scale)`,

    decimalRound v r  =  if v*r is ±Inf and r is finite then v else round(v*r) / r

and then counts the characters `1`…`9` before the decimal point of the shortest decimal text of the result.

If `rounded` is ±Inf the method fails with the suppressible error (Go fix ac546c4); otherwise the digit check decides.

Everything about `decimalRound` is proved here for an **arbitrary ratio `r`** that satisfies a list of decidable facts
(`RatioFacts scale r`: finite, positive, well formed, `≥ 1` for a non-negative scale, `≤ 1` for a non-positive one,
within relative distance `2^-51` of `10^scale` for `scale ≥ -307`, exactly `10^scale` for `0 ≤ scale ≤ 22`, below `2^-1026`
for `scale ≤ -309`).  The facts are then checked, by kernel evaluation of all 632 scales −323…308, for `F64.pow10`, which
mirrors Go's `math.Pow10` as written (go1.23.5 `math/pow10.go`): the rounded product `pow10postab32[n/32] * pow10tab[n%32]`
resp. the rounded quotient `pow10negtab32[-n/32] / pow10tab[-n%32]` of two correctly rounded table entries.

`nearestPow10 n` is the double nearest to `10^n`; `math.Pow10` is NOT that double at 169 of the 632 scales
(`C16d.Findings.pow10_not_nearest`; the nearest to zero are 33 and −23) — an observation about Go's arithmetic, which is why
the ratio is only known to be within `2^-51` of the power.
-/

namespace Sqljson.DecimalMethod
open Sqljson Rounding Exec

/-! ## 0. definitions -/

/-- the value `executeDecimalMethod` computes before the digit check -/
def decimalRound (v r : F64) : F64 :=
  if (F64.mul v r).isInf && !r.isInf then v else F64.div (F64.round (F64.mul v r)) r

/-- the integer written as the precision / scale argument (`none`: the argument is not an integer literal) -/
def intArg : Option Node → Option Int
  | some (.integer i _) => some i
  | _ => none

/-- the scale that is in force: `0` when the second argument is absent -/
def scaleArg : Option Node → Option Int
  | none => some 0
  | r => intArg r

/-- the double nearest to `10^n` (ties to even) — what a correctly rounded `Pow10` would return -/
def nearestPow10 (n : Int) : F64 :=
  if n < -323 then .fin false 0 F64.minExp
  else if n > 308 then .inf false
  else if n ≥ 0 then F64.roundPos false (10 ^ n.toNat) 1
  else F64.roundPos false 1 (10 ^ (-n).toNat)

/-- the overflow threshold `MaxFloat64 + ulp/2` -/
def thr : Nat := 2 ^ 1024 - 2 ^ 970

/-- `|r − Tn/Td| ≤ 2^-51 · Tn/Td` -/
def RatioNear (r : F64) (Tn Td : Nat) : Prop :=
  2 ^ 51 * (num r * (Td : Int) - (Tn : Int) * (den r : Int)).natAbs ≤ Tn * den r

instance (x : F64) : Decidable (F64.WF x) := by
  cases x <;> unfold F64.WF <;> infer_instance

instance (r : F64) (a b : Nat) : Decidable (RatioNear r a b) := by unfold RatioNear; infer_instance

/-- what the theorems below need to know about the ratio used for a scale `s` -/
structure RatioFacts (s : Int) (r : F64) : Prop where
  finite : r.isFinite = true
  wf : F64.WF r
  pos : 0 < num r
  /-- `r ≥ 1` for `s ≥ 0`, and `r * 2^52 < (2^1024 − 2^970) * 2^s` -/
  ge_one : 0 ≤ s → (den r : Int) ≤ num r ∧ num r * 2 ^ 52 < ((thr * 2 ^ s.toNat * den r : Nat) : Int)
  /-- `r ≤ 1` for `s ≤ 0` -/
  le_one : s ≤ 0 → num r ≤ (den r : Int)
  /-- `|r − 10^s| ≤ 2^-51 · 10^s` while `10^s` is a normal double -/
  near : -307 ≤ s → RatioNear r (10 ^ s.toNat) (10 ^ (-s).toNat)
  /-- `r = 10^s` exactly for `0 ≤ s ≤ 22` -/
  exact : 0 ≤ s → s ≤ 22 → num r = ((10 ^ s.toNat * den r : Nat) : Int)
  /-- `r < 2^-1026` for `s ≤ -309` -/
  tiny : s ≤ -309 → num r * 2 ^ 1026 < (den r : Int)

/-- the same as a decidable conjunction, for the kernel -/
def ratioChk (s : Int) (r : F64) : Prop :=
  r.isFinite = true ∧ F64.WF r ∧ 0 < num r ∧
  (0 ≤ s → (den r : Int) ≤ num r ∧ num r * 2 ^ 52 < ((thr * 2 ^ s.toNat * den r : Nat) : Int)) ∧
  (s ≤ 0 → num r ≤ (den r : Int)) ∧
  (-307 ≤ s → RatioNear r (10 ^ s.toNat) (10 ^ (-s).toNat)) ∧
  (0 ≤ s → s ≤ 22 → num r = ((10 ^ s.toNat * den r : Nat) : Int)) ∧
  (s ≤ -309 → num r * 2 ^ 1026 < (den r : Int))

instance (s : Int) (r : F64) : Decidable (ratioChk s r) := by unfold ratioChk; infer_instance

theorem ratioFacts_of_chk {s : Int} {r : F64} (h : ratioChk s r) : RatioFacts s r := by
  obtain ⟨a, b, c, d, e, f, g, i⟩ := h
  exact ⟨a, b, c, d, e, f, g, i⟩

set_option exponentiation.threshold 2000 in
theorem pow10_table : ∀ i : Nat, i < 632 → ratioChk ((i : Int) - 323) (F64.pow10 ((i : Int) - 323)) := by
  decide +kernel

/-- **`math.Pow10`** satisfies the facts for every scale at which it is finite and non-zero -/
theorem pow10_facts (s : Int) (h1 : -323 ≤ s) (h2 : s ≤ 308) : RatioFacts s (F64.pow10 s) := by
  have := pow10_table (s + 323).toNat (by omega)
  have e : (((s + 323).toNat : Nat) : Int) - 323 = s := by omega
  rw [e] at this
  exact ratioFacts_of_chk this

/-! ## 1. finite doubles -/

theorem fin_of_finite {x : F64} (h : x.isFinite = true) : ∃ n m e, x = .fin n m e := by
  cases x with
  | nan => cases h
  | inf _ => cases h
  | fin n m e => exact ⟨n, m, e, rfl⟩

theorem finite_of_not_inf_nan {x : F64} (h1 : x.isInf = false) (h2 : x.isNaN = false) : x.isFinite = true := by
  cases x with
  | nan => cases h2
  | inf _ => cases h1
  | fin _ _ _ => rfl

theorem pow_1024_split : (2 : Nat) ^ 1024 = 2 ^ 53 * 2 ^ 971 := by
  set_option exponentiation.threshold 2000 in exact Nat.pow_add 2 53 971

theorem pow_971_split : (2 : Nat) ^ 971 = 2 * 2 ^ 970 := by
  set_option exponentiation.threshold 2000 in
  rw [Nat.mul_comm]

set_option exponentiation.threshold 2000 in
theorem thr_eq : thr = (2 ^ 54 - 1) * 2 ^ 970 := by decide +kernel

set_option exponentiation.threshold 2000 in
theorem thr_def : thr = 2 ^ 1024 - 2 ^ 970 := rfl

set_option exponentiation.threshold 2000 in
theorem two53_le_thr : 2 ^ 53 ≤ thr := by decide +kernel

set_option exponentiation.threshold 2000 in
/-- a finite well-formed double is below the overflow threshold: `|x| ≤ MaxFloat64 < 2^1024 − 2^970` -/
theorem abs_lt_thr {x : F64} (hf : x.isFinite = true) (hw : F64.WF x) : (num x).natAbs < thr * den x := by
  obtain ⟨n, m, e, rfl⟩ := fin_of_finite hf
  obtain ⟨h53, he1, he2, _⟩ := wf_full hw
  rw [natAbs_num]
  show m * 2 ^ e.toNat < thr * 2 ^ (-e).toNat
  by_cases h : 0 ≤ e
  · have h0 : (-e).toNat = 0 := by omega
    rw [h0, Nat.pow_zero, Nat.mul_one, thr_eq]
    have hle : 2 ^ e.toNat ≤ 2 ^ 971 := Nat.pow_le_pow_right (by decide) (by omega)
    have h1 : m * 2 ^ e.toNat ≤ (2 ^ 53 - 1) * 2 ^ 971 := Nat.mul_le_mul (by omega) hle
    rw [pow_971_split] at h1
    have hp := two_pow_pos 970
    generalize (2 : Nat) ^ 970 = p at *
    have : (2 ^ 53 - 1) * (2 * p) < (2 ^ 54 - 1) * p := by omega
    omega
  · have h0 : e.toNat = 0 := by omega
    rw [h0, Nat.pow_zero, Nat.mul_one]
    have hp := two_pow_pos (-e).toNat
    calc m < 2 ^ 53 := h53
      _ ≤ thr := two53_le_thr
      _ = thr * 1 := (Nat.mul_one _).symm
      _ ≤ thr * 2 ^ (-e).toNat := Nat.mul_le_mul_left _ hp

theorem signBit_eq_of_num_ne {x : F64} (hf : x.isFinite = true) (h : num x ≠ 0) :
    x.signBit = decide (num x < 0) := by
  obtain ⟨n, m, e, rfl⟩ := fin_of_finite hf
  have hm : m ≠ 0 := fun h0 => h ((num_eq_zero_iff n m e).mpr h0)
  have : 0 < m * 2 ^ e.toNat := Nat.mul_pos (Nat.pos_of_ne_zero hm) (two_pow_pos _)
  cases n
  · show false = decide ((((m * 2 ^ e.toNat : Nat) : Int)) < 0)
    simp only [Bool.false_eq, decide_eq_false_iff_not]; omega
  · show true = decide (-(((m * 2 ^ e.toNat : Nat) : Int)) < 0)
    simp only [Bool.true_eq, decide_eq_true_eq]; omega

/-- **a double rounds to itself** -/
theorem rounds_self {y : F64} (hf : y.isFinite = true) (hw : F64.WF y) : Rounds (num y) (den y) y := by
  right
  refine ⟨thr_def ▸ abs_lt_thr hf hw, ⟨hf, hw, ?_, ?_⟩, fun h => signBit_eq_of_num_ne hf h⟩
  · intro z _ _
    unfold DistLe
    rw [Int.sub_self, Int.natAbs_zero, Nat.zero_mul]
    exact Nat.zero_le _
  · intro z _ _ hne hle
    exfalso
    apply hne
    unfold DistLe at hle
    rw [Int.sub_self, Int.natAbs_zero, Nat.zero_mul] at hle
    have hyp := den_pos y
    have hz : (num y * (den z : Int) - num z * (den y : Int)).natAbs = 0 := by
      rcases Nat.mul_eq_zero.mp (Nat.le_zero.mp hle) with h1 | h1
      · exact h1
      · omega
    unfold SameVal
    omega

/-- a fraction that is the value of the well-formed double `y` is rounded to `y` (the sign of a zero is the argument) -/
theorem ofQ_exact {n : Int} {d : Nat} (hd : 0 < d) {y : F64} (hf : y.isFinite = true) (hw : F64.WF y)
    (h : n * (den y : Int) = num y * (d : Int)) : F64.ofQ n d y.signBit = y := by
  have hyp := den_pos y
  by_cases hn : n = 0
  · subst hn
    rw [Int.zero_mul] at h
    have h0 : num y = 0 := by
      rcases Int.mul_eq_zero.mp h.symm with h1 | h1
      · exact h1
      · omega
    obtain ⟨z, rfl⟩ := wf_zero_val hf hw h0
    exact ofQ_zero d z
  · have hny : num y ≠ 0 := by
      intro h0
      rw [h0, Int.zero_mul] at h
      rcases Int.mul_eq_zero.mp h with h1 | h1
      · exact hn h1
      · omega
    have r1 : Rounds n d (F64.ofQ n d y.signBit) := ofQ_rounds n hd _
    have r2 : Rounds n d y := (rounds_congr hyp hd (by rw [h]) y).mp (rounds_self hf hw) |> fun t => t
    exact rounds_functional hd hn r1 r2


/-! ## 2. signs of products and quotients by a positive ratio -/

theorem ofQ_sign (n : Int) (d : Nat) (z : Bool) (hz : n ≠ 0 → z = decide (n < 0)) :
    F64.ofQ n d z = .inf z ∨ ∃ m e, F64.ofQ n d z = .fin z m e := by
  by_cases hn : n = 0
  · subst hn
    right
    exact ⟨0, F64.minExp, ofQ_zero d z⟩
  · unfold F64.ofQ
    rw [if_neg hn, ← hz hn]
    exact roundPos_sign z n.natAbs d

theorem num_sign_pos (n : Bool) (m : Nat) (e : Int) (hm : m ≠ 0) : (num (.fin n m e) < 0) ↔ n = true := by
  have : 0 < m * 2 ^ e.toNat := Nat.mul_pos (Nat.pos_of_ne_zero hm) (two_pow_pos _)
  cases n
  · show (((m * 2 ^ e.toNat : Nat) : Int)) < 0 ↔ _
    simp only [Bool.false_eq_true, iff_false]; omega
  · show (-(((m * 2 ^ e.toNat : Nat) : Int))) < 0 ↔ _
    simp only [iff_true]; omega

/-- the product of a finite `a` with a positive finite `r` has the sign bit of `a` -/
theorem mul_pos_sign (na : Bool) (ma : Nat) (ea : Int) (mr : Nat) (er : Int) (hr : mr ≠ 0) :
    F64.mul (.fin na ma ea) (.fin false mr er) = .inf na ∨
      ∃ m e, F64.mul (.fin na ma ea) (.fin false mr er) = .fin na m e := by
  rw [C13c.mul_eq]
  have hx : (na != false) = na := by cases na <;> rfl
  rw [hx]
  apply ofQ_sign
  intro hne
  have hma : ma ≠ 0 := by
    intro h0; subst h0; rw [num_zero, Int.zero_mul] at hne; exact hne rfl
  have hrp : 0 < num (.fin false mr er) := by
    have := (num_sign_pos false mr er hr)
    have h2 := num_ne_zero (n := false) (e := er) hr
    have : ¬ num (.fin false mr er) < 0 := fun h => by have := this.mp h; cases this
    omega
  have ha := num_sign_pos na ma ea hma
  cases na
  · have : ¬ num (.fin false ma ea) < 0 := fun h => by have := ha.mp h; cases this
    have h3 : 0 ≤ num (.fin false ma ea) * num (.fin false mr er) := Int.mul_nonneg (by omega) (by omega)
    simp only [Bool.false_eq, decide_eq_false_iff_not]; omega
  · have : num (.fin true ma ea) < 0 := ha.mpr rfl
    have h3 := Int.mul_neg_of_neg_of_pos this hrp
    simp only [Bool.true_eq, decide_eq_true_eq]; exact h3


/-! ## 3. `math.Round` -/

/-- the integer `math.Round` produces from the mantissa `m` at a negative exponent (`P = 2^-e`): nearest, halves up
    in magnitude -/
def roundK (m P : Nat) : Nat := m / P + if 2 * (m % P) ≥ P then 1 else 0

theorem sg_neg_one (n : Bool) (K : Nat) : sg n K - (if n then 1 else 0) + (if n then 0 else 1) = sg n (K + 1) := by
  cases n <;> simp [sg] <;> omega

theorem round_nonneg_exp (n : Bool) (m : Nat) (e : Int) (he : 0 ≤ e) : F64.round (.fin n m e) = .fin n m e := by
  simp only [F64.round]
  rw [if_pos he]

theorem round_neg_exp (n : Bool) (m : Nat) (e : Int) (he : e < 0) :
    F64.round (.fin n m e) = F64.ofQ (sg n (roundK m (2 ^ (-e).toNat))) 1 n := by
  have hge : ¬ e ≥ 0 := by omega
  simp only [F64.round]
  rw [if_neg hge]
  simp only [F64.fracGeHalf, F64.truncInt, if_neg hge, F64.ofIntSigned, roundK]
  generalize 2 ^ (-e).toNat = P
  by_cases hh : 2 * (m % P) ≥ P
  · simp only [hh, decide_true, if_true]
    cases n <;> simp [sg]
    congr 1; omega
  · simp only [hh, decide_false, Bool.false_eq_true, if_false, Nat.add_zero]
    cases n <;> simp [sg]

theorem sg_natAbs' (z : Bool) (K : Nat) : (sg z K).natAbs = K := by
  cases z <;> simp [sg]

theorem sg_lt_zero (z : Bool) {K : Nat} (hK : 0 < K) : decide (sg z K < 0) = z := by
  cases z
  · have : ¬ ((K : Int) < 0) := by omega
    simp [sg, this]
  · simp [sg, hK]

/-- an integer below `2^53` in magnitude, with the sign `z` (also for zero), is a double, and `ofQ` returns it -/
theorem ofQ_int (z : Bool) {K : Nat} (hK : K < 2 ^ 53) :
    ∃ m e, F64.ofQ (sg z K) 1 z = .fin z m e ∧ F64.WF (.fin z m e) ∧
      num (.fin z m e) = sg z K * (den (.fin z m e) : Int) := by
  by_cases h0 : K = 0
  · subst h0
    have : sg z 0 = 0 := by cases z <;> rfl
    rw [this, ofQ_zero]
    exact ⟨0, F64.minExp, rfl, wf_zero z, by rw [num_zero, Int.zero_mul]⟩
  · have hpos : 0 < K := by omega
    obtain ⟨E, j, hj, hwf, hr⟩ := roundPos_pow2_exact z (r := K) (lo := 0) hpos hK (by omega) (by omega)
    have e1 : K * 2 ^ (0 : Int).toNat = K := by simp
    have e2 : 2 ^ (-(0 : Int)).toNat = 1 := by simp
    rw [e1, e2] at hr
    have hne : sg z K ≠ 0 := by cases z <;> simp [sg] <;> omega
    have hof : F64.ofQ (sg z K) 1 z = F64.roundPos z K 1 := by
      unfold F64.ofQ
      rw [if_neg hne, sg_natAbs', sg_lt_zero z hpos]
    refine ⟨K * 2 ^ j, E, by rw [hof, hr], hwf, ?_⟩
    have hE : E.toNat = 0 := by omega
    have hE' : (-E).toNat = j := by omega
    have hnum : num (.fin z (K * 2 ^ j) E) = sg z (K * 2 ^ j) := by
      cases z <;> simp [num, sg, hE]
    have hden : den (.fin z (K * 2 ^ j) E) = 2 ^ j := by simp [den, hE']
    rw [hnum, hden, ← sg_mul]

theorem roundK_lt {m P : Nat} (hm : m < 2 ^ 53) (hP : 2 ≤ P) : roundK m P < 2 ^ 53 := by
  unfold roundK
  have h1 : m / P ≤ m / 2 := Nat.div_le_div_left hP (by decide)
  have h2 : m / 2 < 2 ^ 52 := by omega
  split <;> omega

theorem two_le_pow {k : Nat} (hk : 0 < k) : 2 ≤ 2 ^ k := by
  have : 2 ^ 1 ≤ 2 ^ k := Nat.pow_le_pow_right (by decide) hk
  omega

/-- **`math.Round` of a finite double** is a finite well-formed integer-valued double with the same sign bit -/
theorem round_fin (n : Bool) (m : Nat) (e : Int) (hw : F64.WF (.fin n m e)) :
    ∃ m' e', F64.round (.fin n m e) = .fin n m' e' ∧ F64.WF (.fin n m' e') ∧
      ∃ i : Int, num (.fin n m' e') = i * (den (.fin n m' e') : Int) := by
  by_cases he : 0 ≤ e
  · refine ⟨m, e, round_nonneg_exp n m e he, hw, num (.fin n m e), ?_⟩
    have : den (.fin n m e) = 1 := by
      have : (-e).toNat = 0 := by omega
      simp [den, this]
    rw [this]; omega
  · have he' : e < 0 := by omega
    obtain ⟨h53, _, _, _⟩ := wf_full hw
    have hP : 2 ≤ 2 ^ (-e).toNat := two_le_pow (by omega)
    obtain ⟨m', e', h1, h2, h3⟩ := ofQ_int n (roundK_lt h53 hP)
    exact ⟨m', e', by rw [round_neg_exp n m e he', h1], h2, _, h3⟩

/-- an integer-valued double is a fixed point of `math.Round` -/
theorem round_of_int (n : Bool) (m : Nat) (e : Int) (hw : F64.WF (.fin n m e)) (i : Int)
    (hi : num (.fin n m e) = i * (den (.fin n m e) : Int)) : F64.round (.fin n m e) = .fin n m e := by
  by_cases he : 0 ≤ e
  · exact round_nonneg_exp n m e he
  · have he' : e < 0 := by omega
    rw [round_neg_exp n m e he']
    have hP := two_pow_pos (-e).toNat
    have hna := congrArg Int.natAbs hi
    rw [natAbs_num, Int.natAbs_mul, Int.natAbs_natCast] at hna
    have h0 : e.toNat = 0 := by omega
    rw [h0, Nat.pow_zero, Nat.mul_one] at hna
    have hden : den (.fin n m e) = 2 ^ (-e).toNat := rfl
    rw [hden] at hna
    have hK : roundK m (2 ^ (-e).toNat) = i.natAbs := by
      unfold roundK
      rw [hna, Nat.mul_mod_left, Nat.mul_div_cancel _ hP]
      have : ¬ (2 * 0 ≥ 2 ^ (-e).toNat) := by omega
      rw [if_neg this, Nat.add_zero]
    rw [hK]
    have := ofQ_exact (n := sg n i.natAbs) (d := 1) (by decide) (y := .fin n m e) rfl hw (by
      have hnum : num (.fin n m e) = sg n m := by cases n <;> simp [num, sg, h0]
      rw [hnum, hden, hna, sg_mul]; simp)
    exact this

/-- a double of magnitude at most `1/4` rounds to the zero of its sign -/
theorem round_small (n : Bool) (m : Nat) (e : Int) (hw : F64.WF (.fin n m e))
    (h : 4 * (num (.fin n m e)).natAbs ≤ den (.fin n m e)) : F64.round (.fin n m e) = .fin n 0 F64.minExp := by
  rw [natAbs_num] at h
  have hden : den (.fin n m e) = 2 ^ (-e).toNat := rfl
  rw [hden] at h
  obtain ⟨_, _, _, hsub⟩ := wf_full hw
  have he' : e < 0 := by
    apply Classical.byContradiction
    intro hge
    have h0 : (-e).toNat = 0 := by omega
    rw [h0, Nat.pow_zero] at h
    have hp := two_pow_pos e.toNat
    have hm0 : m = 0 := by
      apply Classical.byContradiction
      intro hm
      have : 1 * 1 ≤ m * 2 ^ e.toNat := Nat.mul_le_mul (by omega) hp
      omega
    have := hsub (by omega)
    omega
  rw [round_neg_exp n m e he']
  have h0 : e.toNat = 0 := by omega
  rw [h0, Nat.pow_zero, Nat.mul_one] at h
  have hP := two_pow_pos (-e).toNat
  have hK : roundK m (2 ^ (-e).toNat) = 0 := by
    unfold roundK
    have hlt : m < 2 ^ (-e).toNat := by omega
    rw [Nat.div_eq_of_lt hlt, Nat.mod_eq_of_lt hlt]
    have : ¬ (2 * m ≥ 2 ^ (-e).toNat) := by omega
    rw [if_neg this]
  rw [hK]
  have : sg n 0 = 0 := by cases n <;> rfl
  rw [this, ofQ_zero]


/-! ## 4. shape of a ratio; the two branches of `decimalRound` -/

theorem ratio_shape {s : Int} {r : F64} (hR : RatioFacts s r) :
    ∃ mr er, r = .fin false mr er ∧ mr ≠ 0 := by
  obtain ⟨n, m, e, rfl⟩ := fin_of_finite hR.finite
  have hp := hR.pos
  have hm : m ≠ 0 := by
    intro h0; subst h0; rw [num_zero] at hp; omega
  cases n
  · exact ⟨m, e, rfl, hm⟩
  · exfalso
    have := (num_sign_pos true m e hm).mpr rfl
    omega

theorem decimalRound_inf {v r : F64} (h : (F64.mul v r).isInf = true) (hr : r.isFinite = true) :
    decimalRound v r = v := by
  have : r.isInf = false := by cases r <;> simp_all [F64.isInf, F64.isFinite]
  unfold decimalRound
  rw [h, this]
  rfl

theorem decimalRound_fin {v r : F64} (h : (F64.mul v r).isInf = false) :
    decimalRound v r = F64.div (F64.round (F64.mul v r)) r := by
  unfold decimalRound
  rw [h]
  rfl

/-- the scaled value `v * r`, when it does not overflow: finite, well formed, sign bit of `v`, correctly rounded -/
theorem scaled_fin (na : Bool) (ma : Nat) (ea : Int) (mr : Nat) (er : Int) (hr : mr ≠ 0)
    (h : (F64.mul (.fin na ma ea) (.fin false mr er)).isInf = false) :
    ∃ m e, F64.mul (.fin na ma ea) (.fin false mr er) = .fin na m e ∧ F64.WF (.fin na m e) ∧
      Rounds (num (.fin na ma ea) * num (.fin false mr er)) (den (.fin na ma ea) * den (.fin false mr er))
        (.fin na m e) := by
  have hrd := C13c.mul_correctly_rounded (.fin na ma ea) (.fin false mr er) rfl rfl
  rcases mul_pos_sign na ma ea mr er hr with hi | ⟨m, e, he⟩
  · rw [hi] at h; cases h
  · rw [he] at hrd
    exact ⟨m, e, he, (rounds_finite hrd rfl).1.wf, hrd⟩

/-! ## 5. (a) the result is finite when the ratio is at least one -/

theorem quot_pos (a : F64) (mr : Nat) (er : Int) (hr : mr ≠ 0) :
    C13c.quotNum a (.fin false mr er) = num a * (den (.fin false mr er) : Int) ∧
    C13c.quotDen a (.fin false mr er) = den a * (num (.fin false mr er)).natAbs := by
  have h2 : ¬ num (.fin false mr er) < 0 := fun h => by
    have := (num_sign_pos false mr er hr).mp h; cases this
  unfold C13c.quotNum C13c.quotDen
  rw [if_neg h2]
  exact ⟨rfl, rfl⟩

/-- the quotient `R / r` of a finite `R` by a positive finite `r`, as a rounding -/
theorem div_pos_rounds (R : F64) (hR : R.isFinite = true) (mr : Nat) (er : Int) (hr : mr ≠ 0) :
    Rounds (num R * (den (.fin false mr er) : Int)) (den R * (num (.fin false mr er)).natAbs)
      (F64.div R (.fin false mr er)) := by
  have := C13c.div_correctly_rounded R hR false mr er hr
  rw [(quot_pos R mr er hr).1, (quot_pos R mr er hr).2] at this
  exact this

/-- dividing a finite well-formed double by a ratio `≥ 1` cannot overflow -/
theorem div_ge_one_finite (R : F64) (hR : R.isFinite = true) (hRw : F64.WF R) (mr : Nat) (er : Int) (hr : mr ≠ 0)
    (h1 : (den (.fin false mr er) : Int) ≤ num (.fin false mr er)) :
    (F64.div R (.fin false mr er)).isFinite = true := by
  have hrd := div_pos_rounds R hR mr er hr
  apply finite_of_not_inf_nan _ (rounds_not_nan hrd)
  apply Classical.byContradiction
  intro hne
  have hi : (F64.div R (.fin false mr er)).isInf = true := by
    cases hx : (F64.div R (.fin false mr er)).isInf
    · exact absurd hx hne
    · rfl
  have hle := (rounds_inf_iff hrd).mp hi
  rw [← thr_def, Int.natAbs_mul, Int.natAbs_natCast] at hle
  have hlt := abs_lt_thr hR hRw
  have h1' : den (.fin false mr er) ≤ (num (.fin false mr er)).natAbs := by omega
  -- thr * (den R * |num r|) ≤ |num R| * den r < thr * den R * den r ≤ thr * den R * |num r|
  have hdr := den_pos (.fin false mr er)
  have a1 : (num R).natAbs * den (.fin false mr er) < thr * den R * den (.fin false mr er) :=
    Nat.mul_lt_mul_of_pos_right hlt hdr
  have a2 : thr * den R * den (.fin false mr er) ≤ thr * den R * (num (.fin false mr er)).natAbs :=
    Nat.mul_le_mul_left _ h1'
  rw [← Nat.mul_assoc] at hle
  omega

/-- **(a), for any ratio `≥ 1`**: `decimalRound v r` is finite -/
theorem decimalRound_finite {s : Int} {r : F64} (hR : RatioFacts s r) (hs : 0 ≤ s)
    {v : F64} (hv : v.isFinite = true) (hvw : F64.WF v) : (decimalRound v r).isFinite = true := by
  obtain ⟨mr, er, rfl, hmr⟩ := ratio_shape hR
  obtain ⟨na, ma, ea, rfl⟩ := fin_of_finite hv
  cases hi : (F64.mul (.fin na ma ea) (.fin false mr er)).isInf
  · rw [decimalRound_fin hi]
    obtain ⟨m, e, he, hw, _⟩ := scaled_fin na ma ea mr er hmr hi
    rw [he]
    obtain ⟨m', e', h1, h2, _⟩ := round_fin na m e hw
    rw [h1]
    exact div_ge_one_finite _ rfl h2 mr er hmr (hR.ge_one hs).1
  · rw [decimalRound_inf hi rfl]
    rfl

/-! ## 6. (b) when the scaled value overflows, the value has no digits beyond the scale -/

/-- overflow of `v * r` (finite `r`, `RatioFacts`): the scale is positive, the binary exponent of `v` is at least
    `-scale` and at least `-52` -/
theorem overflow_exponent {s : Int} {mr : Nat} {er : Int} (hR : RatioFacts s (.fin false mr er))
    (na : Bool) (ma : Nat) (ea : Int) (hvw : F64.WF (.fin na ma ea))
    (hi : (F64.mul (.fin na ma ea) (.fin false mr er)).isInf = true) :
    0 < s ∧ -ea ≤ s ∧ -ea ≤ 52 := by
  have hrd := C13c.mul_correctly_rounded (.fin na ma ea) (.fin false mr er) rfl rfl
  have hle := (rounds_inf_iff hrd).mp hi
  rw [← thr_def, Int.natAbs_mul] at hle
  have hlt := abs_lt_thr (x := .fin na ma ea) rfl hvw
  have hltr := abs_lt_thr hR.finite hR.wf
  have hda := den_pos (.fin na ma ea)
  have hdr := den_pos (.fin false mr er)
  have hrp := hR.pos
  obtain ⟨h53, _, _, _⟩ := wf_full hvw
  generalize hA : (num (.fin false mr er)).natAbs = Nr at *
  have hNr : (Nr : Int) = num (.fin false mr er) := by omega
  -- s > 0
  have hs : 0 < s := by
    apply Classical.byContradiction
    intro hns
    have h1 := hR.le_one (by omega)
    have h1' : Nr ≤ den (.fin false mr er) := by omega
    have a1 : (num (.fin na ma ea)).natAbs * Nr ≤ (num (.fin na ma ea)).natAbs * den (.fin false mr er) :=
      Nat.mul_le_mul_left _ h1'
    have a2 : (num (.fin na ma ea)).natAbs * den (.fin false mr er) <
        thr * den (.fin na ma ea) * den (.fin false mr er) := Nat.mul_lt_mul_of_pos_right hlt hdr
    rw [← Nat.mul_assoc] at hle
    omega
  refine ⟨hs, ?_, ?_⟩
  · -- -ea ≤ s
    apply Classical.byContradiction
    intro hgt
    have hb := (hR.ge_one (by omega)).2
    rw [← hNr] at hb
    have hb' : Nr * 2 ^ 52 < thr * 2 ^ s.toNat * den (.fin false mr er) := by exact_mod_cast hb
    have hea : ea.toNat = 0 := by omega
    rw [natAbs_num, hea, Nat.pow_zero, Nat.mul_one] at hle
    have hden : den (.fin na ma ea) = 2 ^ (-ea).toNat := rfl
    rw [hden] at hle
    obtain ⟨j, hj⟩ : ∃ j, (-ea).toNat = s.toNat + 1 + j := ⟨(-ea).toNat - s.toNat - 1, by omega⟩
    rw [hj, Nat.pow_add, Nat.pow_add] at hle
    have hjp := two_pow_pos j
    generalize 2 ^ j = J at *
    generalize 2 ^ s.toNat = S at *
    generalize den (.fin false mr er) = Dr at *
    -- thr * (S * 2 * J * Dr) ≤ ma * Nr < 2^53 * Nr = 2 * (Nr * 2^52) < 2 * thr * S * Dr
    have a1 : ma * Nr ≤ 2 ^ 53 * Nr := Nat.mul_le_mul_right _ (by omega)
    have a2 : thr * (S * 2 ^ 1 * 1 * Dr) ≤ thr * (S * 2 ^ 1 * J * Dr) :=
      Nat.mul_le_mul_left _ (Nat.mul_le_mul_right _ (Nat.mul_le_mul_left _ hjp))
    have a3 : thr * (S * 2 ^ 1 * 1 * Dr) = 2 * (thr * S * Dr) := by
      rw [Nat.mul_one, Nat.pow_one]
      simp only [Nat.mul_assoc, Nat.mul_comm, Nat.mul_left_comm]
    omega
  · -- -ea ≤ 52 : |v| > 1
    apply Classical.byContradiction
    intro hgt
    have hea : ea.toNat = 0 := by omega
    rw [natAbs_num, hea, Nat.pow_zero, Nat.mul_one] at hle
    have hden : den (.fin na ma ea) = 2 ^ (-ea).toNat := rfl
    rw [hden] at hle
    obtain ⟨j, hj⟩ : ∃ j, (-ea).toNat = 53 + j := ⟨(-ea).toNat - 53, by omega⟩
    rw [hj, Nat.pow_add] at hle
    have hjp := two_pow_pos j
    generalize 2 ^ j = J at *
    generalize den (.fin false mr er) = Dr at *
    -- thr * (2^53 * J * Dr) ≤ ma * Nr < 2^53 * (thr * Dr)
    have a1 : ma * Nr ≤ 2 ^ 53 * Nr := Nat.mul_le_mul_right _ (by omega)
    have a2 : 2 ^ 53 * Nr < 2 ^ 53 * (thr * Dr) := Nat.mul_lt_mul_of_pos_left hltr (by decide)
    have a3 : thr * (2 ^ 53 * 1 * Dr) ≤ thr * (2 ^ 53 * J * Dr) :=
      Nat.mul_le_mul_left _ (Nat.mul_le_mul_right _ (Nat.mul_le_mul_left _ hjp))
    have a4 : thr * (2 ^ 53 * 1 * Dr) = 2 ^ 53 * (thr * Dr) := by
      rw [Nat.mul_one]
      simp only [Nat.mul_assoc, Nat.mul_comm, Nat.mul_left_comm]
    omega

theorem ten_pow_split (s : Nat) : (10 : Nat) ^ s = 2 ^ s * 5 ^ s := by
  rw [← Nat.mul_pow]

/-- a double whose binary exponent is at least `-s` is an integer multiple of `10^-s` -/
theorem multiple_of_exponent (na : Bool) (ma : Nat) (ea : Int) (s : Int) (hs : 0 ≤ s) (he : -ea ≤ s) :
    ∃ k : Int, num (.fin na ma ea) * ((10 ^ s.toNat : Nat) : Int) = k * (den (.fin na ma ea) : Int) := by
  have hden : den (.fin na ma ea) = 2 ^ (-ea).toNat := rfl
  obtain ⟨j, hj⟩ : ∃ j, s.toNat = (-ea).toNat + j := ⟨s.toNat - (-ea).toNat, by omega⟩
  refine ⟨num (.fin na ma ea) * ((2 ^ j * 5 ^ s.toNat : Nat) : Int), ?_⟩
  have h2 : 2 ^ s.toNat = 2 ^ (-ea).toNat * 2 ^ j := by rw [hj, Nat.pow_add]
  rw [hden, ten_pow_split, h2]
  generalize 2 ^ (-ea).toNat = P
  generalize 5 ^ s.toNat = F
  generalize 2 ^ j = J
  simp only [Int.natCast_mul]
  ac_rfl


/-! ## 7. (d) scales outside the range of `math.Pow10`; tiny ratios -/

/-- ratio `+Inf` (scale > 308): the result is NaN for **every** input -/
theorem decimalRound_ratio_inf (v : F64) : decimalRound v (.inf false) = .nan := by
  cases v with
  | nan => rfl
  | inf x => rfl
  | fin n m e =>
    by_cases hm : m = 0
    · subst hm; rfl
    · unfold decimalRound
      simp [F64.mul, hm, F64.isInf, F64.round, F64.div]

/-- ratio `+0` (scale < -323): the result is NaN for **every** input -/
theorem decimalRound_ratio_zero (v : F64) : decimalRound v (.fin false 0 F64.minExp) = .nan := by
  cases v with
  | nan => rfl
  | inf x => rfl
  | fin n m e =>
    have hmul := C13c.mul_zero_sign n m e false 0 F64.minExp (Or.inr rfl)
    have hi : (F64.mul (.fin n m e) (.fin false 0 F64.minExp)).isInf = false := by rw [hmul]; rfl
    rw [decimalRound_fin hi, hmul]
    have hr : F64.round (.fin (n != false) 0 F64.minExp) = .fin (n != false) 0 F64.minExp :=
      round_small _ 0 _ (wf_zero _) (by rw [num_zero]; exact Nat.zero_le _)
    rw [hr, C13c.div_by_zero]
    rfl

/-- monotonicity against a double: the rounding of a fraction `≤ y` is `≤ y` -/
theorem rounds_le_of_le {n : Int} {d : Nat} (hd : 0 < d) {x : F64} (hx : Rounds n d x) (hxf : x.isFinite = true)
    {y : F64} (hyf : y.isFinite = true) (hyw : F64.WF y) (h : n * (den y : Int) ≤ num y * (d : Int)) :
    num x * (den y : Int) ≤ num y * (den x : Int) := by
  have hyp := den_pos y
  have hD : 0 < d * den y := Nat.mul_pos hd hyp
  have r1 : Rounds (n * (den y : Int)) (d * den y) x :=
    (rounds_congr hd hD (by rw [Int.natCast_mul]; ac_rfl) x).mp hx
  have r2 : Rounds (num y * (d : Int)) (d * den y) y :=
    (rounds_congr hyp hD (by rw [Int.natCast_mul]; ac_rfl) y).mp
      (rounds_self hyf hyw)
  exact rounds_mono hD h r1 r2 hxf hyf

theorem rounds_ge_of_ge {n : Int} {d : Nat} (hd : 0 < d) {x : F64} (hx : Rounds n d x) (hxf : x.isFinite = true)
    {y : F64} (hyf : y.isFinite = true) (hyw : F64.WF y) (h : num y * (d : Int) ≤ n * (den y : Int)) :
    num y * (den x : Int) ≤ num x * (den y : Int) := by
  have hyp := den_pos y
  have hD : 0 < d * den y := Nat.mul_pos hd hyp
  have r1 : Rounds (n * (den y : Int)) (d * den y) x :=
    (rounds_congr hd hD (by rw [Int.natCast_mul]; ac_rfl) x).mp hx
  have r2 : Rounds (num y * (d : Int)) (d * den y) y :=
    (rounds_congr hyp hD (by rw [Int.natCast_mul]; ac_rfl) y).mp
      (rounds_self hyf hyw)
  exact rounds_mono hD h r2 r1 hyf hxf

/-- the doubles `±1/4` -/
def quarter (n : Bool) : F64 := .fin n (2 ^ 52) (-54)

theorem quarter_wf (n : Bool) : F64.WF (quarter n) := by cases n <;> decide
theorem quarter_num (n : Bool) : num (quarter n) = sg n (2 ^ 52) := by cases n <;> rfl
theorem quarter_den (n : Bool) : den (quarter n) = 2 ^ 54 := rfl

set_option exponentiation.threshold 2000 in
theorem thr_le_pow : thr ≤ 2 ^ 1024 := by decide +kernel

set_option exponentiation.threshold 2000 in
theorem pow_1026_split : (2 : Nat) ^ 1026 = 4 * 2 ^ 1024 := by decide +kernel

set_option exponentiation.threshold 2000 in
/-- **a ratio below `2^-1026` (scales −323 … −309)**: the result is the zero with the sign of `v`, for every finite `v` -/
theorem decimalRound_tiny {s : Int} {r : F64} (hR : RatioFacts s r) (hs : s ≤ -309)
    (na : Bool) (ma : Nat) (ea : Int) (hvw : F64.WF (.fin na ma ea)) :
    decimalRound (.fin na ma ea) r = .fin na 0 F64.minExp := by
  obtain ⟨mr, er, rfl, hmr⟩ := ratio_shape hR
  have htiny := hR.tiny hs
  have hrp := hR.pos
  have hlt := abs_lt_thr (x := .fin na ma ea) rfl hvw
  have hda := den_pos (.fin na ma ea)
  have hdr := den_pos (.fin false mr er)
  generalize hA : (num (.fin false mr er)).natAbs = Nr at *
  have hNr : num (.fin false mr er) = (Nr : Int) := by omega
  -- 4 * |num v| * Nr ≤ den v * den r
  have hprod : 4 * ((num (.fin na ma ea)).natAbs * Nr) ≤ den (.fin na ma ea) * den (.fin false mr er) := by
    rw [hNr] at htiny
    have ht : Nr * 2 ^ 1026 < den (.fin false mr er) := by exact_mod_cast htiny
    rw [pow_1026_split] at ht
    have h1 : (num (.fin na ma ea)).natAbs ≤ 2 ^ 1024 * den (.fin na ma ea) :=
      Nat.le_trans (Nat.le_of_lt hlt) (Nat.mul_le_mul_right _ thr_le_pow)
    generalize (2 : Nat) ^ 1024 = T at *
    generalize (num (.fin na ma ea)).natAbs = A at *
    generalize den (.fin na ma ea) = Da at *
    generalize den (.fin false mr er) = Dr at *
    have h2 : A * Nr ≤ T * Da * Nr := Nat.mul_le_mul_right _ h1
    have h3 : 4 * (T * Da * Nr) = Da * (Nr * (4 * T)) := by
      ac_rfl
    have h4 : Da * (Nr * (4 * T)) ≤ Da * Dr := Nat.mul_le_mul_left _ (Nat.le_of_lt ht)
    omega
  have hi : (F64.mul (.fin na ma ea) (.fin false mr er)).isInf = false := by
    cases hx : (F64.mul (.fin na ma ea) (.fin false mr er)).isInf
    · rfl
    · exfalso
      have hrd := C13c.mul_correctly_rounded (.fin na ma ea) (.fin false mr er) rfl rfl
      have hle := (rounds_inf_iff hrd).mp hx
      rw [← thr_def, Int.natAbs_mul, hA] at hle
      have : 4 ≤ thr := Nat.le_trans (by decide) two53_le_thr
      have h5 : 4 * (den (.fin na ma ea) * den (.fin false mr er)) ≤ thr * (den (.fin na ma ea) * den (.fin false mr er)) :=
        Nat.mul_le_mul_right _ this
      have h6 := Nat.mul_pos hda hdr
      omega
  obtain ⟨m, e, he, hw, hrd⟩ := scaled_fin na ma ea mr er hmr hi
  rw [decimalRound_fin hi, he]
  have hD := Nat.mul_pos hda hdr
  -- |S| ≤ 1/4
  have hsmall : 4 * (num (.fin na m e)).natAbs ≤ den (.fin na m e) := by
    have hn : (num (.fin na ma ea) * num (.fin false mr er)).natAbs = (num (.fin na ma ea)).natAbs * Nr := by
      rw [Int.natAbs_mul, hA]
    have u := rounds_le_of_le hD hrd rfl (y := quarter false) rfl (quarter_wf _) (by
      rw [quarter_num, quarter_den, sg_false]
      generalize num (.fin na ma ea) * num (.fin false mr er) = P at *
      generalize den (.fin na ma ea) * den (.fin false mr er) = Q at *
      generalize (num (.fin na ma ea)).natAbs * Nr = W at *
      omega)
    have l := rounds_ge_of_ge hD hrd rfl (y := quarter true) rfl (quarter_wf _) (by
      rw [quarter_num, quarter_den, sg_true]
      generalize num (.fin na ma ea) * num (.fin false mr er) = P at *
      generalize den (.fin na ma ea) * den (.fin false mr er) = Q at *
      generalize (num (.fin na ma ea)).natAbs * Nr = W at *
      omega)
    rw [quarter_num, quarter_den] at u l
    rw [sg_false] at u
    rw [sg_true] at l
    generalize num (.fin na m e) = P at *
    generalize den (.fin na m e) = Q at *
    omega
  rw [round_small na m e hw hsmall, C13c.div_zero_sign _ _ _ _ _ hmr]
  cases na <;> rfl


/-! ## 8. (c) exact cases -/

theorem num_eq_sg (n : Bool) (m : Nat) (e : Int) : num (.fin n m e) = sg n (m * 2 ^ e.toNat) := by
  cases n <;> rfl

/-- a product whose exact value is the well-formed double `y` (sign bit of `a`) is `y` -/
theorem mul_exact (na : Bool) (ma : Nat) (ea : Int) (mr : Nat) (er : Int) {y : F64}
    (hyf : y.isFinite = true) (hyw : F64.WF y) (hys : y.signBit = na)
    (h : num (.fin na ma ea) * num (.fin false mr er) * (den y : Int) =
      num y * ((den (.fin na ma ea) * den (.fin false mr er) : Nat) : Int)) :
    F64.mul (.fin na ma ea) (.fin false mr er) = y := by
  rw [C13c.mul_eq]
  have hx : (na != false) = na := by cases na <;> rfl
  rw [hx]
  have := ofQ_exact (C13c.den_mul_pos _ _) hyf hyw h
  rw [hys] at this
  exact this

/-- a quotient by a positive ratio whose exact value is the well-formed double `y` (sign bit of `R`) is `y` -/
theorem div_exact (nR : Bool) (mR : Nat) (eR : Int) (mr : Nat) (er : Int) (hmr : mr ≠ 0) {y : F64}
    (hyf : y.isFinite = true) (hyw : F64.WF y) (hys : y.signBit = nR)
    (h : num (.fin nR mR eR) * (den (.fin false mr er) : Int) * (den y : Int) =
      num y * ((den (.fin nR mR eR) * (num (.fin false mr er)).natAbs : Nat) : Int)) :
    F64.div (.fin nR mR eR) (.fin false mr er) = y := by
  have hrd := div_pos_rounds (.fin nR mR eR) rfl mr er hmr
  have hq : 0 < den (.fin nR mR eR) * (num (.fin false mr er)).natAbs := by
    have := num_ne_zero (n := false) (e := er) hmr
    exact Nat.mul_pos (den_pos _) (by omega)
  have hyp := den_pos y
  by_cases h0 : mR = 0
  · subst h0
    rw [C13c.div_zero_sign _ _ _ _ _ hmr]
    rw [num_zero, Int.zero_mul, Int.zero_mul] at h
    have hy0 : num y = 0 := by
      rcases Int.mul_eq_zero.mp h.symm with h1 | h1
      · exact h1
      · omega
    obtain ⟨z, rfl⟩ := wf_zero_val hyf hyw hy0
    have : z = nR := hys
    subst this
    cases z <;> rfl
  · have hne : num (.fin nR mR eR) * (den (.fin false mr er) : Int) ≠ 0 := by
      have h1 := num_ne_zero (n := nR) (e := eR) h0
      have h2 := den_pos (.fin false mr er)
      exact Int.mul_ne_zero h1 (by omega)
    have r2 : Rounds (num (.fin nR mR eR) * (den (.fin false mr er) : Int))
        (den (.fin nR mR eR) * (num (.fin false mr er)).natAbs) y :=
      (rounds_congr hyp hq h.symm y).mp (rounds_self hyf hyw)
    exact rounds_functional hq hne hrd r2

/-- the double `1.0` — `math.Pow10(0)` -/
def one : F64 := .fin false (2 ^ 52) (-52)

/-- **ratio `1` (scale 0)**: `decimalRound v 1 = math.Round(v)` for every finite well-formed `v` — both the
    multiplication and the division by `1` are exact -/
theorem decimalRound_one (na : Bool) (ma : Nat) (ea : Int) (hvw : F64.WF (.fin na ma ea)) :
    decimalRound (.fin na ma ea) one = F64.round (.fin na ma ea) := by
  have hone_n : num one = ((2 ^ 52 : Nat) : Int) := rfl
  have hone_d : den one = 2 ^ 52 := rfl
  have hm : F64.mul (.fin na ma ea) one = .fin na ma ea := by
    apply mul_exact na ma ea (2 ^ 52) (-52) rfl hvw rfl
    show num (.fin na ma ea) * num one * _ = _ * ((den (.fin na ma ea) * den one : Nat) : Int)
    rw [hone_n, hone_d, Int.natCast_mul]
    ac_rfl
  have hi : (F64.mul (.fin na ma ea) one).isInf = false := by rw [hm]; rfl
  rw [decimalRound_fin hi, hm]
  obtain ⟨m', e', h1, h2, _⟩ := round_fin na ma ea hvw
  rw [h1]
  apply div_exact na m' e' (2 ^ 52) (-52) (by decide) rfl h2 rfl
  show _ * (den one : Int) * _ = _ * ((_ * (num one).natAbs : Nat) : Int)
  rw [hone_n, hone_d, Int.natAbs_natCast, Int.natCast_mul]
  ac_rfl

/-- **exact ratio `10^s` (0 ≤ s ≤ 22), value with at most `s` decimals whose scaled value `K` is below `2^53`**:
    the value is returned unchanged -/
theorem decimalRound_unchanged {s : Int} {r : F64} (hR : RatioFacts s r) (hs0 : 0 ≤ s) (hs : s ≤ 22)
    (na : Bool) (ma : Nat) (ea : Int) (hvw : F64.WF (.fin na ma ea))
    (K : Nat) (hK : K < 2 ^ 53)
    (hv : (num (.fin na ma ea)).natAbs * 10 ^ s.toNat = K * den (.fin na ma ea)) :
    decimalRound (.fin na ma ea) r = .fin na ma ea := by
  obtain ⟨mr, er, rfl, hmr⟩ := ratio_shape hR
  have hex := hR.exact hs0 hs
  obtain ⟨m, e, _, hYw, hYn⟩ := ofQ_int na hK
  -- signed form of the hypothesis
  have hvs : num (.fin na ma ea) * ((10 ^ s.toNat : Nat) : Int) = sg na K * (den (.fin na ma ea) : Int) := by
    rw [num_eq_sg, sg_mul, sg_mul]
    rw [natAbs_num] at hv
    rw [hv]
  have hm : F64.mul (.fin na ma ea) (.fin false mr er) = .fin na m e := by
    apply mul_exact na ma ea mr er rfl hYw rfl
    rw [hex, hYn, Int.natCast_mul, Int.natCast_mul]
    generalize num (.fin na ma ea) = A at *
    generalize ((10 ^ s.toNat : Nat) : Int) = T at *
    generalize (den (.fin na ma ea) : Int) = Da at *
    generalize (den (.fin false mr er) : Int) = Dr at *
    generalize (den (.fin na m e) : Int) = Dy at *
    generalize sg na K = SK at *
    calc A * (T * Dr) * Dy = (A * T) * (Dr * Dy) := by
          ac_rfl
      _ = (SK * Da) * (Dr * Dy) := by rw [hvs]
      _ = SK * Dy * (Da * Dr) := by ac_rfl
  have hi : (F64.mul (.fin na ma ea) (.fin false mr er)).isInf = false := by rw [hm]; rfl
  rw [decimalRound_fin hi, hm, round_of_int na m e hYw _ hYn]
  apply div_exact na m e mr er hmr rfl hvw rfl
  have hnr : ((num (.fin false mr er)).natAbs : Int) = num (.fin false mr er) := by
    have := hR.pos; omega
  rw [Int.natCast_mul, hnr, hex, hYn, Int.natCast_mul]
  generalize num (.fin na ma ea) = A at *
  generalize ((10 ^ s.toNat : Nat) : Int) = T at *
  generalize (den (.fin na ma ea) : Int) = Da at *
  generalize (den (.fin false mr er) : Int) = Dr at *
  generalize (den (.fin na m e) : Int) = Dy at *
  generalize sg na K = SK at *
  calc SK * Dy * Dr * Da = (SK * Da) * (Dy * Dr) := by
        ac_rfl
    _ = (A * T) * (Dy * Dr) := by rw [hvs]
    _ = A * (Dy * (T * Dr)) := by ac_rfl

/-! ## 9. the executor function in terms of `decimalRound` -/

/-- the digit check of `executeDecimalMethod`: rejected iff the count of `1`…`9` before the point is positive and
    exceeds `precision − scale` -/
def rejected (p s : Int) (x : F64) : Bool :=
  decide ((countNonZeroDigits (Decimal.formatF x) : Int) > 0) &&
    decide ((countNonZeroDigits (Decimal.formatF x) : Int) > p - s)

theorem getNodeInt32_integer (i : Int) (nx : Option Node) (h1 : Num.minInt32 ≤ i) (h2 : i ≤ Num.maxInt32) :
    getNodeInt32 (.integer i nx) = .ok i := by
  have : (decide (i > Num.maxInt32) || decide (i < Num.minInt32)) = false := by
    simp only [Bool.or_eq_false_iff, decide_eq_false_iff_not]; omega
  simp only [getNodeInt32, this]
  rfl

theorem getNodeInt32_ok {n : Node} {i : Int} (h : getNodeInt32 n = .ok i) : ∃ nx, n = .integer i nx := by
  cases n <;> simp only [getNodeInt32] at h <;> try cases h
  rename_i j nx
  split at h
  · cases h
  · cases h; exact ⟨nx, rfl⟩

/-- **with valid arguments** the method is: compute `decimalRound num (Pow10 scale)`; an infinite value is the
    suppressible error; otherwise the digit check -/
theorem exec_eq (p s : Int) (l r : Option Node) (num : F64) (hl : intArg l = some p) (hr : scaleArg r = some s)
    (hp1 : 1 ≤ p) (hp2 : p ≤ 1000) (hs1 : -1000 ≤ s) (hs2 : s ≤ 1000) :
    executeDecimalMethod l r num =
      if (decimalRound num (F64.pow10 s)).isInf then .error .verbose
      else if rejected p s (decimalRound num (F64.pow10 s)) then .error .verbose
      else .ok (decimalRound num (F64.pow10 s)) := by
  have hmin : Num.minInt32 = -2147483648 := rfl
  have hmax : Num.maxInt32 = 2147483647 := rfl
  obtain ⟨n1, rfl⟩ : ∃ n1, l = some (.integer p n1) := by
    cases l with
    | none => cases hl
    | some ln => cases ln <;> simp only [intArg] at hl <;> try cases hl
                 exact ⟨_, rfl⟩
  have hpp : (decide (p < 1) || decide (p > 1000)) = false := by
    simp only [Bool.or_eq_false_iff, decide_eq_false_iff_not]; omega
  have hss : (decide (s < -1000) || decide (s > 1000)) = false := by
    simp only [Bool.or_eq_false_iff, decide_eq_false_iff_not]; omega
  cases r with
  | none =>
    have : s = 0 := by cases hr; rfl
    subst this
    simp only [executeDecimalMethod, getNodeInt32_integer p n1 (by omega) (by omega), hpp, Bool.false_eq_true,
      if_false, rejected, decimalRound]
    rfl
  | some rn =>
    obtain ⟨n2, rfl⟩ : ∃ n2, rn = .integer s n2 := by
      cases rn <;> simp only [scaleArg, intArg] at hr <;> try cases hr
      exact ⟨_, rfl⟩
    simp only [executeDecimalMethod, getNodeInt32_integer p n1 (by omega) (by omega),
      getNodeInt32_integer s n2 (by omega) (by omega), hpp, hss, Bool.false_eq_true,
      if_false, rejected, decimalRound]
    rfl

/-- **every successful call**: either there are no arguments and the value is returned as it is, or the arguments are
    integer literals in range, the result is `decimalRound num (Pow10 scale)`, it is not infinite, and it passed the digit
    check -/
theorem exec_ok_cases {l r : Option Node} {num x : F64} (h : executeDecimalMethod l r num = .ok x) :
    (l = none ∧ x = num) ∨
    ∃ p s, intArg l = some p ∧ scaleArg r = some s ∧ 1 ≤ p ∧ p ≤ 1000 ∧ -1000 ≤ s ∧ s ≤ 1000 ∧
      x = decimalRound num (F64.pow10 s) ∧ x.isInf = false ∧ rejected p s x = false := by
  cases l with
  | none => left; simp only [executeDecimalMethod] at h; cases h; exact ⟨rfl, rfl⟩
  | some ln =>
    right
    cases hg : getNodeInt32 ln with
    | error e => simp only [executeDecimalMethod, hg] at h; cases h
    | ok p =>
      obtain ⟨n1, rfl⟩ := getNodeInt32_ok hg
      by_cases hpp : (decide (p < 1) || decide (p > 1000)) = true
      · simp only [executeDecimalMethod, hg, hpp, if_true] at h; cases h
      · have hp : 1 ≤ p ∧ p ≤ 1000 := by
          simp only [Bool.or_eq_true, decide_eq_true_eq, not_or] at hpp; omega
        have hsc : ∃ s, scaleArg r = some s ∧ -1000 ≤ s ∧ s ≤ 1000 := by
          cases r with
          | none => exact ⟨0, rfl, by omega, by omega⟩
          | some rn =>
            cases hg2 : getNodeInt32 rn with
            | error e => simp only [executeDecimalMethod, hg, hg2, hpp, Bool.false_eq_true, if_false] at h; cases h
            | ok sc =>
              obtain ⟨n2, rfl⟩ := getNodeInt32_ok hg2
              by_cases hss : (decide (sc < -1000) || decide (sc > 1000)) = true
              · simp only [executeDecimalMethod, hg, hg2, hpp, hss, Bool.false_eq_true, if_false, if_true] at h
                cases h
              · refine ⟨sc, rfl, ?_⟩
                simp only [Bool.or_eq_true, decide_eq_true_eq, not_or] at hss; omega
        obtain ⟨s, hs, hs1, hs2⟩ := hsc
        have he := exec_eq p s (some (.integer p n1)) r num rfl hs hp.1 hp.2 hs1 hs2
        rw [he] at h
        refine ⟨p, s, rfl, hs, hp.1, hp.2, hs1, hs2, ?_⟩
        cases hinf : (decimalRound num (F64.pow10 s)).isInf
        · rw [hinf] at h
          simp only [Bool.false_eq_true, if_false] at h
          cases hrj : rejected p s (decimalRound num (F64.pow10 s))
          · rw [hrj] at h
            simp only [Bool.false_eq_true, if_false] at h
            cases h
            exact ⟨rfl, hinf, hrj⟩
          · rw [hrj] at h
            simp only [if_true] at h
            cases h
        · rw [hinf] at h
          simp only [if_true] at h
          cases h

/-- a call with valid arguments whose rounded value is `x`, not infinite and passing the digit check, returns `x` -/
theorem exec_ok_of (p s : Int) (l r : Option Node) (num x : F64) (hl : intArg l = some p) (hr : scaleArg r = some s)
    (hp1 : 1 ≤ p) (hp2 : p ≤ 1000) (hs1 : -1000 ≤ s) (hs2 : s ≤ 1000)
    (hx : decimalRound num (F64.pow10 s) = x) (hinf : x.isInf = false) (hrej : rejected p s x = false) :
    executeDecimalMethod l r num = .ok x := by
  rw [exec_eq p s l r num hl hr hp1 hp2 hs1 hs2, hx, hinf, hrej]
  rfl

/-- … whose rounded value is infinite: the suppressible error -/
theorem exec_err_of_inf (p s : Int) (l r : Option Node) (num : F64) (hl : intArg l = some p) (hr : scaleArg r = some s)
    (hp1 : 1 ≤ p) (hp2 : p ≤ 1000) (hs1 : -1000 ≤ s) (hs2 : s ≤ 1000)
    (hinf : (decimalRound num (F64.pow10 s)).isInf = true) :
    executeDecimalMethod l r num = .error .verbose := by
  rw [exec_eq p s l r num hl hr hp1 hp2 hs1 hs2, hinf]
  rfl

/-- … whose rounded value fails the digit check: the suppressible error -/
theorem exec_err_of_rejected (p s : Int) (l r : Option Node) (num : F64) (hl : intArg l = some p)
    (hr : scaleArg r = some s) (hp1 : 1 ≤ p) (hp2 : p ≤ 1000) (hs1 : -1000 ≤ s) (hs2 : s ≤ 1000)
    (hrej : rejected p s (decimalRound num (F64.pow10 s)) = true) :
    executeDecimalMethod l r num = .error .verbose := by
  rw [exec_eq p s l r num hl hr hp1 hp2 hs1 hs2, hrej]
  cases (decimalRound num (F64.pow10 s)).isInf <;> rfl

section
open FloatText JNum

/-! ## 10. (e) the digit count -/

/-- one of the characters `1` … `9` -/
def isNZ (ch : Char) : Bool := '1' ≤ ch && ch ≤ '9'

/-- the text up to the first `.` -/
def intText (t : List Char) : List Char := t.takeWhile (fun ch => ch != '.')

/-- **`countNonZeroDigits`** is the number of characters `1`…`9` before the first point -/
theorem count_eq (t : List Char) : countNonZeroDigits t = ((intText t).filter isNZ).length := by
  induction t with
  | nil => rfl
  | cons ch rest ih =>
    unfold countNonZeroDigits intText
    by_cases hc : ch = '.'
    · subst hc; rfl
    · have hne : (ch != '.') = true := by simp [hc]
      rw [if_neg hc, List.takeWhile_cons_of_pos (p := fun ch => ch != '.') hne]
      show _ = (List.filter isNZ (ch :: intText rest)).length
      rw [ih, List.filter_cons]
      by_cases hz : isNZ ch = true
      · have hz' : (decide ('1' ≤ ch) && decide (ch ≤ '9')) = true := hz
        rw [if_pos hz, if_pos hz', List.length_cons]; omega
      · have hz' : ¬ (decide ('1' ≤ ch) && decide (ch ≤ '9')) = true := hz
        rw [if_neg hz, if_neg hz']; omega

theorem isDigit_ne_dot {c : Char} (h : Decimal.isDigit c = true) : (c != '.') = true := by
  have : c ≠ '.' := by
    intro hc; subst hc; revert h; decide
  simp [this]

theorem intText_allDig {a : List Char} (ha : AllDig a) : intText a = a := by
  unfold intText
  induction a with
  | nil => rfl
  | cons c cs ih =>
    have hc := isDigit_ne_dot (ha c (List.mem_cons_self))
    rw [List.takeWhile_cons_of_pos (p := fun ch => ch != '.') hc, ih (fun x hx => ha x (List.mem_cons_of_mem _ hx))]

theorem intText_allDig_dot {a b : List Char} (ha : AllDig a) : intText (a ++ '.' :: b) = a := by
  unfold intText
  induction a with
  | nil => rfl
  | cons c cs ih =>
    have hc := isDigit_ne_dot (ha c (List.mem_cons_self))
    rw [List.cons_append, List.takeWhile_cons_of_pos (p := fun ch => ch != '.') hc, ih (fun x hx => ha x (List.mem_cons_of_mem _ hx))]

/-- the integer part of the `%f` layout of `digs * 10^p` -/
def intPart (digs : List Char) (p : Int) : List Char :=
  if p ≥ 0 then digs ++ Decimal.zeros p.toNat
  else if digs.length > (-p).toNat then digs.take (digs.length - (-p).toNat) else ['0']

theorem intText_layoutF {digs : List Char} (hall : AllDig digs) (p : Int) :
    intText (Decimal.layoutF digs p) = intPart digs p := by
  unfold Decimal.layoutF intPart
  by_cases hp : p ≥ 0
  · rw [if_pos hp, if_pos hp]
    exact intText_allDig (allDig_append hall (zeros_allDig _))
  · rw [if_neg hp, if_neg hp]
    simp only
    by_cases hl : digs.length > (-p).toNat
    · rw [if_pos hl, if_pos hl]
      exact intText_allDig_dot (fun x hx => hall x (List.mem_of_mem_take hx))
    · rw [if_neg hl, if_neg hl]
      rfl

theorem intPart_allDig {digs : List Char} (hall : AllDig digs) (p : Int) : AllDig (intPart digs p) := by
  unfold intPart
  split
  · exact allDig_append hall (zeros_allDig _)
  · split
    · exact fun x hx => hall x (List.mem_of_mem_take hx)
    · intro x hx
      rw [List.mem_singleton] at hx
      subst hx; rfl

/-- the integer digits of the shortest decimal text of a finite non-zero double -/
def intDigits (m : Nat) (e : Int) : List Char :=
  intPart (Decimal.formatNat (Decimal.shortest m e).1) (Decimal.shortest m e).2

/-- **the count on a finite non-zero double**: the non-zero digits among the integer digits of its shortest text -/
theorem count_formatF_fin (neg : Bool) (m : Nat) (e : Int) (hm : m ≠ 0) :
    countNonZeroDigits (Decimal.formatF (.fin neg m e)) = ((intDigits m e).filter isNZ).length := by
  rw [count_eq]
  unfold intDigits
  simp only [Decimal.formatF]
  rw [if_neg hm]
  have hl := intText_layoutF (formatNat_allDig (Decimal.shortest m e).1) (Decimal.shortest m e).2
  cases neg
  · simp only [Bool.false_eq_true, if_false, List.nil_append]
    rw [hl]
  · simp only [if_true]
    have : intText (['-'] ++ Decimal.layoutF (Decimal.formatNat (Decimal.shortest m e).1) (Decimal.shortest m e).2) =
        '-' :: intText (Decimal.layoutF (Decimal.formatNat (Decimal.shortest m e).1) (Decimal.shortest m e).2) := rfl
    rw [this, hl]
    rfl

/-- zeros, infinities and NaN have no counted digit: they pass every digit check -/
theorem count_special (x : F64) (h : x = .nan ∨ (∃ n, x = .inf n) ∨ ∃ n e, x = .fin n 0 e) :
    countNonZeroDigits (Decimal.formatF x) = 0 := by
  rcases h with rfl | ⟨n, rfl⟩ | ⟨n, e, rfl⟩
  · decide
  · cases n <;> decide
  · cases n <;> rfl

/-- a digit is `0` or one of `1`…`9` -/
theorem digit_cases {c : Char} (h : Decimal.isDigit c = true) : (c = '0' ∧ isNZ c = false) ∨ (c ≠ '0' ∧ isNZ c = true) := by
  unfold Decimal.isDigit at h
  unfold isNZ
  simp only [Bool.and_eq_true, decide_eq_true_eq, Char.le_def, UInt32.le_iff_toNat_le] at h ⊢
  by_cases h0 : c = '0'
  · left; subst h0; exact ⟨rfl, by decide⟩
  · right
    refine ⟨h0, ?_⟩
    have hne : c.val.toNat ≠ ('0' : Char).val.toNat := by
      intro heq
      apply h0
      apply Char.ext
      exact UInt32.toNat_inj.mp heq
    have e0 : ('0' : Char).val.toNat = 48 := rfl
    have e1 : ('1' : Char).val.toNat = 49 := rfl
    have e9 : ('9' : Char).val.toNat = 57 := rfl
    omega

/-- among digits: length = number of non-zero digits + number of `0`s -/
theorem digits_split {t : List Char} (hall : AllDig t) :
    t.length = (t.filter isNZ).length + (t.filter (fun c => c == '0')).length := by
  induction t with
  | nil => rfl
  | cons c cs ih =>
    have ih' := ih (fun x hx => hall x (List.mem_cons_of_mem _ hx))
    rw [List.filter_cons, List.filter_cons, List.length_cons]
    rcases digit_cases (hall c List.mem_cons_self) with ⟨h0, hz⟩ | ⟨h0, hz⟩
    · have : (c == '0') = true := by simp [h0]
      rw [hz, this]
      simp only [Bool.false_eq_true, if_false, if_true, List.length_cons]; omega
    · have : (c == '0') = false := by simp [h0]
      rw [hz, this]
      simp only [Bool.false_eq_true, if_false, if_true, List.length_cons]; omega

end

/-! ## 11. (c) the general error bound (floating-point error analysis of `round(v*r)/r`)

Real-number sketch, with `p = v*r` exact, `S = RN(p)` (the multiplication), `R = round(S)` (an integer, `|R − S| ≤ 1/2`),
`q = R/r` exact, `X = RN(q)` (the division): each `RN` has error at most `2^-53` of the exact value (normal result) or
`2^-1075` (subnormal result).  `|X − v| ≤ |X − q| + |q − v|`, `|q − v| = |R − v r|/r ≤ (1/2 + |S − p|)/r`, `q ≤ v + |q − v|`,
`1/r ≤ 10^-s (1 + 2^-50)`. -/

namespace Acc

/-! ## pure arithmetic over naturals (every step: multiply a hypothesis by a monomial, then combine linearly) -/

theorem err_unify {U W e N Dn : Nat} (h : U * e ≤ N ∨ U * W * e ≤ Dn) : U * W * e ≤ W * N + Dn := by
  rcases h with h | h
  · have := Nat.mul_le_mul_left W h
    grind
  · grind

theorem bound_g {H W g dS dv dr e1 e2 a b : Nat} (hS : 0 < dS)
    (T1 : g * dS ≤ dv * dr * e2 + e1) (F2 : 2 * e2 ≤ dS)
    (A1 : 2 * H * W * e1 ≤ W * (a * b * dS) + dv * dr * dS) :
    2 * H * W * g ≤ H * W * (dv * dr) + W * (a * b) + dv * dr := by
  apply Nat.le_of_mul_le_mul_right (c := dS) _ hS
  have p1 := Nat.mul_le_mul_left (2 * H * W) T1
  have p2 := Nat.mul_le_mul_left (H * W * (dv * dr)) F2
  grind

theorem part1 {U W D b dv e3 dX g j dr a K : Nat}
    (T2 : D * b ≤ dv * e3 + dX * g) (T3 : j * (dv * dr) ≤ a * b + g)
    (A3 : U * W * e3 ≤ W * (j * dr * dX) + b * dX) (B : U * W * g ≤ K) :
    U * (U * W) * (b * D) ≤ dX * (U * W * (a * b) + (1 + U) * K + U * (b * dv)) := by
  have p1 := Nat.mul_le_mul_left (U * W) T2
  have p2 := Nat.mul_le_mul_left dv A3
  have p3 := Nat.mul_le_mul_left (W * dX) T3
  have p4 := Nat.mul_le_mul_left dX B
  have p5 : U * W * (b * D) ≤ W * dX * (a * b) + W * dX * g + b * dX * dv + dX * K := by grind
  have p6 := Nat.mul_le_mul_left U p5
  have p7 := Nat.mul_le_mul_left U p4
  grind

/-- the Part-I bound `|x − v|·r ≤ …` as delivered by `part1` (`W = 2^1022`) -/
def PartI (W D b dv dX dr a : Nat) : Prop :=
  2 ^ 53 * (2 ^ 53 * W) * (b * D) ≤
    dX * (2 ^ 53 * W * (a * b) + (1 + 2 ^ 53) * (2 ^ 52 * W * (dv * dr) + W * (a * b) + dv * dr) + 2 ^ 53 * (b * dv))

/-- `r = b/dr` within `2^-51` of `Tn/Td ≤ 2^1024` -/
theorem part2 {W D b dv dX dr a Td Tn : Nat} (hW : 1 ≤ W) (hdr : 0 < dr) (M : PartI W D b dv dX dr a)
    (F4a : (2 ^ 51 - 1) * (Tn * dr) ≤ 2 ^ 51 * (b * Td)) (F4b : 2 ^ 51 * (b * Td) ≤ (2 ^ 51 + 1) * (Tn * dr))
    (F5 : Tn ≤ 4 * W * Td) :
    2 ^ 51 * Tn * D ≤ (2 ^ 50 + 2) * Td * (dX * dv) + Tn * a * dX := by
  unfold PartI at M
  have hN : 0 < (2 ^ 51 - 1) * dr * (2 ^ 53 * (2 ^ 53 * W)) :=
    Nat.mul_pos (Nat.mul_pos (by decide) hdr) (Nat.mul_pos (by decide) (Nat.mul_pos (by decide) hW))
  apply Nat.le_of_mul_le_mul_left (c := (2 ^ 51 - 1) * dr * (2 ^ 53 * (2 ^ 53 * W))) _ hN
  have q1 := Nat.mul_le_mul_left (2 ^ 51 * (2 ^ 53 * (2 ^ 53 * W)) * D) F4a
  have q2 := Nat.mul_le_mul_left (2 ^ 102 * Td) M
  have q3 := Nat.mul_le_mul_left (2 ^ 51 * W * (2 * 2 ^ 53 + 1) * a * dX) F4b
  have q4 := Nat.mul_le_mul_left (2 ^ 51 * 2 ^ 53 * dv * dX) F4b
  have q5 := Nat.mul_le_mul_left (2 ^ 51 * 2 ^ 53 * (2 ^ 51 + 1) * dv * dX * dr) F5
  have q6 : Td * dv * dr * dX ≤ W * (Td * dv * dr * dX) := Nat.le_mul_of_pos_left _ hW
  grind

/-- `r = b/dr` exactly `Tn/Td ≤ 3·2^1022` -/
theorem part2x {W D b dv dX dr a Td Tn : Nat} (hW : 2 ^ 60 ≤ W) (hdr : 0 < dr) (M : PartI W D b dv dX dr a)
    (F4a : Tn * dr ≤ b * Td) (F4b : b * Td ≤ Tn * dr)
    (F5 : Tn ≤ 3 * W * Td) :
    2 ^ 51 * Tn * D ≤ (2 ^ 50 + 1) * Td * (dX * dv) + Tn * a * dX := by
  unfold PartI at M
  have hW1 : 0 < W := by omega
  have hN : 0 < dr * (2 ^ 53 * (2 ^ 53 * W)) :=
    Nat.mul_pos hdr (Nat.mul_pos (by decide) (Nat.mul_pos (by decide) hW1))
  apply Nat.le_of_mul_le_mul_left (c := dr * (2 ^ 53 * (2 ^ 53 * W))) _ hN
  have q1 := Nat.mul_le_mul_left (2 ^ 51 * (2 ^ 53 * (2 ^ 53 * W)) * D) F4a
  have q2 := Nat.mul_le_mul_left (2 ^ 51 * Td) M
  have q3 := Nat.mul_le_mul_left (2 ^ 51 * W * (2 * 2 ^ 53 + 1) * a * dX) F4b
  have q4 := Nat.mul_le_mul_left (2 ^ 51 * 2 ^ 53 * dv * dX) F4b
  have q5 := Nat.mul_le_mul_left (2 ^ 51 * 2 ^ 53 * dv * dX * dr) F5
  have q6 : 2 ^ 60 * (Td * dv * dr * dX) ≤ W * (Td * dv * dr * dX) := Nat.mul_le_mul_right _ hW
  grind

/-! ## triangle inequalities for cross-multiplied integers -/

theorem tri {A B C : Int} {s t : Nat} (h : A * (s : Int) = (t : Int) * B - C) :
    A.natAbs * s ≤ t * B.natAbs + C.natAbs := by
  have h1 := congrArg Int.natAbs h
  rw [Int.natAbs_mul, Int.natAbs_natCast] at h1
  rw [h1]
  have h2 := Int.natAbs_sub_le ((t : Int) * B) C
  rw [Int.natAbs_mul, Int.natAbs_natCast] at h2
  exact h2

/-- the error analysis over integers, up to the Part-I bound: `v = nv/dv`, `r = b/dr`, `S = nS/dS ≈ v·r`, `R = i` within
    1/2 of `S`, `X = nX/dX ≈ i/r`; `W` stands for `2^1022` -/
theorem core1 {nv nS i nX : Int} {b dv dr dS dX W : Nat} (hdS : 0 < dS)
    (E1 : 2 ^ 53 * (nv * (b : Int) * (dS : Int) - nS * ((dv * dr : Nat) : Int)).natAbs ≤ (nv * (b : Int)).natAbs * dS ∨
          2 ^ 53 * W * (nv * (b : Int) * (dS : Int) - nS * ((dv * dr : Nat) : Int)).natAbs ≤ dv * dr * dS)
    (E2 : 2 * (i * (dS : Int) - nS).natAbs ≤ dS)
    (E3 : 2 ^ 53 * (i * (dr : Int) * (dX : Int) - nX * (b : Int)).natAbs ≤ (i * (dr : Int)).natAbs * dX ∨
          2 ^ 53 * W * (i * (dr : Int) * (dX : Int) - nX * (b : Int)).natAbs ≤ b * dX) :
    PartI W (nX * (dv : Int) - nv * (dX : Int)).natAbs b dv dX dr nv.natAbs := by
  -- triangle inequalities
  have T1 : (i * ((dv * dr : Nat) : Int) - nv * (b : Int)).natAbs * dS ≤
      (dv * dr) * (i * (dS : Int) - nS).natAbs + (nv * (b : Int) * (dS : Int) - nS * ((dv * dr : Nat) : Int)).natAbs :=
    tri (by grind)
  have T2 : (nX * (dv : Int) - nv * (dX : Int)).natAbs * b ≤
      dX * (i * ((dv * dr : Nat) : Int) - nv * (b : Int)).natAbs +
        ((dv : Int) * (i * (dr : Int) * (dX : Int) - nX * (b : Int))).natAbs :=
    tri (by rw [Int.natCast_mul]; grind)
  rw [Int.natAbs_mul, Int.natAbs_natCast] at T2
  have T3 : i.natAbs * (dv * dr) ≤ nv.natAbs * b + (i * ((dv * dr : Nat) : Int) - nv * (b : Int)).natAbs := by
    have h := Int.natAbs_add_le (nv * (b : Int)) (i * ((dv * dr : Nat) : Int) - nv * (b : Int))
    have e : nv * (b : Int) + (i * ((dv * dr : Nat) : Int) - nv * (b : Int)) = i * ((dv * dr : Nat) : Int) := by omega
    rw [e, Int.natAbs_mul, Int.natAbs_mul, Int.natAbs_natCast, Int.natAbs_natCast] at h
    exact h
  rw [Int.natAbs_mul, Int.natAbs_natCast] at E1
  rw [Int.natAbs_mul, Int.natAbs_natCast] at E3
  generalize (nv * (b : Int) * (dS : Int) - nS * ((dv * dr : Nat) : Int)).natAbs = e1 at *
  generalize (i * (dS : Int) - nS).natAbs = e2 at *
  generalize (i * (dr : Int) * (dX : Int) - nX * (b : Int)).natAbs = e3 at *
  generalize (i * ((dv * dr : Nat) : Int) - nv * (b : Int)).natAbs = g at *
  generalize (nX * (dv : Int) - nv * (dX : Int)).natAbs = D at *
  generalize nv.natAbs = a at *
  generalize i.natAbs = j at *
  have A1 := err_unify E1
  have A3 := err_unify E3
  have B := bound_g (H := 2 ^ 52) (W := W) (a := a) (b := b) hdS T1 E2 (by grind)
  have T2' : D * b ≤ dv * e3 + dX * g := by omega
  have B' : 2 ^ 53 * W * g ≤ 2 ^ 52 * W * (dv * dr) + W * (a * b) + dv * dr := by grind
  exact part1 (U := 2 ^ 53) T2' T3 A3 B'

/-! ## 1. the half-ulp bound of correct rounding -/

/-- the rounded quotient is within half a divisor -/
theorem half_dist {A G : Nat} (hG : 0 < G) : 2 * dist A (F64.halfEven (A / G) (A % G) G * G) ≤ G := by
  have h1 := (halfEven_nearest (A := A) hG (A / G)).1
  have h2 := (halfEven_nearest (A := A) hG (A / G + 1)).1
  have hdiv : G * (A / G) + A % G = A := Nat.div_add_mod A G
  have hmod : A % G < G := Nat.mod_lt _ hG
  rw [Nat.add_mul, Nat.one_mul] at h2
  rw [Nat.mul_comm G] at hdiv
  unfold dist at *
  generalize F64.halfEven (A / G) (A % G) G * G = Y at *
  generalize A / G * G = Z at *
  generalize A % G = R at *
  omega

/-- error of a finite double against `n/d`, in units of `2^-1074` -/
theorem err_units {n : Int} {d : Nat} {m : Nat} {e : Int} (he : -1074 ≤ e) :
    (n * (den (.fin (decide (n < 0)) m e) : Int) - num (.fin (decide (n < 0)) m e) * (d : Int)).natAbs * 2 ^ 1074 =
      den (.fin (decide (n < 0)) m e) * dist (n.natAbs * 2 ^ 1074) (m * 2 ^ (e + 1074).toNat * d) := by
  have hs := num_scale (decide (n < 0)) m e he
  have hn : n * ((2 ^ 1074 : Nat) : Int) = sg (decide (n < 0)) (n.natAbs * 2 ^ 1074) := by
    rw [← sg_mul, sg_natAbs]
  have hu : sg (decide (n < 0)) (m * 2 ^ (e + 1074).toNat) * (d : Int) =
      sg (decide (n < 0)) (m * 2 ^ (e + 1074).toNat * d) := sg_mul _ _ _
  have hd := natAbs_sg (decide (n < 0)) (decide (n < 0)) (n.natAbs * 2 ^ 1074) (m * 2 ^ (e + 1074).toNat * d)
  rw [if_pos rfl] at hd
  rw [← hd, ← hn, ← hu]
  generalize num (.fin (decide (n < 0)) m e) = ax at *
  generalize den (.fin (decide (n < 0)) m e) = dx at *
  generalize sg (decide (n < 0)) (m * 2 ^ (e + 1074).toNat) = ux at *
  generalize 2 ^ 1074 = T at *
  have e1 : (n * (dx : Int) - ax * (d : Int)) * (T : Int) = (dx : Int) * (n * (T : Int) - ux * (d : Int)) := by grind
  exact natAbs_scale e1

/-- arithmetic of the subnormal case -/
theorem err_sub {E T dx Dd d : Nat} (h : E * T = dx * Dd) (hD : 2 * Dd ≤ d) : 2 * T * E ≤ d * dx := by
  have := Nat.mul_le_mul_left dx hD
  grind

/-- arithmetic of the normal case -/
theorem err_norm {E T dx Dd G a : Nat} (hT : 0 < T) (h : E * T = dx * Dd) (hD : 2 * Dd ≤ G) (hG : 2 ^ 52 * G ≤ a * T) :
    2 ^ 53 * E ≤ a * dx := by
  apply Nat.le_of_mul_le_mul_right (c := T) _ hT
  have p1 := Nat.mul_le_mul_left (2 ^ 52 * dx) hD
  have p2 := Nat.mul_le_mul_left dx hG
  grind

set_option exponentiation.threshold 2000 in
/-- **`|n/d − x| ≤ 2^-53·|n/d|`  or  `|n/d − x| ≤ 2^-1075`** for the correctly rounded `x` -/
theorem rounds_err {n : Int} {d : Nat} (hd : 0 < d) {x : F64} (h : Rounds n d x) (hf : x.isFinite = true) :
    2 ^ 53 * (n * (den x : Int) - num x * (d : Int)).natAbs ≤ n.natAbs * den x ∨
    2 ^ 1075 * (n * (den x : Int) - num x * (d : Int)).natAbs ≤ d * den x := by
  obtain ⟨z, hx⟩ := (rounds_iff_exists_ofQ hd x).mp h
  by_cases hn : n = 0
  · subst hn
    rw [ofQ_zero] at hx
    subst hx
    left
    rw [num_zero]
    simp
  · have hpos : 0 < n.natAbs := by omega
    unfold F64.ofQ at hx
    rw [if_neg hn] at hx
    obtain ⟨k, hnorm, hsh⟩ := roundPos_shape (decide (n < 0)) hpos hd
    rcases hsh with hinf | ⟨m, e, hfin, _, he, hU, _⟩
    · rw [hinf] at hx; subst hx; cases hf
    · rw [hfin] at hx
      subst hx
      have hG : 0 < d * 2 ^ k := Nat.mul_pos hd (two_pow_pos k)
      have hh := half_dist (A := n.natAbs * 2 ^ 1074) hG
      have hqG : F64.halfEven (n.natAbs * 2 ^ 1074 / (d * 2 ^ k)) (n.natAbs * 2 ^ 1074 % (d * 2 ^ k)) (d * 2 ^ k) * (d * 2 ^ k) =
          m * 2 ^ (e + 1074).toNat * d := by
        rw [hU]; ac_rfl
      rw [hqG] at hh
      have hu := err_units (n := n) (d := d) (m := m) (e := e) he
      have h1075 : (2 : Nat) ^ 1075 = 2 * 2 ^ 1074 := by rw [Nat.pow_succ, Nat.mul_comm]
      rw [h1075]
      have hT := two_pow_pos 1074
      rcases hnorm with hq | hk
      · left
        have hq' : 2 ^ 52 * (d * 2 ^ k) ≤ n.natAbs * 2 ^ 1074 := (Nat.le_div_iff_mul_le hG).mp hq
        generalize 2 ^ 1074 = T at *
        exact err_norm hT hu hh hq'
      · right
        subst hk
        rw [Nat.pow_zero, Nat.mul_one] at hh
        generalize 2 ^ 1074 = T at *
        exact err_sub hu hh

/-! ## 2. `F64.round` -/

theorem sg_zero' (b : Bool) : sg b 0 = 0 := by cases b <;> rfl

/-- a small integer with a sign is represented exactly, in canonical form -/
theorem ofQ_small (neg : Bool) (k : Nat) (hk : k < 2 ^ 53) :
    (F64.ofQ (sg neg k) 1 neg).isFinite = true ∧ F64.WF (F64.ofQ (sg neg k) 1 neg) ∧
    (F64.ofQ (sg neg k) 1 neg).signBit = neg ∧
    num (F64.ofQ (sg neg k) 1 neg) = sg neg k * (den (F64.ofQ (sg neg k) 1 neg) : Int) := by
  by_cases h0 : k = 0
  · subst h0
    rw [sg_zero', ofQ_zero, num_zero]
    exact ⟨rfl, wf_zero neg, rfl, by omega⟩
  · have hpos : 0 < k := Nat.pos_of_ne_zero h0
    obtain ⟨hne, hs, ha⟩ := sg_facts neg hpos
    obtain ⟨E, j, hj, hwf, hr⟩ := roundPos_pow2_exact neg (r := k) (lo := 0) hpos hk (by omega) (by omega)
    have e1 : k * 2 ^ (0 : Int).toNat = k := by simp
    have e2 : 2 ^ (-(0 : Int)).toNat = 1 := by simp
    rw [e1, e2] at hr
    have hof : F64.ofQ (sg neg k) 1 neg = .fin neg (k * 2 ^ j) E := by
      unfold F64.ofQ
      rw [if_neg hne, hs, ha, hr]
    rw [hof]
    refine ⟨rfl, hwf, rfl, ?_⟩
    have hE : E.toNat = 0 := by omega
    have hE' : (-E).toNat = j := by omega
    have hnum : num (.fin neg (k * 2 ^ j) E) = sg neg (k * 2 ^ j) := by
      cases neg <;> simp [num, sg, hE]
    have hden : den (.fin neg (k * 2 ^ j) E) = 2 ^ j := by
      simp [den, hE']
    rw [hnum, hden, ← sg_mul]

/-- `math.Round` in terms of quotient and remainder -/
theorem round_neg_exp (neg : Bool) (m : Nat) (e : Int) (he : ¬ e ≥ 0) :
    F64.round (.fin neg m e) =
      F64.ofQ (sg neg (if 2 * (m % 2 ^ (-e).toNat) ≥ 2 ^ (-e).toNat then m / 2 ^ (-e).toNat + 1 else m / 2 ^ (-e).toNat)) 1 neg := by
  simp only [F64.round, F64.fracGeHalf, F64.truncInt, if_neg he, F64.ofIntSigned]
  by_cases hh : 2 * (m % 2 ^ (-e).toNat) ≥ 2 ^ (-e).toNat
  · simp only [hh, decide_true, if_true]
    cases neg
    · simp [sg]
    · simp only [if_true, sg]
      congr 1
      omega
  · simp only [hh, decide_false, if_false, Bool.false_eq_true]
    cases neg <;> simp [sg]

theorem round_dist {m P : Nat} (hP : 0 < P) :
    2 * dist ((if 2 * (m % P) ≥ P then m / P + 1 else m / P) * P) m ≤ P := by
  have hdiv : P * (m / P) + m % P = m := Nat.div_add_mod m P
  have hmod : m % P < P := Nat.mod_lt _ hP
  rw [Nat.mul_comm P] at hdiv
  unfold dist
  by_cases h : 2 * (m % P) ≥ P
  · rw [if_pos h, Nat.add_mul, Nat.one_mul]
    generalize m / P * P = Z at *
    omega
  · rw [if_neg h]
    generalize m / P * P = Z at *
    omega

/-- **`math.Round` of a finite well-formed double**: finite, well-formed, integer-valued, same sign bit, within 1/2 -/
theorem round_spec (S : F64) (hf : S.isFinite = true) (hw : F64.WF S) :
    (F64.round S).isFinite = true ∧ F64.WF (F64.round S) ∧ (F64.round S).signBit = S.signBit ∧
    (∃ i : Int, num (F64.round S) = i * (den (F64.round S) : Int)) ∧
    2 * (num (F64.round S) * (den S : Int) - num S * (den (F64.round S) : Int)).natAbs ≤ den S * den (F64.round S) := by
  cases S with
  | nan => cases hf
  | inf _ => cases hf
  | fin neg m e =>
    by_cases he : e ≥ 0
    · have hr : F64.round (.fin neg m e) = .fin neg m e := by simp only [F64.round, if_pos he]
      rw [hr]
      have hden : den (.fin neg m e) = 1 := by
        have : (-e).toNat = 0 := by omega
        simp [den, this]
      refine ⟨rfl, hw, rfl, ⟨num (.fin neg m e), by rw [hden]; simp⟩, ?_⟩
      rw [Int.sub_self]
      simp
    · rw [round_neg_exp neg m e he]
      obtain ⟨hm53, _, _, _⟩ := wf_full hw
      have hP2 : 2 ≤ 2 ^ (-e).toNat := by
        have : (2 : Nat) ^ 1 ≤ 2 ^ (-e).toNat := Nat.pow_le_pow_right (by decide) (by omega)
        simpa using this
      have hdist := round_dist (m := m) (P := 2 ^ (-e).toNat) (by omega)
      have hq : m / 2 ^ (-e).toNat ≤ m / 2 := Nat.div_le_div_left hP2 (by decide)
      have hnS : num (.fin neg m e) = sg neg m := by
        have : e.toNat = 0 := by omega
        cases neg <;> simp [num, sg, this]
      have hdS : den (.fin neg m e) = 2 ^ (-e).toNat := rfl
      rw [hnS, hdS]
      generalize 2 ^ (-e).toNat = P at *
      have hk : (if 2 * (m % P) ≥ P then m / P + 1 else m / P) < 2 ^ 53 := by
        split <;> omega
      generalize (if 2 * (m % P) ≥ P then m / P + 1 else m / P) = k at *
      obtain ⟨a1, a2, a3, a4⟩ := ofQ_small neg k hk
      refine ⟨a1, a2, a3, ⟨sg neg k, a4⟩, ?_⟩
      rw [a4]
      generalize den (F64.ofQ (sg neg k) 1 neg) = dR
      have e1 : sg neg k * (dR : Int) * (P : Int) - sg neg m * (dR : Int) = (sg neg (k * P) - sg neg m) * (dR : Int) := by
        rw [← sg_mul neg k P]; grind
      rw [e1, Int.natAbs_mul, Int.natAbs_natCast, natAbs_sg, if_pos rfl]
      have := Nat.mul_le_mul_right dR hdist
      grind

/-! ## 3. accuracy of `round(v * r) / r` -/


theorem ratio_bounds {b Tn Td dr : Nat}
    (h : 2 ^ 51 * ((b : Int) * (Td : Int) - (Tn : Int) * (dr : Int)).natAbs ≤ Tn * dr) :
    (2 ^ 51 - 1) * (Tn * dr) ≤ 2 ^ 51 * (b * Td) ∧ 2 ^ 51 * (b * Td) ≤ (2 ^ 51 + 1) * (Tn * dr) := by
  rw [← Int.natCast_mul, ← Int.natCast_mul] at h
  generalize b * Td = P at *
  generalize Tn * dr = Q at *
  omega

theorem ratio_pos {b Tn Td dr : Nat} (hTn : 0 < Tn) (hdr : 0 < dr)
    (h : 2 ^ 51 * ((b : Int) * (Td : Int) - (Tn : Int) * (dr : Int)).natAbs ≤ Tn * dr) : 0 < b := by
  apply Nat.pos_of_ne_zero
  intro hb
  subst hb
  have hp := Nat.mul_pos hTn hdr
  have h0 : ((0 : Nat) : Int) * (Td : Int) = 0 := by simp
  rw [h0, ← Int.natCast_mul] at h
  generalize Tn * dr = Q at *
  omega

/-- within 1/2 of `S`, for an integer-valued `R` -/
theorem half_int {nR nS i : Int} {dR dS : Nat} (hdR : 0 < dR) (hi : nR = i * (dR : Int))
    (h : 2 * (nR * (dS : Int) - nS * (dR : Int)).natAbs ≤ dS * dR) : 2 * (i * (dS : Int) - nS).natAbs ≤ dS := by
  subst hi
  have e : i * (dR : Int) * (dS : Int) - nS * (dR : Int) = (i * (dS : Int) - nS) * (dR : Int) := by grind
  rw [e, Int.natAbs_mul, Int.natAbs_natCast] at h
  apply Nat.le_of_mul_le_mul_right (c := dR) _ hdR
  grind

set_option exponentiation.threshold 2000 in
/-- Part I for abstract intermediate results `S` (product), `R` (rounded to an integer), `X` (quotient) -/
theorem acc_part1 {v r S R X : F64} (b : Nat) (hb : num r = (b : Int)) (hb0 : 0 < b)
    (hS : Rounds (num v * num r) (den v * den r) S) (hSf : S.isFinite = true)
    (i : Int) (hRi : num R = i * (den R : Int))
    (hRd : 2 * (num R * (den S : Int) - num S * (den R : Int)).natAbs ≤ den S * den R)
    (hX : Rounds (i * (den r : Int)) b X) (hXf : X.isFinite = true) :
    PartI (2 ^ 1022) (num X * (den v : Int) - num v * (den X : Int)).natAbs b (den v) (den X) (den r) (num v).natAbs := by
  have E1 := rounds_err (C13c.den_mul_pos v r) hS hSf
  rw [hb] at E1
  have E3 := rounds_err hb0 hX hXf
  have E2 := half_int (den_pos R) hRi hRd
  have h1075 : (2 : Nat) ^ 1075 = 2 ^ 53 * 2 ^ 1022 := Nat.pow_add 2 53 1022
  rw [h1075] at E1 E3
  generalize 2 ^ 1022 = W at *
  exact core1 (den_pos S) E1 E2 E3

theorem decimalRound_fin (v : F64) (s : Bool) (m : Nat) (e : Int) :
    decimalRound v (.fin s m e) =
      if (F64.mul v (.fin s m e)).isInf = true then v else F64.div (F64.round (F64.mul v (.fin s m e))) (.fin s m e) := by
  unfold decimalRound
  have h : (F64.fin s m e).isInf = false := rfl
  rw [h]
  simp only [Bool.not_false, Bool.and_true]

/-- the product is finite and well-formed unless it overflows -/
theorem mul_fin_of_not_inf {v r : F64} (hv : v.isFinite = true) (hr : r.isFinite = true)
    (h : ¬ (F64.mul v r).isInf = true) : (F64.mul v r).isFinite = true ∧ F64.WF (F64.mul v r) := by
  rcases C13c.mul_correctly_rounded v r hv hr with ⟨_, h2⟩ | ⟨_, h2, _⟩
  · rw [h2] at h; exact absurd rfl h
  · exact ⟨h2.finite, h2.wf⟩

set_option exponentiation.threshold 2000 in
/-- Part I for `decimalRound` itself: either the product overflowed and `v` is returned unchanged, or
    `|x − v|·r ≤ (1 + 2^-53)(1/2 + 2^-53·|v|·r + 2^-1075) + 2^-53·|v|·r + 2^-1075·r` -/
theorem decimalRound_part1 (v r : F64) (hv : v.isFinite = true) (hr : r.isFinite = true)
    (b : Nat) (hb : num r = (b : Int)) (hb0 : 0 < b) (hxf : (decimalRound v r).isFinite = true) :
    decimalRound v r = v ∨
    PartI (2 ^ 1022) (num (decimalRound v r) * (den v : Int) - num v * (den (decimalRound v r) : Int)).natAbs b
      (den v) (den (decimalRound v r)) (den r) (num v).natAbs := by
  cases r with
  | nan => cases hr
  | inf _ => cases hr
  | fin sr mr er =>
    rw [decimalRound_fin] at hxf ⊢
    by_cases hinf : (F64.mul v (.fin sr mr er)).isInf = true
    · left; rw [if_pos hinf]
    · right
      rw [if_neg hinf] at hxf ⊢
      obtain ⟨hSf, hSw⟩ := mul_fin_of_not_inf hv hr hinf
      have hS := C13c.mul_correctly_rounded v (.fin sr mr er) hv hr
      obtain ⟨hRf, _, _, ⟨i, hRi⟩, hRd⟩ := round_spec _ hSf hSw
      have hmr : mr ≠ 0 := by
        intro h
        subst h
        rw [num_zero] at hb
        omega
      have hX0 := C13c.div_correctly_rounded _ hRf sr mr er hmr
      generalize F64.mul v (.fin sr mr er) = S at *
      generalize F64.round S = R at *
      have hqn : C13c.quotNum R (.fin sr mr er) = num R * (den (.fin sr mr er) : Int) := by
        unfold C13c.quotNum
        rw [if_neg (by rw [hb]; omega)]
      have hqd : C13c.quotDen R (.fin sr mr er) = den R * b := by
        unfold C13c.quotDen
        rw [hb, Int.natAbs_natCast]
      rw [hqn, hqd] at hX0
      have hX : Rounds (i * (den (.fin sr mr er) : Int)) b (F64.div R (.fin sr mr er)) := by
        refine (rounds_congr (Nat.mul_pos (den_pos R) hb0) hb0 ?_ _).mp hX0
        rw [hRi, Int.natCast_mul]
        grind
      exact acc_part1 b hb hb0 hS hSf i hRi hRd hX hxf

/-- a finite double with a clear sign bit has a natural numerator -/
theorem num_nonneg_nat (r : F64) (hrs : r.signBit = false) : num r = ((num r).natAbs : Int) := by
  cases r with
  | nan => rfl
  | inf _ => rfl
  | fin s m e =>
    have hs : s = false := hrs
    subst hs
    have hn : num (.fin false m e) = ((m * 2 ^ e.toNat : Nat) : Int) := rfl
    rw [hn, Int.natAbs_natCast]

set_option exponentiation.threshold 2000 in
/-- **accuracy of `.decimal()`'s rounding step** when nothing overflows, sharper constant:
    `|x − v| ≤ (1/2 + 2^-50)·Td/Tn + 2^-51·|v|`, multiplied by `2^51·Tn·den x·den v` -/
theorem decimalRound_accuracy_50 (v r : F64) (hv : v.isFinite = true)
    (hr : r.isFinite = true) (hrs : r.signBit = false)
    (Tn Td : Nat) (hTn : 0 < Tn) (hnear : RatioNear r Tn Td) (hrange : Tn ≤ 2 ^ 1024 * Td)
    (hxf : (decimalRound v r).isFinite = true) :
    2 ^ 51 * Tn * (num (decimalRound v r) * (den v : Int) - num v * (den (decimalRound v r) : Int)).natAbs ≤
      (2 ^ 50 + 2) * Td * (den (decimalRound v r) * den v) + Tn * (num v).natAbs * den (decimalRound v r) := by
  have hb := num_nonneg_nat r hrs
  have hnear' := hnear
  unfold RatioNear at hnear'
  rw [hb] at hnear'
  have hb0 := ratio_pos hTn (den_pos r) hnear'
  obtain ⟨F4a, F4b⟩ := ratio_bounds hnear'
  rcases decimalRound_part1 v r hv hr _ hb hb0 hxf with h | M
  · rw [h, Int.sub_self]
    simp
  · have h1024 : (2 : Nat) ^ 1024 = 4 * 2 ^ 1022 := by rw [Nat.pow_add 2 2 1022]
    rw [h1024] at hrange
    have hW : 1 ≤ 2 ^ 1022 := two_pow_pos 1022
    generalize 2 ^ 1022 = W at *
    exact part2 hW (den_pos r) M F4a F4b hrange

set_option linter.unusedVariables false in
set_option exponentiation.threshold 2000 in
/-- **accuracy of `.decimal()`'s rounding step** when nothing overflows:
    `|x − v| ≤ (1/2 + 2^-49)·Td/Tn + 2^-51·|v|`, multiplied by `2^51·Tn·den x·den v` -/
theorem decimalRound_accuracy (v r : F64) (hv : v.isFinite = true) (hvw : F64.WF v)
    (hr : r.isFinite = true) (hrw : F64.WF r) (hrs : r.signBit = false)
    (Tn Td : Nat) (hTn : 0 < Tn) (hTd : 0 < Td) (hnear : RatioNear r Tn Td) (hrange : Tn ≤ 2 ^ 1024 * Td)
    (hxf : (decimalRound v r).isFinite = true) :
    2 ^ 51 * Tn * (num (decimalRound v r) * (den v : Int) - num v * (den (decimalRound v r) : Int)).natAbs ≤
      (2 ^ 50 + 4) * Td * (den (decimalRound v r) * den v) + Tn * (num v).natAbs * den (decimalRound v r) := by
  have h := decimalRound_accuracy_50 v r hv hr hrs Tn Td hTn hnear hrange hxf
  have hle : (2 ^ 50 + 2) * Td * (den (decimalRound v r) * den v) ≤ (2 ^ 50 + 4) * Td * (den (decimalRound v r) * den v) :=
    Nat.mul_le_mul_right _ (Nat.mul_le_mul_right _ (by decide))
  omega

set_option exponentiation.threshold 2000 in
/-- the same when `r` is exactly `Tn/Td` (a power of ten that is a double: `10^0 … 10^22`), and in fact for
    `Tn/Td ≤ 3·2^1022` (which includes `10^308`): `|x − v| ≤ (1/2 + 2^-51)·Td/Tn + 2^-51·|v|` -/
theorem decimalRound_accuracy_exact (v r : F64) (hv : v.isFinite = true)
    (hr : r.isFinite = true) (hrs : r.signBit = false)
    (Tn Td : Nat) (hTn : 0 < Tn) (hexact : num r * (Td : Int) = (Tn : Int) * (den r : Int))
    (hrange : Tn ≤ 3 * 2 ^ 1022 * Td)
    (hxf : (decimalRound v r).isFinite = true) :
    2 ^ 51 * Tn * (num (decimalRound v r) * (den v : Int) - num v * (den (decimalRound v r) : Int)).natAbs ≤
      (2 ^ 50 + 1) * Td * (den (decimalRound v r) * den v) + Tn * (num v).natAbs * den (decimalRound v r) := by
  have hb := num_nonneg_nat r hrs
  rw [hb, ← Int.natCast_mul, ← Int.natCast_mul] at hexact
  have hex : (num r).natAbs * Td = Tn * den r := Int.ofNat.inj hexact
  have hb0 : 0 < (num r).natAbs := by
    apply Nat.pos_of_ne_zero
    intro h0
    rw [h0, Nat.zero_mul] at hex
    have := Nat.mul_pos hTn (den_pos r)
    omega
  rcases decimalRound_part1 v r hv hr _ hb hb0 hxf with h | M
  · rw [h, Int.sub_self]
    simp
  · have hW : 2 ^ 60 ≤ 2 ^ 1022 := Nat.pow_le_pow_right (by decide) (by decide)
    generalize 2 ^ 1022 = W at *
    exact part2x hW (den_pos r) M (Nat.le_of_eq hex.symm) (Nat.le_of_eq hex) hrange


/-! ## the sign bit is kept -/

theorem num_sign (s : Bool) (m : Nat) (e : Int) (h : num (.fin s m e) ≠ 0) : decide (num (.fin s m e) < 0) = s := by
  have hnum : num (.fin s m e) = sg s (m * 2 ^ e.toNat) := by cases s <;> rfl
  rw [hnum] at h ⊢
  generalize m * 2 ^ e.toNat = k at *
  have hk : 0 < k := by
    apply Nat.pos_of_ne_zero
    intro h0
    subst h0
    exact h (sg_zero' s)
  exact (sg_facts s hk).2.1

/-- the rounding of `nv * c / d` (`c > 0`) has the sign of `nv`, and the given sign if `nv = 0` -/
theorem ofQ_signBit {nv : Int} {c : Nat} (hc : 0 < c) (s : Bool) (hs : nv ≠ 0 → decide (nv < 0) = s) (d : Nat) :
    (F64.ofQ (nv * (c : Int)) d s).signBit = s := by
  by_cases h0 : nv = 0
  · subst h0
    rw [Int.zero_mul, ofQ_zero]
    rfl
  · have hn : nv * (c : Int) ≠ 0 := Int.mul_ne_zero h0 (by omega)
    have hlt : decide (nv * (c : Int) < 0) = s := by
      rw [← hs h0]
      by_cases hneg : nv < 0
      · have := Int.mul_neg_of_neg_of_pos hneg (show (0 : Int) < (c : Int) by omega)
        simp [hneg, this]
      · have := Int.mul_nonneg (show 0 ≤ nv by omega) (show (0 : Int) ≤ (c : Int) by omega)
        have h2 : ¬ nv * (c : Int) < 0 := by omega
        simp [hneg, h2]
    unfold F64.ofQ
    rw [if_neg hn, hlt]
    rcases roundPos_sign s (nv * (c : Int)).natAbs d with h | ⟨m, e, h⟩
    · rw [h]; rfl
    · rw [h]; rfl

theorem mul_signBit (sv : Bool) (mv : Nat) (ev : Int) (mr : Nat) (er : Int) (hb0 : 0 < mr * 2 ^ er.toNat) :
    (F64.mul (.fin sv mv ev) (.fin false mr er)).signBit = sv := by
  rw [C13c.mul_eq]
  have hb : num (.fin false mr er) = ((mr * 2 ^ er.toNat : Nat) : Int) := rfl
  have hz : (sv != false) = sv := by cases sv <;> rfl
  rw [hb, hz]
  exact ofQ_signBit hb0 sv (num_sign sv mv ev) _

theorem div_signBit (sR : Bool) (mR : Nat) (eR : Int) (mr : Nat) (er : Int) (hmr : mr ≠ 0) :
    (F64.div (.fin sR mR eR) (.fin false mr er)).signBit = sR := by
  rw [C13c.div_eq _ _ _ _ _ _ hmr]
  have hb : num (.fin false mr er) = ((mr * 2 ^ er.toNat : Nat) : Int) := rfl
  have hz : (sR != false) = sR := by cases sR <;> rfl
  have hge : ¬ ((den (.fin sR mR eR) : Int) * num (.fin false mr er) < 0) := by
    rw [hb, ← Int.natCast_mul]
    omega
  rw [if_neg hge, hz]
  exact ofQ_signBit (den_pos _) sR (num_sign sR mR eR) _

/-- **the result of the rounding step has the sign bit of `v`** (also `−0`, also when the product overflows) -/
theorem decimalRound_signBit (v r : F64) (hv : v.isFinite = true)
    (hr : r.isFinite = true) (hrs : r.signBit = false)
    (Tn Td : Nat) (hTn : 0 < Tn) (hnear : RatioNear r Tn Td) :
    (decimalRound v r).signBit = v.signBit := by
  cases r with
  | nan => cases hr
  | inf _ => cases hr
  | fin sr mr er =>
    have hsr : sr = false := hrs
    subst hsr
    rw [decimalRound_fin]
    by_cases hinf : (F64.mul v (.fin false mr er)).isInf = true
    · rw [if_pos hinf]
    · rw [if_neg hinf]
      obtain ⟨hSf, hSw⟩ := mul_fin_of_not_inf hv hr hinf
      obtain ⟨hRf, _, hRs, _, _⟩ := round_spec _ hSf hSw
      have hb : num (.fin false mr er) = ((mr * 2 ^ er.toNat : Nat) : Int) := rfl
      have hb0 : 0 < mr * 2 ^ er.toNat := by
        unfold RatioNear at hnear
        rw [hb] at hnear
        exact ratio_pos hTn (den_pos _) hnear
      have hmr : mr ≠ 0 := by
        intro h; subst h; omega
      cases v with
      | nan => cases hv
      | inf _ => cases hv
      | fin sv mv ev =>
        have hSs := mul_signBit sv mv ev mr er hb0
        generalize F64.mul (.fin sv mv ev) (.fin false mr er) = S at *
        cases hR : F64.round S with
        | nan => rw [hR] at hRf; cases hRf
        | inf _ => rw [hR] at hRf; cases hRf
        | fin sR mR eR =>
          rw [hR] at hRs
          rw [div_signBit sR mR eR mr er hmr]
          exact hRs.trans hSs


/-! ## non-vacuity -/

/-- `Pow10(2) = 100` and `Pow10(-2) = 0.01` (rounded) satisfy `RatioNear`; `1.005 → 1` (the double below 1.005), `2.5 → 3` -/
example : RatioNear (F64.pow10 2) 100 1 := by unfold RatioNear; decide +kernel
example : RatioNear (F64.pow10 (-2)) 1 100 := by unfold RatioNear; decide +kernel
example : decimalRound (F64.ofBits 0x3FF0147AE147AE14) (F64.pow10 2) = F64.ofBits 0x3FF0000000000000 := by decide +kernel
example : decimalRound (F64.ofBits 0x4004000000000000) (F64.pow10 0) = F64.ofBits 0x4008000000000000 := by decide +kernel

end Acc

/-! ## 12. the facts about a ratio give the hypotheses of the error bound; overflow of the final division -/

theorem ratio_signBit {s : Int} {r : F64} (hR : RatioFacts s r) : r.signBit = false := by
  obtain ⟨mr, er, rfl, _⟩ := ratio_shape hR
  rfl

set_option exponentiation.threshold 2000 in
theorem ten308_le : 10 ^ 308 ≤ 2 ^ 1024 := by decide +kernel

set_option exponentiation.threshold 2000 in
theorem ten_pow_range (s : Int) (h : s ≤ 308) : 10 ^ s.toNat ≤ 2 ^ 1024 * 10 ^ (-s).toNat := by
  have h1 : 10 ^ s.toNat ≤ 10 ^ 308 := Nat.pow_le_pow_right (by decide) (by omega)
  have h2 : 0 < 10 ^ (-s).toNat := Nat.pow_pos (by decide)
  calc 10 ^ s.toNat ≤ 10 ^ 308 := h1
    _ ≤ 2 ^ 1024 := ten308_le
    _ = 2 ^ 1024 * 1 := (Nat.mul_one _).symm
    _ ≤ 2 ^ 1024 * 10 ^ (-s).toNat := Nat.mul_le_mul_left _ h2

/-- **(c) the error bound for a ratio with `RatioFacts`**, `-307 ≤ s ≤ 308`:
    `|x − v| ≤ (1/2 + 2^-50)·10^-s + 2^-51·|v|` for `x = decimalRound v r`, multiplied out by
    `2^51 · 10^s · den x · den v` (`10^s = 10^s.toNat / 10^(-s).toNat`) -/
theorem decimalRound_accuracy_facts {s : Int} {r : F64} (hR : RatioFacts s r) (h1 : -307 ≤ s) (h2 : s ≤ 308)
    {v : F64} (hv : v.isFinite = true) (hxf : (decimalRound v r).isFinite = true) :
    2 ^ 51 * 10 ^ s.toNat * (num (decimalRound v r) * (den v : Int) - num v * (den (decimalRound v r) : Int)).natAbs ≤
      (2 ^ 50 + 2) * 10 ^ (-s).toNat * (den (decimalRound v r) * den v) +
        10 ^ s.toNat * (num v).natAbs * den (decimalRound v r) :=
  Acc.decimalRound_accuracy_50 v r hv hR.finite (ratio_signBit hR) _ _ (Nat.pow_pos (by decide)) (hR.near h1)
    (ten_pow_range s h2) hxf

/-- the result has the sign bit of the input (also `-0`, also in the overflow branch), for every ratio with facts -/
theorem decimalRound_signBit_facts {s : Int} {r : F64} (hR : RatioFacts s r)
    {v : F64} (hv : v.isFinite = true) (hvw : F64.WF v) : (decimalRound v r).signBit = v.signBit := by
  obtain ⟨mr, er, rfl, hmr⟩ := ratio_shape hR
  obtain ⟨na, ma, ea, rfl⟩ := fin_of_finite hv
  cases hi : (F64.mul (.fin na ma ea) (.fin false mr er)).isInf
  · obtain ⟨m, e, he, hw, _⟩ := scaled_fin na ma ea mr er hmr hi
    rw [decimalRound_fin hi, he]
    obtain ⟨m', e', h1, _, _⟩ := round_fin na m e hw
    rw [h1]
    exact Acc.div_signBit na m' e' mr er hmr
  · rw [decimalRound_inf hi rfl]

/-- the result is never NaN, and it is well formed when finite -/
theorem decimalRound_not_nan {s : Int} {r : F64} (hR : RatioFacts s r)
    {v : F64} (hv : v.isFinite = true) (hvw : F64.WF v) :
    (decimalRound v r).isNaN = false ∧ ((decimalRound v r).isFinite = true → F64.WF (decimalRound v r)) := by
  obtain ⟨mr, er, rfl, hmr⟩ := ratio_shape hR
  obtain ⟨na, ma, ea, rfl⟩ := fin_of_finite hv
  cases hi : (F64.mul (.fin na ma ea) (.fin false mr er)).isInf
  · obtain ⟨m, e, he, hw, _⟩ := scaled_fin na ma ea mr er hmr hi
    rw [decimalRound_fin hi, he]
    obtain ⟨m', e', h1, _, _⟩ := round_fin na m e hw
    rw [h1]
    have hrd := div_pos_rounds (.fin na m' e') rfl mr er hmr
    exact ⟨rounds_not_nan hrd, fun hf => (rounds_finite hrd hf).1.wf⟩
  · rw [decimalRound_inf hi rfl]
    exact ⟨rfl, fun _ => hvw⟩

/-- **when the final division overflows** (possible only for a ratio below one, i.e. a negative scale): exactly when
    `round(v*r) / r ≥ 2^1024 − 2^970` -/
theorem decimalRound_inf_iff {s : Int} {r : F64} (hR : RatioFacts s r)
    {v : F64} (hv : v.isFinite = true) (hvw : F64.WF v) (hi : (F64.mul v r).isInf = false) :
    (decimalRound v r).isInf = true ↔
      thr * (den (F64.round (F64.mul v r)) * (num r).natAbs) ≤ (num (F64.round (F64.mul v r))).natAbs * den r := by
  obtain ⟨mr, er, rfl, hmr⟩ := ratio_shape hR
  obtain ⟨na, ma, ea, rfl⟩ := fin_of_finite hv
  obtain ⟨m, e, he, hw, _⟩ := scaled_fin na ma ea mr er hmr hi
  rw [decimalRound_fin hi, he]
  obtain ⟨m', e', h1, _, _⟩ := round_fin na m e hw
  rw [h1]
  have hrd := div_pos_rounds (.fin na m' e') rfl mr er hmr
  rw [rounds_inf_iff hrd, ← thr_def, Int.natAbs_mul, Int.natAbs_natCast]

end Sqljson.DecimalMethod
